#!/bin/bash
# try_mutant_wt.sh <worktree> <prop> [tier]: like try_mutant.sh but runs our check against the worktree (VERIF_REPO),
# so that several trials can run in parallel and /repo is never touched.
set -u
WT=$1; PROP=$2; TIER=${3:-quick}
OUT=$WT-out
export GOFLAGS=-mod=mod GOPROXY=off
meta=$OUT/meta.json
pkgdir=$(python3 -c "import json;print(json.load(open('$meta'))['demo_pkg_dir'])")
demorun=$(python3 -c "import json;print(json.load(open('$meta'))['demo_run'])")
echo "== $WT $PROP demo_pkg_dir=$pkgdir"
cd $WT || exit 2
git checkout -q -- . ; git apply $OUT/patch.diff || { echo "PATCH DOES NOT APPLY"; exit 2; }
rm -f $WT/$pkgdir/*demo*_test.go; case "$demorun" in *"cp "*) ;; *) cp $OUT/demo_test.go $WT/$pkgdir/zz_demo_test.go;; esac
echo "== with change (expect FAIL):"; (cd $WT && timeout 900 bash -c "$demorun" 2>&1 | grep -E "^(ok|FAIL|--- FAIL|panic)" | head -5)
git apply -R $OUT/patch.diff
echo "== without change (expect ok):"; (cd $WT && timeout 900 bash -c "$demorun" 2>&1 | grep -E "^(ok|FAIL|--- FAIL|panic)" | head -3)
rm -f $WT/$pkgdir/*demo*_test.go
git apply $OUT/patch.diff
echo "== our check with VERIF_REPO=$WT:"
(cd /verif && VERIF_REPO=$WT timeout 3000 bin/check $PROP --tier $TIER 2>&1 | grep -E "VIOLATION|MACHINERY|done:" | cut -c1-330 | head -8; echo "check rc=${PIPESTATUS[0]}")
