#!/usr/bin/env python3
"""prints the prompt given to a fresh sub-agent asked for a property-breaking change (nothing from /verif but the property text)"""
import json,sys
pid, wt, focus = sys.argv[1], sys.argv[2], (sys.argv[3] if len(sys.argv)>3 else "")
p=[json.loads(l) for l in open('/verif/properties.jsonl') if json.loads(l)['id']==pid][0]
print(f"""You are helping test a verification framework for the open-source project perkeep (a content-addressable blob store written in Go). Your job: produce ONE realistic code change to perkeep that BREAKS the semantic property below, while the code still compiles and the project's existing unit tests still pass.

PROPERTY {p['id']}: {p['title']}
Statement: {p['statement']}
Quantified over: {p['quantifier']['text']}
Code mainly involved: {', '.join(p['anchors']['files'])}

Your working copy is a scratch git worktree of the repository at {wt} (work ONLY there; never touch /repo or /verif, and do not read anything under /verif). Write your results into {wt}-out/ .

Requirements for the change:
- It must be subtle: it should need something specific to manifest - a particular interleaving, a crash or fault at a particular point, a multi-step sequence of operations, an unusual input (boundary size, particular cursor/prefix, tie, empty value...), a particular configuration/composition, or two cooperating edits that each look fine alone. It must NOT be something ordinary use or the existing tests would expose at once.
- It should look like a plausible refactoring/optimisation/bug a real developer could introduce (off-by-one, wrong comparison, reordered steps, dropped re-check, cache not invalidated, error swallowed, wrong variable...). Keep it small (a few lines, one or two files, non-test files under pkg/ or internal/).
- The tree must still build (`go build ./...`) and the existing tests of the packages you touched and of their main users must still pass. {focus}

Toolchain (no network): in every shell command first run `export GOFLAGS=-mod=mod GOPROXY=off` and do NOT set GOTOOLCHAIN or GOSUMDB. Run tests like `cd {wt} && go test -count=1 -vet=off ./pkg/blobserver/... ` (a few tests fail even on the unmodified tree, e.g. pkg/blobserver/diskpacked TestWriteError, TestBadDir when run as root and the s3 endpoint tests - find out which failures are pre-existing; your change must not add new failures). Always pass an explicit `-timeout 120s` style limit. NEVER use `git stash` (the stash is shared by all worktrees of this repository and other agents work in parallel): to compare with the unmodified code use `git diff > /tmp/x.diff; git apply -R /tmp/x.diff; ...; git apply /tmp/x.diff`. Clean up /tmp/perkeep-test-* and /tmp/camli-testroot-* directories the test-suite leaves behind.

Deliverables in {wt}-out/ :
1. patch.diff - `git -C {wt} diff` of your change to non-test files only (it must apply with `git apply` to a clean checkout of the same commit).
2. demo_test.go (plus a note of which package directory it must be copied into, e.g. pkg/blobserver/replica/) - a Go test (or small program) that FAILS with your change applied and PASSES without it, demonstrating the property violation through public/package APIs. Verify both directions yourself.
3. meta.json - {{"property": "{p['id']}", "files": [...], "summary": "what the change does", "needs": "what specific circumstance is needed for it to manifest", "demo_pkg_dir": "...", "demo_run": "exact go test command, run from the worktree root, assuming demo_test.go has already been copied into demo_pkg_dir (no cp / cd in it)", "existing_tests_run": "commands you ran and their outcome"}}.
Leave the worktree with your change applied (do not commit). Finish by reporting a short summary (what you changed, how it manifests, test results).""")
