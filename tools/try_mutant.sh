#!/bin/bash
# try_mutant.sh <worktree> <prop> [tier]: confirm a sub-agent's change (demo fails with / passes without), then run our check against it.
# Usage: tools/try_mutant.sh /tmp/mut/c01a C01
set -u
WT=$1; PROP=$2; TIER=${3:-quick}
OUT=$WT-out
export GOFLAGS=-mod=mod GOPROXY=off
meta=$OUT/meta.json
pkgdir=$(python3 -c "import json;print(json.load(open('$meta'))['demo_pkg_dir'])")
demorun=$(python3 -c "import json;print(json.load(open('$meta'))['demo_run'])")
echo "== demo_pkg_dir=$pkgdir"; echo "== demo_run=$demorun"
cd $WT || exit 2
git checkout -q -- . ; git apply $OUT/patch.diff || { echo "PATCH DOES NOT APPLY"; exit 2; }
rm -f $WT/$pkgdir/*demo*_test.go; case "$demorun" in *"cp "*) ;; *) cp $OUT/demo_test.go $WT/$pkgdir/zz_demo_test.go;; esac
echo "== with change (expect FAIL):"; (cd $WT && timeout 600 bash -c "$demorun" 2>&1 | tail -5); 
git apply -R $OUT/patch.diff
echo "== without change (expect ok):"; (cd $WT && timeout 600 bash -c "$demorun" 2>&1 | tail -3)
rm -f $WT/$pkgdir/*demo*_test.go
git apply $OUT/patch.diff
echo "== our check on /repo with the patch:"
cd /repo && git status --short | grep -v '^??' && { echo "/repo dirty"; exit 2; }
git -C /repo apply $OUT/patch.diff || { echo "PATCH DOES NOT APPLY TO /repo"; exit 2; }
(cd /verif && timeout 3000 bin/check $PROP --tier $TIER 2>&1 | grep -E "VIOLATION|KNOWN-FINDING|MACHINERY|done:" | cut -c1-400 | head -20; echo "check rc=${PIPESTATUS[0]}")
git -C /repo checkout -- .
git -C /repo status --short | grep -v '^??'
rm -rf /tmp/perkeep-test-* /tmp/camli-testroot-* 2>/dev/null
