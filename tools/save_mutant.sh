#!/bin/bash
# save_mutant.sh <worktree> <id> <caught-by text>: keep a confirmed change under /verif/seeded/<id>/
WT=$1; ID=$2; CAUGHT=$3
D=/verif/seeded/$ID; mkdir -p $D
cp $WT-out/patch.diff $D/patch.diff
cp $WT-out/demo_test.go $D/demo_test.go 2>/dev/null || cp $WT-out/demo* $D/
python3 - "$WT-out/meta.json" "$D/meta.json" "$CAUGHT" <<'PY'
import json,sys
m=json.load(open(sys.argv[1]))
m["verified_by_me"]="demo fails with the patch and passes without it (tools/try_mutant.sh in the scratch worktree); patch applies to /repo HEAD"
m["detected_by"]=sys.argv[3]
json.dump(m,open(sys.argv[2],"w"),indent=1)
PY
echo saved $D
