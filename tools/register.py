#!/usr/bin/env python3
"""register.py <Cxx> <level> <technique> <text> <note> [design_ref]: add/replace a check in MANIFEST.json"""
import json,sys
pid,level,tech,text,note=sys.argv[1:6]
ref=sys.argv[6] if len(sys.argv)>6 else "§5 "+pid
m=json.load(open('/verif/MANIFEST.json'))
m["checks"]=[c for c in m["checks"] if c["property_id"]!=pid]
m["checks"].append({"property_id":pid,"quick_cmd":"bin/check %s --tier quick"%pid,"thorough_cmd":"bin/check %s --tier thorough"%pid,
  "evidence_file":"/verif/evidence/%s.json"%pid,"replay_cmd_template":"bin/check %s --replay {path}"%pid,"engine":"tlc",
  "level_claimed":{"category":level,"text":text,"design_ref":ref},"level_note":note,"technique":tech})
m["checks"].sort(key=lambda c:c["property_id"])
m["not_applicable"]=[n for n in m.get("not_applicable",[]) if n["property_id"]!=pid]
m["engines"][0]["serves_properties"]=sorted(c["property_id"] for c in m["checks"])
json.dump(m,open('/verif/MANIFEST.json','w'),indent=1)
print("registered",pid)
