#!/bin/bash
# baseline.sh: run perkeep's own pinned test suite (tag off) on /repo's working tree and compare with /root/.vp/BASELINE.json
# (expects 524 stable passes; the 15 always-failing tests are listed there). Output: /tmp/baseline.json + summary on stdout.
cd /repo && . /w/out/goenv.sh && MF=$(gomodflag) && go test $MF -json -vet=off -count=1 -timeout 25m ./... > /tmp/baseline.json 2>/tmp/baseline.err
python3 - <<'PY'
import json,ast
b=json.load(open('/root/.vp/BASELINE.json'))
stable=set(ast.literal_eval(b['stable_pass'])) if isinstance(b['stable_pass'],str) else set(b['stable_pass'])
res={}
for l in open('/tmp/baseline.json'):
    try: e=json.loads(l)
    except Exception: continue
    if e.get('Test') and e.get('Action') in ('pass','fail','skip'):
        res[e['Package']+'::'+e['Test']]=e['Action']
p=[t for t in stable if res.get(t)=='pass']
bad=[(t,res.get(t)) for t in stable if res.get(t)!='pass']
print("stable passing: %d / %d" % (len(p),len(stable)))
for t,r in bad[:30]: print("  NOT PASSING:",t,r)
print("failing now:",sorted(t for t,r in res.items() if r=='fail'))
PY
