SPECIFICATION Spec
CONSTANTS
  MaxLen = 2
  MaxRestarts = 1
  MaxFaults = 1
  Pools = {2}
  Pars = {FALSE}
  PreKinds = {"none"}
  CrashKinds = {"sweep"}
  BurstSizes = {}
  BurstHolds = {}
  BurstForms = {}
INVARIANT Emit
CHECK_DEADLOCK FALSE
