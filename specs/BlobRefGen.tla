---------------------------- MODULE BlobRefGen ----------------------------
(* Generators for C20.
   Mode "str":  ALL strings of length <= MaxLen over Alphabet (characters = byte values), built by
                appending one character per step (BFS: every string is one distinct state), each
                emitted once with the parse class the model assigns to it.  The model-level round trip
                format(parse(s)) = s is checked on every one of them on the way.
   Mode "pair": abstract pairs of refs of SUPPORTED hash functions: which hashes, where the first
                differing digit is (a position class the driver maps to the real digest length), the
                two digit values there, the fill digit before it and how the digits after it compare
                (so that a later digit cannot be mistaken for the deciding one).  The driver turns each
                into two real 40/56/64-digit refs. *)
EXTENDS BlobRef, TLC, Json

CONSTANTS Mode, Alphabet, MaxLen
VARIABLE s

HashIds == {"sha1", "sha224", "sha256"}
PosClasses == {"none", "first", "second", "third", "midhi", "midlo", "beforelast", "last"}
Nibbles == {0, 9, 10, 15}
Tails == {"same", "alow", "ahigh"}     \* digits after the deciding one: equal / a's are 0 and b's f / the reverse

PairCases == {[ha |-> ha, hb |-> hb, pos |-> p, va |-> va, vb |-> vb, fill |-> f, tail |-> t] :
                ha \in HashIds, hb \in HashIds, p \in PosClasses, va \in Nibbles, vb \in Nibbles,
                f \in {0, 9, 15}, t \in Tails}
(* a pair without a differing digit has equal values and no tail; otherwise the values differ *)
GoodCase(c) == IF c.pos = "none" THEN c.va = c.vb /\ c.tail = "same" /\ c.va = 0 ELSE c.va # c.vb

GInit == /\ pair = <<>>
         /\ IF Mode = "str" THEN s = <<>> ELSE s \in {c \in PairCases : GoodCase(c)}
GNext == /\ Mode = "str" /\ Len(s) < MaxLen
         /\ \E c \in Alphabet : s' = Append(s, c)
         /\ UNCHANGED pair
GSpec == GInit /\ [][GNext]_<<s, pair>>

Emit == IF Mode = "str" THEN PrintT(<<"STR", ToJson([s |-> s, class |-> Class(s), odd |-> WellFormed(s) /\ IsOdd(s)])>>)
                        ELSE PrintT(<<"PAIR", ToJson(s)>>)
RoundTripOK == Mode = "str" => RoundTrip(s)
=============================================================================
