---------------------------- MODULE Trace_Stream ----------------------------
(* Trace validation of recorded StreamBlobs executions of REAL diskpacked / blobpacked stores against Stream.tla
   (collect mode: every line is consumed, a line the module does not allow is reported as
   <<"VIOL", line, expected, observed, ...>>, the rest of that scenario is skipped, validation resumes at the next
   reset).  One scenario = one "reset" line (the configuration: kind, small store kind, maxFileSize, the record size
   of every blob, the files of the universe) followed by one line per completed call:

     {"ev":"op","op":"receive","b":r,"res":..,"npacks":n,"nz":[{"id":i,"sch":[..],"dat":[..]}],"zo":[ids]}
            npacks = pack files on disk afterwards; nz = the zips the call wrote (schema members, data members, as read
            from the large store's bytes); zo = all zip ids in the order of their refs.  These are facts about the WRITE
            path; the module checks them against its own packing rule (LegalPack) before using them.
     {"ev":"op","op":"remove","bs":[..],"res":..}      {"ev":"op","op":"restart","res":..}
     {"ev":"op","op":"stream","cls":"start"|"item"|<foreign class>,"tid":t,"a":x,"cut":k,"res":"ok"|"canceled"|"err"|..,
            "items":[[rank, token id, byte flag]..]}
            token strings are interned to small integers per scenario; the module binds an id to the abstract token of
            the item it first came with (`bind`) and resolves "item" calls through that binding.  byte flag 0 = the
            bytes read back hash to the ref.
     {"ev":"skip",...}   a scripted call whose token the implementation never handed out (only after a VIOL).  *)
EXTENDS Stream, Json, IOUtils

VARIABLES l, dead, bind
tvars == <<vars, l, dead, bind>>

Trace == ndJsonDeserialize(IOEnv.TRACE_FILE)
Ev == Trace[l]

EmptyCfg == [kind |-> "dp", small |-> "-", max |-> 0, rs |-> [b \in Blobs |-> 0], files |-> <<>>, per |-> 0, zfirst |-> FALSE]
TInit == /\ l = 1 /\ dead = TRUE /\ bind = <<>>
         /\ cfg = EmptyCfg /\ packs = <<>> /\ torn = FALSE /\ loose = {} /\ zips = <<>>
         /\ metaB = [b \in Blobs |-> 0] /\ wrow = {} /\ present = {} /\ handed = {}
         /\ last = [tok |-> Start, out |-> Ok(<<>>)]

TReset == /\ l <= Len(Trace) /\ Ev.ev = "reset"
          /\ cfg' = [kind |-> Ev.kind, small |-> Ev.small, max |-> Ev.max,
                     rs |-> [b \in Blobs |-> IF b \div 2 <= Len(Ev.rs) THEN Ev.rs[b \div 2] ELSE 0],
                     files |-> Ev.files, per |-> 0, zfirst |-> FALSE]
          /\ packs' = (IF Ev.kind = "dp" \/ Ev.small = "dp" THEN << <<>> >> ELSE <<>>)
          /\ torn' = FALSE /\ loose' = {} /\ zips' = <<>> /\ metaB' = [b \in Blobs |-> 0] /\ wrow' = {} /\ present' = {}
          /\ handed' = {} /\ last' = [tok |-> Start, out |-> Ok(<<>>)]
          /\ bind' = <<>> /\ dead' = FALSE /\ l' = l + 1

Die(exp, obs, a, b) == /\ PrintT(<<"VIOL", l, exp, obs, a, b>>)
                       /\ dead' = TRUE /\ UNCHANGED <<vars, bind>>

(* ---- mutations: the module's own actions; the write-path facts must be an instance of its packing rule *)
NZ(e) == [i \in 1..Len(e.nz) |-> [id |-> e.nz[i].id, mem |-> e.nz[i].sch \o e.nz[i].dat]]
TReceive(e) ==
  IF e.res # "ok" THEN Die("ok", e.res, "receive", e.b)
  ELSE IF ~IsDP /\ (WillPack(e.b) # (Len(e.nz) > 0)) THEN Die(IF WillPack(e.b) THEN "packed" ELSE "not-packed", "pack-differs", "receive", e.b)
  ELSE IF ~IsDP /\ WillPack(e.b) /\ ~LegalPack(e.b, NZ(e), e.zo) THEN Die("legal-pack", "illegal-pack", NZ(e), e.zo)
  ELSE /\ (IF IsDP THEN RecvDP(e.b) ELSE RecvBP(e.b, NZ(e), e.zo, FALSE))
       /\ (IF e.npacks >= 0 /\ Len(packs') # e.npacks THEN PrintT(<<"VIOL", l, "npacks", "layout-differs", Len(packs'), e.npacks>>) /\ dead' = TRUE
           ELSE dead' = FALSE)
       /\ UNCHANGED <<cfg, handed, last, bind>>
TRemove(e) == IF e.res # "ok" THEN Die("ok", e.res, "remove", e.bs)
              ELSE RemoveB(SeqSet(e.bs)) /\ UNCHANGED <<bind, dead>>
TRestart(e) == IF e.res # "ok" THEN Die("ok", e.res, "restart", 0)
               ELSE Restart /\ UNCHANGED <<bind, dead>>

(* ---- stream calls *)
ObsRanks(e) == [i \in 1..Len(e.items) |-> e.items[i][1]]
ObsTids(e)  == [i \in 1..Len(e.items) |-> e.items[i][2]]
ObsFlags(e) == [i \in 1..Len(e.items) |-> e.items[i][3]]
TokOf(e) == CASE e.cls = "start" -> Start
              [] e.cls = "item"  -> bind[e.tid]
              [] OTHER -> Tok(e.cls, e.a, 0)
(* what a consumer that cancels after `cut` blobs must see of outcome o *)
ExpItems(o, c) == IF c < 0 \/ c >= Len(o.items) THEN o.items ELSE SubSeq(o.items, 1, c)
ExpRes(o, c) == IF c >= 0 /\ c < Len(o.items) THEN {"canceled"}
                ELSE IF c >= 0 THEN {o.res, "canceled"} ELSE {o.res}
BindOK(xi, tids) == /\ \A i \in 1..Len(tids) : tids[i] \in DOMAIN bind => bind[tids[i]] = xi[i].t
                    /\ \A i, j \in 1..Len(tids) : tids[i] = tids[j] => xi[i].t = xi[j].t
Matches(o, e) == LET xi == ExpItems(o, e.cut) IN
                 /\ e.res \in ExpRes(o, e.cut)
                 /\ ObsRanks(e) = ItemBlobs(xi)
                 /\ \A i \in 1..Len(e.items) : e.items[i][3] = 0
                 /\ BindOK(xi, ObsTids(e))
NewBind(xi, tids) == [x \in DOMAIN bind \cup SeqSet(tids) |->
                        IF x \in DOMAIN bind THEN bind[x] ELSE xi[CHOOSE i \in 1..Len(tids) : tids[i] = x].t]
(* the outcome the report is made against: the non-error one if the module allows several *)
Primary(E) == IF \E o \in E : o.res = "ok" THEN CHOOSE o \in E : o.res = "ok" ELSE CHOOSE o \in E : TRUE
ResWord(o, c) == IF c >= 0 /\ c < Len(o.items) THEN "canceled" ELSE o.res
Why(o, e) ==
  LET xi == ExpItems(o, e.cut)  xr == ItemBlobs(xi)  ob == ObsRanks(e)
      xs == SeqSet(xr)  os == SeqSet(ob)
  IN IF e.res \notin ExpRes(o, e.cut) THEN <<ResWord(o, e.cut), e.res>>
     ELSE IF os \ present # {} THEN <<"present-only", IF os \ present \subseteq Blobs THEN "removed-blob" ELSE "foreign-blob">>
     ELSE IF xs \ os # {} THEN <<"all-due", "missing">>
     ELSE IF os \ xs # {} THEN <<"only-due", "extra">>
     ELSE IF Len(ob) > Len(xr) THEN <<"copies", "dup">>
     ELSE IF Len(ob) < Len(xr) THEN <<"copies", "fewer">>
     ELSE IF ob # xr THEN <<"order", "reordered">>
     ELSE IF \E i \in 1..Len(e.items) : e.items[i][3] # 0 THEN <<"bytes-ok", "bad-bytes">>
     ELSE <<"token-stable", "rebound">>
TStream(e) ==
  IF e.cls = "item" /\ e.tid \notin DOMAIN bind THEN Die("known-token", "unbound", e.tid, 0)
  ELSE LET E == Outcomes(TokOf(e)) IN
       IF \E o \in E : Matches(o, e)
       THEN LET o == CHOOSE o \in E : Matches(o, e)  xi == ExpItems(o, e.cut) IN
            /\ bind' = NewBind(xi, ObsTids(e))
            /\ handed' = handed \cup ItemToks(xi)
            /\ last' = [tok |-> TokOf(e), out |-> o]
            /\ dead' = FALSE /\ UNCHANGED <<cfg, store>>
       ELSE LET o == Primary(E) w == Why(o, e) IN Die(w[1], w[2], ItemBlobs(ExpItems(o, e.cut)), ObsRanks(e))

TOp == /\ l <= Len(Trace) /\ Ev.ev = "op" /\ ~dead /\ l' = l + 1
       /\ CASE Ev.op = "receive" -> TReceive(Ev)
            [] Ev.op = "remove"  -> TRemove(Ev)
            [] Ev.op = "restart" -> TRestart(Ev)
            [] Ev.op = "stream"  -> TStream(Ev)
TSkip == /\ l <= Len(Trace) /\ Ev.ev \in {"op", "skip"} /\ (dead \/ Ev.ev = "skip")
         /\ l' = l + 1 /\ dead' = TRUE /\ UNCHANGED <<vars, bind>>
         /\ (IF ~dead THEN PrintT(<<"VIOL", l, "scripted-token", "never-handed-out", 0, 0>>) ELSE TRUE)

TNext == TReset \/ TOp \/ TSkip
TSpec == TInit /\ [][TNext]_tvars

(* Stream's state invariants, evaluated at every state of the recorded execution *)
TComplete == dead \/ Complete
TResumeLaw == dead \/ ResumeLaw
TPhysical == dead \/ PresentIsPhysical
TraceAccepted == TLCGet("stats").diameter - 1 = Len(Trace)
=============================================================================
