SPECIFICATION GSpec
INVARIANT Emit
CHECK_DEADLOCK FALSE
