------------------------------ MODULE ShareGen ------------------------------
(* Request generator for Share: TLC enumerates ALL via-chains of length <= MaxLen over every
   world of ShareWorlds and, per chain, the request variants (HTTP methods, assemble=1), and
   prints them as JSON.  One state = one chain; the variants of a chain are carried in the
   record so that the whole family stays a few thousand lines.  `served` is the generator's own
   Served(chain); the driver echoes it into the trace and Trace_Share.tla cross-checks it against
   its recomputation from the world JSON (a disagreement is a machinery error, not a verdict).
   sstate / pclass classify the chain (coverage accounting only).

   What = "worlds": print the worlds instead (one record per world). *)
EXTENDS Share, Json

CONSTANTS What,      \* "reqs" | "worlds"
          MethLen    \* chains up to this length are requested with every method and with assemble=1;
                     \* longer ones with GET (plain and assemble=1) only

VARIABLES w, ch

Variants(c) ==
  IF Len(c) <= MethLen
  THEN <<[method |-> "GET", asm |-> FALSE], [method |-> "HEAD", asm |-> FALSE], [method |-> "POST", asm |-> FALSE],
         [method |-> "PUT", asm |-> FALSE], [method |-> "DELETE", asm |-> FALSE],
         [method |-> "GET", asm |-> TRUE], [method |-> "HEAD", asm |-> TRUE]>>
  ELSE <<[method |-> "GET", asm |-> FALSE], [method |-> "GET", asm |-> TRUE]>>

GInit == /\ w \in 1..Len(WorldSeq)
         /\ IF What = "worlds" THEN ch = <<>> ELSE ch \in Chains(WorldSeq[w], MaxLen)
         /\ world = WorldSeq[w] /\ now = NowS /\ istate = "live" /\ req = NoReq /\ reply = "none"
GNext == UNCHANGED <<vars, w, ch>>
GSpec == GInit /\ [][GNext]_<<vars, w, ch>>

Emit == IF What = "worlds"
        THEN PrintT(<<"WORLD", ToJson([w |-> w, name |-> WorldNames[w], items |-> WorldSeq[w]])>>)
        ELSE PrintT(<<"REQ", ToJson([w |-> w, chain |-> ch, served |-> Served(world, now, ch), variants |-> Variants(ch),
                                     sstate |-> ShareState(world, now, ch[1]), pclass |-> PathClass(world, ch)])>>)
=============================================================================
