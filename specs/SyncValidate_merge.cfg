SPECIFICATION MergeSpec
CONSTANTS
  Blobs = {1, 2, 3}
  Shards = {1}
  ChanCap = 1
  WorkCap = 2
  Pool = 1
  MaxFaults = 1
  MaxEnv = 0
  MaxUploads = 0
  MaxRounds = 1
  Copier = FALSE
  Deviations = {}
INVARIANTS TypeOK MergeCorrect QuiescentDone
PROPERTIES Confluent Decreasing
CHECK_DEADLOCK FALSE
