SPECIFICATION RSpec
CONSTANTS
  Deviations = {}
  MaxChunk = 2
  MaxN = 5
  BitsSet = {1, 2, 3}
  Family = "d1"
  SetMaxes = {3}
  SetNMax = 140
  ReaderSteps = FALSE
INVARIANT LenIsSum
INVARIANT ReadAtShape
INVARIANT SegsAgree
INVARIANT WalkAgrees
INVARIANT IllFormedDetected
INVARIANT MechRefines
INVARIANT ReaderTypeOK
PROPERTY ReadTiles
CHECK_DEADLOCK FALSE
