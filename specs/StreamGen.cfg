SPECIFICATION GSpec
CONSTANTS
  Blobs = {2, 4, 6}
  MaxRecs = 1000
  Deviations = {}
  KeepChoices = {FALSE}
  Configs <- GenConfigs
  GenKind = "dp"
  D0 = 1
  D1 = 2
  Thorough = FALSE
INVARIANT Emit
VIEW GView
CHECK_DEADLOCK FALSE
