---------------------------- MODULE Trace_Search ----------------------------
(* Validation of recorded executions of the REAL search.Handler.Query against Search.tla.
   One line per query:
     {"ev":"query","mode":"build|scan|classic","tree":[nodes],"sort":..,"limit":n,
      "res":"ok|error|panic","class":errclass,"out":[item ids in result order],"source":name}
   All lines of a file refer to the world WorldFile.  Queries are independent of each other, so the
   trace specification runs in collect mode: for every line it recomputes Matches / the planner's
   source / the admissible orders on the world and requires
     - the logged candidate source is the one the planner transcription names, and (intended
       mechanism) it contains every matching blob,
     - the logged result is duplicate-free, consists of matching blobs only, has the right length,
       is in the requested order and is the FIRST `limit` of it (ValidOut; as a set when unsorted),
     - a refusal (error) only happens where the handler documents that it cannot answer.
   A line that fails is reported (PrintT <<"VIOL", line, json>>) together with the deviation sets of
   Search.tla under which the transcription of the code DOES produce the logged answer (attribution to
   a known mechanism-level finding); validation continues with the next line.  Acceptance still
   requires every line to be consumed. *)
EXTENDS Search, IOUtils

VARIABLE l
Trace == ndJsonDeserialize(IOEnv.TRACE_FILE)
Ev == Trace[l]
tvars == <<tree, sort, l>>

(* where the handler is allowed to refuse (errors documented in query.go as unsupported combinations) *)
HasNodes(tr, P(_)) == \E i \in 1..Len(tr) : P(tr[i])
MayRefuse(D, e) ==
  LET tr == e.tree
      es == EffSort(tr, e.sort)
      name == SourceName(D, tr, e.sort, e.mode)
      cand == Matches(D, tr) \cap SourceSet(D, name, tr)
  IN IF e.mode = "classic"
     THEN \/ e.class = "sort-needs-corpus" /\ es \in {"created", "createdAsc"}
          \/ e.class = "sort-unsupported" /\ es \in {"lastmod", "lastmodAsc"}
          \/ e.class = "needs-corpus" /\ HasNodes(tr, LAMBDA n : n.rel # "" \/ (n.k \in {"file", "dir"} /\ n.a # 0))
     ELSE \/ e.class = "sort-needs-permanodes" /\ es \in {"created", "createdAsc"} /\ ~OnlyPn(tr, 1)
          \/ e.class = "sort-unsupported" /\ (es = "lastmodAsc" \/ (es = "lastmod" /\ ~OnlyPn(tr, 1)))
          \/ e.class = "sort-needs-time" /\ es = "createdAsc" /\ OnlyPn(tr, 1)
               /\ Cardinality(cand) >= 2 /\ \E b \in cand : ~HasKey(D, "created", b)

(* the logged answer is one the transcription with deviations D produces *)
OkUnder(D0, e) ==
  LET D == IF "DirChildrenCappedByLimit" \in D0 /\ e.mode = "classic" /\ e.limit \in 1..5 THEN D0 \cup {CapToks[e.limit]} ELSE D0 IN
  CASE e.res = "ok" ->
         LET name == SourceName(D, e.tree, e.sort, e.mode)
             cand == Matches(D, e.tree) \cap SourceSet(D, name, e.tree)
         IN /\ e.source = name
            /\ (D = {} => Matches({}, e.tree) \subseteq SourceSet({}, e.source, e.tree))
            /\ IF "TypedSourceRepeats" \in D /\ name = "corpus_permanode_types"
               THEN ValidOutRepeats(D, e.out, cand, [p \in cand |-> Mult(D, e.tree, p)], OrdSort(e.sort), e.limit)
               ELSE ValidOut(D, e.out, cand, OrdSort(e.sort), e.limit)
    [] e.res = "error" -> MayRefuse(D, e)
    [] OTHER -> FALSE

Class(b) == IF b \notin Ids THEN "unknown"
            ELSE IF CT[b] = "permanode" THEN
                   (IF b \in Deleted THEN "deleted-pn" ELSE IF ~HasAnyClaim(b) THEN "claimless-pn"
                    ELSE IF ~PnTime({})[b].has THEN "timeless-pn" ELSE "permanode")
            ELSE IF CT[b] = "" THEN "blob" ELSE CT[b]
Report(e) ==
  LET M0 == Matches({}, e.tree)
      O == ToSet(e.out)
      name == SourceName({}, e.tree, e.sort, e.mode)
      s == OrdSort(e.sort)
      full == e.limit = 0 \/ Len(e.out) < e.limit
      expl == {D \in {X \in SUBSET AllDevs : Cardinality(X) \in {1, 2, 3}} : OkUnder(D, e)}
      minexpl == {D \in expl : \A D2 \in expl : Cardinality(D) <= Cardinality(D2)}
  IN [mode |-> e.mode, sort |-> e.sort, res |-> e.res, class |-> e.class, source |-> e.source, expSource |-> name,
      uncovered |-> {Class(b) : b \in M0 \ SourceSet({}, e.source, e.tree)},
      missing |-> IF e.res = "ok" /\ full THEN {Class(b) : b \in M0 \ O} ELSE {},
      extra |-> IF e.res = "ok" THEN {Class(b) : b \in O \ M0} ELSE {},
      dup |-> Cardinality(O) # Len(e.out),
      order |-> e.res = "ok" /\ \E i, j \in 1..Len(e.out) : i < j /\ e.out[i] \in Ids /\ e.out[j] \in Ids /\ StrictBefore({}, s, e.out[j], e.out[i]),
      count |-> e.res = "ok" /\ Len(e.out) # (IF e.limit = 0 \/ Cardinality(M0) < e.limit THEN Cardinality(M0) ELSE e.limit),
      notfirst |-> e.res = "ok" /\ ~full /\ \E x \in M0 \ O : \E y \in O \cap Ids : StrictBefore({}, s, x, y),
      nexp |-> Cardinality(M0), nout |-> Len(e.out), missingIds |-> M0 \ O, extraIds |-> O \ M0,
      explained |-> minexpl]

TInit == l = 1 /\ tree = <<>> /\ sort = "seed"
TNext == /\ l <= Len(Trace)
         /\ l' = l + 1
         /\ tree' = Ev.tree /\ sort' = Ev.sort
         /\ (IF OkUnder({}, Ev) THEN TRUE ELSE PrintT(<<"VIOL", l, ToJson(Report(Ev))>>))
TSpec == TInit /\ [][TNext]_tvars
TraceAccepted == TLCGet("stats").diameter - 1 = Len(Trace)
=============================================================================
