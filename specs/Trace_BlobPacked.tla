--------------------------- MODULE Trace_BlobPacked ---------------------------
(* Validation of the write sequence of every fault-free pack recorded under the REAL blobpacked store against
   the packer automaton of BlobPacked.tla (ZipStore -> MetaBatch -> DeleteLoose per zip, WholeRow last):
     - the meta rows of zip z are committed only after zip z has been stored in `large`;
     - the batch of zip z carries exactly one w:<whole>:<n> row and one z:<zip> row besides its b: rows;
     - loose blobs are deleted from `small` only after the batch that points them into a stored zip, and only
       blobs of that batch;
     - the final w:<whole> row is written last, after every zip's batch.
   This ordering is what makes a crash between any two writes harmless (Invisible / RowsPointIntoLarge /
   WholeOnlyWhenComplete in BlobPacked.tla).  Collect mode.  Lines: {act, z, bs, rows, nzips, f}. *)
EXTENDS Naturals, Sequences, FiniteSets, TLC, Json, IOUtils

VARIABLES large, metaZ, batchOf, whole, nz, l
Trace == ndJsonDeserialize(IOEnv.TRACE_FILE)
Ev == Trace[l]
vars == <<large, metaZ, batchOf, whole, nz, l>>
SeqSet(s) == {s[i] : i \in 1..Len(s)}

Init == large = {} /\ metaZ = {} /\ batchOf = <<>> /\ whole = FALSE /\ nz = 0 /\ l = 1
Is(a) == l <= Len(Trace) /\ Ev.act = a /\ l' = l + 1
Viol(w) == PrintT(<<"VIOL", l, w>>)

TReset == Is("reset") /\ large' = {} /\ metaZ' = {} /\ batchOf' = <<>> /\ whole' = FALSE /\ nz' = Ev.nzips

ZipStore == /\ Is("ZipStore")
            /\ (whole => Viol("zip stored after the whole-file row"))
            /\ large' = large \cup {Ev.z} /\ UNCHANGED <<metaZ, batchOf, whole, nz>>

MetaBatch == /\ Is("MetaBatch")
             /\ (Ev.z \notin large => Viol("meta rows committed before their zip was stored"))
             /\ (Ev.rows # 11 => Viol(<<"batch without exactly one w:n and one z: row", Ev.rows>>))
             /\ (whole => Viol("meta batch after the whole-file row"))
             /\ metaZ' = metaZ \cup {Ev.z}
             /\ batchOf' = [z \in DOMAIN batchOf \cup {Ev.z} |-> IF z = Ev.z THEN SeqSet(Ev.bs) ELSE batchOf[z]]
             /\ UNCHANGED <<large, whole, nz>>

DeleteLoose == /\ Is("DeleteLoose")
               /\ IF Ev.z \in metaZ
                  THEN (~(SeqSet(Ev.bs) \subseteq batchOf[Ev.z])) => Viol("loose blobs deleted that the committed batch does not cover")
                  ELSE Viol("loose blobs deleted before the meta batch of their zip")
               /\ UNCHANGED <<large, metaZ, batchOf, whole, nz>>

WholeRow == /\ Is("WholeRow")
            /\ (Cardinality(metaZ) # nz \/ metaZ # large) => Viol("whole-file row written before every zip was stored and indexed")
            /\ whole' = TRUE /\ UNCHANGED <<large, metaZ, batchOf, nz>>

TNext == TReset \/ ZipStore \/ MetaBatch \/ DeleteLoose \/ WholeRow
TSpec == Init /\ [][TNext]_vars
TraceAccepted == TLCGet("stats").diameter - 1 = Len(Trace)
=============================================================================
