SPECIFICATION BSpec
CONSTANTS
  NK = 3
  NV = 3
  BigKeys = {2}
  BigVals = {3}
  MaxBatch = 2
  MaxBufferSet = {0, 1, 2}
  StrictBack = TRUE
  ExclusiveBack = TRUE
  Deviations = {}
INVARIANTS BTypeOK
PROPERTIES Refines NeverPanicsOrHangs
VIEW BView
CHECK_DEADLOCK FALSE
