SPECIFICATION Spec
CONSTANTS
  Blobs = {2, 4, 6}
  MaxRecs = 4
  Deviations = {}
  KeepChoices = {TRUE, FALSE}
  Family = "dp"
  Configs <- MCConfigs
VIEW View
INVARIANTS Resumable CutResume ChainedCuts Monotone Complete DupsArePhysical DPOnce BytesOK ResumeLaw PresentIsPhysical
PROPERTIES AppendVisible InvalidIsError StrictInvalid
CHECK_DEADLOCK FALSE
