SPECIFICATION SyncSpec
CONSTANTS
  Blobs = {1, 2}
  MaxCrashes = 2
  Deviations = {}
INVARIANTS IndInv SyncProps SameProps
PROPERTIES IndSpec
CHECK_DEADLOCK FALSE
