--------------------------- MODULE Trace_Ingest ---------------------------
(* Trace validation of recorded offers against Ingest.  One offer is a group of lines:
     begin  {path, backend, refKind, sizeKind, bytesKind, readerKind, n (bytes offered), gate (lower-layer
             events of the backing store are logged)}
     lower  {call:"ReceiveBlob", res:"ok"|"srcerr"|...}   the harness-owned store under the path completed a
             receive (only when gate)
     hub    {}                                            the blob hub's receive hook fired
     end    {res (ok | corrupt | toolarge | unsupported | srcerr | other...), rsize, received (the response
             lists the ref / 2xx), fetch, fsize, statn, statsize, listed, others, hook, listen}
   The outcome and the after-state of every offer are judged with Ingest's own operators (Accepted,
   MayAccept, ErrClasses, Notifies, OfferedSize) and its Store / Notify / Ack / Reject actions; on gate
   backends the order "store, then notify" is checked line by line.  Collect mode: a line the module does
   not allow is reported (PrintT <<"VIOL", line, what, expected>>) and the rest of that offer is skipped. *)
EXTENDS Ingest, Sequences, Json, IOUtils

VARIABLES l, dead, gated

Trace == ndJsonDeserialize(IOEnv.TRACE_FILE)
Ev == Trace[l]
tvars == <<ivars, l, dead, gated>>

NoOffer == [path |-> "receive", backend |-> "memory", refKind |-> "sha224", sizeKind |-> "s0",
            bytesKind |-> "exact", readerKind |-> "whole"]

TInit == /\ l = 1 /\ dead = TRUE /\ gated = FALSE
         /\ o = NoOffer /\ pc = "start" /\ visible = FALSE /\ hub = 0 /\ res = "none"

OfferOf(e) == [path |-> e.path, backend |-> e.backend, refKind |-> e.refKind, sizeKind |-> e.sizeKind,
               bytesKind |-> e.bytesKind, readerKind |-> e.readerKind]

Expect(x) == [accepted |-> Accepted(x), mayAccept |-> MayAccept(x), classes |-> ErrClasses(x),
              size |-> OfferedSize(x), notifies |-> Notifies(x)]

Viol(what) == PrintT(<<"VIOL", l, what, Expect(o)>>)

TBegin == /\ l <= Len(Trace) /\ Ev.ev = "begin"
          /\ l' = l + 1
          /\ o' = OfferOf(Ev) /\ pc' = "start" /\ visible' = FALSE /\ hub' = 0 /\ res' = "none"
          /\ gated' = Ev.gate
          /\ IF OfferOf(Ev) \in OfferSpace /\ Ev.n = OfferedSize(OfferOf(Ev))
             THEN dead' = FALSE
             ELSE PrintT(<<"VIOL", l, "harness-offer", OfferedSize(OfferOf(Ev))>>) /\ dead' = TRUE

(* The store under the path completed a receive: this is Ingest's Store, enabled only for acceptable offers. *)
TLower == /\ l <= Len(Trace) /\ Ev.ev = "lower" /\ ~dead
          /\ l' = l + 1 /\ UNCHANGED gated
          /\ IF Ev.call = "ReceiveBlob" /\ Ev.res = "ok"
             THEN IF ENABLED Store /\ Ev.size = OfferedSize(o)
                  THEN Store /\ dead' = FALSE
                  ELSE Viol("store") /\ dead' = TRUE /\ UNCHANGED ivars
             ELSE UNCHANGED <<ivars, dead>>

(* The hub fired: Ingest's Notify.  Without lower-layer events the store step is not observable and is
   taken silently first (it must be enabled all the same). *)
SilentStore == pc = "start" /\ ~gated /\ (MayAccept(o) \/ DevAccepts(o))
THub == /\ l <= Len(Trace) /\ Ev.ev = "hub" /\ ~dead
        /\ l' = l + 1 /\ UNCHANGED gated
        /\ IF ENABLED Notify
           THEN Notify /\ dead' = FALSE
           ELSE IF SilentStore /\ Notifies(o)
                THEN /\ pc' = "notified" /\ visible' = TRUE /\ hub' = hub + 1 /\ UNCHANGED <<o, res>>
                     /\ dead' = FALSE
                ELSE Viol("notify") /\ dead' = TRUE /\ UNCHANGED ivars

Invisible(e) == e.fetch = "notexist" /\ e.statn = 0 /\ ~e.listed /\ e.others = 0
VisibleAs(e, n) == e.fetch = "ok" /\ e.fsize = n /\ e.statn = 1 /\ e.statsize = n /\ e.listed /\ e.others = 0

(* The call returned.  ok: Ingest's Ack (after a silent Store where stores are not observable);
   otherwise Ingest's Reject.  Then the after-state. *)
TEnd == /\ l <= Len(Trace) /\ Ev.ev = "end" /\ ~dead
        /\ l' = l + 1 /\ UNCHANGED gated /\ dead' = TRUE
        /\ IF Ev.res = "ok"
           THEN IF /\ (ENABLED Ack \/ (SilentStore /\ ~Notifies(o)))
                   /\ (o.path = "put" \/ Ev.rsize = OfferedSize(o)) /\ Ev.received    \* a PUT answers 204 without a size
                   /\ VisibleAs(Ev, OfferedSize(o))
                   /\ Ev.hook = (IF Notifies(o) THEN 1 ELSE 0) /\ Ev.listen = Ev.hook /\ Ev.hook = hub
                THEN /\ pc' = "done" /\ res' = "ok" /\ visible' = TRUE /\ UNCHANGED <<o, hub>>
                ELSE Viol("accept") /\ UNCHANGED ivars
           ELSE IF /\ ENABLED Reject /\ Ev.res \in ErrClasses(o)
                   /\ ~Ev.received /\ Invisible(Ev) /\ Ev.hook = 0 /\ Ev.listen = 0 /\ hub = 0
                THEN /\ pc' = "done" /\ res' = Ev.res /\ UNCHANGED <<o, visible, hub>>
                ELSE Viol("reject") /\ UNCHANGED ivars

TSkip == /\ l <= Len(Trace) /\ Ev.ev \in {"lower", "hub", "end"} /\ dead
         /\ l' = l + 1 /\ UNCHANGED <<ivars, dead, gated>>

TNext == TBegin \/ TLower \/ THub \/ TEnd \/ TSkip
TSpec == TInit /\ [][TNext]_tvars

(* Ingest's invariants, evaluated at every state of the recorded executions. *)
TInv == dead \/ (OnlyAcceptableStored /\ NotifyOnlyAfterStore /\ RejectedLeavesNoTrace)
TraceAccepted == TLCGet("stats").diameter - 1 = Len(Trace)
=============================================================================
