SPECIFICATION TSpec
CONSTANTS
  Blobs <- BlobsDef
  MaxCursor = 100
  MaxLimit = 50
INVARIANT TypeOK
POSTCONDITION TraceAccepted
CHECK_DEADLOCK FALSE
