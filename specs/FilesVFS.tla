------------------------------ MODULE FilesVFS ------------------------------
(* pkg/blobserver/files (ReceiveBlob / RemoveBlobs / enumerate) over a VFS, with process death at any VFS call
   boundary.  Files are records [data, synced, open, dat]: bytes written, durable prefix, still open for
   writing, and whether the NAME ends in ".dat" (only those names are blobs to Fetch/Stat/Enumerate).
   Crash model of the property: metadata operations already executed (create, rename, remove) are durable;
   un-synced data may be lost down to the synced prefix.
   One action per VFS call of files.ReceiveBlob:
     TempCreate -> Write* -> Sync -> Close -> Lstat -> Rename -> Lstat   (Remove of the temp file on failure)
   Deviations (for sensitivity runs): "NoSync", "RenameBeforeSync". *)
EXTENDS Naturals, FiniteSets

CONSTANTS Names,        \* file names (model values or strings); each receive uses one temp name and one dat name
          Full,         \* size of the blob being received
          Deviations

VARIABLES fs,           \* [Names -> file record or None]
          pc,           \* program counter of the single receive in flight
          acked, crashed

vars == <<fs, pc, acked, crashed>>
None == [exists |-> FALSE, data |-> 0, synced |-> 0, open |-> FALSE, dat |-> FALSE]

CONSTANTS Tmp, Dat      \* the two names used by the modelled receive
ASSUME Tmp \in Names /\ Dat \in Names /\ Tmp # Dat

Init == fs = [n \in Names |-> None] /\ pc = "create" /\ acked = FALSE /\ crashed = FALSE

Live == ~crashed
TempCreate == Live /\ pc = "create" /\ fs' = [fs EXCEPT ![Tmp] = [exists |-> TRUE, data |-> 0, synced |-> 0, open |-> TRUE, dat |-> FALSE]]
              /\ pc' = "write" /\ UNCHANGED <<acked, crashed>>
Write == /\ Live /\ pc = "write" /\ fs[Tmp].data < Full
         /\ \E n \in (fs[Tmp].data + 1)..Full : fs' = [fs EXCEPT ![Tmp].data = n]
         /\ pc' = (IF fs'[Tmp].data = Full THEN (IF "RenameBeforeSync" \in Deviations THEN "rename" ELSE "sync") ELSE "write")
         /\ UNCHANGED <<acked, crashed>>
WriteEmpty == Live /\ pc = "write" /\ Full = 0 /\ pc' = "sync" /\ UNCHANGED <<fs, acked, crashed>>
Sync == /\ Live /\ pc = "sync"
        /\ fs' = (IF "NoSync" \in Deviations THEN fs ELSE [fs EXCEPT ![Tmp].synced = fs[Tmp].data])
        /\ pc' = (IF "RenameBeforeSync" \in Deviations THEN "done" ELSE "close") /\ UNCHANGED <<acked, crashed>>
Close == Live /\ pc = "close" /\ fs' = [fs EXCEPT ![Tmp].open = FALSE] /\ pc' = "rename" /\ UNCHANGED <<acked, crashed>>
Rename == /\ Live /\ pc = "rename"
          /\ fs' = [fs EXCEPT ![Dat] = [fs[Tmp] EXCEPT !.dat = TRUE], ![Tmp] = None]
          /\ pc' = (IF "RenameBeforeSync" \in Deviations THEN "sync2" ELSE "ack") /\ UNCHANGED <<acked, crashed>>
Sync2 == Live /\ pc = "sync2" /\ fs' = [fs EXCEPT ![Dat].synced = fs[Dat].data, ![Dat].open = FALSE] /\ pc' = "ack" /\ UNCHANGED <<acked, crashed>>
Ack == Live /\ pc = "ack" /\ acked' = TRUE /\ pc' = "done" /\ UNCHANGED <<fs, crashed>>

(* process death: every file keeps some prefix at least as long as its synced prefix *)
Lose(f) == IF f.exists THEN {[f EXCEPT !.data = n, !.synced = n, !.open = FALSE] : n \in f.synced..f.data} ELSE {f}
Crash == /\ Live /\ crashed' = TRUE
         /\ fs' \in {g \in [Names -> UNION {Lose(fs[n]) : n \in Names}] : \A n \in Names : g[n] \in Lose(fs[n])}
         /\ UNCHANGED <<pc, acked>>

Next == TempCreate \/ Write \/ WriteEmpty \/ Sync \/ Close \/ Rename \/ Sync2 \/ Ack \/ Crash
Spec == Init /\ [][Next]_vars

(* what clients of a (re)started store see: names ending in .dat *)
Visible(n) == fs[n].exists /\ fs[n].dat
Durability == (crashed /\ acked) => (Visible(Dat) /\ fs[Dat].data = Full)
NoTornVisible == \A n \in Names : Visible(n) => fs[n].data = Full
(* the ordering discipline the trace validator enforces on every recorded receive *)
DatOnlyWhenDurable == \A n \in Names : (Visible(n) /\ ~crashed) => (fs[n].synced = fs[n].data /\ ~fs[n].open)
=============================================================================
