---------------------------- MODULE Trace_IndexOOO ----------------------------
(* C05, implementation -> specification: the out-of-order state of the REAL index (have: rows, missing| rows,
   in-memory needs via the verif hook), projected after EVERY delivery step of every replayed arrival order
   (sequential deliveries are quiescent after each step: the harness awaits the asynchronous re-indexing), must
   satisfy ConfluentState of IndexOOOPred for the delivered set - the same predicate IndexOOO.tla's mechanism is
   model-checked against.  Also: nothing left in the ready queue; rows identical to the canonical arrival order
   and to a full Reindex from the blob source (differential projections computed from two real outputs).
   Collect mode.  Lines: reset{n,deps}, state{delivered,have,missing,need,ready,rows_eq_canon,reindex}. *)
EXTENDS IndexOOOPred, TLC, Json, IOUtils

VARIABLES F, I, All, l
Trace == ndJsonDeserialize(IOEnv.TRACE_FILE)
Ev == Trace[l]
vars == <<F, I, All, l>>
SeqSet(s) == {s[k] : k \in 1..Len(s)}
Pairs(s) == {<<s[k][1], s[k][2]>> : k \in 1..Len(s)}

Init == F = <<>> /\ I = <<>> /\ All = {} /\ l = 1
Is(e) == l <= Len(Trace) /\ Ev.ev = e /\ l' = l + 1

TReset == /\ Is("reset")
          /\ All' = 1..Ev.n
          /\ F' = [b \in 1..Ev.n |-> SeqSet(Ev.deps[b].f)]
          /\ I' = [b \in 1..Ev.n |-> Ev.deps[b].i]

TState == /\ Is("state")
          /\ LET D == SeqSet(Ev.delivered)
                 have == [b \in All |-> Ev.have[b]]
                 ok == ConfluentState(All, D, F, I, have, Pairs(Ev.need), Pairs(Ev.missing))
             IN /\ (~ok => PrintT(<<"VIOL", l, "state", [b \in All |-> ExpectedHave(b, D, F, I)]>>))
                /\ (Ev.ready # 0 => PrintT(<<"VIOL", l, "ready-not-empty", Ev.ready>>))
                /\ (~Ev.rows_eq_canon => PrintT(<<"VIOL", l, "rows-differ-from-canonical-order", 0>>))
                /\ (Ev.reindex # "ok" => PrintT(<<"VIOL", l, "rows-differ-from-reindex", Ev.reindex>>))
          /\ UNCHANGED <<F, I, All>>

TOther == /\ l <= Len(Trace) /\ Ev.ev \in {"deliver", "restart"} /\ l' = l + 1
          /\ (Ev.ev = "deliver" /\ Ev.res # "ok") => PrintT(<<"VIOL", l, "deliver-error", 0>>)
          /\ UNCHANGED <<F, I, All>>

TNext == TReset \/ TState \/ TOther
TSpec == Init /\ [][TNext]_vars
TraceAccepted == TLCGet("stats").diameter - 1 = Len(Trace)
=============================================================================
