\* Deviations only switches the MECHANISM operator MReadAt, which Trace_Schema uses to say how many of the
\* reads it rejects are exactly what the believed deviation (H13) returns; expected values never use it.
SPECIFICATION TSpec
CONSTANTS
  Deviations = {"LimitIgnoresInPartOffset"}
  MaxChunk = 1048576
  MaxN = 0
  BitsSet = {}
  Family = "none"
  SetMaxes = {}
  SetNMax = 0
  ReaderSteps = FALSE
INVARIANT TTypeOK
POSTCONDITION TraceAccepted
CHECK_DEADLOCK FALSE
