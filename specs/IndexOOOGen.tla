------------------------------ MODULE IndexOOOGen ------------------------------
(* Arrival-order enumerator for C05/C06: for a world shape of N blobs, every permutation of the arrivals, with
   an optional index restart before the r-th arrival and an optional duplicate delivery: blob order[k] is
   delivered a second time, either at the end (DupPos = "end") or at any later position p (DupPos = "any": also
   while it is still waiting for a dependency that has not arrived).  One initial state per scenario; the
   invariant prints it. *)
EXTENDS Naturals, Sequences, FiniteSets, TLC, Json
CONSTANTS Shape, N, Restarts, Dups, DupPos
VARIABLES order, restart, dup
Perms == {s \in [1..N -> 1..N] : \A i, j \in 1..N : i # j => s[i] # s[j]}
DupChoices == {<<0, 0>>} \cup {<<k, p>> : k \in Dups \ {0}, p \in (IF DupPos = "any" THEN 2..(N + 1) ELSE {N + 1})}
Init == order \in Perms /\ restart \in Restarts /\ dup \in {d \in DupChoices : d[1] = 0 \/ d[2] > d[1]}
Next == UNCHANGED <<order, restart, dup>>
Spec == Init /\ [][Next]_<<order, restart, dup>>
Full == IF dup[1] = 0 THEN order
        ELSE SubSeq(order, 1, dup[2] - 1) \o <<order[dup[1]]>> \o SubSeq(order, dup[2], N)
Emit == PrintT(<<"RPL", ToJson([shape |-> Shape, order |-> Full, restart |-> restart])>>)
=============================================================================
