------------------------------ MODULE IndexOOOGen ------------------------------
(* Arrival-order enumerator for C05/C06: for a world shape of N blobs, every permutation of the arrivals, with
   an optional index restart before the r-th arrival and an optional duplicate delivery appended.  One initial
   state per scenario; the invariant prints it. *)
EXTENDS Naturals, Sequences, FiniteSets, TLC, Json
CONSTANTS Shape, N, Restarts, Dups
VARIABLES order, restart, dup
Perms == {s \in [1..N -> 1..N] : \A i, j \in 1..N : i # j => s[i] # s[j]}
Init == order \in Perms /\ restart \in Restarts /\ dup \in Dups
Next == UNCHANGED <<order, restart, dup>>
Spec == Init /\ [][Next]_<<order, restart, dup>>
Full == IF dup = 0 THEN order ELSE Append(order, order[dup])
Emit == PrintT(<<"RPL", ToJson([shape |-> Shape, order |-> Full, restart |-> restart])>>)
=============================================================================
