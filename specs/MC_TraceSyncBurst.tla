-------------------------- MODULE MC_TraceSyncBurst --------------------------
(* Trace_Sync for the burst family: up to 100 scenario blobs and the wake-up blobs after them. *)
EXTENDS Trace_Sync
TraceBlobs == 1..120
=============================================================================
