SPECIFICATION GSpec
CONSTANTS
  Deviations = {}
  MaxLen = 3
  MethLen = 3
  What = "reqs"
INVARIANT Emit
CHECK_DEADLOCK FALSE
