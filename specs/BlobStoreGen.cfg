SPECIFICATION GSpec
CONSTANTS
  Blobs = {2, 4, 6, 8}
  MaxCursor = 9
  MaxLimit = 5
  Mode = "mut"
  Depth = 3
INVARIANT Emit
CHECK_DEADLOCK FALSE
