----------------------------- MODULE SyncInd -----------------------------
(* Unbounded-LENGTH safety leg of C19: Sync.tla restated with Apalache type annotations, plus an inductive
   invariant IndInv that implies DurablePending, MemoryCoversQueue and QueuedInSource.

   Sync.tla carries no type annotations, so this module is a COPY of its variables and actions: same names, same
   text (IF-conjuncts parenthesised), one action per lower-layer call / critical section exactly as there; each
   action names the Sync.tla action it copies.  Fairness and the liveness property are not copied (safety only).
   The copy cannot drift silently: SyncIndRef.tla instantiates BOTH modules over the same variables and TLC checks
   on the bounded model
     SyncIndRef_A.cfg   Sync!Spec(safety part) => SyncInd!Spec, and IndInv in every reachable state of Sync.tla
     SyncIndRef_B.cfg   SyncInd!Spec => Sync!Spec(safety part), and IndInv in every reachable state of SyncInd

   What Apalache discharges (MC_SyncInd: Blobs = {1,2,3}; MaxCrashes is ANY natural number, so the number of
   crashes/restarts is unbounded as well as the length of behaviours):
     base   Init    => IndInv                 --init=Init    --inv=IndInv --length=0
     step   IndInv /\ Next => IndInv'         --init=IndInit --inv=IndInv --length=1
     impl   IndInv  => DurablePending /\ MemoryCoversQueue /\ QueuedInSource
                                              --init=IndInit --inv=Props  --length=0
     act    IndInv /\ Next => RowDeletedOnlyAfterDestAck's step condition
                                              --init=IndInit --inv=RowDelStep --length=1                     *)
EXTENDS Naturals, FiniteSets

CONSTANTS
    \* @type: Set(Int);
    Blobs,
    \* @type: Int;
    MaxCrashes,
    \* @type: Set(Str);
    Deviations   \* subset of {"DeleteRowBeforeWrite", "NoQueueReload", "EnqueueBeforeSourceAccept"}

VARIABLES
    \* @type: Set(Int);
    src,
    \* @type: Set(Int);
    dst,
    \* @type: Set(Int);
    queue,
    \* @type: Set(Int);
    needCopy,
    \* @type: Int -> Str;
    ust,
    \* @type: Int -> Str;
    cst,
    \* @type: Set(Int);
    acked,
    \* @type: Bool;
    up,
    \* @type: Bool;
    loaded,
    \* @type: Bool;
    faulty,
    \* @type: Int;
    crashes
vars == <<src, dst, queue, needCopy, ust, cst, acked, up, loaded, faulty, crashes>>

FetchOutcomes == {"ok", "corrupt", "missing", "error", "sizemis"}
DestOutcomes  == {"ok", "error", "wrongsize", "after"}

(* Sync!TypeOK; `crashes` is bounded by a symbolic constant, hence Nat + comparison *)
TypeOK == /\ src \in SUBSET Blobs /\ dst \in SUBSET Blobs /\ queue \in SUBSET Blobs /\ needCopy \in SUBSET Blobs
          /\ ust \in [Blobs -> {"idle", "stored", "mem"}]
          /\ cst \in [Blobs -> {"idle", "fetched", "written", "deleted"}]
          /\ acked \in SUBSET Blobs /\ up \in BOOLEAN /\ loaded \in BOOLEAN /\ faulty \in BOOLEAN
          /\ crashes \in Nat /\ crashes <= MaxCrashes

(* Sync!Init *)
Init == /\ src = {} /\ dst = {} /\ queue = {} /\ needCopy = {} /\ acked = {}
        /\ ust = [b \in Blobs |-> "idle"] /\ cst = [b \in Blobs |-> "idle"]
        /\ up = FALSE /\ loaded = FALSE /\ faulty = TRUE /\ crashes = 0

Running == up /\ loaded

(* ---- upload path ---- *)
(* Sync!SourceAccept *)
SourceAccept(b) == /\ Running /\ ust[b] = "idle"
                   /\ src' = src \cup {b} /\ ust' = [ust EXCEPT ![b] = "stored"]
                   /\ UNCHANGED <<dst, queue, needCopy, cst, acked, up, loaded, faulty, crashes>>

HookMayRun(b) == ust[b] = "stored" \/ ("EnqueueBeforeSourceAccept" \in Deviations /\ ust[b] = "idle")

(* Sync!EnqueueMem *)
EnqueueMem(b) == /\ Running /\ HookMayRun(b)
                 /\ IF b \in needCopy
                    THEN /\ ust' = [ust EXCEPT ![b] = "idle"] /\ acked' = acked \cup {b} /\ UNCHANGED needCopy
                    ELSE /\ ust' = [ust EXCEPT ![b] = "mem"] /\ needCopy' = needCopy \cup {b} /\ UNCHANGED acked
                 /\ UNCHANGED <<src, dst, queue, cst, up, loaded, faulty, crashes>>

(* Sync!EnqueueRow *)
EnqueueRow(b) == /\ Running /\ ust[b] = "mem"
                 /\ queue' = queue \cup {b} /\ acked' = acked \cup {b} /\ ust' = [ust EXCEPT ![b] = "idle"]
                 /\ UNCHANGED <<src, dst, needCopy, cst, up, loaded, faulty, crashes>>

(* ---- copy path ---- *)
(* Sync!CopyFetch *)
CopyFetch(b, o) == /\ Running /\ b \in needCopy /\ cst[b] = "idle" /\ o \in FetchOutcomes
                   /\ (o = "ok") => b \in src
                   /\ (o # "ok") => (faulty \/ b \notin src)
                   /\ cst' = [cst EXCEPT ![b] = IF o = "ok" THEN "fetched" ELSE "idle"]
                   /\ queue' = (IF o = "ok" /\ "DeleteRowBeforeWrite" \in Deviations THEN queue \ {b} ELSE queue)
                   /\ UNCHANGED <<src, dst, needCopy, ust, acked, up, loaded, faulty, crashes>>

(* Sync!DestReceive *)
DestReceive(b, o) == /\ Running /\ cst[b] = "fetched" /\ o \in DestOutcomes
                     /\ (o # "ok") => faulty
                     /\ dst' = (IF o = "error" THEN dst ELSE dst \cup {b})
                     /\ cst' = [cst EXCEPT ![b] = IF o = "ok" THEN "written" ELSE "idle"]
                     /\ UNCHANGED <<src, queue, needCopy, ust, acked, up, loaded, faulty, crashes>>

(* Sync!QueueDelete *)
QueueDelete(b) == /\ Running /\ cst[b] = "written"
                  /\ queue' = queue \ {b} /\ cst' = [cst EXCEPT ![b] = "deleted"]
                  /\ UNCHANGED <<src, dst, needCopy, ust, acked, up, loaded, faulty, crashes>>

(* Sync!MemDelete *)
MemDelete(b) == /\ Running /\ cst[b] = "deleted"
                /\ needCopy' = needCopy \ {b} /\ cst' = [cst EXCEPT ![b] = "idle"]
                /\ UNCHANGED <<src, dst, queue, ust, acked, up, loaded, faulty, crashes>>

(* ---- environment ---- *)
(* Sync!Heal *)
Heal == faulty /\ faulty' = FALSE /\ UNCHANGED <<src, dst, queue, needCopy, ust, cst, acked, up, loaded, crashes>>

(* Sync!Crash *)
Crash == /\ up /\ crashes < MaxCrashes /\ crashes' = crashes + 1
         /\ up' = FALSE /\ loaded' = FALSE /\ needCopy' = {}
         /\ ust' = [b \in Blobs |-> "idle"] /\ cst' = [b \in Blobs |-> "idle"]
         /\ UNCHANGED <<src, dst, queue, acked, faulty>>

(* Sync!Start *)
Start == /\ ~up /\ up' = TRUE /\ loaded' = FALSE /\ needCopy' = {}
         /\ UNCHANGED <<src, dst, queue, ust, cst, acked, faulty, crashes>>

(* Sync!Reload  (readQueueToMemory) *)
Reload == /\ up /\ ~loaded /\ loaded' = TRUE
          /\ needCopy' = (IF "NoQueueReload" \in Deviations THEN {} ELSE queue)
          /\ UNCHANGED <<src, dst, queue, ust, cst, acked, up, faulty, crashes>>

(* Sync!Next *)
Next == \/ Heal \/ Crash \/ Start \/ Reload
        \/ \E b \in Blobs : \/ SourceAccept(b) \/ EnqueueMem(b) \/ EnqueueRow(b)
                            \/ QueueDelete(b) \/ MemDelete(b)
                            \/ \E o \in FetchOutcomes : CopyFetch(b, o)
                            \/ \E o \in DestOutcomes : DestReceive(b, o)

Spec == Init /\ [][Next]_vars      \* Sync!Spec without its fairness conjunct

(* ---- properties, exactly as stated in Sync.tla ---- *)
DurablePending == \A b \in acked : b \in dst \/ b \in queue
MemoryCoversQueue == Running => \A b \in queue : b \in needCopy \/ b \in dst
QueuedInSource == \A b \in queue \cup needCopy : b \in src
Props == DurablePending /\ MemoryCoversQueue /\ QueuedInSource
(* the step condition of Sync!RowDeletedOnlyAfterDestAck (an Apalache action invariant) *)
RowDelStep == \A b \in Blobs : (b \in queue /\ b \notin queue') => cst[b] = "written"

-----------------------------------------------------------------------------
(* The inductive invariant: TypeOK constrains every variable; A1-A6 are what make the three properties inductive *)
\* the queue is read only by a running process
A1 == loaded => up
\* a process that is down or has not yet read its queue has an empty memory and nothing in flight
A2 == ~Running => (needCopy = {} /\ \A b \in Blobs : ust[b] = "idle" /\ cst[b] = "idle")
\* the hook runs after the source has accepted the blob
A3 == \A b \in Blobs : ust[b] \in {"stored", "mem"} => b \in src
\* between addBlobToCopy and queue.Set the blob is in memory - or the copier has overtaken and delivered it
A4 == \A b \in Blobs : ust[b] = "mem" => (b \in needCopy \/ b \in dst)
\* the copier deletes (row, then memory) only after the destination has acknowledged the copy
A5 == \A b \in Blobs : cst[b] \in {"written", "deleted"} => b \in dst
\* a blob known to the copier has its row, or its row is about to be written, or it has been delivered
A6 == \A b \in needCopy : ust[b] = "mem" \/ b \in queue \/ b \in dst

IndInv == TypeOK /\ A1 /\ A2 /\ A3 /\ A4 /\ A5 /\ A6 /\ Props
IndInit == IndInv

(* sensitivity: without A5 the invariant is not inductive (QueueDelete from a state "written" but not delivered
   breaks DurablePending) *)
WeakInv == TypeOK /\ A1 /\ A2 /\ A3 /\ A4 /\ A6 /\ Props
WeakInit == WeakInv
=============================================================================
