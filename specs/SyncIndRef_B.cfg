SPECIFICATION IndSpec
CONSTANTS
  Blobs = {1, 2}
  MaxCrashes = 2
  Deviations = {}
INVARIANTS IndInv SyncProps SameProps
PROPERTIES SyncSpec
CHECK_DEADLOCK FALSE
