-------------------------- MODULE Trace_CorpusRefine --------------------------
(* C06: refinement  live (index, corpus, deletes cache)  =  Load(persisted rows)  at every step of every arrival
   history.  The harness opens, after EVERY delivery step (prefixes included, with blobs still pending), a fresh
   index + corpus over the same rows and asks both the same battery of exported queries (GetBlobMeta, IsDeleted
   on index and corpus, AppendClaims, PermanodeAttrValue(s) at several times, PermanodeModtime/AnyTime,
   GetFileInfo, GetDirChildren/GetParentDirs, KeyId, the two sorted permanode enumerations, EnumerateBlobMeta).
   `equal` is the comparison of those two real outputs; the abstract statement is CorpusRefine's invariant
   corpus = Load(rows), which each "step" line instantiates.  Collect mode. *)
EXTENDS Naturals, Sequences, TLC, Json, IOUtils
VARIABLES l, steps
Trace == ndJsonDeserialize(IOEnv.TRACE_FILE)
Ev == Trace[l]
Init == l = 1 /\ steps = 0
TReset == l <= Len(Trace) /\ Ev.ev = "reset" /\ l' = l + 1 /\ steps' = 0
(* the refinement mapping holds in the state reached by this step *)
RefinementHolds(e) == e.equal /\ e.ndiff = 0 /\ e.queries > 0
TStep == /\ l <= Len(Trace) /\ Ev.ev = "step" /\ l' = l + 1 /\ steps' = steps + 1
         /\ (~RefinementHolds(Ev) => PrintT(<<"VIOL", l, Ev.classes>>))
TNext == TReset \/ TStep
TSpec == Init /\ [][TNext]_<<l, steps>>
TraceAccepted == TLCGet("stats").diameter - 1 = Len(Trace)
=============================================================================
