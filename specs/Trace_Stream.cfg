SPECIFICATION TSpec
CONSTANTS
  Blobs = {2, 4, 6, 8, 10, 12, 14, 16, 18, 20, 22, 24}
  MaxRecs = 100000
  Deviations = {}
  KeepChoices = {FALSE}
  Configs = {}
INVARIANTS TComplete TResumeLaw TPhysical
POSTCONDITION TraceAccepted
CHECK_DEADLOCK FALSE
