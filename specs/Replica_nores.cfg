SPECIFICATION Spec
CONSTANTS
  N = 3
  Blobs = {2, 4}
  Deviations = {}
  FullConfig = FALSE
INVARIANTS NoResurrection
VIEW View
CHECK_DEADLOCK FALSE
