SPECIFICATION Spec
CONSTANTS
  N = 3
  Blobs = {2, 4}
  Deviations = {}
  FullConfig = FALSE
INVARIANTS IndInv
CHECK_DEADLOCK FALSE
