SPECIFICATION TSpec
CONSTANTS
  Blobs = {2, 4, 6, 8, 10, 12, 14, 16}
  MaxCursor = 17
  MaxLimit = 9
  MaxStat = 1000
  DefaultLimit = 100
  MaxEnum = 10000
  Deviations = {}
  MaxWireLimit = 9
INVARIANT TTypeOK TWirePaging
POSTCONDITION TraceAccepted
CHECK_DEADLOCK FALSE
