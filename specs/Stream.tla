------------------------------- MODULE Stream -------------------------------
(* blobserver.BlobStreamer - StreamBlobs(ctx, dest, contToken) - as implemented by
     diskpacked  (pkg/blobserver/diskpacked/diskpacked.go StreamBlobs / parseContToken; token "<pack> <offset>")
     blobpacked  (pkg/blobserver/blobpacked/stream.go over blobserver.NewMultiBlobStreamer; token
                  "0:<token of the small store>" for the loose section, "1:<zip ref>:<member index>" for the packed one).

   What the interface promises (pkg/blobserver/interface.go): blobs are sent in an unspecified order; the token sent
   WITH a blob "resumes streaming starting AT this blob"; "" starts from the beginning; the token is opaque.  Hence the
   consumer protocol of storagetest.TestStreamer: resume with the token of the last blob seen, expect that blob again,
   then new ones.  A consumer that reads a single blob per call never advances; one that reads >= 2 does.

   The store is a sequence of physical records:
     packs  - diskpacked pack files (also blobpacked's small store when that is a diskpacked): each a sequence of
              records [b, live]; a removed record stays in place (header x-ed out, body zero-filled) and is skipped;
              a pack rolls over when its size exceeds cfg.max; `torn` = the last pack ends in a half-written record
              (death during an append, before the next open repairs it);
     loose  - blobpacked's small store when it is a sorted map (memory: streams in ref order, token = ref; any other
              store: enumerated in ref order, token = ref minus one);
     zips   - blobpacked's large store in ZIP REF order: [id, mem] with mem = the schema blobs of the zip followed by the
              data blobs in manifest order (a file blob is in EVERY zip of its file; a chunk may be listed twice);
     metaB  - the b: rows (blob -> id of the zip the row points to, 0 = none); RemoveBlobs of a packed blob only deletes
              the row (and writes a d: row for the zip): the bytes stay in the zip for ever.
   `present` is the BlobStore abstraction (ghost).  Tokens are uniform records [sec, a, b]:
     "S" start ("") | "D" (pack, record index) | "L" loose: (rank, 0) or (pack, record index) | "P" (zip id, member index)
   plus the foreign classes of ForeignSecs (never handed out).  A record index stands for the byte offset of a record
   boundary; offsets inside a record are the foreign class "midrecord".

   Deviations (mechanism changes that MUST break a property; PackedIgnoresMeta is what the code does today):
     TokenAfterRecord     the token sent with a record points behind it        -> the resumed stream loses that blob
     SkipFirstOfNextPack  a resumed stream skips the first record of the next pack file
     StreamsDeleted       x-ed records are streamed
     PackedResumeNextZip  a "1:" token resumes at the NEXT zip                  -> rest of the current zip dropped
     HandoverKeepsToken   the loose -> packed hand-over passes the loose token on to the packed streamer
     PackedIgnoresMeta    the packed section streams every member of every zip whatever the b: rows say
     GarbageIsStart       an unparsable token is treated as ""  *)
EXTENDS Naturals, Sequences, FiniteSets, SequencesExt, TLC

CONSTANTS Blobs,        \* universe: even naturals (ranks of the ref text)
          KeepChoices,  \* {FALSE} or BOOLEAN: may the loose deletion after a pack fail?
          MaxRecs,      \* bound on records appended to packs (model checking only)
          Deviations,
          Configs       \* configurations explored by one TLC run (chosen in Init)

VARIABLES cfg,      \* [kind: "dp"|"bp", small: "-"|"sorted"|"dp", max, rs: [Blobs -> Nat], files: Seq([f, chunks, packable]), per, zfirst]
          packs, torn, loose, zips, metaB, wrow, present,
          handed,   \* tokens handed out so far
          last      \* the last stream call: [tok, out]   (hidden by the VIEW)
store == <<packs, torn, loose, zips, metaB, wrow, present>>
vars == <<cfg, store, handed, last>>

Dev(d) == d \in Deviations
Tok(sec, a, b) == [sec |-> sec, a |-> a, b |-> b]
Start == Tok("S", 0, 0)
It(b, t, ok) == [b |-> b, t |-> t, ok |-> ok]          \* ok: the bytes delivered hash to the ref
Ok(items) == [res |-> "ok", items |-> items]
Err(items) == [res |-> "err", items |-> items]
ForeignSecs == {"garbage", "otherkind", "negative", "midrecord", "pastpack", "pastoff",
                "badpart", "pgarbage", "lgarbage", "pastmember", "secstart"}

IsDP == cfg.kind = "dp"
SmallDP == cfg.kind = "bp" /\ cfg.small = "dp"
SeqSet(s) == {s[i] : i \in 1..Len(s)}
RECURSIVE Concat(_)
Concat(ss) == IF ss = <<>> THEN <<>> ELSE Head(ss) \o Concat(Tail(ss))
ItemBlobs(items) == [i \in 1..Len(items) |-> items[i].b]
ItemToks(items) == {items[i].t : i \in 1..Len(items)}

-----------------------------------------------------------------------------
(* pack files *)
RECURSIVE SumRS(_)
SumRS(recs) == IF recs = <<>> THEN 0 ELSE cfg.rs[Head(recs).b] + SumRS(Tail(recs))
RECURSIVE NRecs(_)
NRecs(pk) == IF pk = <<>> THEN 0 ELSE Len(Head(pk)) + NRecs(Tail(pk))
DPHasLive(pk, b) == \E i \in 1..Len(pk) : \E j \in 1..Len(pk[i]) : pk[i][j].b = b /\ pk[i][j].live
DPLive(pk) == {b \in Blobs : DPHasLive(pk, b)}
DPAppend(pk, b) == LET n == Len(pk)
                       np == [pk EXCEPT ![n] = Append(@, [b |-> b, live |-> TRUE])]
                   IN IF SumRS(np[n]) > cfg.max THEN Append(np, <<>>) ELSE np      \* append, THEN roll over
DPRecv(pk, b) == IF DPHasLive(pk, b) THEN pk ELSE DPAppend(pk, b)                 \* duplicate: answered from the index
DPDel(pk, S) == [i \in 1..Len(pk) |-> [j \in 1..Len(pk[i]) |->
                   IF pk[i][j].b \in S THEN [pk[i][j] EXCEPT !.live = FALSE] ELSE pk[i][j]]]

(* StreamBlobs of diskpacked from (pack p, record r), 0-based; the walk ends with an error at a torn record *)
RECURSIVE DPWalk(_, _, _, _, _)
DPWalk(pk, sec, p, r, resumed) ==
  IF p >= Len(pk) THEN <<>>
  ELSE IF r >= Len(pk[p + 1])
       THEN DPWalk(pk, sec, p + 1, IF Dev("SkipFirstOfNextPack") /\ resumed THEN 1 ELSE 0, resumed)
       ELSE LET rec == pk[p + 1][r + 1]
                it == It(rec.b, Tok(sec, p, IF Dev("TokenAfterRecord") THEN r + 1 ELSE r), rec.live)
            IN (IF rec.live \/ Dev("StreamsDeleted") THEN <<it>> ELSE <<>>) \o DPWalk(pk, sec, p, r + 1, resumed)
DPOut(pk, sec, t) == IF t.a >= Len(pk) THEN Err(<<>>)                         \* the pack file of the token does not exist
                     ELSE LET w == DPWalk(pk, sec, t.a, t.b, t.sec # "S") IN IF torn THEN Err(w) ELSE Ok(w)

-----------------------------------------------------------------------------
(* blobpacked *)
FileOf(f) == CHOOSE i \in 1..Len(cfg.files) : cfg.files[i].f = f
IsFile(f) == \E i \in 1..Len(cfg.files) : cfg.files[i].f = f
ZipIds == {zips[i].id : i \in 1..Len(zips)}
ZPos(id) == CHOOSE i \in 1..Len(zips) : zips[i].id = id
LooseSorted(from) == LET s == SetToSortSeq({b \in loose : b >= from}, <)
                     IN [i \in 1..Len(s) |-> It(s[i], Tok("L", s[i], 0), TRUE)]
SmallFrom(t) == IF cfg.small = "dp" THEN DPWalk(packs, "L", t.a, t.b, t.sec # "S") ELSE LooseSorted(t.a)
(* a packed copy is live iff the blob is recorded as packed (has a b: row); the bytes are read through Fetch *)
LiveMember(m) == Dev("PackedIgnoresMeta") \/ metaB[m] # 0
ZipItems(z, skip) == LET idx == SelectSeq([i \in 1..Len(z.mem) |-> i], LAMBDA i : i > skip /\ LiveMember(z.mem[i]))
                     IN [k \in 1..Len(idx) |-> It(z.mem[idx[k]], Tok("P", z.id, idx[k] - 1), z.mem[idx[k]] \in present)]
PackedFrom(zi, skip) == IF zi > Len(zips) THEN <<>>
                        ELSE ZipItems(zips[zi], skip) \o Concat([j \in 1..(Len(zips) - zi) |-> ZipItems(zips[zi + j], 0)])
BPOut(t) ==
  CASE t.sec = "S" -> IF SmallDP /\ torn THEN Err(SmallFrom(t)) ELSE Ok(SmallFrom(t) \o PackedFrom(1, 0))
    [] t.sec = "L" -> IF SmallDP /\ t.a >= Len(packs) THEN Err(<<>>)
                      ELSE IF Dev("HandoverKeepsToken") \/ (SmallDP /\ torn) THEN Err(SmallFrom(t))
                      ELSE Ok(SmallFrom(t) \o PackedFrom(1, 0))
    [] t.sec = "P" -> IF t.a \notin ZipIds THEN Err(<<>>)
                      ELSE IF Dev("PackedResumeNextZip") THEN Ok(PackedFrom(ZPos(t.a) + 1, 0))
                      ELSE Ok(PackedFrom(ZPos(t.a), t.b))
    [] OTHER -> Err(<<>>)

(* the stream a well-formed token yields *)
StreamOf(t) == IF IsDP THEN (IF t.sec \in {"S", "D"} THEN DPOut(packs, "D", t) ELSE Err(<<>>)) ELSE BPOut(t)
Full == StreamOf(Start).items

(* Tokens that were never handed out.  Unparsable ones and tokens of another store / section must be refused; for
   well-formed positions beyond the data the code documents leniency ("seeking past the end is legal ... a mostly
   harmless EOF"): an error OR the lawful remainder - never anything else. *)
Outcomes(t) ==
  IF t.sec \notin ForeignSecs THEN {StreamOf(t)}
  ELSE IF Dev("GarbageIsStart") /\ t.sec = "garbage" THEN {StreamOf(Start)}
  ELSE CASE t.sec = "pastoff" /\ (IsDP \/ SmallDP) ->       \* (pack a, offset beyond its end): the next pack
                 {Err(<<>>)} \cup (IF t.a < Len(packs) /\ ~torn
                                   THEN {IF IsDP THEN Ok(DPWalk(packs, "D", t.a + 1, 0, TRUE))
                                                 ELSE Ok(DPWalk(packs, "L", t.a + 1, 0, TRUE) \o PackedFrom(1, 0))} ELSE {})
         [] t.sec = "pastmember" /\ ~IsDP /\ t.a \in ZipIds -> {Err(<<>>), Ok(PackedFrom(ZPos(t.a) + 1, 0))}
         [] t.sec = "secstart" /\ ~IsDP -> {Err(<<>>), IF t.a = 0 THEN StreamOf(Start) ELSE Ok(PackedFrom(1, 0))}
         [] OTHER -> {Err(<<>>)}

-----------------------------------------------------------------------------
(* mutations *)
Chunks(f) == cfg.files[FileOf(f)].chunks
WillPack(f) == /\ IsFile(f) /\ metaB[f] = 0 /\ f \notin wrow /\ cfg.files[FileOf(f)].packable
               /\ SeqSet(Chunks(f)) \subseteq present
(* nz: the zips written for file f, in the order written: <<[id, mem]>>; zo: ALL zip ids in ref order afterwards *)
LegalPack(f, nz, zo) ==
  /\ Len(nz) >= 1
  /\ \A i \in 1..Len(nz) : Len(nz[i].mem) >= 2 /\ nz[i].mem[1] = f /\ nz[i].id \notin ZipIds
  /\ \A i, j \in 1..Len(nz) : i # j => nz[i].id # nz[j].id
  /\ Concat([i \in 1..Len(nz) |-> Tail(nz[i].mem)]) = Chunks(f)
  /\ Len(zo) = Len(zips) + Len(nz) /\ SeqSet(zo) = ZipIds \cup {nz[i].id : i \in 1..Len(nz)}
  /\ SelectSeq(zo, LAMBDA id : id \in ZipIds) = [i \in 1..Len(zips) |-> zips[i].id]
Packed(nz) == UNION {SeqSet(nz[i].mem) : i \in 1..Len(nz)}
ZipById(nz, id) == IF id \in ZipIds THEN zips[ZPos(id)] ELSE nz[CHOOSE i \in 1..Len(nz) : nz[i].id = id]
LastZipWith(nz, m) == nz[CHOOSE i \in 1..Len(nz) : m \in SeqSet(nz[i].mem) /\ \A j \in (i + 1)..Len(nz) : m \notin SeqSet(nz[j].mem)].id
(* keep: the deletion of the loose copies failed ("can't really do anything about it ... just log"): the blobs are then
   loose AND packed, and both copies are streamed *)
ApplyPack(f, nz, zo, pk, ls, keep) ==
  /\ zips' = [i \in 1..Len(zo) |-> ZipById(nz, zo[i])]
  /\ metaB' = [m \in Blobs |-> IF m \in Packed(nz) THEN LastZipWith(nz, m) ELSE metaB[m]]
  /\ wrow' = wrow \cup {f}
  /\ loose' = (IF keep THEN ls ELSE ls \ Packed(nz))
  /\ packs' = (IF SmallDP /\ ~keep THEN DPDel(pk, Packed(nz)) ELSE pk)
(* the split the model checker explores: cfg.per chunks per zip (0 = one zip); new zips sort first or last *)
RECURSIVE Groups(_, _)
Groups(cs, n) == IF cs = <<>> THEN <<>> ELSE IF n = 0 \/ Len(cs) <= n THEN <<cs>> ELSE <<SubSeq(cs, 1, n)>> \o Groups(SubSeq(cs, n + 1, Len(cs)), n)
ModelZips(f) == LET g == Groups(Chunks(f), cfg.per) base == Cardinality(ZipIds)
                IN [i \in 1..Len(g) |-> [id |-> base + i, mem |-> <<f>> \o g[i]]]
ModelOrder(nz) == LET old == [i \in 1..Len(zips) |-> zips[i].id] new == [i \in 1..Len(nz) |-> nz[i].id]
                  IN IF cfg.zfirst THEN Reverse(new) \o old ELSE old \o new

RecvDP(b) == /\ packs' = DPRecv(packs, b) /\ present' = present \cup {b}
             /\ UNCHANGED <<torn, loose, zips, metaB, wrow>>
(* blobpacked.ReceiveBlob: no b: row -> small.ReceiveBlob; a file blob that is not packed yet is packed when its
   chunks can be read (the outcome of the pack is ignored: "at least be happy that we have all the data on small") *)
RecvBP(b, nz, zo, keep) ==
  LET pk == IF SmallDP /\ metaB[b] = 0 THEN DPRecv(packs, b) ELSE packs
      ls == IF ~SmallDP /\ metaB[b] = 0 THEN loose \cup {b} ELSE loose
  IN /\ present' = present \cup {b} /\ UNCHANGED torn
     /\ IF WillPack(b) THEN ApplyPack(b, nz, zo, pk, ls, keep)
        ELSE packs' = pk /\ loose' = ls /\ UNCHANGED <<zips, metaB, wrow>>
Receive(b) == /\ NRecs(packs) < MaxRecs
              /\ IF IsDP THEN RecvDP(b)
                 ELSE IF IsFile(b) THEN LET nz == ModelZips(b) IN \E keep \in KeepChoices : RecvBP(b, nz, ModelOrder(nz), keep)
                 ELSE RecvBP(b, <<>>, <<>>, FALSE)
              /\ UNCHANGED <<cfg, handed, last>>
(* a removal drops the b: row AND any loose copy (C04 owns the case where the code keeps the loose copy, H7) *)
RemoveB(S) == /\ present' = present \ S
              /\ IF IsDP THEN packs' = DPDel(packs, S) /\ UNCHANGED <<loose, zips, metaB, wrow>>
                 ELSE /\ metaB' = [m \in Blobs |-> IF m \in S THEN 0 ELSE metaB[m]]
                      /\ packs' = (IF SmallDP THEN DPDel(packs, S) ELSE packs)
                      /\ loose' = loose \ S
                      /\ UNCHANGED <<zips, wrow>>
              /\ UNCHANGED <<cfg, torn, handed, last>>
(* death during an append leaves a torn tail; the next open of the store repairs it (C03 owns that repair); a clean
   restart changes nothing: every token handed out before stays good *)
Crash == (IsDP \/ SmallDP) /\ ~torn /\ torn' = TRUE /\ UNCHANGED <<cfg, packs, loose, zips, metaB, wrow, present, handed, last>>
Restart == torn' = FALSE /\ UNCHANGED <<cfg, packs, loose, zips, metaB, wrow, present, handed, last>>

(* stream calls *)
StreamAll == /\ last' = [tok |-> Start, out |-> StreamOf(Start)]
             /\ handed' = handed \cup ItemToks(Full) /\ UNCHANGED <<cfg, store>>
ForeignToks == {Tok("garbage", 0, 0), Tok("otherkind", 0, 0), Tok("pastpack", Len(packs) + 2, 0), Tok("pastoff", 0, 0),
                Tok("midrecord", 0, 0), Tok("badpart", 0, 0), Tok("pgarbage", 0, 0), Tok("secstart", 0, 0), Tok("secstart", 1, 0)}
               \cup {Tok("pastmember", id, 0) : id \in ZipIds}
(* Resume picks ANY token handed out so far, or a foreign one (the tokens it returns are those StreamAll hands out in the
   same state, so `handed` need not grow here) *)
Resume == \E t \in handed \cup ForeignToks : \E o \in Outcomes(t) :
             /\ last' = [tok |-> t, out |-> o] /\ UNCHANGED <<cfg, store, handed>>

Init == /\ cfg \in Configs
        /\ packs = (IF cfg.kind = "dp" \/ cfg.small = "dp" THEN << <<>> >> ELSE <<>>) /\ torn = FALSE
        /\ loose = {} /\ zips = <<>> /\ metaB = [b \in Blobs |-> 0] /\ wrow = {} /\ present = {}
        /\ handed = {} /\ last = [tok |-> Start, out |-> Ok(<<>>)]
Next == \/ \E b \in Blobs : Receive(b) \/ RemoveB({b})
        \/ Crash \/ Restart \/ StreamAll \/ Resume
Spec == Init /\ [][Next]_vars
View == <<cfg, store, handed>>

-----------------------------------------------------------------------------
(* position order of tokens in the current state *)
SecRank(t) == CASE t.sec = "S" -> 0 [] t.sec = "P" -> 2 [] OTHER -> 1
KeyA(t) == IF t.sec = "P" THEN ZPos(t.a) ELSE t.a
TokLT(t, u) == \/ SecRank(t) < SecRank(u)
               \/ SecRank(t) = SecRank(u) /\ (KeyA(t) < KeyA(u) \/ (KeyA(t) = KeyA(u) /\ t.b < u.b))
Count(b, items) == Cardinality({i \in 1..Len(items) : items[i].b = b})
RECURSIVE SumNat(_)
SumNat(ns) == IF ns = <<>> THEN 0 ELSE Head(ns) + SumNat(Tail(ns))
Copies(b) == SumNat([i \in 1..Len(packs) |-> Cardinality({j \in 1..Len(packs[i]) : packs[i][j].b = b /\ packs[i][j].live})])
             + (IF b \in loose THEN 1 ELSE 0)
             + (IF metaB[b] = 0 THEN 0
                ELSE SumNat([i \in 1..Len(zips) |-> Cardinality({j \in 1..Len(zips[i].mem) : zips[i].mem[j] = b})]))

(* (a) resumability: the token sent with the i-th blob of a stream from "" resumes AT that blob and yields exactly the
   rest; the consumer protocol (cut anywhere, drop the repeated first blob) reassembles the uncut stream; chained cuts
   of every step >= 2 do so within Len(Full) + 1 calls ((d): such a consumer terminates) *)
Quiet == ~torn
Resumable == Quiet => \A i \in 1..Len(Full) : StreamOf(Full[i].t) = Ok(SubSeq(Full, i, Len(Full)))
CutResume == Quiet => \A k \in 1..Len(Full) : SubSeq(Full, 1, k) \o Tail(StreamOf(Full[k].t).items) = Full
RECURSIVE Chain(_, _, _)
Chain(t, step, fuel) == LET s == StreamOf(t).items IN
                        IF fuel = 0 THEN <<It(0, t, FALSE)>>
                        ELSE IF Len(s) <= step THEN s
                        ELSE SubSeq(s, 1, step - 1) \o Chain(s[step].t, step, fuel - 1)
ChainedCuts == Quiet => \A step \in 2..(Len(Full) + 1) : Chain(Start, step, Len(Full) + 1) = Full
(* (d) tokens strictly advance along a stream, and a resumed stream never goes back before its token *)
Monotone == /\ \A i \in 1..(Len(Full) - 1) : TokLT(Full[i].t, Full[i + 1].t)
            /\ \A t \in handed : LET s == StreamOf(t).items IN \A i \in 1..Len(s) : ~TokLT(s[i].t, t)
(* (b) completeness: exactly the present blobs, a removed blob never; a blob is repeated only as often as it has live
   physical copies (diskpacked: never in fault-free histories; blobpacked: once per zip member slot of a blob that is
   recorded as packed, plus its loose copy if the loose deletion failed) *)
Complete == Quiet => SeqSet(ItemBlobs(Full)) = present
DupsArePhysical == Quiet => \A b \in Blobs : Count(b, Full) = Copies(b)
DPOnce == (IsDP /\ Quiet) => \A b \in Blobs : Count(b, Full) <= 1
(* (c) never torn: every blob delivered carries bytes that hash to its ref, also in a stream that ends in an error *)
BytesOK == \A t \in handed \cup {Start} : LET s == StreamOf(t).items IN \A i \in 1..Len(s) : s[i].ok
(* the general law behind (a) and (e): whatever happened to the store since the token was handed out, it yields the
   items of today's full stream from its position on *)
ResumeLaw == Quiet => \A t \in handed : StreamOf(t) = Ok(SelectSeq(Full, LAMBDA it : ~TokLT(it.t, t)))
(* (e) diskpacked is append-only: a blob received after a token was handed out is in every resumed stream.  For
   blobpacked this is FALSE (a loose blob sorting before the token's blob, or packed into a zip whose ref sorts before
   the token's zip, is missed): only ResumeLaw holds there.  AppendVisibleAny must be violated. *)
AppendVisibleAny == [][\A b \in Blobs : (b \notin present /\ b \in present') =>
                         \A t \in handed : b \in SeqSet(ItemBlobs(StreamOf(t).items))']_vars
AppendVisible == [][IsDP => \A b \in Blobs : (b \notin present /\ b \in present') =>
                         \A t \in handed : b \in SeqSet(ItemBlobs(StreamOf(t).items))']_vars
(* (f) a token that was never handed out yields an error or a lawful remainder of the full stream, nothing else *)
IsSuffixOfFull(s) == Len(s) <= Len(Full) /\ s = SubSeq(Full, Len(Full) - Len(s) + 1, Len(Full))
InvalidIsError == [][(store' = store /\ Quiet /\ last'.tok.sec \in ForeignSecs) =>
                       last'.out.res = "err" \/ (last'.out.res = "ok" /\ IsSuffixOfFull(last'.out.items))]_vars
StrictInvalid == [][store' = store /\ last'.tok.sec \in {"garbage", "otherkind", "negative", "midrecord", "pastpack", "badpart", "pgarbage", "lgarbage"} =>
                       last'.out.res = "err"]_vars
PresentIsPhysical == present = {b \in Blobs : Copies(b) > 0}
=============================================================================
