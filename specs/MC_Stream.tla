----------------------------- MODULE MC_Stream -----------------------------
(* Model-checking instance of Stream: the configurations one TLC run explores. *)
EXTENDS Stream
CONSTANT Family
RS1 == [b \in Blobs |-> IF b = 6 THEN 2 ELSE 1]
(* diskpacked: max 0 = every record rolls a pack, 1 / 2 = a pack takes one or two records, 100 = a single pack *)
DPConfigs == {[kind |-> "dp", small |-> "-", max |-> m, rs |-> RS1, files |-> <<>>, per |-> 0, zfirst |-> FALSE] : m \in {0, 1, 2, 100}}
(* blobpacked: file 8 with chunks 2, 4 (or 2, 4, 2: a chunk listed twice), blob 6 stays loose; one zip or one chunk per
   zip; new zips sort before or after the old ones; small = sorted map or a diskpacked (every record rolls / one pack) *)
BPFiles == {<<[f |-> 8, chunks |-> <<2, 4>>, packable |-> TRUE]>>, <<[f |-> 8, chunks |-> <<2, 4, 2>>, packable |-> TRUE]>>}
BPConfigs == {[kind |-> "bp", small |-> sm[1], max |-> sm[2], rs |-> RS1, files |-> fs, per |-> p, zfirst |-> z] :
                 sm \in {<<"sorted", 100>>, <<"dp", 0>>, <<"dp", 100>>}, fs \in BPFiles, p \in {0, 1}, z \in BOOLEAN}
BPQuick == {c \in BPConfigs : \/ c.small = "sorted" /\ c.per = 1 /\ c.zfirst /\ Len(c.files[1].chunks) = 2
                              \/ c.small = "dp" /\ c.max = 0 /\ c.per = 1 /\ ~c.zfirst /\ Len(c.files[1].chunks) = 3}
MCConfigs == CASE Family = "dp" -> DPConfigs [] Family = "bpq" -> BPQuick [] OTHER -> BPConfigs
=============================================================================
