INIT BInit
NEXT Next
CONSTANTS
  MaxLen = 2
  MaxRestarts = 0
  MaxFaults = 0
  Pools = {1, 2, 5}
  Pars = {FALSE, TRUE}
  PreKinds = {"none"}
  CrashKinds = {"quiet"}
  BurstSizes = {19, 20, 30, 60, 100}
  BurstHolds = {"error"}
  BurstForms = {"failing", "stall", "restart", "restart-failing", "restart-stall", "split"}
INVARIANT Emit
CHECK_DEADLOCK FALSE
