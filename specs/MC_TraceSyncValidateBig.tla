----------------------- MODULE MC_TraceSyncValidateBig -----------------------
EXTENDS Trace_SyncValidate
TraceBlobs == 1..1300
TraceShards == 1..7
=============================================================================
