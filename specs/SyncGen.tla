------------------------------ MODULE SyncGen ------------------------------
(* Scenario enumerator for the sync handler (C19).  A scenario is an input of the real system, not a
   behaviour: an upload history (2..MaxLen uploads over at most three blobs, up to renaming; a repeated blob is
   a duplicate upload), cut into the lives of 1 + R handler incarnations (R <= MaxRestarts restarts over the same
   queue), and for every incarnation the outcome of its k-th destination write (ok / error / wrongsize / after =
   stored but reported failed) and of the copier's k-th source read (ok / corrupt / missing / error / sizemis),
   whether the uploads of the incarnation are concurrent, the copier pool size, and how the incarnation ends:
   "sweep" = the driver runs the scenario once per lower-layer call k of that incarnation with the process
   dying at call k (every crash point), "quiet" = it dies after it settled.  Each scenario is one initial
   state; the invariant prints it as JSON.  The real handler is run on every scenario and the recorded
   lower-layer events are validated by Trace_Sync against Sync.

   Burst family (BInit, SyncGenBurst.cfg): n distinct blobs (n in BurstSizes, far more than one pass of the copy
   loop takes in flight: the copier pool, the work channel and the result channel of runSync) become pending
   at once and must all be delivered after the destination healed:
     failing          they are uploaded while every destination write fails (hold = the outcome until the heal mark)
     stall            they are uploaded while the first destination write of the pass in progress does not return;
                      the next pass finds all of them
     restart          they are uploaded to an incarnation whose destination is down and which is then killed (or
                      dies at every lower-layer call: "sweep"); the next incarnation reads n rows from the queue
     restart-failing  the same, and the destination of the second incarnation is down until the heal mark
     restart-stall    the incarnation with the stalled pass is killed once everything is acknowledged
     split            half of them are rows read after a restart, the other half arrives while the second
                      incarnation's first pass is stalled
   for every pool size in Pools, uploads one after the other or all at once (Pars). *)
EXTENDS Naturals, FiniteSets, Sequences, TLC, Json

CONSTANTS MaxLen, MaxRestarts, MaxFaults, Pools, Pars, CrashKinds,
          PreKinds,        \* subset of {"none", "first", "all"}: which blobs of the history the source holds beforehand
          BurstSizes, BurstHolds, BurstForms      \* burst family only

VARIABLES h, cuts, dstp, srcp, par, pool, crash, pre,
          hold, stall     \* per incarnation: outcome of every destination write until the heal mark ("" = ok) / first write stalled
gvars == <<h, cuts, dstp, srcp, par, pool, crash, pre, hold, stall>>

DstPats == {<<>>, <<"error">>, <<"wrongsize">>, <<"after">>, <<"ok", "error">>, <<"error", "error">>,
            <<"error", "wrongsize">>, <<"wrongsize", "ok", "after">>, <<"error", "error", "error">>}
SrcPats == {<<>>, <<"corrupt">>, <<"missing">>, <<"error">>, <<"sizemis">>, <<"ok", "corrupt">>, <<"corrupt", "error">>}
Weight(p) == Cardinality({i \in 1..Len(p) : p[i] # "ok"})

RECURSIVE MaxOf(_, _)
MaxOf(s, n) == IF n = 0 THEN 0 ELSE LET m == MaxOf(s, n - 1) IN IF s[n] > m THEN s[n] ELSE m
\* histories up to renaming of the blobs: restricted growth strings
Canonical(s) == s[1] = 1 /\ \A i \in 2..Len(s) : s[i] <= MaxOf(s, i - 1) + 1
Hists == UNION {{s \in [1..n -> 1..3] : Canonical(s)} : n \in 2..MaxLen}

RECURSIVE SumW(_, _)
SumW(ps, n) == IF n = 0 THEN 0 ELSE Weight(ps[n]) + SumW(ps, n - 1)

Init == /\ h \in Hists
        /\ \E r \in 0..MaxRestarts :
             /\ cuts \in {c \in [1..r -> 1..Len(h)] : \A i \in 1..(r - 1) : c[i] <= c[i + 1]}
             /\ dstp \in [1..(r + 1) -> {p \in DstPats : Weight(p) <= MaxFaults}]
             /\ srcp \in [1..(r + 1) -> {p \in SrcPats : Weight(p) <= MaxFaults - SumW(dstp, r + 1)}]
             /\ SumW(dstp, r + 1) + SumW(srcp, r + 1) <= MaxFaults
             /\ par \in [1..(r + 1) -> Pars]
             /\ crash \in [1..r -> CrashKinds]
             /\ hold = [p \in 1..(r + 1) |-> ""] /\ stall = [p \in 1..(r + 1) |-> FALSE]
        /\ pool \in Pools
        /\ pre \in PreKinds

\* ---- burst family
Shapes(n, o, ck) ==
  {[f |-> "failing",         c |-> <<>>,          hd |-> <<o>>,      st |-> <<FALSE>>,        cr |-> <<>>],
   [f |-> "stall",           c |-> <<>>,          hd |-> <<"">>,     st |-> <<TRUE>>,         cr |-> <<>>],
   [f |-> "restart",         c |-> <<n>>,         hd |-> <<o, "">>,  st |-> <<FALSE, FALSE>>, cr |-> <<ck>>],
   [f |-> "restart-failing", c |-> <<n>>,         hd |-> <<o, o>>,   st |-> <<FALSE, FALSE>>, cr |-> <<ck>>],
   [f |-> "restart-stall",   c |-> <<n>>,         hd |-> <<"", "">>, st |-> <<TRUE, FALSE>>,  cr |-> <<ck>>],
   [f |-> "split",           c |-> <<n \div 2>>, hd |-> <<o, "">>,  st |-> <<FALSE, TRUE>>,  cr |-> <<ck>>]}
BInit == \E n \in BurstSizes :
           \E s \in {x \in UNION {Shapes(n, o, ck) : o \in BurstHolds, ck \in CrashKinds} : x.f \in BurstForms} :
             /\ h = [i \in 1..n |-> i] /\ cuts = s.c /\ hold = s.hd /\ stall = s.st /\ crash = s.cr
             /\ dstp = [p \in 1..Len(s.hd) |-> <<>>] /\ srcp = [p \in 1..Len(s.hd) |-> <<>>]
             /\ \E pp \in Pars : par = [p \in 1..Len(s.hd) |-> pp]
             /\ pool \in Pools
             /\ pre = "none"

Next == UNCHANGED gvars
Spec == Init /\ [][Next]_gvars

NPh == Len(cuts) + 1
From(p) == IF p = 1 THEN 1 ELSE cuts[p - 1] + 1
To(p) == IF p = NPh THEN Len(h) ELSE cuts[p]
Phase(p) == [ups |-> SubSeq(h, From(p), To(p)), par |-> par[p], dst |-> dstp[p], src |-> srcp[p],
             crash |-> IF p = NPh THEN "none" ELSE crash[p], freeze |-> 0, hold |-> hold[p], stall |-> stall[p]]
PreSet == IF pre = "first" THEN <<h[1]>> ELSE IF pre = "all" THEN [i \in 1..MaxOf(h, Len(h)) |-> i] ELSE <<>>
Emit == PrintT(<<"SCN", ToJson([n |-> MaxOf(h, Len(h)), pool |-> pool, pre |-> PreSet, phases |-> [p \in 1..NPh |-> Phase(p)]])>>)
=============================================================================
