SPECIFICATION FSSpec
CONSTANTS
  Blobs = {1, 2, 3}
  Shards = {1}
  ChanCap = 1
  WorkCap = 1
  Pool = 1
  MaxFaults = 0
  MaxEnv = 0
  MaxUploads = 0
  MaxRounds = 1
  Copier = TRUE
  Deviations = {}
INVARIANTS FullSyncFeedsAll

CHECK_DEADLOCK FALSE
