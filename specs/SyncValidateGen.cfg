SPECIFICATION Spec
CONSTANTS
  Fams = {"states", "faults", "races", "bulk", "fs", "fsfaults", "fsbig"}
INVARIANT Emit
CHECK_DEADLOCK FALSE
