SPECIFICATION GSpec
CONSTANTS
  NameChars = {50, 97, 115}
  HexChars = {48, 57, 97, 102}
  Dash = 45
  DigestLen = 2
  MaxName = 2
  Mode = "str"
  Alphabet = {97, 103, 122, 48, 57, 45, 65}
  MaxLen = 6
INVARIANTS Emit RoundTripOK
CHECK_DEADLOCK FALSE
