--------------------------- MODULE Trace_BlobRef ---------------------------
(* Validates what the real package blob answered (driver harness/cmd/c20) against BlobRef.  The functions
   are pure, so every line is independent: collect mode, one step per line; a line whose logged answers
   differ from what the module's operators give is reported with PrintT(<<"VIOL", line, ...>>) and
   validation continues.  Acceptance requires every line to be consumed.  Lines:
     str   {s, obs{...}, probes, hp, eqp}     one string (byte values): parse entry points, round trips,
                                              HasPrefix / EqualString on every probe
     pair  {ta, tb, a, b, less, gtr, sless, tless, eqr, eqs, smo, smoltb, probes, hp}
                                              two refs: order, equality, cursor, prefix tests
     hash  {want1, want224, want256, fromstring, frombytes, newhash, via1, via224, via256, matches}
                                              refs computed from contents vs crypto/* digests
   Expected values are recomputed here with the SAME operators the lemma is model-checked with
   (Class, ExpectedStr, HasPrefixSpec, RefLess via LessT, SeqLess, MinusOne). *)
EXTENDS BlobRef, TLC, Json, IOUtils

VARIABLE l
Trace == ndJsonDeserialize(IOEnv.TRACE_FILE)
Ev == Trace[l]

TInit == l = 1 /\ pair = <<>>

DiffFields(exp, obs) == {<<f, exp[f], obs[f]>> : f \in {g \in DOMAIN exp : exp[g] # obs[g]}}

PrefixClass(s, p) ==
  IF ~IsPrefixSeq(p, s) THEN (IF Len(p) > Len(s) THEN "nonprefix-longer" ELSE "nonprefix")
  ELSE IF Len(p) = Len(s) THEN "full"
  ELSE IF Len(p) < DashPos(s) - 1 THEN "partial-name"
  ELSE IF Len(p) = DashPos(s) - 1 THEN "bare-name"
  ELSE IF Len(p) = DashPos(s) THEN "name-dash"
  ELSE "name-dash-digits"

ProbeDiffs(s, probes, hp, field, Exp(_, _)) ==
  {<<field, PrefixClass(s, probes[i]), Exp(s, probes[i]), hp[i]>> :
      i \in {j \in 1..Len(probes) : hp[j] # Exp(s, probes[j])}}

ClassTag(s) == IF WellFormed(s) /\ IsOdd(s) THEN Class(s) \o "+odd" ELSE Class(s)

(* ---- str *)
StrDiffs(e) == DiffFields(ExpectedStr(e.s), e.obs)
                 \cup (IF WellFormed(e.s)
                       THEN ProbeDiffs(e.s, e.probes, e.hp, "HasPrefix", ExpectedProbe)
                              \cup ProbeDiffs(e.s, e.probes, e.eqp, "EqualString", ExpectedEq)
                       ELSE IF Len(e.probes) # 0 THEN {<<"probes", "on-malformed", "none", "some">>} ELSE {})

(* ---- pair *)
PairExpected(e) ==
  LET a == e.a  b == e.b
      sup == BothSupported(a, b)
  IN [rta    |-> "t",                                   \* String() of the parsed text is the text
      rtb    |-> "t",
      wf     |-> "t",
      \* ordering: stated for refs of supported hash functions; Less must be the byte order of the texts
      less   |-> IF sup THEN TF(TextLessT(a, b)) ELSE e.less,
      gtr    |-> IF sup THEN TF(TextLessT(b, a)) ELSE e.gtr,
      sless  |-> IF sup THEN TF(TextLessT(a, b)) ELSE e.sless,
      lemma  |-> IF sup THEN TF(LessT(a, b) <=> TextLessT(a, b)) ELSE "t",    \* the model agrees with itself here
      tless  |-> TF(SeqLess(a, b)),                     \* Go's string order is the model's byte order
      eqr    |-> TF(a = b),
      eqs    |-> TF(a = b),
      smo    |-> "t",                                   \* StringMinusOne = MinusOne(text)
      smoltb |-> TF(SeqLess(MinusOne(a), b)),
      cursor |-> IF sup THEN TF(SeqLess(MinusOne(a), b) <=> ~TextLessT(b, a)) ELSE "t"]
PairObserved(e) ==
  [rta |-> TF(e.a = e.ta), rtb |-> TF(e.b = e.tb), wf |-> TF(WellFormed(e.a) /\ WellFormed(e.b)),
   less |-> e.less, gtr |-> e.gtr, sless |-> e.sless, lemma |-> "t", tless |-> e.tless, eqr |-> e.eqr, eqs |-> e.eqs,
   smo |-> TF(e.smo = MinusOne(e.a)), smoltb |-> e.smoltb, cursor |-> "t"]
HashTag(s) == IF Class(s) # "supported" THEN ClassTag(s)
              ELSE IF NameOf(s) = SHA1 THEN "sha1" ELSE IF NameOf(s) = SHA224 THEN "sha224" ELSE "sha256"
PairTag(e) == <<HashTag(e.a), HashTag(e.b)>>
PairDiffs(e) == DiffFields(PairExpected(e), PairObserved(e))
                  \cup ProbeDiffs(e.a, e.probes, e.hp, "HasPrefix", ExpectedProbe)

(* ---- hash *)
HashExpected == [fromstring |-> "t", frombytes |-> "t", newhash |-> "t", via1 |-> "t", via224 |-> "t", via256 |-> "t",
                 wf |-> "t", matches |-> "t"]
HashObserved(e) ==
  [fromstring |-> TF(e.fromstring = e.want224), frombytes |-> TF(e.frombytes = e.want224), newhash |-> TF(e.newhash = e.want224),
   via1 |-> TF(e.via1 = e.want1), via224 |-> TF(e.via224 = e.want224), via256 |-> TF(e.via256 = e.want256),
   wf |-> TF(/\ Class(e.want1) = "supported" /\ NameOf(e.want1) = SHA1
             /\ Class(e.want224) = "supported" /\ NameOf(e.want224) = SHA224
             /\ Class(e.want256) = "supported" /\ NameOf(e.want256) = SHA256),
   matches |-> e.matches]

Diffs(e) == CASE e.ev = "str"  -> <<"str", HashTag(e.s), StrDiffs(e)>>
              [] e.ev = "pair" -> <<"pair", PairTag(e), PairDiffs(e)>>
              [] e.ev = "hash" -> <<"hash", "content", DiffFields(HashExpected, HashObserved(e))>>
              [] OTHER         -> <<e.ev, "unexpected-line", {<<"line", "-", "str|pair|hash", e.ev>>}>>

TLine == /\ l <= Len(Trace)
         /\ l' = l + 1
         /\ UNCHANGED pair
         /\ LET d == Diffs(Ev) IN d[3] # {} => PrintT(<<"VIOL", l, d[1], d[2], d[3]>>)

TNext == TLine
TSpec == TInit /\ [][TNext]_<<l, pair>>

TraceAccepted == TLCGet("stats").diameter - 1 = Len(Trace)
=============================================================================
