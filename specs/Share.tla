------------------------------- MODULE Share -------------------------------
(* C17, first half: what an UNAUTHENTICATED client may obtain through the share endpoint
   /share/<blob>?via=v1,..,vn[&assemble=1]   (doc/schema/share.md, pkg/server/share.go).

   Property level (from the statement of C17, independent of the code):
     ValidChain(<<v1..vn, r>>): v1 is a stored, undeleted, unexpired share claim; n = 0 asks for
     the claim itself; hop 1 is exactly the claim's target - a share of a search has no target, so
     NOTHING can be reached from it (only the claim itself); more hops need a transitive share and
     every further hop must be a GENUINE schema link of a stored blob: file/bytes parts
     (blobRef, bytesRef), directory "entries", static-set "members" and "mergeSets" (sub-sets of a
     large directory).  A ref that merely occurs in a non-link field (a claim value, a note, plain
     bytes) is not a link.   Served(chain) <=> ValidChain(chain) /\ the requested blob is stored.
     Conversely every blob reachable that way is served (Complete).

   Mechanism level: HandlerLoop is a transcription of shareHandler.handleGetViaSharing (the
   switch over the chain index, bytesHaveSchemaLink, the index's IsDeleted).  Two believed
   deviations of the code from the intended mechanism are isolated as switches:
     "MergeSetsNotFollowed"   bytesHaveSchemaLink looks at StaticSetMembers() only, not at
                              StaticSetMergeSets()  -> a large shared directory cannot be walked
     "ReopenForgetsDeletes"   index.New builds the deletes cache and initNeededMapsLocked wipes it
                              (H16): a re-opened index answers IsDeleted = FALSE
   With Deviations = {} the mechanism refines the property (S1); with either switch it does not (S2).

   A world is a sequence of uniform item records (ShareWorlds.tla); id 0 in a chain stands for a
   syntactically malformed ref. *)
EXTENDS ShareWorlds, FiniteSets, TLC

CONSTANTS Deviations,   \* subset of KnownDeviations
          MaxLen        \* longest chain explored by Next

KnownDeviations == {"MergeSetsNotFollowed", "ReopenForgetsDeletes"}

VARIABLES world,     \* the store: sequence of item records
          now,       \* clock, seconds after the epoch of the worlds
          istate,    \* "live" = the index that received the blobs; "reopened" = a new index over the same rows
          req,       \* last request  [chain, method, asm]
          reply      \* its outcome class
vars == <<world, now, istate, req, reply>>

SeqSet(s) == {s[k] : k \in 1..Len(s)}
Ids(W) == 1..Len(W)
StoredAt(W, x) == x \in Ids(W) /\ W[x].stored
Last(ch) == ch[Len(ch)]

---------------------------------------------------------------------------
(* The blob graph: typed link fields, and non-link mentions. *)
LinkFields == {"parts", "entries", "members", "mergeSets"}
FieldRefs(W, x, f) ==
  CASE f = "parts"     -> IF W[x].kind \in {"file", "bytes"} THEN {W[x].parts[k].ref : k \in 1..Len(W[x].parts)} ELSE {}
    [] f = "entries"   -> IF W[x].kind = "dir" THEN SeqSet(W[x].children) ELSE {}
    [] f = "members"   -> IF W[x].kind = "staticset" THEN SeqSet(W[x].children) ELSE {}
    [] f = "mergeSets" -> IF W[x].kind = "staticset" THEN SeqSet(W[x].merge) ELSE {}
Links(W, x)    == UNION {FieldRefs(W, x, f) : f \in LinkFields}
Mentions(W, x) == SeqSet(W[x].mention)

(* Deletion: x is deleted iff some stored delete claim of x is not itself deleted
   (doc/schema/delete.md; well-founded because a claim only names earlier blobs). *)
RECURSIVE Deleted(_, _)
Deleted(W, x) == \E d \in Ids(W) : /\ d > x /\ W[d].kind = "delete" /\ W[d].stored /\ W[d].target = x
                                   /\ ~Deleted(W, d)
Expired(W, t, s)   == W[s].expires # 0 /\ W[s].expires < t
IsShare(W, s)      == StoredAt(W, s) /\ W[s].kind = "share"
LiveShare(W, t, s) == IsShare(W, s) /\ ~Deleted(W, s) /\ ~Expired(W, t, s)

---------------------------------------------------------------------------
(* Property level. *)
ValidChain(W, t, ch) ==
  /\ Len(ch) >= 1
  /\ LiveShare(W, t, ch[1])
  /\ Len(ch) >= 2 => W[ch[1]].target # 0 /\ ch[2] = W[ch[1]].target      \* no target (search share): no hop
  /\ Len(ch) >= 3 => W[ch[1]].transitive
  /\ \A i \in 2..(Len(ch) - 1) : StoredAt(W, ch[i]) /\ ch[i + 1] \in Links(W, ch[i])
Served(W, t, ch) == ValidChain(W, t, ch) /\ StoredAt(W, Last(ch))

(* assemble=1 returns the CONTENTS of a file, i.e. discloses every blob under it: only for a
   transitive share.  AsmComplete: the harness can state the file's bytes (all parts stored). *)
RECURSIVE AsmComplete(_, _)
AsmComplete(W, x) ==
  /\ StoredAt(W, x)
  /\ \/ W[x].kind = "chunk" /\ W[x].mention = <<>>
     \/ /\ W[x].kind \in {"file", "bytes"}
        /\ \A k \in 1..Len(W[x].parts) : /\ W[x].parts[k].ref < x
                                         /\ W[W[x].parts[k].ref].kind \in {"chunk", "bytes"}
                                         /\ AsmComplete(W, W[x].parts[k].ref)

ReadMethods == {"GET", "HEAD"}
Methods     == {"GET", "HEAD", "POST", "PUT", "DELETE"}
(* reply classes (projection of the HTTP reply made by the driver, which knows every blob's true bytes) *)
Classes == {"exact",        \* 200, body = the bytes of the requested blob
            "asm-exact",    \* 200, body = the contents of the requested file
            "head-ok",      \* 200 to HEAD, no body, Content-Length of the blob / file
            "empty", "head-empty",   \* 200 with an empty body / Content-Length 0
            "head-wrong", "head-body", "wrong-bytes", "other-blob",   \* 200 with anything else
            "400", "401", "403", "404", "405", "5xx", "other"}
Refusals  == {"400", "401", "403"}
NoContent == Refusals \cup {"404", "405", "5xx"}

(* What the property demands of a request, as a named expectation ... *)
Expect(W, t, ch, method, asm) ==
  IF method \notin ReadMethods THEN "refused-method"
  ELSE IF ~ValidChain(W, t, ch) THEN "refused"
  ELSE IF asm THEN (IF ~W[ch[1]].transitive THEN "refused"
                    ELSE IF W[Last(ch)].kind = "file" /\ AsmComplete(W, Last(ch)) THEN "assembled"
                    ELSE "asm-error")
  ELSE IF ~StoredAt(W, Last(ch)) THEN "notfound"
  ELSE "served"
(* ... and the reply classes that satisfy it. *)
ClassesOf(e, method) ==
  CASE e = "refused-method" -> Refusals \cup {"405"}
    [] e = "refused"        -> Refusals
    [] e = "notfound"       -> {"404"}
    [] e = "served"         -> IF method = "GET" THEN {"exact"} ELSE {"head-ok"}
    [] e = "assembled"      -> IF method = "GET" THEN {"asm-exact"} ELSE {"head-ok"}
    [] e = "asm-error"      -> NoContent \cup {"empty", "head-empty"}
Allowed(W, t, ch, method, asm) == ClassesOf(Expect(W, t, ch, method, asm), method)

(* Reachability, stated without chains. *)
RECURSIVE Closure(_, _)
Closure(W, S) == LET S2 == S \cup UNION {Links(W, x) : x \in {y \in S : StoredAt(W, y)}}
                 IN IF S2 = S THEN S ELSE Closure(W, S2)
Reach(W, t, s) == IF ~(s \in Ids(W) /\ LiveShare(W, t, s)) THEN {}
                  ELSE IF W[s].target = 0 THEN {s}
                  ELSE {s, W[s].target} \cup (IF W[s].transitive THEN Closure(W, {W[s].target}) ELSE {})
Sound(W, t, ch) == Served(W, t, ch) => Last(ch) \in Reach(W, t, ch[1])
RECURSIVE ExistsServed(_, _, _, _, _)
ExistsServed(W, t, ch, b, k) ==
  \/ Last(ch) = b /\ Served(W, t, ch)
  \/ /\ k > 0 /\ StoredAt(W, Last(ch))
     /\ \E x \in (IF Len(ch) = 1 THEN {W[ch[1]].target} \ {0} ELSE Links(W, Last(ch))) :
           ExistsServed(W, t, Append(ch, x), b, k - 1)
Complete(W, t) == \A s \in Ids(W) : \A b \in {x \in Reach(W, t, s) : StoredAt(W, x)} :
                     ExistsServed(W, t, <<s>>, b, Len(W))

(* Classification of a request for signatures and coverage accounting. *)
ShareState(W, t, s) ==
  IF ~(s \in Ids(W)) THEN "malformed"
  ELSE IF ~W[s].stored THEN "absent"
  ELSE IF W[s].kind # "share" THEN "not-a-share"
  ELSE IF Deleted(W, s) THEN "deleted"
  ELSE IF Expired(W, t, s) THEN "expired"
  ELSE IF \E d \in Ids(W) : W[d].kind = "delete" /\ W[d].stored /\ W[d].target = s THEN "undeleted"
  ELSE IF W[s].expires # 0 THEN "unexpired"
  ELSE "live"
(* the path, judged as if the first blob were a live share *)
PathClass(W, ch) ==
  IF \E i \in 1..Len(ch) : ch[i] \notin Ids(W) THEN "malformed"
  ELSE IF ~IsShare(W, ch[1]) THEN "no-share"
  ELSE IF Len(ch) = 1 THEN "itself"
  ELSE IF W[ch[1]].target = 0 THEN "hop-from-search-share"
  ELSE IF ch[2] # W[ch[1]].target THEN (IF ch[2] \in Mentions(W, ch[1]) \cup Links(W, ch[1]) THEN "hop1-other-ref" ELSE "hop1-not-target")
  ELSE IF Len(ch) = 2 THEN "target"
  ELSE IF ~W[ch[1]].transitive THEN "beyond-nontransitive"
  ELSE IF \E i \in 2..(Len(ch) - 1) : ~StoredAt(W, ch[i]) THEN "via-absent"
  ELSE IF \E i \in 2..(Len(ch) - 1) : ch[i + 1] \notin Links(W, ch[i]) /\ ch[i + 1] \in Mentions(W, ch[i]) THEN "via-mention-only"
  ELSE IF \E i \in 2..(Len(ch) - 1) : ch[i + 1] \notin Links(W, ch[i]) THEN "via-no-link"
  ELSE IF \E i \in 2..(Len(ch) - 1) : ch[i + 1] \in FieldRefs(W, ch[i], "mergeSets") THEN "links+mergeSets"
  ELSE "links"

---------------------------------------------------------------------------
(* Mechanism level: shareHandler.handleGetViaSharing, line by line. *)
FollowedFields == IF "MergeSetsNotFollowed" \in Deviations THEN LinkFields \ {"mergeSets"} ELSE LinkFields
BytesHaveSchemaLink(W, x, target) == \E f \in FollowedFields : target \in FieldRefs(W, x, f)
IndexIsDeleted(W, is, x) == IF is = "reopened" /\ "ReopenForgetsDeletes" \in Deviations THEN FALSE ELSE Deleted(W, x)

RECURSIVE HandlerLoop(_, _, _, _, _)
HandlerLoop(W, t, is, ch, i) ==              \* for i, br := range fetchChain
  IF i > Len(ch) THEN "noError"
  ELSE IF i = 1 THEN                         \* case 0
    LET s == ch[1] IN
    IF IndexIsDeleted(W, is, s) THEN "shareDeleted"
    ELSE IF ~W[s].stored THEN "shareFetchFailed"
    ELSE IF W[s].kind # "share" THEN "shareBlobInvalid"
    ELSE IF Expired(W, t, s) THEN "shareExpired"
    ELSE IF Len(ch) > 1 /\ ch[2] # W[s].target THEN "shareTargetInvalid"     \* a zero Target() equals no ref
    ELSE IF Len(ch) > 2 /\ ~W[s].transitive THEN "shareNotTransitive"
    ELSE HandlerLoop(W, t, is, ch, 2)
  ELSE IF i = Len(ch) THEN HandlerLoop(W, t, is, ch, i + 1)      \* case len(fetchChain)-1: "last one is fine"
  ELSE IF ~StoredAt(W, ch[i]) THEN "viaChainFetchFailed"          \* default
  ELSE IF ~BytesHaveSchemaLink(W, ch[i], ch[i + 1]) THEN "viaChainInvalidLink"
  ELSE HandlerLoop(W, t, is, ch, i + 1)

MechOutcome(W, t, is, ch, method, asm) ==
  IF \E i \in 1..Len(ch) : ch[i] \notin Ids(W) THEN "400"         \* invalidURL / invalidVia
  ELSE IF method \notin ReadMethods THEN "400"                    \* invalidMethod
  ELSE IF HandlerLoop(W, t, is, ch, 1) # "noError" THEN "401"
  ELSE IF asm THEN (IF ~W[ch[1]].transitive THEN "401"            \* assembleNonTransitive
                    ELSE IF W[Last(ch)].kind = "file" /\ AsmComplete(W, Last(ch))
                         THEN (IF method = "GET" THEN "asm-exact" ELSE "head-ok")
                    ELSE IF ~StoredAt(W, Last(ch)) \/ W[Last(ch)].kind \in {"chunk", "file"} THEN "5xx"   \* DownloadHandler: "Can't serve file"
                    ELSE IF W[Last(ch)].kind = "dir" THEN "400"                                       \* "Not a regular file"
                    ELSE IF method = "GET" THEN "empty" ELSE "head-empty")     \* any other schema blob: empty contents
  ELSE IF ~StoredAt(W, Last(ch)) THEN "404"                       \* gethandler.ServeBlobRef
  ELSE IF method = "GET" THEN "exact" ELSE "head-ok"

---------------------------------------------------------------------------
NoReq == [chain |-> <<>>, method |-> "none", asm |-> FALSE]
Chains(W, n) == UNION {[1..k -> Ids(W)] : k \in 1..n}

Init == /\ world \in SeqSet(WorldSeq) /\ now = NowS /\ istate \in {"live", "reopened"}
        /\ req = NoReq /\ reply = "none"

(* The one action: an unauthenticated request to the share endpoint. *)
Request(ch, method, asm) ==
  /\ req' = [chain |-> ch, method |-> method, asm |-> asm]
  /\ reply' = MechOutcome(world, now, istate, ch, method, asm)
  /\ UNCHANGED <<world, now, istate>>

Next == /\ req = NoReq
        /\ \E ch \in Chains(world, MaxLen), m \in Methods, a \in BOOLEAN : Request(ch, m, a)
Spec == Init /\ [][Next]_vars

(* S: the mechanism refines the property ... *)
MechanismRefines == req # NoReq => reply \in Allowed(world, now, req.chain, req.method, req.asm)
(* ... Served <=> 200 with the exact bytes, in both directions ... *)
ServedIffExact == (req # NoReq /\ req.method = "GET" /\ ~req.asm) =>
                     (Served(world, now, req.chain) <=> reply = "exact")
(* ... and the chain predicate agrees with chain-free reachability. *)
SoundReach    == req # NoReq => Sound(world, now, req.chain)
CompleteReach == req = NoReq => Complete(world, now)
TypeOK == reply \in Classes \cup {"none"}
=============================================================================
