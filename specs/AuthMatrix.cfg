SPECIFICATION Spec
INVARIANTS TypeOK NoContentWithoutCredentials ProtectedRefuse BadIsNone CredentialsOpen
CHECK_DEADLOCK FALSE
