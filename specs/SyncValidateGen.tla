--------------------------- MODULE SyncValidateGen ---------------------------
(* Scenario enumerator for the validation / full-sync family of C19 (checks/_c19v.py, harness/cmd/c19v).  A scenario
   is an INPUT of the real system: what the source, the destination and the queue hold before the sync handler
   exists, how the handler is created (NewSyncHandler + POST mode=validate | CreateHandler with validateOnStart |
   CreateHandler with (blocking)FullSyncOnStart), and per validation round the faults (the first EnumerateBlobs call
   of one enumerator of one shard fails after `cut` blobs; queue.Set of a blob fails) and the racing writers (an
   upload through blobserver.Receive, a removal at either side, a foreign write to the destination, a second POST)
   executed right before / after the snapshot of a chosen enumeration.  Each scenario is one initial state; the
   invariant prints it as JSON.  The real handler is run on every scenario; Trace_SyncValidate validates the
   recorded lower-layer events against SyncValidate.

   The universe is the driver's: seven "core" blobs in byte order of their refs over seven shard prefixes
     blob    1        2        3        4           5           6           7
     shard   1        2        2        4           5           5           7          (3 and 6 hold no blob)
     prefix  sha1-00  sha1-7c  sha1-7c  sha224-3a   sha224-3b   sha224-3b   sha256-ff
   (first and last shard of all, two blobs in one shard twice, adjacent shards 4 and 5, three hash functions), plus
   `bulk` more blobs in shard 5.  A blob's state code:
     0 nowhere   1 source only   2 destination only   3 both   4 source + a copy of the WRONG SIZE at the destination
     5 source + queue row   6 wrong-sized copy at the destination only   7 queue row only   8 row + destination *)
EXTENDS Integers, FiniteSets, Sequences, TLC, Json

CONSTANTS Fams          \* subset of {"states", "faults", "races", "bulk", "fs", "fsfaults", "fsbig"}

VARIABLES scn
Smap == <<1, 2, 2, 4, 5, 5, 7>>
N == 7
ValCodes == {0, 1, 2, 3, 4, 5, 6}
FSCodes == {0, 1, 3, 4, 5, 7, 8}
B1 == <<1, 1, 1, 1, 1, 1, 1>>
B2 == <<3, 1, 3, 1, 3, 1, 3>>
B3 == <<1, 5, 2, 0, 4, 3, 6>>
B4 == <<5, 4, 1, 3, 1, 5, 1>>

InSrc(c) == c \in {1, 3, 4, 5}
DstZ(c) == IF c \in {2, 3, 8} THEN 1 ELSE IF c \in {4, 6} THEN 2 ELSE 0
HasRow(c) == c \in {5, 7, 8}
RECURSIVE Pick(_, _, _)
Pick(st, P(_), i) == IF i > N THEN <<>> ELSE (IF P(st[i]) THEN <<i>> ELSE <<>>) \o Pick(st, P, i + 1)
RECURSIVE DstOf(_, _)
DstOf(st, i) == IF i > N THEN <<>> ELSE (IF DstZ(st[i]) > 0 THEN << <<i, DstZ(st[i])>> >> ELSE <<>>) \o DstOf(st, i + 1)

NoRound == [faults |-> <<>>, setfail |-> <<>>, races |-> <<>>]
NoFS == [enumcut |-> -1, fetchfail |-> <<>>, recvfail |-> <<>>, big |-> 0, stall |-> FALSE, noblock |-> FALSE, up |-> 0]
Val(g, st, mode, held, rounds, bulk, where) ==
  [g |-> g, fam |-> "val", mode |-> mode, held |-> held, src |-> Pick(st, InSrc, 1), dst |-> DstOf(st, 1), rows |-> Pick(st, HasRow, 1),
   bulk |-> bulk, bulkwhere |-> where, rounds |-> rounds, fs |-> NoFS, smap |-> Smap]
FS(g, st, plan) ==
  [g |-> g, fam |-> "fs", mode |-> "fs", held |-> FALSE, src |-> Pick(st, InSrc, 1), dst |-> DstOf(st, 1), rows |-> Pick(st, HasRow, 1),
   bulk |-> 0, bulkwhere |-> "", rounds |-> <<>>, fs |-> plan, smap |-> Smap]

Window(base, i, a, b) == [k \in 1..N |-> IF k = i THEN a ELSE IF k = i + 1 THEN b ELSE base[k]]
Fault(side, p, cut) == [side |-> side, p |-> p, cut |-> cut]
Race(side, p, when, act, b, z) == [side |-> side, p |-> p, when |-> when, act |-> act, b |-> b, z |-> z]

States == {Val("states", Window(base, i, a, b), mode, TRUE, <<NoRound>>, 0, "") :
             base \in {B2, B3}, i \in 1..(N - 1), a \in ValCodes, b \in ValCodes, mode \in {"post", "cfg"}}
Faults == {Val("faults", base, "post", TRUE, <<[NoRound EXCEPT !.faults = <<Fault(side, p, cut)>>], NoRound>>, 0, "") :
             base \in {B1, B2, B3}, side \in {"s", "d"}, p \in 1..7, cut \in 0..2}
          \cup {Val("faults", base, mode, TRUE, <<[NoRound EXCEPT !.faults = <<Fault("s", p, c1), Fault("d", p, c2)>>], NoRound>>, 0, "") :
             base \in {B1, B4}, mode \in {"post", "cfg"}, p \in {2, 5}, c1 \in 0..2, c2 \in 0..2}
          \cup {Val("faults", base, "post", held, <<[NoRound EXCEPT !.setfail = <<b>>], NoRound>>, 0, "") :
             base \in {B1, B2}, b \in 1..N, held \in BOOLEAN}
Acts == {<<"up", 1>>, <<"rms", 1>>, <<"rmd", 1>>, <<"put", 1>>, <<"put", 2>>, <<"post", 1>>}
Races == {Val("races", base, mode, held, <<[NoRound EXCEPT !.races = <<Race(side, Smap[b], when, a[1], b, a[2])>>], NoRound>>, 0, "") :
             base \in {B1, B3, B4}, mode \in {"post"}, held \in BOOLEAN, b \in 1..N, side \in {"s", "d"},
             when \in {"before", "after"}, a \in Acts}
         \cup {Val("races", base, "cfg", TRUE, <<[NoRound EXCEPT !.races = <<Race(side, Smap[b], when, a[1], b, a[2])>>]>>, 0, "") :
             base \in {B3}, b \in 1..N, side \in {"s", "d"}, when \in {"before", "after"}, a \in Acts}
Bulk == {Val("bulk", base, "post", TRUE, <<[NoRound EXCEPT !.faults = f]>>, n, where) :
             base \in {B1, <<0, 0, 0, 0, 0, 0, 0>>}, n \in {60, 63, 64, 65, 66, 70}, where \in {"s", "d", "sd"},
             f \in {<<>>, <<Fault("s", 5, 0)>>, <<Fault("d", 5, 0)>>, <<Fault("d", 5, 3)>>}}
FSs == {FS("fs", Window(base, i, a, b), [NoFS EXCEPT !.noblock = nb, !.up = IF nb THEN (IF InSrc(a) THEN 0 ELSE i) ELSE 0]) :
             base \in {B1, <<1, 7, 3, 8, 4, 5, 0>>}, i \in 1..(N - 1), a \in FSCodes, b \in FSCodes, nb \in BOOLEAN}
FSFaults == {FS("fsfaults", base, [NoFS EXCEPT !.enumcut = ec, !.fetchfail = ff, !.recvfail = rf, !.noblock = nb]) :
             base \in {B1, <<1, 5, 3, 5, 4, 1, 5>>}, ec \in -1..3, ff \in {<<>>, <<2>>, <<6>>}, rf \in {<<>>, <<2>>, <<4>>}, nb \in BOOLEAN}
FSBig == {FS("fsbig", B1, [NoFS EXCEPT !.big = n, !.stall = TRUE]) : n \in {1100}}

Init == \/ "states" \in Fams /\ scn \in States
        \/ "faults" \in Fams /\ scn \in Faults
        \/ "races" \in Fams /\ scn \in Races
        \/ "bulk" \in Fams /\ scn \in Bulk
        \/ "fs" \in Fams /\ scn \in FSs
        \/ "fsfaults" \in Fams /\ scn \in FSFaults
        \/ "fsbig" \in Fams /\ scn \in FSBig
Next == UNCHANGED scn
Spec == Init /\ [][Next]_scn
Emit == PrintT(<<"SCN", ToJson(scn)>>)
=============================================================================
