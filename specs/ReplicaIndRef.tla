--------------------------- MODULE ReplicaIndRef ---------------------------
(* Anti-drift, direction A (soundness of the unbounded leg): every behaviour of the REAL module Replica.tla -
   reads included, they are stuttering steps of ReplicaInd - is a behaviour of ReplicaInd, and the inductive
   invariant proved by Apalache holds in every reachable state of Replica.tla itself (bounded model, TLC).
   Constants and variables of ReplicaInd are substituted by the homonymous ones of Replica. *)
EXTENDS Replica
Ind == INSTANCE ReplicaInd
IndSpec == Ind!Init /\ [][Ind!Next]_(Ind!vars)
IndInvOnReplica == Ind!IndInv
=============================================================================
