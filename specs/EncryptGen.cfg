SPECIFICATION Spec
CONSTANTS
  Tier = "quick"
  Limit = 100
  Full = 10000
INVARIANT Emit
CHECK_DEADLOCK FALSE
