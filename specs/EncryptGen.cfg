SPECIFICATION Spec
CONSTANTS
  Tier = "quick"
INVARIANT Emit
CHECK_DEADLOCK FALSE
