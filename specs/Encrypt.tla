------------------------------ MODULE Encrypt ------------------------------
(* pkg/blobserver/encrypt (encrypt.go, meta.go): every plaintext blob p is stored as an age ciphertext
   in `blobs`; one-entry meta blobs "p/size/cipher-ref" (age-encrypted too) go to `meta`; a LOCAL,
   rebuildable index maps p -> cipher-ref.  Small meta blobs are tracked in an in-memory heap
   (smallMeta); when more than Limit (SmallMetaCountLimit = 100 in the code) are tracked, recordMeta pops
   them all and starts a goroutine (makePackedMetaBlob) that reads the index rows of their plains,
   uploads ONE packed meta blob, records it in the heap again and only THEN deletes the small ones.
   On start-up all meta blobs are scanned (readAllMetaBlobs): index rows are set, every meta blob is
   recorded in the heap (which may start a compaction right there).

   Full (FullMetaBlobSize = 10000 in the code) bounds the growth of packed meta blobs (meta.go recordMeta /
   makePackedMetaBlob); sizes are LINE counts n (a meta blob packed from overlapping meta blobs - a packed one
   and the small ones it was made of, both still there after a crash between upload and removal - repeats
   lines, and the code counts them):
     - recordMeta ignores a meta blob of MORE than Full lines (it is never compacted again);
     - the gather loop pops the tracked meta blobs, fewest lines first (ties in the heap's order: any),
       appends lines and ref to the current group and, as soon as the group holds MORE than Full lines,
       starts a job for it and begins a new group; at the end a group of one meta blob is pushed back on the
       heap, a group of several becomes a job;
     - a job records the packed meta blob it uploaded only if it has FEWER than Full lines (so one of exactly
       Full lines is tracked again only after the next start-up scan).

   Identity survives abstraction: age is randomised, so every ciphertext and every meta blob is a NEW
   object with a fresh id (its name); re-packing the same plains yields a different blob.

   One action per lower-layer call of the code:
     RecvStart(p)   index.Get (duplicate check: a known blob is acknowledged without any write)
     RecvBlob       blobs.ReceiveBlob(ciphertext)
     RecvMeta       meta.ReceiveBlob(single meta) + recordMeta (push, possibly pick = start a job)
     RecvIndex      index.Set
     RecvAck        the public call returns
     JobGetOk / JobAbandon   the job reads the index rows of its plains; a row that is not there yet
                    (the receive that triggered the job has not reached index.Set) makes the job give up -
                    the small meta blobs stay, untracked, until the next start-up
     JobUpload      meta.ReceiveBlob(packed meta) + recordMeta
     JobDelete      meta.RemoveBlobs(small metas)
     Crash          the process dies: heap, jobs and the call in flight are gone; the local index survives
                    or is lost (wiped)
     transient failures of a lower-layer call (at most MaxFault of them; the process goes on).  `eff`: the call
     took effect although it reported an error.  What the code does today:
       RecvStartErr(p)      the duplicate check's index.Get fails: the blob is taken for a new one
       RecvBlobFail(eff)    blobs.ReceiveBlob fails: ReceiveBlob returns the error (eff: an orphan ciphertext stays)
       RecvMetaFail(eff)    meta.ReceiveBlob of the one-entry meta blob fails: ReceiveBlob returns the error BEFORE
                            recordMeta (eff: the meta blob is stored but not tracked until the next start-up)
       RecvIndexFail(eff)   index.Set fails: ReceiveBlob returns the error, not acknowledged; ciphertext and meta blob
                            stay, the meta blob is tracked (a job that packs it finds no row and gives up)
       JobGetFail(j)        an index.Get of the job fails: the job gives up, every small meta blob stays (untracked)
       JobUploadFail(j,eff) the packed meta's ReceiveBlob fails: the job gives up, nothing is deleted, nothing recorded
       JobDeleteFail(j,D)   RemoveBlobs fails having removed D (nothing / some / all of them): the job ends
     RestartBegin / ScanOne(m) / RestartEnd    start-up scan of all meta blobs
     Tamper / TamperedRestart / Restore        an attacker with write access to the wrapped stores
                    damages (flip, truncate, extend) or substitutes (swap with another blob of the same
                    store, swap a ciphertext with a meta blob) one stored object; a fresh instance is
                    started on it.  Encryption is ideal: a damaged age file never decrypts, an authentic
                    one decrypts to exactly what was encrypted - under whatever name it is stored.

   Deviations (named departures from the intended mechanism; {} is the mechanism as designed):
     "DeleteBeforeUpload"     the job deletes the small meta blobs before it uploads the packed one
     "FlushDropsCarriedMeta"  the gather loop closes a group BEFORE it would exceed Full: the meta blob just
                              popped is put on the closing group's delete list while its lines are carried
                              into the next group; a last group without delete list is dropped - a meta blob
                              is deleted by a job whose packed blob does not hold its entries
     "IndexBeforeMeta"        ReceiveBlob sets the index row before the meta blob is stored
     "NoDigestCheck"          Fetch does not compare the fetched ciphertext with the ref in the index row
     "CompactionSkipsFailedEntry" a job whose index.Get of an entry fails (error or no row) leaves that entry out,
                              uploads the packed meta blob without it and deletes ALL the small meta blobs
     "MetaShapedBlobAccepted" no domain separation between blob and meta ciphertexts: a user blob whose
                              PLAINTEXT is a well-formed meta file is accepted as a meta blob when its
                              ciphertext is found in the meta store *)
EXTENDS Naturals, FiniteSets

CONSTANTS Plain,        \* plaintext blobs (positive naturals: ranks)
          Limit,        \* SmallMetaCountLimit
          Full,         \* FullMetaBlobSize
          Witness,      \* "none" | name of a reachability witness (see WitnessStep)
          Macro,        \* BOOLEAN: also take k complete receive cycles as ONE step (RecvBatch; adds no state)
          MaxId,        \* bound on fresh object ids
          MaxJobs,      \* bound on concurrently running compaction goroutines
          MaxCrash,     \* bound on the number of crashes explored
          MaxFault,     \* bound on the number of transient lower-layer failures explored
          Forge,        \* SUBSET Plain: blobs whose plaintext is a well-formed meta file (crafted by an attacker)
          TamperOn,     \* BOOLEAN: explore the tamper actions
          Deviations

VARIABLES enc,      \* objects in `blobs`: set of [id, p]           (name = id, authentic ciphertext of p)
          metas,    \* objects in `meta`:  set of [id, ents, n], ents a set of [p, c] (plain -> cipher id), n lines
          heap,     \* smallMeta: set of [id, plains, n]
          index,    \* local index: set of [p, c], at most one row per p
          acked,    \* plains whose ReceiveBlob returned success
          recv,     \* the ReceiveBlob in flight
          jobs,     \* makePackedMetaBlob goroutines: set of [plains, n, del, pc, second]
          mode,     \* "up" | "down" | "scan" | "failed" (start-up scan returned an error)
          todo,     \* meta blobs the running start-up scan has not processed yet
          nextId,
          tam,      \* the tampering in force
          fents,    \* what the crafted blobs say: set of [f, p, c]
          ncrash,
          nfault    \* transient lower-layer failures so far

evars == <<enc, metas, heap, index, acked, recv, jobs, mode, todo, nextId, tam, fents, ncrash, nfault>>

NoRecv == [p |-> 0, pc |-> "idle", c |-> 0]
NoTam == [target |-> "none", kind |-> "none", a |-> 0, b |-> 0]
Damage == {"flip", "truncate", "extend"}
TamperKinds == Damage \cup {"swap", "xswap"}
TamperTargets == {"blob", "meta"}
SoundOutcomes == {"orig", "fail"}

Has(d) == d \in Deviations
Ids(S) == {x.id : x \in S}
Dom(ix) == {e.p : e \in ix}
Functional(ix) == Cardinality(Dom(ix)) = Cardinality(ix)        \* no two rows with the same plain
OverrideD(ix, es, d) == {e \in ix : e.p \notin d} \cup es       \* (TLC evaluates an argument once, a definition at every use)
Override(ix, es) == OverrideD(ix, es, Dom(es))
NoneOf(ix, S) == {e \in ix : e.p \in S} = {}                     \* no row of ix for a plain of S
SubsetEq(S, T) == Cardinality(S \cup T) = Cardinality(T)         \* S \subseteq T for finite sets, n log n for TLC
PlainsOf(m) == Dom(m.ents)
AllEnts(M) == UNION {m.ents : m \in M}
Lookup(ix, p) == (CHOOSE e \in ix : e.p = p).c

(* recordMeta(m), meta.go: ignore a meta blob of more than Full lines; push; more than Limit tracked => pop
   everything, fewest lines first, into groups that are closed as soon as they exceed Full lines. *)
Job(P, n, D) == [plains |-> P, n |-> n, del |-> D, pc |-> "get", second |-> FALSE]
HeapEl(i, P, n) == [id |-> i, plains |-> P, n |-> n]
TheOne(D) == CHOOSE d \in D : TRUE

(* the orders in which heap.Pop may deliver the set h: fewest lines first, ties in any order *)
Orders(h) == LET k == Cardinality(h) IN
             {s \in [1..k -> h] : \A i, j \in 1..k : i < j => (s[i] # s[j] /\ s[i].n <= s[j].n)}

(* the loop of recordMeta over the pop order s[i..k]; P, n, D: lines (as a set of plains), line count and
   delete list of the open group; J: jobs started so far.  Result: the jobs and what is pushed back. *)
RECURSIVE Gather(_, _, _, _, _, _, _)
Gather(s, i, k, P, n, D, J) ==
  IF i > k
    THEN [jobs |-> IF Cardinality(D) > 1 THEN J \cup {Job(P, n, D)} ELSE J,
          left |-> IF Cardinality(D) = 1 THEN {HeapEl(TheOne(D), P, n)} ELSE {}]
    ELSE LET m == s[i] IN
         IF Has("FlushDropsCarriedMeta")
           THEN IF n + m.n > Full
                  THEN Gather(s, i + 1, k, m.plains, m.n, {}, J \cup {Job(P, n, D \cup {m.id})})
                  ELSE Gather(s, i + 1, k, P \cup m.plains, n + m.n, D \cup {m.id}, J)
           ELSE IF n + m.n > Full
                  THEN Gather(s, i + 1, k, {}, 0, {}, J \cup {Job(P \cup m.plains, n + m.n, D \cup {m.id})})
                  ELSE Gather(s, i + 1, k, P \cup m.plains, n + m.n, D \cup {m.id}, J)

(* the possible results [heap, jobs] of recordMeta(m) with h tracked and js running *)
RecordOutcomes(h, js, m) ==
  IF m.n > Full THEN {[heap |-> h, jobs |-> js]}
  ELSE IF Cardinality(h \cup {m}) <= Limit THEN {[heap |-> h \cup {m}, jobs |-> js]}
  ELSE {[heap |-> g.left, jobs |-> js \cup g.jobs] :
          g \in {Gather(s, 1, Cardinality(h \cup {m}), {}, 0, {}, {}) : s \in Orders(h \cup {m})}}
Record(h, js, m) == \E o \in RecordOutcomes(h, js, m) :
                      Cardinality(o.jobs) <= MaxJobs /\ heap' = o.heap /\ jobs' = o.jobs

EInit == /\ enc = {} /\ metas = {} /\ heap = {} /\ index = {} /\ acked = {} /\ recv = NoRecv /\ jobs = {}
         /\ mode = "up" /\ todo = {} /\ nextId = 1 /\ tam = NoTam /\ fents = {} /\ ncrash = 0 /\ nfault = 0

Serving == mode = "up" /\ tam = NoTam

(* ------------------------------------------------------------------ ReceiveBlob *)
AfterBlob == IF Has("IndexBeforeMeta") THEN "index" ELSE "meta"
AfterMeta == IF Has("IndexBeforeMeta") THEN "ack" ELSE "index"
AfterIndex == IF Has("IndexBeforeMeta") THEN "meta" ELSE "ack"

RecvStart(p) ==
  /\ Serving /\ recv = NoRecv
  /\ IF p \in Dom(index)
       THEN acked' = acked \cup {p} /\ UNCHANGED <<recv, fents, ncrash, nfault>>          \* "duplicated blob received"
       ELSE /\ recv' = [p |-> p, pc |-> "blob", c |-> 0]
            /\ acked' = acked
            /\ IF p \in Forge      \* the attacker crafts its content now: "victim v is stored as the ciphertext of w"
                 THEN \E v \in Dom(index), w \in Dom(index) :
                         v # w /\ fents' = {x \in fents : x.f # p} \cup {[f |-> p, p |-> v, c |-> Lookup(index, w)]}
                 ELSE fents' = fents
  /\ UNCHANGED <<enc, metas, heap, index, jobs, mode, todo, nextId, tam, ncrash, nfault>>

RecvBlob ==
  /\ mode = "up" /\ recv.pc = "blob" /\ nextId <= MaxId
  /\ enc' = enc \cup {[id |-> nextId, p |-> recv.p]}
  /\ recv' = [recv EXCEPT !.pc = AfterBlob, !.c = nextId]
  /\ nextId' = nextId + 1
  /\ UNCHANGED <<metas, heap, index, acked, jobs, mode, todo, tam, fents, ncrash, nfault>>

RecvMeta ==
  /\ mode = "up" /\ recv.pc = "meta" /\ nextId <= MaxId
  /\ metas' = metas \cup {[id |-> nextId, ents |-> {[p |-> recv.p, c |-> recv.c]}, n |-> 1]}
  /\ Record(heap, jobs, HeapEl(nextId, {recv.p}, 1))
  /\ recv' = [recv EXCEPT !.pc = AfterMeta]
  /\ nextId' = nextId + 1
  /\ UNCHANGED <<enc, index, acked, mode, todo, tam, fents, ncrash, nfault>>

RecvIndex ==
  /\ mode = "up" /\ recv.pc = "index"
  /\ index' = Override(index, {[p |-> recv.p, c |-> recv.c]})
  /\ recv' = [recv EXCEPT !.pc = AfterIndex]
  /\ UNCHANGED <<enc, metas, heap, acked, jobs, mode, todo, nextId, tam, fents, ncrash, nfault>>

RecvAck ==
  /\ mode = "up" /\ recv.pc = "ack"
  /\ acked' = acked \cup {recv.p}
  /\ recv' = NoRecv
  /\ UNCHANGED <<enc, metas, heap, index, jobs, mode, todo, nextId, tam, fents, ncrash, nfault>>

(* k complete receive cycles ps[1..k] (new blobs, nothing of the receive side interleaved) as ONE step: exactly
   what k x (RecvStart, RecvBlob, RecvMeta, RecvIndex, RecvAck) do, jobs not moving meanwhile.  A macro step for
   trace validation of long histories (one trace line per run of undisturbed receives); with Macro = TRUE the
   model checker takes it as well and must find the same reachable states as without. *)
RECURSIVE FoldRecord(_, _, _, _, _)
FoldRecord(h, js, els, i, k) ==
  IF i > k THEN {[heap |-> h, jobs |-> js]}
  ELSE UNION {FoldRecord(o.heap, o.jobs, els, i + 1, k) :
                o \in {x \in RecordOutcomes(h, js, els[i]) : Cardinality(x.jobs) <= MaxJobs}}

RecvBatch(ps, k) ==
  /\ Serving /\ recv = NoRecv /\ k >= 1 /\ nextId + 2 * k - 1 <= MaxId
  /\ NoneOf(index, {ps[i] : i \in 1..k})
  /\ Cardinality({ps[i] : i \in 1..k}) = k /\ \A i \in 1..k : ps[i] \notin Forge
  /\ LET C(i) == nextId + 2 * (i - 1)
         M(i) == nextId + 2 * (i - 1) + 1 IN
     /\ enc' = enc \cup {[id |-> C(i), p |-> ps[i]] : i \in 1..k}
     /\ metas' = metas \cup {[id |-> M(i), ents |-> {[p |-> ps[i], c |-> C(i)]}, n |-> 1] : i \in 1..k}
     /\ index' = index \cup {[p |-> ps[i], c |-> C(i)] : i \in 1..k}
     /\ \E o \in FoldRecord(heap, jobs, [i \in 1..k |-> HeapEl(M(i), {ps[i]}, 1)], 1, k) :
           heap' = o.heap /\ jobs' = o.jobs
  /\ acked' = acked \cup {ps[i] : i \in 1..k}
  /\ nextId' = nextId + 2 * k
  /\ UNCHANGED <<recv, mode, todo, tam, fents, ncrash, nfault>>

(* ------------------------------------------------------------------ makePackedMetaBlob *)
First(c) == IF Has("DeleteBeforeUpload") THEN (IF c = "a" THEN "delete" ELSE "upload")
                                         ELSE (IF c = "a" THEN "upload" ELSE "delete")
Running == mode \in {"up", "scan"}
(* what is left of `js` when job j has finished its current step *)
Advance(js, j) == IF j.second THEN js \ {j}
                  ELSE (js \ {j}) \cup {[j EXCEPT !.pc = First("b"), !.second = TRUE]}

JobGetOk(j) ==
  /\ Running /\ j \in jobs /\ j.pc = "get" /\ SubsetEq(j.plains, Dom(index))
  /\ jobs' = (jobs \ {j}) \cup {[j EXCEPT !.pc = First("a")]}
  /\ UNCHANGED <<enc, metas, heap, index, acked, recv, mode, todo, nextId, tam, fents, ncrash, nfault>>

JobAbandon(j) ==
  /\ ~Has("CompactionSkipsFailedEntry")
  /\ Running /\ j \in jobs /\ j.pc = "get" /\ ~SubsetEq(j.plains, Dom(index))
  /\ jobs' = jobs \ {j}
  /\ UNCHANGED <<enc, metas, heap, index, acked, recv, mode, todo, nextId, tam, fents, ncrash, nfault>>

(* pcs: the job states from which the upload may be taken (the trace spec folds the silent index reads in) *)
JobUploadFrom(j, pcs) ==
  /\ Running /\ j \in jobs /\ j.pc \in pcs /\ SubsetEq(j.plains, Dom(index)) /\ nextId <= MaxId
  /\ LET j1 == [j EXCEPT !.pc = "upload"]
         rest == Advance((jobs \ {j}) \cup {j1}, j1) IN
     /\ metas' = metas \cup {[id |-> nextId, ents |-> {e \in index : e.p \in j.plains}, n |-> j.n]}
     /\ IF j.n < Full THEN Record(heap, rest, HeapEl(nextId, j.plains, j.n))
                      ELSE heap' = heap /\ jobs' = rest
  /\ nextId' = nextId + 1
  /\ UNCHANGED <<enc, index, acked, recv, mode, todo, tam, fents, ncrash, nfault>>
JobUpload(j) == JobUploadFrom(j, {"upload"})

JobDelete(j) ==
  /\ Running /\ j \in jobs /\ j.pc = "delete"
  /\ metas' = {m \in metas : m.id \notin j.del}
  /\ jobs' = Advance(jobs, j)
  /\ UNCHANGED <<enc, heap, index, acked, recv, mode, todo, nextId, tam, fents, ncrash, nfault>>

(* ------------------------------------------------------------------ transient lower-layer failures *)
Fault == nfault < MaxFault /\ nfault' = nfault + 1
Skips == Has("CompactionSkipsFailedEntry")

(* the duplicate check fails: whatever the index holds, the blob is received as a new one *)
RecvStartErr(p) ==
  /\ Serving /\ recv = NoRecv /\ Fault /\ p \notin Forge
  /\ recv' = [p |-> p, pc |-> "blob", c |-> 0]
  /\ UNCHANGED <<enc, metas, heap, index, acked, jobs, mode, todo, nextId, tam, fents, ncrash>>

RecvBlobFail(eff) ==
  /\ mode = "up" /\ recv.pc = "blob" /\ Fault
  /\ (IF eff THEN nextId <= MaxId /\ enc' = enc \cup {[id |-> nextId, p |-> recv.p]} /\ nextId' = nextId + 1
             ELSE UNCHANGED <<enc, nextId>>)
  /\ recv' = NoRecv
  /\ UNCHANGED <<metas, heap, index, acked, jobs, mode, todo, tam, fents, ncrash>>

(* ReceiveBlob returns before recordMeta: a meta blob that was stored all the same is not tracked *)
RecvMetaFail(eff) ==
  /\ mode = "up" /\ recv.pc = "meta" /\ Fault
  /\ (IF eff THEN /\ nextId <= MaxId /\ nextId' = nextId + 1
                  /\ metas' = metas \cup {[id |-> nextId, ents |-> {[p |-> recv.p, c |-> recv.c]}, n |-> 1]}
             ELSE UNCHANGED <<metas, nextId>>)
  /\ recv' = NoRecv
  /\ UNCHANGED <<enc, heap, index, acked, jobs, mode, todo, tam, fents, ncrash>>

RecvIndexFail(eff) ==
  /\ mode = "up" /\ recv.pc = "index" /\ Fault
  /\ index' = IF eff THEN Override(index, {[p |-> recv.p, c |-> recv.c]}) ELSE index
  /\ recv' = NoRecv
  /\ UNCHANGED <<enc, metas, heap, acked, jobs, mode, todo, nextId, tam, fents, ncrash>>

(* an index read of the job fails for plain p: the job gives up (everything stays); with the deviation it leaves
   the line out and goes on *)
JobGetFail(j, p) ==
  /\ Running /\ j \in jobs /\ j.pc = "get" /\ p \in j.plains /\ Fault
  /\ jobs' = IF Skips THEN (jobs \ {j}) \cup {[j EXCEPT !.plains = j.plains \ {p}, !.n = j.n - 1]}
                       ELSE jobs \ {j}
  /\ UNCHANGED <<enc, metas, heap, index, acked, recv, mode, todo, nextId, tam, fents, ncrash>>

(* the deviation, for a row that is not there (yet): left out as well *)
JobSkipMissing(j) ==
  /\ Skips /\ Running /\ j \in jobs /\ j.pc = "get" /\ ~SubsetEq(j.plains, Dom(index))
  /\ LET P == j.plains \cap Dom(index) IN
     jobs' = (jobs \ {j}) \cup {[j EXCEPT !.plains = P, !.n = j.n - Cardinality(j.plains \ P)]}
  /\ UNCHANGED <<enc, metas, heap, index, acked, recv, mode, todo, nextId, tam, fents, ncrash, nfault>>

JobUploadFailFrom(j, pcs, eff) ==
  /\ Running /\ j \in jobs /\ j.pc \in pcs /\ SubsetEq(j.plains, Dom(index)) /\ Fault
  /\ (IF eff THEN /\ nextId <= MaxId /\ nextId' = nextId + 1
                  /\ metas' = metas \cup {[id |-> nextId, ents |-> {e \in index : e.p \in j.plains}, n |-> j.n]}
             ELSE UNCHANGED <<metas, nextId>>)
  /\ jobs' = jobs \ {j}
  /\ UNCHANGED <<enc, heap, index, acked, recv, mode, todo, tam, fents, ncrash>>
JobUploadFail(j, eff) == JobUploadFailFrom(j, {"upload"}, eff)

(* RemoveBlobs reports an error having removed the meta blobs D \subseteq j.del; the job goes on (it is its last step) *)
JobDeleteFail(j, D) ==
  /\ Running /\ j \in jobs /\ j.pc = "delete" /\ D \subseteq j.del /\ Fault
  /\ metas' = {m \in metas : m.id \notin D}
  /\ jobs' = Advance(jobs, j)
  /\ UNCHANGED <<enc, heap, index, acked, recv, mode, todo, nextId, tam, fents, ncrash>>

FaultStep == \/ \E p \in Plain : RecvStartErr(p)
             \/ \E eff \in BOOLEAN : RecvBlobFail(eff)
             \/ \E eff \in BOOLEAN : RecvMetaFail(eff)
             \/ \E eff \in BOOLEAN : RecvIndexFail(eff)
             \/ \E j \in jobs, p \in Plain : JobGetFail(j, p)
             \/ \E j \in jobs : JobSkipMissing(j)
             \/ \E j \in jobs, eff \in BOOLEAN : JobUploadFail(j, eff)
             \/ \E j \in jobs, D \in SUBSET Ids(metas) : JobDeleteFail(j, D)

(* ------------------------------------------------------------------ crash, start-up *)
Crash ==
  /\ mode \in {"up", "scan"} /\ tam = NoTam /\ ncrash < MaxCrash
  /\ mode' = "down" /\ heap' = {} /\ jobs' = {} /\ recv' = NoRecv /\ todo' = {}
  /\ index' \in {index, {}}
  /\ ncrash' = ncrash + 1
  /\ UNCHANGED <<enc, metas, acked, nextId, tam, fents, nfault>>

RestartBegin ==
  /\ mode = "down" /\ tam = NoTam
  /\ mode' = "scan" /\ todo' = metas
  /\ UNCHANGED <<enc, metas, heap, index, acked, recv, jobs, nextId, tam, fents, ncrash, nfault>>

ScanOne(m) ==
  /\ mode = "scan" /\ m \in todo
  /\ Record(heap, jobs, HeapEl(m.id, PlainsOf(m), m.n))
  /\ index' = Override(index, m.ents)
  /\ todo' = todo \ {m}
  /\ UNCHANGED <<enc, metas, acked, recv, mode, nextId, tam, fents, ncrash, nfault>>

RestartEnd ==
  /\ mode = "scan" /\ todo = {}
  /\ mode' = "up"
  /\ UNCHANGED <<enc, metas, heap, index, acked, recv, jobs, todo, nextId, tam, fents, ncrash, nfault>>

(* ------------------------------------------------------------------ tampering *)
Quiescent == mode = "up" /\ recv = NoRecv /\ jobs = {}

Tamper(target, kind, a, b) ==
  /\ TamperOn /\ Quiescent /\ tam = NoTam
  /\ target \in TamperTargets /\ kind \in TamperKinds
  /\ CASE target = "blob" /\ kind \in Damage   -> a \in Ids(enc) /\ b = 0
       [] target = "blob" /\ kind = "swap"     -> a \in Ids(enc) /\ b \in Ids(enc) \ {a}
       [] target = "blob" /\ kind = "xswap"    -> a \in Ids(enc) /\ b \in Ids(metas)     \* ciphertext a <-> meta blob b
       [] target = "meta" /\ kind \in Damage   -> a \in Ids(metas) /\ b = 0
       [] target = "meta" /\ kind = "swap"     -> a \in Ids(metas) /\ b \in Ids(metas) \ {a}
       [] OTHER -> FALSE
  /\ tam' = [target |-> target, kind |-> kind, a |-> a, b |-> b]
  /\ mode' = "down" /\ heap' = {}
  /\ index' \in {index, {}}          \* the fresh instance runs with the old local index or with a wiped one
  /\ UNCHANGED <<enc, metas, acked, recv, jobs, todo, nextId, fents, ncrash, nfault>>

PlainOfCipher(c) == (CHOOSE x \in enc : x.id = c).p
EntsOfMeta(i) == (CHOOSE m \in metas : m.id = i).ents

(* what is found under the name of ciphertext c / of meta blob i *)
BlobView(c) ==
  IF tam.target = "blob" /\ tam.kind \in Damage /\ tam.a = c THEN [auth |-> FALSE, kind |-> "blob", of |-> c]
  ELSE IF tam.target = "blob" /\ tam.kind = "swap" /\ c \in {tam.a, tam.b}
         THEN [auth |-> TRUE, kind |-> "blob", of |-> IF c = tam.a THEN tam.b ELSE tam.a]
  ELSE IF tam.kind = "xswap" /\ tam.a = c THEN [auth |-> TRUE, kind |-> "meta", of |-> tam.b]
  ELSE [auth |-> TRUE, kind |-> "blob", of |-> c]

MetaView(i) ==
  IF tam.target = "meta" /\ tam.kind \in Damage /\ tam.a = i THEN [ok |-> FALSE, ents |-> {}]
  ELSE IF tam.target = "meta" /\ tam.kind = "swap" /\ i \in {tam.a, tam.b}
         THEN [ok |-> TRUE, ents |-> EntsOfMeta(IF i = tam.a THEN tam.b ELSE tam.a)]
  ELSE IF tam.kind = "xswap" /\ tam.b = i      \* the ciphertext of a user blob sits in the meta store
         THEN LET pa == PlainOfCipher(tam.a) IN
              IF pa \in Forge /\ Has("MetaShapedBlobAccepted") /\ \E x \in fents : x.f = pa
                THEN [ok |-> TRUE, ents |-> {[p |-> x.p, c |-> x.c] : x \in {y \in fents : y.f = pa}}]
                ELSE [ok |-> FALSE, ents |-> {}]      \* its plaintext does not start with the meta header
  ELSE [ok |-> TRUE, ents |-> EntsOfMeta(i)]

ScannedEnts == UNION {MetaView(i).ents : i \in Ids(metas)}

(* the start-up scan over the tampered stores, atomically; the scan order decides between conflicting rows *)
TamperedRestart ==
  /\ mode = "down" /\ tam # NoTam
  /\ IF \E i \in Ids(metas) : ~MetaView(i).ok
       THEN mode' = "failed" /\ index' = index
       ELSE /\ mode' = "up"
            /\ index' \in {ix \in SUBSET (ScannedEnts \cup index) :
                             /\ Functional(ix)
                             /\ Dom(ix) = Dom(ScannedEnts \cup index)
                             /\ \A e \in ix : e.p \in Dom(ScannedEnts) => e \in ScannedEnts}
  /\ UNCHANGED <<enc, metas, heap, acked, recv, jobs, todo, nextId, tam, fents, ncrash, nfault>>

Restore ==
  /\ tam # NoTam /\ mode \in {"up", "failed"}
  /\ tam' = NoTam /\ mode' = "down" /\ index' = {}
  /\ UNCHANGED <<enc, metas, heap, acked, recv, jobs, todo, nextId, fents, ncrash, nfault>>

(* Fetch(p) as the code does it: index row, fetch the ciphertext, compare its digest with the row, decrypt *)
FetchOutcome(p) ==
  IF mode # "up" \/ p \notin Dom(index) THEN "fail"
  ELSE LET c == Lookup(index, p) IN
       IF c \notin Ids(enc) THEN "fail"
       ELSE LET v == BlobView(c) IN
            IF ~v.auth THEN "fail"
            ELSE IF v.kind # "blob" \/ v.of # c
                   THEN IF Has("NoDigestCheck")
                          THEN (IF v.kind = "blob" /\ PlainOfCipher(v.of) = p THEN "orig" ELSE "wrong")
                          ELSE "fail"
                   ELSE IF PlainOfCipher(c) = p THEN "orig" ELSE "wrong"

MacroStep == Macro /\ \E p, q \in Plain : p # q /\ RecvBatch(<<p, q>>, 2)
ENext == \/ \E p \in Plain : RecvStart(p)
         \/ RecvBlob \/ RecvMeta \/ RecvIndex \/ RecvAck
         \/ MacroStep
         \/ \E j \in jobs : JobGetOk(j)
         \/ \E j \in jobs : JobAbandon(j)
         \/ \E j \in jobs : JobUpload(j)
         \/ \E j \in jobs : JobDelete(j)
         \/ FaultStep
         \/ Crash \/ RestartBegin \/ RestartEnd
         \/ \E m \in todo : ScanOne(m)
         \/ \E t \in TamperTargets, k \in TamperKinds, a \in 1..MaxId, b \in 0..MaxId : Tamper(t, k, a, b)
         \/ TamperedRestart \/ Restore
ESpec == EInit /\ [][ENext]_evars

-----------------------------------------------------------------------------
(* The wrapped stores alone determine the map, at every instant: every acknowledged plain ref is listed in
   at least one stored meta blob, and the ciphertext that entry names is stored and is a ciphertext of it. *)
ListedIn(M, E, p) == \E m \in M : \E e \in m.ents : e.p = p /\ [id |-> e.c, p |-> p] \in E
Recoverable == \A p \in acked : ListedIn(metas, enc, p)

(* After a start-up the index is the acknowledged map: a row per acknowledged ref, every row backed by a
   stored meta entry and naming a stored ciphertext of its plain. *)
IndexRight == Serving =>
  /\ Functional(index)
  /\ acked \subseteq Dom(index)
  /\ \A e \in index : [id |-> e.c, p |-> e.p] \in enc
(* (a transient failure can leave two ciphertexts of one plain behind - a failed duplicate check, a failed index.Set
   and the client's retry: the index row and the meta entries may then name different ciphertexts of the same plain) *)
IndexBackedByMeta == Serving => IF nfault = 0 THEN index \subseteq AllEnts(metas)
                                              ELSE \A e \in index : ListedIn(metas, enc, e.p)

(* Every fetch returns exactly the original plaintext or fails - whatever was done to the wrapped stores. *)
FetchSound == \A p \in Plain : FetchOutcome(p) \in SoundOutcomes
AckedFetchable == Serving => \A p \in acked : FetchOutcome(p) = "orig"

(* a meta blob disappears only when every entry it holds is held by a meta blob that stays *)
DeleteOnlyCovered == [][\A m \in metas \ metas' : \A e \in m.ents :
                            e \in AllEnts(metas') \/ (nfault' > 0 /\ ListedIn(metas', enc', e.p))]_evars

(* Reachability witnesses for the Full mechanism: with Witness = <name> the sensitivity run MUST violate
   WitnessStep / WitnessState (the branch of recordMeta / makePackedMetaBlob it names is explored by the model
   checker with the constants given); with Witness = "none" both hold trivially. *)
Started == {j \in jobs' \ jobs : j.pc = "get"}                  \* the jobs this step started
WitnessStep == [][CASE Witness = "PushBack" -> (Started # {} => heap' = {})     \* a gather never pushes a single left-over back
                    [] Witness = "TwoGroups" -> Cardinality(Started) <= 1        \* a gather never closes a group early
                    [] Witness = "Ignored" ->                                    \* the start-up scan never meets a meta blob of > Full lines
                         ((mode = "scan" /\ mode' = "scan" /\ todo' # todo) => (heap' # heap \/ jobs' # jobs))
                    [] Witness = "NotRerecorded" ->                              \* every uploaded packed meta blob is tracked again
                         ((\E m \in metas' \ metas : m.n > 1) => heap' # heap)
                    [] OTHER -> TRUE]_evars
WitnessState == Witness = "FullPacked" => \A m \in metas : m.n < Full           \* no packed meta blob ever reaches Full lines

ETypeOK == /\ \A x \in enc : x.id < nextId /\ x.p \in Plain
           /\ \A m \in metas : m.id < nextId /\ Functional(m.ents) /\ Cardinality(m.ents) <= m.n
           /\ Cardinality(heap) <= Limit
           /\ \A h \in heap : h.n <= Full /\ h.id \in Ids(metas) /\ Cardinality(h.plains) <= h.n
           /\ \A j \in jobs : (Cardinality(j.del) >= 2 \/ Has("FlushDropsCarriedMeta")) /\ Cardinality(j.plains) <= j.n
           /\ \A j1, j2 \in jobs : j1 = j2 \/ j1.del \cap j2.del = {}
           /\ mode \in {"up", "down", "scan", "failed"}
           /\ Ids(enc) \cap Ids(metas) = {}
=============================================================================
