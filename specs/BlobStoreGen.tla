--------------------------- MODULE BlobStoreGen ---------------------------
(* Behaviour generator for BlobStore: the same actions, plus a history variable that records the
   operation (not the reply - the replies are recomputed by Trace_BlobStore when the recorded
   execution of the real store is validated).  Mode "mut": only mutators, run exhaustively by BFS
   to depth Depth (the replayer makes a full observation after every step).  Mode "all": every
   operation, used with -simulate for long random histories. *)
EXTENDS BlobStore, TLC, Json

CONSTANTS Mode, Depth
VARIABLE hist

GInit == /\ present = {}
         /\ size = [b \in Blobs |-> 1]
         /\ caps = [canRemove |-> TRUE, readOnly |-> FALSE, subfetch |-> "yes"]
         /\ reply = [op |-> "init", res |-> "ok", size |-> 0, list |-> <<>>]
         /\ hist = <<>>

Rec(r) == hist' = Append(hist, r)

RemoveSets == {S \in SUBSET Blobs : Cardinality(S) = 1} \cup {Blobs} \cup {{b \in Blobs : b <= 4}}

(* In -simulate mode TLC evaluates invariants on ALL successors of the current state, so printing at
   depth Depth would emit every sibling; a single deterministic End step makes one print per trace. *)
End == Len(hist) = Depth /\ hist' = Append(hist, [op |-> "end"]) /\ UNCHANGED vars

GOps ==
  /\ Len(hist) < Depth
  /\ \/ \E b \in Blobs : Receive(b) /\ Rec([op |-> "receive", b |-> b])
     \/ \E S \in RemoveSets : RemoveBlobs(S) /\ Rec([op |-> "remove", bs |-> SortedSeq(S)])
     \/ /\ Mode = "all"
        /\ \/ \E b \in Blobs : Fetch(b) /\ Rec([op |-> "fetch", b |-> b])
           \/ \E b \in Blobs, off \in 0..6, len \in 0..6 : SubFetch(b, off, len) /\ Rec([op |-> "subfetch", b |-> b, off |-> off, len |-> len])
           \/ \E S \in SUBSET Blobs : Stat(S) /\ Rec([op |-> "stat", bs |-> SortedSeq(S)])
           \/ \E a \in 0..MaxCursor, l \in 1..MaxLimit, f \in 0..2 :
                 Enumerate(a, l) /\ Rec([op |-> "enum", after |-> a, limit |-> l, form |-> f])

GNext == GOps \/ End
GSpec == GInit /\ [][GNext]_<<vars, hist>>

Emit == Len(hist) = Depth + 1 => PrintT(<<"HIST", ToJson(SubSeq(hist, 1, Depth))>>)
GView == hist
=============================================================================
