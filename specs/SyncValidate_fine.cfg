SPECIFICATION FineSpec
CONSTANTS
  Blobs = {1, 2}
  Shards = {1}
  ChanCap = 1
  WorkCap = 2
  Pool = 1
  MaxFaults = 1
  MaxEnv = 1
  MaxUploads = 0
  MaxRounds = 1
  Copier = FALSE
  Deviations = {}
INVARIANTS TypeOK Complete NoSpurious ErrShard UploadsDurable CountersExact

CHECK_DEADLOCK FALSE
