----------------------------- MODULE AuthMatrix -----------------------------
(* C17, second half: which (handler type, sub-path class, method, credentials) cells of a
   perkeepd server may answer, and how.  The expected matrix is the operator Expected below.

   Classification of what serverinit.InstallHandlers installs (read from
   pkg/serverinit/serverinit.go setupHandler / makeCamliHandler / handlerTypeWantsAuth /
   InstallHandlers, pkg/server/root.go, share.go, pkg/jsonsign/signhandler/sig.go):

   PUBLIC BY DESIGN (no auth wrapper; must still disclose no blob content, no blob ref):
     "root"   "/"  - the banner page, the redirects to /ui/ and /ui/mobile.html, /favicon.ico, 404 for
              anything else.  Discovery (?camli.mode=config or the Accept header) is checked INSIDE the
              handler with auth.Allowed(OpDiscovery): refused without credentials (the discovery
              document contains the OpAll auth token).
     "share"  the share endpoint: content only for a valid share chain (Share.tla); the handler never
              looks at credentials, so the row is the same for every credentials class.
     "mux"    not a handler: the ServeMux's own redirect / not-found answers.
   REQUIRE CREDENTIALS:
     "ui", "search", "jsonsign", "sync", "status", "help", "importer"   wrapped in auth.Handler (OpAll) by
              setupHandler because handlerTypeWantsAuth says so.  This includes the static UI assets and
              the jsonsign discovery / public-key endpoints: at this commit NONE of them is public (the
              public key is obtainable only through an authenticated request or a share).
     "storage"  every storage-* prefix: only <prefix>camli/ is installed and every request to it,
              supported or not, goes through auth.RequireAuth with the operation of the action.
     "internal" handlers marked internal answer 401 to everybody.
     "debug"  the fixed /debug/* paths.  goroutines, config, logs are wrapped in RequireAuth; vars
              (expvar: command line, memstats, storage counters) and pprof/ (profiles, cmdline) "report
              status" and must refuse as well - the code installs them bare (H21).

   Sub-path classes (the driver maps each to one concrete path below the pattern): root, disco, stat,
   enum, blob, upload, remove, query, describe, sign, sigdisc, pubkey, status, debugx, ref, shareref
   (the ref of a valid transitive share claim), download, cmdline; for "debug" the sub is the path
   itself (vars, pprof, pprof-cmdline, pprof-debugx, goroutines, config, logs, logs-debugx ...).

   Reply classes (driver projection): "content" = the reply (body or headers) contains seeded blob
   bytes or the ref of a seeded blob that the request itself did not name; else "refused" = 401/403;
   else "ok" 2xx, "redirect" 3xx, "clienterr" 4xx, "servererr" 5xx; "panic". *)
EXTENDS Naturals, FiniteSets, TLC

HTypes  == {"root", "share", "mux", "ui", "search", "jsonsign", "sync", "status", "help", "importer",
            "storage", "internal", "debug"}
Public    == {"root", "share", "mux"}
Protected == HTypes \ Public
Methods == {"GET", "HEAD", "POST", "PUT", "DELETE"}
Creds   == {"none", "bad", "good", "wsnone", "wsempty", "wsbad"}   \* ws*: websocket upgrade request with no / an empty / a wrong authtoken, asked before any authenticated discovery
Subs    == {"root", "disco", "stat", "enum", "blob", "upload", "remove", "query", "describe", "sign",
            "sigdisc", "pubkey", "status", "debugx", "ref", "shareref", "download", "cmdline"}
Classes == {"content", "refused", "ok", "redirect", "clienterr", "servererr", "panic"}

(* named expectations ... *)
Expect(ht, sub, method, creds) ==
  IF ht = "share" THEN
       (IF sub = "shareref" /\ method = "GET" THEN "shared"
        ELSE IF sub = "shareref" /\ method = "HEAD" THEN "shared-head"
        ELSE "refused-or-bad-request")
  ELSE IF creds = "good" THEN
       (IF ht = "storage" /\ sub = "remove" /\ method = "POST" THEN "anything"   \* Deletable: false => 403 by configuration
        ELSE IF ht = "internal" THEN "refused"
        ELSE "not-refused")
  ELSE IF ht \in {"root", "mux"} THEN
       (IF ht = "root" /\ sub = "disco" /\ method = "GET" THEN "refused" ELSE "no-content")
  ELSE "refused"
(* ... and the reply classes that satisfy them *)
ClassesOf(e) ==
  CASE e = "refused"                -> {"refused"}
    [] e = "no-content"             -> {"ok", "redirect", "clienterr", "refused"}
    [] e = "refused-or-bad-request" -> {"refused", "clienterr"}
    [] e = "shared"                 -> {"content"}
    [] e = "shared-head"            -> {"ok"}
    [] e = "not-refused"            -> Classes \ {"refused"}
    [] e = "anything"               -> Classes
Expected(ht, sub, method, creds) == ClassesOf(Expect(ht, sub, method, creds))

(* With credentials these handler types must be seen to hand out seeded content at least once per
   server (otherwise "refused without credentials" would be vacuous, and so would the leak detector). *)
MustShowContent(hl) == IF hl = "noindex" THEN {"storage"} ELSE {"storage", "search", "ui"}

---------------------------------------------------------------------------
(* A one-step state space over all cells, so that TLC can check the matrix itself. *)
VARIABLE cell
NoCell == [ht |-> "none", sub |-> "none", method |-> "none", creds |-> "none"]
Init == cell = NoCell
Ask(ht, sub, method, creds) == cell' = [ht |-> ht, sub |-> sub, method |-> method, creds |-> creds]
Next == cell = NoCell /\ \E ht \in HTypes, sub \in Subs, m \in Methods, c \in Creds : Ask(ht, sub, m, c)
Spec == Init /\ [][Next]_cell

Exp == Expected(cell.ht, cell.sub, cell.method, cell.creds)
TypeOK == cell # NoCell => Exp # {} /\ Exp \subseteq Classes
(* without credentials nothing but the share endpoint may answer with content ... *)
NoContentWithoutCredentials ==
  (cell # NoCell /\ cell.creds # "good" /\ cell.ht # "share") => "content" \notin Exp /\ "panic" \notin Exp /\ "servererr" \notin Exp
(* ... every protected handler refuses, whatever the path and method ... *)
ProtectedRefuse == (cell # NoCell /\ cell.creds # "good" /\ cell.ht \in Protected) => Exp = {"refused"}
(* ... wrong credentials are no credentials ... *)
BadIsNone == cell # NoCell => Expected(cell.ht, cell.sub, cell.method, "bad") = Expected(cell.ht, cell.sub, cell.method, "none")
(* ... and credentials open every non-internal protected handler (the request itself was valid). *)
CredentialsOpen == (cell # NoCell /\ cell.creds = "good" /\ cell.ht \in Protected \ {"internal"}) => Exp # {"refused"}
=============================================================================
