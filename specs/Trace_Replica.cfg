SPECIFICATION TSpec
CONSTANTS
  N = 4
  Blobs = {2, 4, 6, 8}
  Deviations = {"StragglersAfterAck", "RemoveBestEffort"}
  FullConfig = TRUE
INVARIANTS QuorumAtAck ErrOnlyBelowQuorum Decided ReadsSurvive ReadsSurviveLoss ExactlyOnce
POSTCONDITION TraceAccepted
CHECK_DEADLOCK FALSE
