------------------------------ MODULE SortedKV ------------------------------
(* The reference byte-ordered map every perkeep sorted.KeyValue must behave as
   (pkg/sorted/kv.go: Get, Set, Delete, BeginBatch/CommitBatch, Find, Close; buffer.Flush).

   Keys are the naturals 1..NK: ranks of the harness key alphabet in BYTE order (the harness sorts
   its alphabet bytewise and logs the index, TLC cannot order strings).  Find cursors are 0..NK:
   0 = "" and c > 0 = the key of rank c (cursors are drawn from the same alphabet).  Values are
   1..NV: ranks of the value alphabet, rank 1 being the EMPTY value (present with "" is not absent);
   0 = absent.  BigKeys / BigVals are the ranks whose byte length is over sorted.MaxKeySize (767) /
   sorted.MaxValueSize (63000): a Set of such a pair - alone or inside a batch - is silently skipped
   (kv.go CheckSizes; every Set / CommitBatch returns nil for them).

   A call is a uniform record  [op, a, b, muts]  (TLC cannot compare records of different shapes):
     get    a = key                    set    a = key, b = value        delete a = key
     find   a = start, b = end (0 = unbounded, end exclusive)
     batch  muts = sequence of <<1, key, value>> (set) / <<0, key, 0>> (delete), applied in order
     flush, reopen   no arguments; neither may change the contents
   and the reply carries the call, so that a refinement (KVBuffer) is compared label by label. *)
EXTENDS Naturals, Sequences, FiniteSets, SequencesExt

CONSTANTS NK,         \* number of keys
          NV,         \* number of values
          BigKeys,    \* ranks of the keys longer than MaxKeySize
          BigVals,    \* ranks of the values longer than MaxValueSize
          MaxBatch    \* longest batch explored by Next

Keys    == 1..NK
Vals    == 1..NV
Cursors == 0..NK
Absent  == 0

VARIABLES m,          \* [Keys -> Vals \cup {Absent}]
          reply       \* call and observable result of the last action

vars == <<m, reply>>

-----------------------------------------------------------------------------
(* Mutations and their effect. *)
SetMut(k, v) == <<1, k, v>>
DelMut(k)    == <<0, k, 0>>
Muts == {SetMut(k, v) : k \in Keys, v \in Vals} \cup {DelMut(k) : k \in Keys}

Oversize(k, v) == k \in BigKeys \/ v \in BigVals
Effective(mu) == mu[1] = 0 \/ ~Oversize(mu[2], mu[3])      \* a delete, or a set within the limits

ApplyMut(mm, mu) == IF ~Effective(mu) THEN mm
                    ELSE IF mu[1] = 0 THEN [mm EXCEPT ![mu[2]] = Absent]
                    ELSE [mm EXCEPT ![mu[2]] = mu[3]]

RECURSIVE ApplyAll(_, _)
ApplyAll(mm, ms) == IF ms = <<>> THEN mm ELSE ApplyAll(ApplyMut(mm, Head(ms)), Tail(ms))

(* Range scans: exactly the present keys in [start, end), ascending, with their current values. *)
InRange(k, s, e) == k >= s /\ (e = 0 \/ k < e)
Present(mm) == {k \in Keys : mm[k] # Absent}
RangeKeys(mm, s, e) == SetToSortSeq({k \in Present(mm) : InRange(k, s, e)}, <)
FindList(mm, s, e) == LET r == RangeKeys(mm, s, e) IN [i \in 1..Len(r) |-> <<r[i], mm[r[i]]>>]

-----------------------------------------------------------------------------
(* Calls and replies. *)
O(op, a, b, muts) == [op |-> op, a |-> a, b |-> b, muts |-> muts]
NoCall == O("init", 0, 0, <<>>)

BatchSeqs == UNION {[1..n -> Muts] : n \in 0..MaxBatch}

Ops == {O("get", k, 0, <<>>) : k \in Keys}
       \cup {O("set", k, v, <<>>) : k \in Keys, v \in Vals}
       \cup {O("delete", k, 0, <<>>) : k \in Keys}
       \cup {O("find", s, e, <<>>) : s \in Cursors, e \in Cursors}
       \cup {O("batch", 0, 0, ms) : ms \in BatchSeqs}
       \cup {O("flush", 0, 0, <<>>), O("reopen", 0, 0, <<>>)}

(* res: "ok" | "notfound" (a real store may also answer "err", "panic", "hang": never allowed);
   v: the value of a successful get;  list: the <<key, value>> pairs of a scan. *)
R(o, res, v, list) == [call |-> o, res |-> res, v |-> v, list |-> list]

After(mm, o) == CASE o.op = "set"    -> ApplyMut(mm, SetMut(o.a, o.b))
                  [] o.op = "delete" -> ApplyMut(mm, DelMut(o.a))
                  [] o.op = "batch"  -> ApplyAll(mm, o.muts)
                  [] OTHER           -> mm

ReplyOf(mm, o) == CASE o.op = "get"  -> IF mm[o.a] # Absent THEN R(o, "ok", mm[o.a], <<>>)
                                        ELSE R(o, "notfound", 0, <<>>)
                    [] o.op = "find" -> R(o, "ok", 0, FindList(mm, o.a, o.b))
                    [] OTHER         -> R(o, "ok", 0, <<>>)

Do(o) == /\ reply' = ReplyOf(m, o)
         /\ m' = After(m, o)

Init == /\ m = [k \in Keys |-> Absent]
        /\ reply = R(NoCall, "ok", 0, <<>>)

Next == \E o \in Ops : Do(o)

Spec == Init /\ [][Next]_vars

-----------------------------------------------------------------------------
(* Properties of the reference map itself. *)

TypeOK == m \in [Keys -> Vals \cup {Absent}]

(* Nothing over the limits is ever stored. *)
NoOversizeStored == \A k \in Keys : m[k] # Absent => ~Oversize(k, m[k])

(* Scan theorem: a scan is ascending, lists exactly the present keys of the half-open range, and
   cutting a range at any cursor c loses and repeats nothing - [s,c) ++ [c,e) = [s,e) - which is what
   prefix enumeration in the index (Find(p, p+"\xff..")) and paging by "start after the last key" need. *)
ScanShape == \A s \in Cursors, e \in Cursors :
               LET r == RangeKeys(m, s, e) IN
               /\ \A i \in 1..(Len(r) - 1) : r[i] < r[i + 1]
               /\ {r[i] : i \in 1..Len(r)} = {k \in Present(m) : k >= s /\ (e = 0 \/ k < e)}
               /\ (e # 0 /\ e <= s => r = <<>>)
ScanSplit == \A s \in Cursors, c \in 1..NK, e \in Cursors :
               (s <= c /\ (e = 0 \/ c <= e)) => FindList(m, s, e) = FindList(m, s, c) \o FindList(m, c, e)

(* Reads, Flush and Reopen never change the contents. *)
ReadsDontWrite == [][reply'.call.op \in {"get", "find", "flush", "reopen"} => m' = m]_vars

(* A Set within the limits is read back; over the limits it changes nothing; only its key changes. *)
SetIsReadBack == [][reply'.call.op = "set" =>
                      LET k == reply'.call.a  v == reply'.call.b IN
                      /\ m'[k] = (IF Oversize(k, v) THEN m[k] ELSE v)
                      /\ \A j \in Keys \ {k} : m'[j] = m[j]]_vars
DeleteRemoves == [][reply'.call.op = "delete" =>
                      /\ m'[reply'.call.a] = Absent
                      /\ \A j \in Keys \ {reply'.call.a} : m'[j] = m[j]]_vars

(* A batch is its mutations in order, as one unit: every key ends with what the LAST effective
   mutation on it says (oversize sets are not effective), untouched keys keep their value. *)
LastEff(ms, k) == LET I == {i \in 1..Len(ms) : ms[i][2] = k /\ Effective(ms[i])} IN
                  IF I = {} THEN 0 ELSE CHOOSE i \in I : \A j \in I : j <= i
BatchLastWriteWins == [][reply'.call.op = "batch" =>
                           \A k \in Keys : LET i == LastEff(reply'.call.muts, k)  ms == reply'.call.muts IN
                             m'[k] = (IF i = 0 THEN m[k] ELSE IF ms[i][1] = 0 THEN Absent ELSE ms[i][3])]_vars

View == m
=============================================================================
