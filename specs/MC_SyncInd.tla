---------------------------- MODULE MC_SyncInd ----------------------------
(* Apalache instance of SyncInd: the blob universe is FIXED (3 blobs); MaxCrashes is any natural number (chosen by
   the solver), so both the length of behaviours and the number of crash/restart cycles are unbounded.
     apalache-mc check --cinit=ConstInit --init=Init    --inv=IndInv     --length=0 MC_SyncInd.tla     base
     apalache-mc check --cinit=ConstInit --init=IndInit --inv=IndInv     --length=1 MC_SyncInd.tla     step
     apalache-mc check --cinit=ConstInit --init=IndInit --inv=Props      --length=0 MC_SyncInd.tla     IndInv => C19 safety
     apalache-mc check --cinit=ConstInit --init=IndInit --inv=RowDelStep --length=1 MC_SyncInd.tla     action property
   must fail (anti-vacuity), all with --init=IndInit --inv=IndInv --length=1 unless stated:
     --cinit=ConstInitDelRow       deviation DeleteRowBeforeWrite
     --cinit=ConstInitNoReload     deviation NoQueueReload
     --cinit=ConstInitEarlyEnq     deviation EnqueueBeforeSourceAccept
     --cinit=ConstInit --init=WeakInit --inv=WeakInv     IndInv without A5                                     *)
EXTENDS SyncInd

Univ == Blobs = {1, 2, 3} /\ MaxCrashes \in Nat
ConstInit == Univ /\ Deviations = {}
ConstInitDelRow == Univ /\ Deviations = {"DeleteRowBeforeWrite"}
ConstInitNoReload == Univ /\ Deviations = {"NoQueueReload"}
ConstInitEarlyEnq == Univ /\ Deviations = {"EnqueueBeforeSourceAccept"}
=============================================================================
