---------------------------- MODULE ReplicaInd ----------------------------
(* Unbounded-LENGTH safety leg of C12: the write and remove paths of Replica.tla restated with Apalache type
   annotations, plus an inductive invariant IndInv that implies QuorumAtAck, ErrOnlyBelowQuorum and Decided.

   Replica.tla itself cannot be fed to Apalache (no annotations, SetToSortSeq/SubSeq/CHOOSE in the read path), so
   this module is an EXTENDS-light COPY of the variables and actions that the three invariants depend on.  Every
   action below carries the name of the Replica.tla action it copies and is kept textually identical to it except
   for (1) the variables `Rd` and `reply`, which only the read path uses and which are dropped, (2) the reads
   (Fetch/FetchF/Stat/Enumerate), which change nothing but `reply` and are therefore stuttering steps here, and
   (3) the sensitivity switch "AckEarly" (not in Replica.tla; with it absent from Deviations, ReplicaDone is
   Replica!ReplicaDone literally).

   The copy cannot drift silently: TLC checks on the bounded model
     ReplicaInd.cfg       every reachable state of ReplicaInd satisfies IndInv
     ReplicaIndRef.cfg    Replica!Spec => ReplicaInd!Spec (every behaviour of the REAL module, reads as stuttering,
                          is a behaviour of this copy: what is proved here transfers) and IndInv holds in every
                          reachable state of Replica.tla itself
     ReplicaIndRefB.cfg   ReplicaInd!Spec => Replica!Spec (the copy allows nothing the real module forbids)

   What Apalache discharges (constants fixed by MC_ReplicaInd / ConstInit; the LENGTH of behaviours is unbounded):
     base   Init    => IndInv                 --init=Init    --inv=IndInv --length=0
     step   IndInv /\ Next => IndInv'         --init=IndInit --inv=IndInv --length=1
     impl   IndInv  => QuorumAtAck /\ ErrOnlyBelowQuorum /\ Decided
                                              --init=IndInit --inv=Props  --length=0                          *)
EXTENDS Naturals, FiniteSets

CONSTANTS
    \* @type: Int;
    N,            \* number of underlying stores 1..N
    \* @type: Set(Int);
    Blobs,        \* even naturals (ranks)
    \* @type: Set(Str);
    Deviations,
    \* @type: Bool;
    FullConfig    \* TRUE: every write subset; FALSE: write = all

Stores == 1..N
Outcomes == {"ok", "err", "wrongsize"}

VARIABLES
    \* @type: Set(Int);
    W,
    \* @type: Int;
    MinW,
    \* @type: Int -> Set(Int);
    has,
    \* @type: { op: Str, b: Int };
    call,
    \* @type: Int -> Str;
    outcome,
    \* @type: Set(Int);
    done,
    \* @type: Int;
    nSuccess,
    \* @type: Str;
    ret,
    \* @type: Set(Int);
    acked,
    \* @type: Set(Int);
    removedOk,
    \* @type: Int;
    copiesAtAck,
    \* @type: Set(<<Int, Int, Bool>>);
    pendingBg

vars == <<W, MinW, has, call, outcome, done, nSuccess, ret, acked, removedOk, copiesAtAck, pendingBg>>

NoCall == [op |-> "none", b |-> 0]
Stragglers == "StragglersAfterAck" \in Deviations

(* Replica!Init without Rd and reply *)
Init == /\ IF FullConfig
           THEN W \in (SUBSET Stores) \ {{}}
           ELSE W = Stores
        /\ MinW \in 1..Cardinality(W)
        /\ has \in [Stores -> SUBSET Blobs]
        /\ call = NoCall /\ outcome = [i \in Stores |-> "ok"] /\ done = {} /\ nSuccess = 0 /\ ret = "none"
        /\ acked = {} /\ removedOk = {} /\ copiesAtAck = 0 /\ pendingBg = {}

Idle == call.op = "none"

(* ---------------------------------------------------------------- receive *)
(* Replica!RecvStart *)
RecvStart(b) ==
  /\ Idle
  /\ call' = [op |-> "recv", b |-> b]
  /\ outcome' \in [Stores -> Outcomes]
  /\ done' = {} /\ nSuccess' = 0 /\ ret' = "pending" /\ copiesAtAck' = 0
  /\ removedOk' = removedOk \ {b}
  /\ UNCHANGED <<W, MinW, has, acked, pendingBg>>

Stored(o) == o \in {"ok", "wrongsize"}

(* the acknowledgement threshold; "AckEarly" is the sensitivity switch of this module (ack one success early) *)
AckAt == IF "AckEarly" \in Deviations THEN MinW - 1 ELSE MinW

(* Replica!ReplicaDone *)
ReplicaDone(i) ==
  /\ call.op = "recv" /\ ret = "pending" /\ i \in W \ done
  /\ done' = done \cup {i}
  /\ has' = [has EXCEPT ![i] = IF Stored(outcome[i]) THEN @ \cup {call.b} ELSE @]
  /\ nSuccess' = (IF outcome[i] = "ok" THEN nSuccess + 1 ELSE nSuccess)
  /\ LET ok == outcome[i] = "ok" /\ nSuccess + 1 = AckAt
         last == done \cup {i} = W
     IN /\ ret' = (IF ok THEN "ok" ELSE IF last THEN "err" ELSE "pending")
        /\ copiesAtAck' = (IF ok THEN Cardinality({j \in (done \cup {i}) : outcome[j] = "ok"}) ELSE copiesAtAck)
        /\ acked' = (IF ok THEN acked \cup {call.b} ELSE acked)
        /\ removedOk' = (IF ok THEN removedOk \ {call.b} ELSE removedOk)
  /\ UNCHANGED <<W, MinW, call, outcome, pendingBg>>

(* Replica!LateDone *)
LateDone(i) ==
  /\ call.op = "recv" /\ ret \in {"ok", "err"} /\ i \in W \ done
  /\ done' = done \cup {i}
  /\ has' = [has EXCEPT ![i] = IF Stored(outcome[i]) THEN @ \cup {call.b} ELSE @]
  /\ UNCHANGED <<W, MinW, call, outcome, nSuccess, ret, acked, removedOk, copiesAtAck, pendingBg>>

(* Replica!RecvRet (without reply') *)
RecvRet ==
  /\ call.op = "recv" /\ ret \in {"ok", "err"}
  /\ (Stragglers \/ done = W)
  /\ pendingBg' = pendingBg \cup {<<i, call.b, Stored(outcome[i])>> : i \in W \ done}
  /\ call' = NoCall /\ ret' = "none"
  /\ UNCHANGED <<W, MinW, has, outcome, done, nSuccess, acked, removedOk, copiesAtAck>>

(* Replica!Straggler *)
Straggler(p) ==
  /\ p \in pendingBg
  /\ pendingBg' = pendingBg \ {p}
  /\ has' = [has EXCEPT ![p[1]] = IF p[3] THEN @ \cup {p[2]} ELSE @]
  /\ UNCHANGED <<W, MinW, call, outcome, done, nSuccess, ret, acked, removedOk, copiesAtAck>>

(* ---------------------------------------------------------------- remove *)
(* Replica!RemoveStart *)
RemoveStart(b) ==
  /\ Idle
  /\ call' = [op |-> "rm", b |-> b]
  /\ outcome' \in [Stores -> {"ok", "err"}]
  /\ done' = {} /\ nSuccess' = 0 /\ ret' = "pending"
  /\ UNCHANGED <<W, MinW, has, acked, removedOk, copiesAtAck, pendingBg>>

(* Replica!RemoveDone *)
RemoveDone(i) ==
  /\ call.op = "rm" /\ i \in W \ done
  /\ done' = done \cup {i}
  /\ has' = [has EXCEPT ![i] = IF outcome[i] = "ok" THEN @ \ {call.b} ELSE @]
  /\ nSuccess' = (IF outcome[i] = "ok" THEN nSuccess + 1 ELSE nSuccess)
  /\ UNCHANGED <<W, MinW, call, outcome, ret, acked, removedOk, copiesAtAck, pendingBg>>

(* Replica!RemoveRet (without reply') *)
RemoveRet ==
  /\ call.op = "rm" /\ done = W
  /\ LET ok == IF "RemoveBestEffort" \in Deviations THEN nSuccess > 0 ELSE nSuccess = Cardinality(W)
     IN /\ removedOk' = (IF ok THEN removedOk \cup {call.b} ELSE removedOk)
        /\ acked' = acked \ {call.b}
  /\ call' = NoCall /\ ret' = "none"
  /\ UNCHANGED <<W, MinW, has, outcome, done, nSuccess, copiesAtAck, pendingBg>>

(* Replica!Next without the reads (stuttering steps of this module) *)
Next == \/ \E b \in Blobs : RecvStart(b) \/ RemoveStart(b)
        \/ \E i \in Stores : ReplicaDone(i) \/ LateDone(i) \/ RemoveDone(i)
        \/ \E p \in pendingBg : Straggler(p)
        \/ RecvRet \/ RemoveRet

Spec == Init /\ [][Next]_vars

-----------------------------------------------------------------------------
(* C12, exactly as stated in Replica.tla *)
GoodCopies == Cardinality({i \in W : outcome[i] = "ok" /\ i \in done})
QuorumAtAck == (call.op = "recv" /\ ret = "ok") => (copiesAtAck >= MinW /\ GoodCopies >= MinW)
ErrOnlyBelowQuorum == (call.op = "recv" /\ ret = "err") => (done = W /\ nSuccess < MinW)
Decided == (call.op = "recv" /\ done = W) => ret # "pending"
Props == QuorumAtAck /\ ErrOnlyBelowQuorum /\ Decided

-----------------------------------------------------------------------------
(* The inductive invariant.  TypeOK constrains every variable (it is also what makes IndInit an Apalache
   initialiser: one `x \in S` per variable). *)
TypeOK ==
  /\ W \in (SUBSET Stores) \ {{}}
  /\ MinW \in 1..N
  /\ has \in [Stores -> SUBSET Blobs]
  /\ call \in [op : {"none", "recv", "rm"}, b : Blobs \cup {0}]
  /\ outcome \in [Stores -> Outcomes]
  /\ done \in SUBSET Stores
  /\ nSuccess \in 0..N
  /\ ret \in {"none", "pending", "ok", "err"}
  /\ acked \in SUBSET Blobs
  /\ removedOk \in SUBSET Blobs
  /\ copiesAtAck \in 0..N
  /\ pendingBg \in SUBSET (Stores \X Blobs \X BOOLEAN)

OkDone == {i \in done : outcome[i] = "ok"}

(* configuration: the quorum is attainable *)
CfgOK == MinW <= Cardinality(W) /\ (~FullConfig => W = Stores)
(* the program counter `ret` follows the call *)
PcOK == /\ (call.op = "none") <=> (ret = "none")
        /\ (call.op = "rm") => ret = "pending"
        /\ (call.op = "none") => call.b = 0
        /\ (call.op # "none") => call.b \in Blobs
(* while a call is in flight only its write replicas are tallied *)
DoneInW == (call.op # "none") => done \subseteq W
(* the tally counts exactly the successes seen so far, while the tally loop runs *)
TallyExact == ret = "pending" => nSuccess = Cardinality(OkDone)
(* the receive loop is still running only below the quorum and with a replica outstanding *)
PendingBelow == (call.op = "recv" /\ ret = "pending") => (nSuccess < MinW /\ done # W)

(* the named conjuncts, so that a weakened variant (sensitivity) can drop one *)
IndInv == TypeOK /\ CfgOK /\ PcOK /\ DoneInW /\ TallyExact /\ PendingBelow /\ Props
IndInit == IndInv

(* sensitivity: IndInv without PendingBelow is an invariant (TLC agrees) but NOT inductive: from a state with
   ret = "pending" and nSuccess >= MinW the loop can run to the last replica and answer "err" above the quorum *)
WeakInv == TypeOK /\ CfgOK /\ PcOK /\ DoneInW /\ TallyExact /\ Props
WeakInit == WeakInv
=============================================================================
