SPECIFICATION Spec
CONSTANTS
  Deviations = {}
  MaxFree = 3
INVARIANTS BaseVerdict RejectRuleSound MayAcceptKeepsPayload RuleComplete
CHECK_DEADLOCK FALSE
