---------------------------- MODULE BlobStore ----------------------------
(* The reference content-addressed map every perkeep storage backend must behave as
   (pkg/blobserver/interface.go: BlobReceiver, blob.Fetcher, blob.SubFetcher, BlobStatter,
   BlobEnumerator, BlobRemover).

   Blobs are EVEN naturals 2,4,..: ranks of the blobref TEXT in byte order.  A cursor is any
   natural: 0 = "", odd = a string strictly between two refs, even = a ref (present or not).
   Contents are abstracted to sizes; byte equality is the projection's business (the harness
   compares bytes and logs a match class).

   Caps (capabilities of the configuration under test, facts of the documented config):
     canRemove  - RemoveBlobs is implemented (encrypt: not implemented, union: no)
     readOnly   - ReceiveBlob is refused (union)
     subfetch   - "yes" | "no" | "maybe" (proxycache over a store without SubFetch) *)
EXTENDS Naturals, Sequences, FiniteSets, SequencesExt

CONSTANTS Blobs,        \* set of even naturals
          MaxCursor,    \* cursors range over 0..MaxCursor
          MaxLimit      \* enumerate limits 1..MaxLimit

VARIABLES present,      \* SUBSET Blobs
          size,         \* [Blobs -> Nat]   true sizes (chosen by the environment in Init)
          caps,         \* capability record
          reply         \* observable result of the last action (hidden by VIEW)

vars == <<present, size, caps, reply>>

SortedSeq(S) == SetToSortSeq(S, <)
Prefix(s, n) == SubSeq(s, 1, IF n < Len(s) THEN n ELSE Len(s))

(* What EnumerateBlobs(after, limit) must send: the present blobs strictly after the cursor,
   ascending, at most limit of them, as <<blob, size>> pairs. *)
EnumRefs(P, after, limit) == Prefix(SortedSeq({b \in P : b > after}), limit)
Enum(P, sz, after, limit) == LET r == EnumRefs(P, after, limit) IN [i \in 1..Len(r) |-> <<r[i], sz[r[i]]>>]
StatOf(P, sz, S) == LET r == SortedSeq(S \cap P) IN [i \in 1..Len(r) |-> <<r[i], sz[r[i]]>>]

Min2(a, b) == IF a < b THEN a ELSE b

CapsSet == [canRemove : BOOLEAN, readOnly : BOOLEAN, subfetch : {"yes", "no", "maybe"}]

Init == /\ present = {}
        /\ size \in [Blobs -> {0, 1, 5}]
        /\ caps \in CapsSet
        /\ reply = [op |-> "init", res |-> "ok", size |-> 0, list |-> <<>>]

(* Replies are uniform records (TLC cannot compare records of different shapes):
   res: "ok" | "notexist" | "outofrange" | "refused" | "unsupported";  size: size / byte count;
   list: the stat or enumerate result.  Byte equality is folded into res by the projection
   (the harness logs "wrongbytes" instead of "ok" when the bytes differ from the true content). *)
R(op, res, sz, list) == [op |-> op, res |-> res, size |-> sz, list |-> list]

ReceiveReply(b) == IF caps.readOnly THEN R("receive", "refused", 0, <<>>) ELSE R("receive", "ok", size[b], <<>>)
Receive(b) ==
  /\ present' = (IF caps.readOnly THEN present ELSE present \cup {b})
  /\ reply' = ReceiveReply(b)
  /\ UNCHANGED <<size, caps>>

FetchReply(b) == IF b \in present THEN R("fetch", "ok", size[b], <<>>) ELSE R("fetch", "notexist", 0, <<>>)
Fetch(b) ==
  /\ reply' = FetchReply(b)
  /\ UNCHANGED <<present, size, caps>>

(* SubFetch(b, off, len): pkg/blob/fetcher.go.  off > size is an out-of-range error, off = size is
   an empty read; the result is the slice [off, min(off+len, size)). *)
SubFetchReplies(b, off, len) ==
  LET r == IF b \notin present THEN R("subfetch", "notexist", 0, <<>>)
           ELSE IF off > size[b] THEN R("subfetch", "outofrange", 0, <<>>)
           ELSE R("subfetch", "ok", Min2(len, size[b] - off), <<>>)
  IN IF caps.subfetch = "maybe" THEN {r, R("subfetch", "unsupported", 0, <<>>)}
     ELSE IF caps.subfetch = "no" THEN {R("subfetch", "unsupported", 0, <<>>)}
     ELSE {r}
SubFetch(b, off, len) ==
  /\ reply' \in SubFetchReplies(b, off, len)
  /\ UNCHANGED <<present, size, caps>>

StatReply(S) == R("stat", "ok", 0, StatOf(present, size, S))
Stat(S) ==
  /\ reply' = StatReply(S)
  /\ UNCHANGED <<present, size, caps>>

EnumReply(after, limit) == R("enum", "ok", 0, Enum(present, size, after, limit))
Enumerate(after, limit) ==
  /\ reply' = EnumReply(after, limit)
  /\ UNCHANGED <<present, size, caps>>

(* StreamBlobs: every present blob exactly once, in an unspecified order (the projection sorts). *)
StreamReply == R("stream", "ok", 0, StatOf(present, size, Blobs))
Stream ==
  /\ reply' = StreamReply
  /\ UNCHANGED <<present, size, caps>>

RemoveReply(S) == IF caps.canRemove THEN R("remove", "ok", 0, <<>>) ELSE R("remove", "refused", 0, <<>>)
RemoveBlobs(S) ==
  /\ present' = (IF caps.canRemove THEN present \ S ELSE present)
  /\ reply' = RemoveReply(S)
  /\ UNCHANGED <<size, caps>>

Next == \/ \E b \in Blobs : Receive(b) \/ Fetch(b)
        \/ \E b \in Blobs, off \in 0..6, len \in 0..6 : SubFetch(b, off, len)
        \/ \E S \in SUBSET Blobs : Stat(S) \/ (S # {} /\ RemoveBlobs(S))
        \/ \E a \in 0..MaxCursor, l \in 1..MaxLimit : Enumerate(a, l)
        \/ Stream

Spec == Init /\ [][Next]_vars

-----------------------------------------------------------------------------
(* Properties of the reference map itself. *)

TypeOK == present \subseteq Blobs

(* Paging theorem: following the last element as cursor visits exactly `present`, each blob once,
   ascending, for every page size >= 1 - the guarantee every sync/enumerate client relies on. *)
RECURSIVE Pages(_, _, _)
Pages(P, after, limit) == LET pg == EnumRefs(P, after, limit) IN
                          IF Len(pg) = 0 THEN <<>> ELSE pg \o Pages(P, pg[Len(pg)], limit)
PagingTheorem == \A limit \in 1..MaxLimit : Pages(present, 0, limit) = SortedSeq(present)

(* A page never exceeds the limit, lists only present blobs strictly after the cursor, sorted. *)
PageShape == \A a \in 0..MaxCursor, l \in 1..MaxLimit :
               LET pg == EnumRefs(present, a, l) IN
               /\ Len(pg) <= l
               /\ \A i \in 1..Len(pg) : pg[i] \in present /\ pg[i] > a
               /\ \A i \in 1..(Len(pg) - 1) : pg[i] < pg[i + 1]
               /\ (Len(pg) < l => {pg[i] : i \in 1..Len(pg)} = {b \in present : b > a})

(* Action properties: only Receive adds, only Remove deletes. *)
OnlyReceiveAdds == [][\A b \in Blobs : (b \notin present /\ b \in present') => reply'.op = "receive"]_vars
OnlyRemoveDeletes == [][\A b \in Blobs : (b \in present /\ b \notin present') => reply'.op = "remove"]_vars
ReadOnlyNeverChanges == [][caps.readOnly => present' = present]_vars

View == <<present, size, caps>>
=============================================================================
