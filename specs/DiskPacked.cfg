SPECIFICATION Spec
CONSTANTS
  Blobs = {1, 2}
  MaxRecs = 3
  Deviations = {}
INVARIANTS Durability NoWrongBytes ReindexRebuilds StreamNeverTorn
CHECK_DEADLOCK FALSE
