SPECIFICATION TSpec
CONSTANTS
  Max = 16777216
  Small = 41
  Backends = {"memory", "localdisk", "diskpacked", "gate", "encrypt", "condgate", "replicagate", "shardgate", "nsgate", "packedgate"}
  BigBackends = {"memory", "localdisk", "diskpacked", "gate", "encrypt", "condgate", "replicagate", "shardgate", "nsgate", "packedgate"}
  Deviations = {}
INVARIANT TInv
POSTCONDITION TraceAccepted
CHECK_DEADLOCK FALSE
