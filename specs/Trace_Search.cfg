SPECIFICATION TSpec
CONSTANTS
  WorldFile = "c08_ws.json"
  Deviations = {}
  MenuSize = 0
  Part = 0
  Parts = 1
POSTCONDITION TraceAccepted
CHECK_DEADLOCK FALSE
