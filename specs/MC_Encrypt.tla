----------------------------- MODULE MC_Encrypt -----------------------------
(* model-checking wrapper of Encrypt: plaintext blobs are interchangeable (model values) *)
EXTENDS Encrypt, TLC
PlainSym == Permutations(Plain)
=============================================================================
