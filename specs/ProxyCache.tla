----------------------------- MODULE ProxyCache -----------------------------
(* pkg/blobserver/proxycache: every public call as its sequence of lower-layer calls on `cache` and `origin`; 2+ clients.
   Blob universe of one blob is enough: cache, origin \in BOOLEAN say whether they hold it. *)
EXTENDS Naturals, FiniteSets
CONSTANTS Clients,
          Serialize    \* TRUE: public calls are mutually exclusive (an intended, linearizable mechanism); FALSE: the code
VARIABLES cache, origin, pc, got
vars == <<cache, origin, pc, got>>
Init == cache = FALSE /\ origin = TRUE /\ pc = [c \in Clients |-> "idle"] /\ got = [c \in Clients |-> FALSE]
Go(c, from, to) == pc[c] = from /\ pc' = [pc EXCEPT ![c] = to]
MayStart(c) == ~Serialize \/ \A d \in Clients : pc[d] = "idle"
\* Fetch: cache.Fetch -> (miss) origin.Fetch -> (hit) cache.Receive -> return
FetchStart(c)  == MayStart(c) /\ Go(c, "idle", "f_cache") /\ UNCHANGED <<cache, origin, got>>
FetchCache(c)  == pc[c] = "f_cache" /\ pc' = [pc EXCEPT ![c] = IF cache THEN "idle" ELSE "f_origin"] /\ UNCHANGED <<cache, origin, got>>
FetchOrigin(c) == pc[c] = "f_origin" /\ got' = [got EXCEPT ![c] = origin]
                  /\ pc' = [pc EXCEPT ![c] = IF origin THEN "f_fill" ELSE "idle"] /\ UNCHANGED <<cache, origin>>
FetchFill(c)   == Go(c, "f_fill", "idle") /\ cache' = TRUE /\ UNCHANGED <<origin, got>>
\* RemoveBlobs: cache.Remove and origin.Remove in two goroutines, any order
RemoveStart(c) == MayStart(c) /\ Go(c, "idle", "r_both") /\ UNCHANGED <<cache, origin, got>>
RemoveCache1(c)  == Go(c, "r_both", "r_origin") /\ cache' = FALSE /\ UNCHANGED <<origin, got>>
RemoveOrigin1(c) == Go(c, "r_both", "r_cache") /\ origin' = FALSE /\ UNCHANGED <<cache, got>>
RemoveCache2(c)  == Go(c, "r_cache", "idle") /\ cache' = FALSE /\ UNCHANGED <<origin, got>>
RemoveOrigin2(c) == Go(c, "r_origin", "idle") /\ origin' = FALSE /\ UNCHANGED <<cache, got>>
\* ReceiveBlob: origin.Receive then cache.Receive
RecvStart(c)  == MayStart(c) /\ Go(c, "idle", "w_origin") /\ UNCHANGED <<cache, origin, got>>
RecvOrigin(c) == Go(c, "w_origin", "w_cache") /\ origin' = TRUE /\ UNCHANGED <<cache, got>>
RecvCache(c)  == Go(c, "w_cache", "idle") /\ cache' = TRUE /\ UNCHANGED <<origin, got>>
Next == \E c \in Clients : FetchStart(c) \/ FetchCache(c) \/ FetchOrigin(c) \/ FetchFill(c) \/ RemoveStart(c) \/ RemoveCache1(c)
                           \/ RemoveOrigin1(c) \/ RemoveCache2(c) \/ RemoveOrigin2(c) \/ RecvStart(c) \/ RecvOrigin(c) \/ RecvCache(c)
Spec == Init /\ [][Next]_vars
Quiescent == \A c \in Clients : pc[c] = "idle"
\* when nobody is in flight the visible map (cache first, then origin) must be the origin's: a cached copy of a removed blob is a stale read
NoStaleCopy == Quiescent => (cache => origin)
=============================================================================
