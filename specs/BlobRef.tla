------------------------------ MODULE BlobRef ------------------------------
(* pkg/blob: the text form of a blobref, its parser, its encodings and its ordering.  Characters are
   their BYTE VALUES (small integers), strings are sequences of them; nothing here is a TLA+ string,
   so every order below is an order TLC can compute.

   Part 1 (ordering lemma, model-checked by BlobRef.cfg): Ref.Less orders by (hash name, digest BYTES);
   every enumeration promises the byte order of the TEXT form  name "-" hexdigits.  The two agree
   because (i) '-' (45) sorts below every name character [0-9a-z] (48..57, 97..122) - so a name that is
   a prefix of another sorts first in both orders - and (ii) the hex digit characters sort like their
   values ('9' = 57 < 'a' = 97).  With a counterfactual separator 'c' (99) the lemma is FALSE
   (sensitivity run).  StringMinusOne (text with the last byte decremented) is the exclusive lower
   cursor: the refs after it are exactly the refs >= the ref.

   Part 2 (parser model): well-formedness, parse class and canonical text of an arbitrary string,
   transcribing the RULES of parse / parseUnknown / validDigestName (pkg/blob/ref.go), including the
   odd-number-of-digits allowance for unknown hash names.  The round-trip statements of C20 are the
   Expected* operators: they say what every exported entry point must answer for a string.

   Part 3: ordering / equality / prefix tests on concrete well-formed texts (used by the trace spec on
   real 40/56/64-digit refs) - the same LexLess / RefLess / TextLess as in the lemma. *)
EXTENDS Naturals, Sequences, FiniteSets

CONSTANTS NameChars,   \* characters hash names are built from in the lemma's universe
          HexChars,    \* digit characters of the lemma's universe
          Dash,        \* the separator: 45 in reality
          DigestLen,   \* digits per digest in the lemma's universe (even)
          MaxName      \* longest name in the lemma's universe

VARIABLE pair          \* the lemma is checked over all pairs; generator / trace modules keep it constant

--------------------------------------------------------------------------------
(* Sequences *)
RECURSIVE LexLess(_, _, _)
LexLess(s, t, i) == IF i > Len(s) THEN i <= Len(t)                  \* a proper prefix sorts first
                    ELSE IF i > Len(t) THEN FALSE
                    ELSE IF s[i] # t[i] THEN s[i] < t[i] ELSE LexLess(s, t, i + 1)
SeqLess(s, t) == LexLess(s, t, 1)
IsPrefixSeq(p, s) == Len(p) <= Len(s) /\ \A i \in 1..Len(p) : p[i] = s[i]

(* Characters *)
IsDigit(c)    == c \in 48..57
IsLower(c)    == c \in 97..122
IsHex(c)      == c \in 48..57 \/ c \in 97..102              \* lower case only
IsNameChar(c) == IsDigit(c) \/ IsLower(c)
HexVal(c)     == IF c <= 57 THEN c - 48 ELSE c - 87
HexChar(v)    == IF v <= 9 THEN v + 48 ELSE v + 87

--------------------------------------------------------------------------------
(* Abstract refs: <<name, digits, odd>>; `digits` always has even length (an odd text is padded with '0'). *)
Bytes(d) == [i \in 1..(Len(d) \div 2) |-> 16 * HexVal(d[2 * i - 1]) + HexVal(d[2 * i])]
Digits(r) == IF r[3] THEN SubSeq(r[2], 1, Len(r[2]) - 1) ELSE r[2]
Text(r) == r[1] \o <<Dash>> \o Digits(r)
RefLess(a, b)  == IF a[1] # b[1] THEN SeqLess(a[1], b[1])           \* Ref.Less: n1 < n2,
                  ELSE SeqLess(Bytes(a[2]), Bytes(b[2]))            \* else bytes.Compare(...) < 0
TextLess(a, b) == SeqLess(Text(a), Text(b))
MinusOne(t) == [t EXCEPT ![Len(t)] = t[Len(t)] - 1]                 \* StringMinusOne

--------------------------------------------------------------------------------
(* Part 1: the lemma's universe and statements *)
Names   == UNION {[1..n -> NameChars] : n \in 1..MaxName}
Digests == [1..DigestLen -> HexChars]
Refs    == {<<n, d, FALSE>> : n \in Names, d \in Digests}

A == pair[1]
B == pair[2]
Chosen == pair # <<>>
Agree       == Chosen => (RefLess(A, B) <=> TextLess(A, B))
Trichotomy  == Chosen => ((A = B) <=> (~RefLess(A, B) /\ ~RefLess(B, A)))
Cursor      == Chosen => (SeqLess(MinusOne(Text(A)), Text(B)) <=> ~TextLess(B, A))    \* "after MinusOne(a)" = refs >= a
CursorBelow == Chosen => SeqLess(MinusOne(Text(A)), Text(A))

LemmaInit == pair = <<>>
LemmaNext == pair = <<>> /\ pair' \in Refs \X Refs
LemmaSpec == LemmaInit /\ [][LemmaNext]_pair

--------------------------------------------------------------------------------
(* Part 2: the parser model *)
SHA1   == <<115, 104, 97, 49>>              \* "sha1"
SHA224 == <<115, 104, 97, 50, 50, 52>>      \* "sha224"
SHA256 == <<115, 104, 97, 50, 53, 54>>      \* "sha256"
Supported == {[name |-> SHA1, digits |-> 40], [name |-> SHA224, digits |-> 56], [name |-> SHA256, digits |-> 64]}
SupportedNames == {m.name : m \in Supported}
MaxUnknownDigits == 256
(* Deliberate exemption in the code (testRefType): these unknown names are let through ParseKnown. *)
TestNames == {<<102, 97, 107, 101, 114, 101, 102>>,     \* "fakeref"
              <<116, 101, 115, 116, 114, 101, 102>>,    \* "testref"
              <<112, 101, 114, 109, 97>>}               \* "perma"

DashPos(s) == IF \E i \in 1..Len(s) : s[i] = Dash
              THEN CHOOSE i \in 1..Len(s) : s[i] = Dash /\ \A j \in 1..(i - 1) : s[j] # Dash
              ELSE 0
NameOf(s) == SubSeq(s, 1, DashPos(s) - 1)
HexOf(s)  == SubSeq(s, DashPos(s) + 1, Len(s))
AllHex(h) == \A i \in 1..Len(h) : IsHex(h[i])
ValidName(n) == Len(n) > 0 /\ \A i \in 1..Len(n) : IsNameChar(n[i])

Class(s) ==
  IF DashPos(s) = 0 THEN "malformed"
  ELSE IF NameOf(s) \in SupportedNames
       THEN IF \E m \in Supported : m.name = NameOf(s) /\ Len(HexOf(s)) = m.digits /\ AllHex(HexOf(s))
            THEN "supported" ELSE "malformed"
       ELSE IF ValidName(NameOf(s)) /\ Len(HexOf(s)) \in 1..MaxUnknownDigits /\ AllHex(HexOf(s))
            THEN "unknown" ELSE "malformed"
WellFormed(s) == Class(s) # "malformed"
IsOdd(s) == Len(HexOf(s)) % 2 = 1

(* The abstract ref a well-formed string denotes, and the canonical text of that ref. *)
RefOf(s) == <<NameOf(s), IF IsOdd(s) THEN HexOf(s) \o <<48>> ELSE HexOf(s), IsOdd(s)>>
Canon(s) == Text(RefOf(s))
RoundTrip(s) == WellFormed(s) => Canon(s) = s           \* model-level: format(parse(s)) = s

(* What a prefix test must answer: p is a prefix of the text and covers name, dash and >= 1 digit. *)
HasPrefixSpec(s, p) == IsPrefixSeq(p, s) /\ Len(p) >= DashPos(s) + 1

TF(b) == IF b THEN "t" ELSE "f"

(* C20 for one string: what every exported entry point must answer. *)
ExpectedStr(s) ==
  LET wf == WellFormed(s)
      kn == Class(s) = "supported" \/ (Class(s) = "unknown" /\ NameOf(s) \in TestNames)
      rt == IF wf THEN "t" ELSE "na"
  IN [parse   |-> TF(wf),      \* blob.Parse
      known   |-> TF(kn),      \* blob.ParseKnown: supported refs only (plus the three test names)
      bytes   |-> TF(wf),      \* blob.ParseBytes
      orzero  |-> TF(wf),      \* blob.ParseOrZero(s).Valid()
      valid   |-> TF(wf),      \* blob.ValidRefString
      ujson   |-> TF(wf),      \* (*Ref).UnmarshalJSON of the quoted string succeeds
      str     |-> rt,          \* Parse(s).String() = s
      strb    |-> rt,          \* ParseBytes(s) = Parse(s)
      mjson   |-> rt,          \* MarshalJSON = the quoted text
      ujsoneq |-> rt,          \* UnmarshalJSON gives the same ref
      bin     |-> rt,          \* UnmarshalBinary(MarshalBinary(r)) = r
      parts   |-> rt,          \* HashName() "-" Digest() = s
      sup     |-> IF wf THEN TF(Class(s) = "supported") ELSE "na",    \* IsSupported
      eq      |-> rt,          \* EqualString(s)
      knowneq |-> IF kn THEN "t" ELSE "na"]                            \* ParseKnown(s) = Parse(s)
ExpectedProbe(s, p) == TF(HasPrefixSpec(s, p))          \* Parse(s).HasPrefix(p)
ExpectedEq(s, p)    == TF(p = s)                        \* Parse(s).EqualString(p)

--------------------------------------------------------------------------------
(* Part 3: pairs of concrete well-formed texts *)
LessT(s, t)     == RefLess(RefOf(s), RefOf(t))
TextLessT(s, t) == SeqLess(s, t)
BothSupported(s, t) == Class(s) = "supported" /\ Class(t) = "supported"
=============================================================================
