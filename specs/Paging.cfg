SPECIFICATION Spec
CONSTANTS
  Pn = {2, 4, 6, 8, 10}
  TimeVals <- TimeValsDef
  UnixZero <- UnixZeroDef
  MaxLimit = 6
  Deviations = {}
INVARIANTS PagesLEquiv ExactlyOnce PageIsNextChunk AroundOK AroundFull
CHECK_DEADLOCK FALSE
