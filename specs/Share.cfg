SPECIFICATION Spec
CONSTANTS
  Deviations = {}
  MaxLen = 3
INVARIANTS TypeOK MechanismRefines ServedIffExact SoundReach CompleteReach
CHECK_DEADLOCK FALSE
