------------------------------ MODULE Claims ------------------------------
(* Documented semantics of permanode attributes and deletions
   (doc/schema/permanode.md, doc/schema/delete.md) as pure operators over a WORLD: a set of item
   records with (at least) the fields of the harness world file (verif/world):

     id, kind \in {"key","permanode","claim","delete",..}, claim \in {"set","add","del",""},
     pn, attr, val (value id, 0 = no value), date (seconds), nano, signer \in {1,2}, target.

   Time points are pairs <<seconds, nanoseconds>>; Zero == <<>> is the Go zero time ("now").
   Two claims may carry the same date; the documentation does not say in which order they apply, so
   AttrValues is the SET of results over all orders of equal-dated claims and a real answer only has
   to be a member.  The documentation calls multi-valued attributes both "values" and "a set", so a
   reply may list a repeated value once (Dedup) or as often as it was added.

   The module is used three ways: (S) this file, TLC checks the algebraic lemmas below on every small
   world its world-building actions reach; (G) ClaimsGen extends it to enumerate worlds; (T) Trace_Claims / Trace_Paging
   recompute the operators on the world file of a recorded execution of the real index/corpus/search. *)
EXTENDS Integers, Sequences, FiniteSets, TLC

Zero == <<>>
When(c) == <<c.date, c.nano>>
TLess(a, b) == a[1] < b[1] \/ (a[1] = b[1] /\ a[2] < b[2])
TLeq(a, b) == a = b \/ TLess(a, b)

(* ---- deletion: x is deleted iff some delete claim that is not itself deleted targets it.
   Well-founded: a blob can only name blobs that existed before it (refs are hashes). *)
RECURSIVE Deleted(_, _)
Deleted(W, x) == \E d \in W : d.kind = "delete" /\ d.target = x /\ ~Deleted(W, d.id)
DeletedSet(W) == {c.id : c \in {c \in W : Deleted(W, c.id)}}

(* ---- attribute folding *)
Without(v, w) == SelectSeq(v, LAMBDA u : u # w)
Apply(v, c) == CASE c.claim = "set" -> <<c.val>>
                 [] c.claim = "add" -> Append(v, c.val)
                 [] c.claim = "del" -> IF c.val = 0 THEN <<>> ELSE Without(v, c.val)

(* Deviations: named departures from the documented semantics that the code is believed to contain
   (open findings).  {} = the documented semantics.  "IgnoreClaimDeletion" (H2): a deleted attribute
   claim still counts.  "ModTimeCountsPermanodeDelete": a live delete claim on the permanode itself
   counts as a modification.  Used for the sensitivity runs of leg S and to attribute rejected trace lines. *)
CONSTANT Deviations
AttrClaims(W, pn) == {c \in W : c.kind = "claim" /\ c.pn = pn}
LiveAttrClaimsD(W, pn, D) == {c \in AttrClaims(W, pn) : "IgnoreClaimDeletion" \in D \/ ~Deleted(W, c.id)}
LiveAttrClaims(W, pn) == LiveAttrClaimsD(W, pn, Deviations)
RelevantD(W, pn, attr, T, signer, D) ==
   {c \in LiveAttrClaimsD(W, pn, D) : /\ c.attr = attr
                                      /\ (T = Zero \/ TLeq(When(c), T))
                                      /\ (signer = 0 \/ c.signer = signer)}
Relevant(W, pn, attr, T, signer) == RelevantD(W, pn, attr, T, signer, Deviations)
Earliest(S) == {c \in S : \A d \in S : TLeq(When(c), When(d))}
RECURSIVE Folds(_, _)
Folds(S, v) == IF S = {} THEN {v} ELSE UNION {Folds(S \ {c}, Apply(v, c)) : c \in Earliest(S)}
AttrValuesD(W, pn, attr, T, signer, D) == Folds(RelevantD(W, pn, attr, T, signer, D), <<>>)
AttrValues(W, pn, attr, T, signer) == AttrValuesD(W, pn, attr, T, signer, Deviations)

SeqSet(s) == {s[i] : i \in 1..Len(s)}
RECURSIVE DedupFrom(_, _, _)
DedupFrom(v, i, acc) == IF i > Len(v) THEN acc
                        ELSE DedupFrom(v, i + 1, IF v[i] \in SeqSet(acc) THEN acc ELSE Append(acc, v[i]))
Dedup(v) == DedupFrom(v, 1, <<>>)
First(v) == IF v = <<>> THEN <<>> ELSE <<v[1]>>

(* what a list-valued, a single-valued and a membership query may answer *)
ListAnswersD(W, pn, attr, T, signer, D) == LET A == AttrValuesD(W, pn, attr, T, signer, D) IN A \cup {Dedup(v) : v \in A}
FirstAnswersD(W, pn, attr, T, signer, D) == {First(v) : v \in AttrValuesD(W, pn, attr, T, signer, D)}
HasAnswersD(W, pn, attr, T, signer, D) == {SeqSet(v) : v \in AttrValuesD(W, pn, attr, T, signer, D)}
ListAnswers(W, pn, attr, T, signer) == ListAnswersD(W, pn, attr, T, signer, Deviations)
FirstAnswers(W, pn, attr, T, signer) == FirstAnswersD(W, pn, attr, T, signer, Deviations)
HasAnswers(W, pn, attr, T, signer) == HasAnswersD(W, pn, attr, T, signer, Deviations)

(* ---- modification time: latest date of a live attribute claim; <<>> if there is none.
   delete.md: "(Un)Deletions are not considered as modifications". *)
ModTimeD(W, pn, D) == LET S == {When(c) : c \in LiveAttrClaimsD(W, pn, D)} \cup
                               (IF "ModTimeCountsPermanodeDelete" \in D
                                THEN {When(d) : d \in {d \in W : d.kind = "delete" /\ d.target = pn /\ ~Deleted(W, d.id)}}
                                ELSE {})
                      IN IF S = {} THEN Zero ELSE CHOOSE m \in S : \A d \in S : TLeq(d, m)
ModTime(W, pn) == ModTimeD(W, pn, Deviations)

(* ---- look-up BY VALUE (index rows signerattrvalue, Index.SearchPermanodesWithAttr): the undeleted permanodes
   whose attribute attr holds value v for the signer as of T.  With equal-dated claims the answer is only
   constrained where every order agrees: Must = in under every order, May = in under some order.
   Deviation "ValueLookupIgnoresLaterClaims": the rows are one per set/add claim, and the look-up matches every live
   claim of the value dated no later than T, whether or not a later claim replaced or removed the value. *)
PNs(W) == {p.id : p \in {p \in W : p.kind = "permanode"}}
HoldsIn(s, v) == v \in SeqSet(s)
WithAttrMustD(W, attr, v, T, signer, D) ==
   {pn \in PNs(W) : ~Deleted(W, pn) /\ \A s \in AttrValuesD(W, pn, attr, T, signer, D) : HoldsIn(s, v)}
WithAttrMayD(W, attr, v, T, signer, D) ==
   {pn \in PNs(W) : ~Deleted(W, pn) /\ \E s \in AttrValuesD(W, pn, attr, T, signer, D) : HoldsIn(s, v)}
EverClaimed(W, attr, v, T, signer) ==
   {c.pn : c \in {c \in W : /\ c.kind = "claim" /\ c.claim \in {"set", "add"} /\ c.attr = attr /\ c.val = v
                              /\ c.signer = signer /\ ~Deleted(W, c.id) /\ ~Deleted(W, c.pn)
                              /\ (T = Zero \/ TLeq(When(c), T))}}
WithAttrOkD(R, W, attr, v, T, signer, D) ==
   IF "ValueLookupIgnoresLaterClaims" \in D THEN R = EverClaimed(W, attr, v, T, signer)
   ELSE WithAttrMustD(W, attr, v, T, signer, D) \subseteq R /\ R \subseteq WithAttrMayD(W, attr, v, T, signer, D)

(* live claims about a permanode as the index lists them: attribute claims and delete claims on the permanode itself *)
ClaimsAbout(W, pn, attr, signer) ==
   {c.id : c \in {c \in W : /\ \/ (c.kind = "claim" /\ c.pn = pn)
                              \/ (c.kind = "delete" /\ c.target = pn /\ attr = "")
                           /\ ~Deleted(W, c.id)
                           /\ (attr = "" \/ c.attr = attr)
                           /\ (signer = 0 \/ c.signer = signer)}}

(* ======================= leg S: lemmas on small worlds =======================
   Worlds are built item by item (ids in creation order: 1, 2 = the signers' keys, 3 = the permanode,
   then attribute claims and delete claims, each delete naming an earlier item), so TLC's breadth-first
   search visits every world within the bounds once and evaluates the lemmas on each.  ClaimsGen reuses
   the same actions to enumerate the worlds that are replayed on the real code. *)
CONSTANTS MaxClaims, MaxDeletes, SAttrs, SVals, SDates, ClaimSigners, DelDates, DelSigners, MixDeletes
VARIABLE world

PN == 3
Base(i, k, s) == [id |-> i, kind |-> k, claim |-> "", pn |-> 0, attr |-> "", val |-> 0,
                  date |-> 0, nano |-> 0, signer |-> s, target |-> 0]
World0 == {Base(1, "key", 1), Base(2, "key", 2), Base(PN, "permanode", 1)}
Shapes == {[claim |-> k, attr |-> a, val |-> v, date |-> d, signer |-> s] :
              k \in {"set", "add", "del"}, a \in SAttrs, v \in SVals \cup {0}, d \in SDates, s \in ClaimSigners}
GoodShapes == {sh \in Shapes : sh.val # 0 \/ sh.claim = "del"}
Item(i, sh) == [id |-> i, kind |-> "claim", claim |-> sh.claim, pn |-> PN, attr |-> sh.attr, val |-> sh.val,
                date |-> sh.date, nano |-> 0, signer |-> sh.signer, target |-> 0]
Del(i, t, d, s) == [id |-> i, kind |-> "delete", claim |-> "", pn |-> 0, attr |-> "", val |-> 0,
                    date |-> d, nano |-> 0, signer |-> s, target |-> t]
NextId == Cardinality(world) + 1
Ds == {d \in world : d.kind = "delete"}
Cs == AttrClaims(world, PN)
Deletable == {c.id : c \in {c \in world : c.kind \in {"permanode", "claim", "delete"}}}

AddClaim(sh) == /\ Cardinality(Cs) < MaxClaims
                /\ MixDeletes \/ Ds = {}
                /\ world' = world \cup {Item(NextId, sh)}
AddDelete(t, d, s) == /\ Cardinality(Ds) < MaxDeletes
                      /\ world' = world \cup {Del(NextId, t, d, s)}
Init == world = World0
Next == \/ \E sh \in GoodShapes : AddClaim(sh)
        \/ \E t \in Deletable, d \in DelDates, s \in DelSigners : AddDelete(t, d, s)
Spec == Init /\ [][Next]_world

Times == {Zero} \cup {<<d, 0>> : d \in {5, 15, 25, 35} \cup SDates}
Signers == {0, 1, 2}
MaxDate(S) == CHOOSE m \in {When(c) : c \in S} : \A c \in S : TLeq(When(c), m)
AV(Wd, a, T, s) == AttrValues(Wd, PN, a, T, s)

(* L1: a deleted claim contributes nothing: same answers as in the world without it *)
L1_DeletedClaimsVanish ==
   \A c \in Cs : Deleted(world, c.id) =>
      \A T \in Times, s \in Signers : AV(world, c.attr, T, s) = AV(world \ {c}, c.attr, T, s)
(* L2: deleting a delete claim restores its target (when that delete was the target's only deleter) *)
L2_UndeleteRestores ==
   \A d \in Ds : Deleted(world, d.id) =>
      \A x \in world : (d.target = x.id /\ \A e \in Ds : e.target = x.id => e = d) => ~Deleted(world, x.id)
(* L3: chains: an item under a linear chain of k deleters is deleted iff k is odd *)
RECURSIVE ChainLen(_)
ChainLen(x) == LET S == {d \in Ds : d.target = x} IN
               IF S = {} THEN 0 ELSE IF Cardinality(S) > 1 THEN 100 ELSE 1 + ChainLen((CHOOSE d \in S : TRUE).id)
L3_ChainParity == \A x \in world : ChainLen(x.id) < 100 => (Deleted(world, x.id) <=> ChainLen(x.id) % 2 = 1)
(* L4: the zero time means "everything so far" *)
L4_ZeroIsLatest == \A a \in SAttrs, s \in Signers : Cs # {} => AV(world, a, Zero, s) = AV(world, a, MaxDate(Cs), s)
(* L5: a signer filter equals dropping the other signer's attribute claims *)
L5_SignerFilter == \A a \in SAttrs, T \in Times, s \in {1, 2} :
      AV(world, a, T, s) = AV({c \in world : c.kind # "claim" \/ c.signer = s}, a, T, 0)
(* L6: without equal dates the answer is unique *)
L6_NoTiesUnique == \A a \in SAttrs, T \in Times, s \in Signers :
      LET R == Relevant(world, PN, a, T, s) IN
      (\A c, d \in R : c # d => c.date # d.date) => Cardinality(AV(world, a, T, s)) = 1
(* L7: set-attribute = del-attribute of everything, then add-attribute *)
SampleLists == {<<>>, <<1>>, <<2, 1>>, <<1, 1, 2>>, <<1, 2, 1>>}
L7_SetIsDelAdd == world = world /\ \A v \in SampleLists, x \in SVals :
      Apply(v, [claim |-> "set", val |-> x]) = Apply(Apply(v, [claim |-> "del", val |-> 0]), [claim |-> "add", val |-> x])
(* L8: del with a value removes every occurrence of it and nothing else *)
L8_DelValue == world = world /\ \A v \in SampleLists, x \in SVals :
      LET r == Apply(v, [claim |-> "del", val |-> x]) IN x \notin SeqSet(r) /\ SeqSet(r) = SeqSet(v) \ {x}
(* L9: the answer at T only depends on claims dated <= T *)
L9_HistoryIgnoresFuture == \A a \in SAttrs, T \in Times \ {Zero}, s \in Signers :
      AV(world, a, T, s) = AV({c \in world : c.kind # "claim" \/ TLeq(When(c), T)}, a, T, s)
(* L10: modtime is the date of a live claim, no live claim is newer, and delete claims never count *)
L10_ModTime == LET m == ModTime(world, PN) IN
      IF LiveAttrClaims(world, PN) = {} THEN m = Zero
      ELSE (\E c \in LiveAttrClaims(world, PN) : When(c) = m) /\ \A c \in LiveAttrClaims(world, PN) : TLeq(When(c), m)
(* L11: some answer always exists; a single-valued answer is the head of a list answer; a deleted permanode keeps its attributes *)
L11_Shapes == \A a \in SAttrs, T \in Times, s \in Signers :
      /\ AV(world, a, T, s) # {}
      /\ \A f \in FirstAnswers(world, PN, a, T, s) : \E v \in ListAnswers(world, PN, a, T, s) : First(v) = f
      /\ AV(world, a, T, s) = AV({c \in world : c.kind # "delete" \/ c.target # PN}, a, T, s)
(* L12: attributes are independent: claims on another attribute never matter *)
L12_AttrIndependent == \A a \in SAttrs, T \in Times, s \in Signers :
      AV(world, a, T, s) = AV({c \in world : c.kind # "claim" \/ c.attr = a}, a, T, s)
=============================================================================
