------------------------------ MODULE Trace_Lin ------------------------------
(* C14: linearizability of concurrent executions of a real storage configuration against BlobStore, by trace
   validation.  Every public call of every client goroutine is logged twice with one global sequence counter:
   {"ev":"call","c":client,"op":..,args} before it is invoked and {"ev":"ret","c":client,res,size,list} after
   it returned.  Between the two, the call takes effect atomically at some instant - the silent step Lin(c),
   which consumes no line, applies the BlobStore action and remembers the reply the reference map gives at that
   instant; Ret(c) requires the logged reply to be that one.  The history is linearizable iff some interleaving
   of Lin steps explains every line: TLC searches them all (BFS).
   "enum" is checked as an atomic snapshot (as the property states).  With Weak = TRUE an enumeration may instead
   be explained as a non-atomic scan: every listed blob was present at some instant of the call and every blob
   present throughout the call (and within the page) is listed - used only to tell a non-snapshot scan from a
   lost or phantom blob in the signature.
   Segments (reset .. reset) are independent; the dead chain / HW protocol is the one of Trace_BlobStoreFault. *)
EXTENDS BlobStore, TLC, Json, IOUtils

CONSTANTS Clients, Weak
VARIABLES pend,      \* [Clients -> pending call record]
          l, dead,
          segno      \* segment counter modulo 64 (selects the high-water register, see Mark)
Trace == ndJsonDeserialize(IOEnv.TRACE_FILE)
Ev == Trace[l]
tvars == <<vars, pend, l, dead, segno>>
SeqToSet(s) == {s[i] : i \in 1..Len(s)}

Idle == [st |-> "idle", op |-> "", b |-> 0, bs |-> {}, after |-> 0, limit |-> 0, off |-> 0, len |-> 0,
         rep |-> [op |-> "", res |-> "", size |-> 0, list |-> <<>>], seen |-> {}, always |-> {}]
InitReply == [op |-> "init", res |-> "ok", size |-> 0, list |-> <<>>]

TInit == /\ l = 1 /\ dead = TRUE
         /\ present = {} /\ size = [b \in Blobs |-> 0]
         /\ caps = [canRemove |-> TRUE, readOnly |-> FALSE, subfetch |-> "yes"]
         /\ reply = InitReply
         /\ pend = [c \in Clients |-> Idle]
         /\ segno = 0

(* High-water marks.  Silent Lin steps make live branches lag behind the dead chain (which consumes one line
   per BFS level and starts the following segments early), so one global monotone register would suppress the
   marks of a slower, earlier segment.  A live branch lags by at most one level per operation of its segment,
   i.e. by less than half its segment's length: eight registers used round-robin per segment cannot collide
   (the orchestrator checks that every segment has at least 2 lines per operation). *)
ASSUME \A i \in 10..73 : TLCSet(i, 0)
\* 64 registers chosen round-robin per segment: a live state lags behind the dead front-runner by one BFS level per silent
\* step, so states of several segments coexist; with 8 registers a long segment (100 silent steps) followed by more than 8
\* short ones had its register overwritten and its lines went unreported (seen in Trace_SyncValidate, which prints every
\* line instead).  64 segments are always longer than the lag of one.
Mark == IF l > TLCGet(10 + segno) THEN TLCSet(10 + segno, l) /\ PrintT(<<"HW", l>>) ELSE TRUE
IsEv(e) == l <= Len(Trace) /\ Ev.ev = e /\ l' = l + 1

TReset == /\ IsEv("reset")
          /\ present' = SeqToSet(Ev.pre)
          /\ size' = [b \in Blobs |-> IF b \div 2 <= Len(Ev.sizes) THEN Ev.sizes[b \div 2] ELSE 0]
          /\ caps' = [canRemove |-> Ev.canRemove, readOnly |-> Ev.readOnly, subfetch |-> Ev.subfetch]
          /\ reply' = InitReply /\ pend' = [c \in Clients |-> Idle] /\ dead' = FALSE
          /\ segno' = (segno + 1) % 64 /\ TLCSet(10 + ((segno + 1) % 64), 0)

Call == /\ IsEv("call") /\ ~dead /\ pend[Ev.c].st = "idle"
        /\ pend' = [pend EXCEPT ![Ev.c] =
             [Idle EXCEPT !.st = "called", !.op = Ev.op,
                          !.b = IF Ev.op \in {"receive", "fetch", "subfetch"} THEN Ev.b ELSE 0,
                          !.bs = IF Ev.op \in {"stat", "remove"} THEN SeqToSet(Ev.bs) ELSE {},
                          !.after = IF Ev.op = "enum" THEN Ev.after ELSE 0,
                          !.limit = IF Ev.op = "enum" THEN Ev.limit ELSE 0,
                          !.off = IF Ev.op = "subfetch" THEN Ev.off ELSE 0,
                          !.len = IF Ev.op = "subfetch" THEN Ev.len ELSE 0,
                          !.always = IF Ev.op = "enum" THEN present ELSE {},
                          !.seen = IF Ev.op = "enum" THEN present ELSE {}]]
        /\ UNCHANGED <<vars, dead, segno>> /\ Mark

(* the linearization point: a silent step *)
LinAct(p) ==
  CASE p.op = "receive"  -> Receive(p.b)
    [] p.op = "fetch"    -> Fetch(p.b)
    [] p.op = "subfetch" -> SubFetch(p.b, p.off, p.len)
    [] p.op = "stat"     -> Stat(p.bs)
    [] p.op = "enum"     -> Enumerate(p.after, p.limit)
    [] p.op = "remove"   -> RemoveBlobs(p.bs)
Lin(c) == /\ ~dead /\ pend[c].st = "called"
          /\ LinAct(pend[c])
          /\ pend' = [pend EXCEPT ![c].st = "lin", ![c].rep = reply']
          /\ UNCHANGED <<l, dead, segno>>

Same(r, e) == r.res = e.res /\ r.size = e.size /\ r.list = e.list

Ret == /\ IsEv("ret") /\ ~dead /\ pend[Ev.c].st = "lin"
       /\ Same(pend[Ev.c].rep, Ev)
       /\ pend' = [pend EXCEPT ![Ev.c] = Idle]
       /\ UNCHANGED <<vars, dead, segno>> /\ Mark

(* Weak enumeration: while an enum is pending, every mutation updates what it may have seen / must have seen. *)
Track(c) == IF pend[c].st = "called" /\ pend[c].op = "enum"
            THEN [pend[c] EXCEPT !.seen = @ \cup present', !.always = @ \cap present'] ELSE pend[c]
RetWeakEnum ==
  /\ Weak /\ IsEv("ret") /\ ~dead /\ Ev.op = "enum" /\ pend[Ev.c].st = "called" /\ Ev.res = "ok"
  /\ LET p == pend[Ev.c]
         listed == {Ev.list[i][1] : i \in 1..Len(Ev.list)}
         inRange(b) == b > p.after
     IN /\ \A i \in 1..Len(Ev.list) : Ev.list[i][1] \in (p.seen \cup p.always \cup present) /\ inRange(Ev.list[i][1])
                                      /\ Ev.list[i][2] = size[Ev.list[i][1]]
        /\ \A i \in 1..(Len(Ev.list) - 1) : Ev.list[i][1] < Ev.list[i + 1][1]
        /\ Len(Ev.list) <= p.limit
        /\ (Len(Ev.list) < p.limit => \A b \in (p.always \cap present) : inRange(b) => b \in listed)
  /\ pend' = [pend EXCEPT ![Ev.c] = Idle]
  /\ UNCHANGED <<vars, dead, segno>> /\ Mark
LinW(c) == /\ Weak /\ Lin(c)      \* (same step; kept so that coverage distinguishes the modes)

(* mutating Lin steps must update the weak-enum trackers of the other clients *)
LinT(c) == /\ ~dead /\ pend[c].st = "called"
           /\ LinAct(pend[c])
           /\ pend' = [d \in Clients |-> IF d = c THEN [pend[c] EXCEPT !.st = "lin", !.rep = reply']
                                          ELSE IF Weak THEN Track(d) ELSE pend[d]]
           /\ UNCHANGED <<l, dead, segno>>

Canon == /\ present' = {} /\ size' = [b \in Blobs |-> 0]
         /\ caps' = [canRemove |-> TRUE, readOnly |-> FALSE, subfetch |-> "yes"]
         /\ reply' = InitReply /\ pend' = [c \in Clients |-> Idle]
TGiveUp == ~dead /\ l <= Len(Trace) /\ Ev.ev # "reset" /\ l' = l + 1 /\ dead' = TRUE /\ Canon /\ UNCHANGED segno
TSkip == dead /\ l <= Len(Trace) /\ Ev.ev # "reset" /\ l' = l + 1 /\ UNCHANGED <<vars, pend, dead, segno>>
TEnd == l = Len(Trace) + 1 /\ dead /\ PrintT(<<"END", l>>) /\ UNCHANGED tvars

TNext == TReset \/ Call \/ Ret \/ RetWeakEnum \/ (\E c \in Clients : LinT(c)) \/ TGiveUp \/ TSkip
TSpec == TInit /\ [][TNext]_tvars
(* every line is consumed by the dead chain at the latest *)
Consumed == TLCGet("stats").diameter >= Len(Trace)
=============================================================================
