SPECIFICATION GSpec
CONSTANTS
  Deviations = {}
  MaxClaims = 2
  MaxDeletes = 0
  SAttrs = {"a"}
  SVals = {1, 2}
  SDates = {10, 20}
  ClaimSigners = {1, 2}
  DelDates = {25}
  DelSigners = {1}
  MixDeletes = TRUE
  Mode = "bfs"
  Depth = 2
  MinItems = 2
  QTimes = {0, 5, 10, 15, 20, 25}
  QSigners = {0, 1, 2}
INVARIANT Emit
CHECK_DEADLOCK FALSE
