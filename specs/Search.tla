------------------------------- MODULE Search -------------------------------
(* C08 - pkg/search/query.go: what a constraint tree MEANS (the matcher, read from the blobMatches
   functions and the field documentation), how results are ordered and limited, and a transcription
   of the PLANNER that picks the candidate enumeration (pickCandidateSource, onlyMatchesPermanode,
   matchesPermanodeTypes, matchesAtMostOneBlob, matchesFileByWholeRef and the corpus enumerations).

   The world is the harness's abstract world file (JSON): items of kind key / permanode / claim /
   delete / chunk / file / bytes / staticset / dir with integer ids 1..N, claim dates in seconds,
   two signers (1 = the owner the search handler is configured with), the rank of every item's
   blobref text, sizes, and the harness's own truth tables for the atomic string / integer / prefix
   predicates (TLC strings are opaque): spreds[i].vids / .names / .mimes, ipreds[i].vids,
   prefixes[i].ids.  Attribute values are value ids: 1..K for strings, 1000 + id for the ref of item id.

   Constraint trees are sequences of uniform node records (index 1 = root; a, b = child indices,
   0 = none) - TLC can neither nest nor compare records of different shapes:
     k = any | type | anytype | prefix | size | and | or | xor | not | pn | file | dir
     type:   s = camliType              prefix: p = prefix id          size: lo, hi (0 = unset)
     pn:     s = attr, v = exact value id, sp = valueMatches table, ip = valueMatchesInt table,
             lo/hi/zmax = numValue, all = valueAll, a = valueInSet sub-constraint, at/hasAt,
             mtb/mta = modTime before/after, tb/ta = time before/after,
             rel (parent|child) / edge / relAny + b = relation sub-constraint, hid = skipHidden
     file:   sp = fileName table, mp = mimeType table, lo/hi = fileSize, wh = wholeRef class, a = parentDir
     dir:    sp = fileName table, p = blobRefPrefix, a = parentDir, lo/hi/zmax = topFileCount,
             b = contains (rec = FALSE) / recursiveContains (rec = TRUE)
   One Constraint carries one of these (a Constraint with several top-level fields set is outside
   the modelled fragment).

   Deviations (believed differences between the code and the intended mechanism, each refuted by TLC
   on the model and reproduced on the real code by the G/T legs):
     "OrAppendsTypes"        matchesPermanodeTypes("or") = append(sa, sb...) even when one side is
                             unrestricted (H3): the typed permanode source misses matches.
     "SortedSourceDropsSome" the time-sorted permanode enumerations skip deleted permanodes and
                             permanodes without a time (H4): the result set depends on the sort.
     "RecursiveWholeDir"     DirConstraint.blobMatches recurses with the WHOLE DirConstraint (name,
                             count, parentDir, prefix) on intermediate directories, although
                             recursiveContains is documented as "like Contains, but applied to all
                             the descendants of the directory".
     "DeleteDateIsModtime"   a delete claim on a permanode is indexed as one of the permanode's claims, so
                             its date counts as the permanode's modification time (modTime / time
                             constraints, time sort keys), although doc/schema/delete.md says that
                             "the claimDate of a delete claim is never considered as a modtime in the
                             context of time constrained searches".
     "ContentClaimTimeIgnored" Corpus.PermanodeTime lists "camliContent claim set time" as the last
                             source of a permanode's time, but the variable `ok` it tests has been
                             overwritten by the preceding attribute look-ups: a permanode whose content
                             is not a file with a time gets its modtime instead.
     "DirChildrenCappedByLimit" without a corpus, search.dirChildren asks the index for at most
                             q.Limit children of a directory (the query's RESULT limit): topFileCount /
                             contains / recursiveContains then see only the first Limit children (in ref
                             order).  The cap itself travels in the deviation set as "cap<n>".
     "TypedSourceRepeats"    Corpus.EnumeratePermanodesByNodeTypes walks the set of every listed node type
                             in turn without remembering what it has already sent: a permanode that has had
                             two of the listed types (or a type listed twice by an "or") is a candidate
                             twice and, if it matches, is returned twice. *)
EXTENDS Integers, Sequences, FiniteSets, SequencesExt, Json, TLC

CONSTANTS WorldFile,      \* name of the world JSON, relative to the directory TLC runs in
          Deviations,
          MenuSize,        \* the bounded grammar combines the first MenuSize atoms of the world's menu
          Part, Parts      \* leg S is split over several TLC processes: this one takes the seed atoms j with j % Parts = Part

AllDevs == {"OrAppendsTypes", "SortedSourceDropsSome", "RecursiveWholeDir", "DeleteDateIsModtime", "ContentClaimTimeIgnored",
            "DirChildrenCappedByLimit", "TypedSourceRepeats"}
CapToks == <<"cap1", "cap2", "cap3", "cap4", "cap5">>
ASSUME Deviations \subseteq AllDevs \cup ToSet(CapToks)

W == JsonDeserialize(WorldFile)
Items == W.items
N == Len(Items)
Ids == 1..N
RefVidBase == 1000
Owner == 1

Kind(b) == Items[b].kind
CTypeOf(k) == CASE k = "permanode" -> "permanode"
                [] k \in {"claim", "delete", "share"} -> "claim"
                [] k = "file" -> "file"
                [] k = "bytes" -> "bytes"
                [] k = "staticset" -> "static-set"
                [] k = "dir" -> "directory"
                [] OTHER -> ""                       \* keys, chunks: not camli JSON
CT == [b \in Ids |-> CTypeOf(Kind(b))]
Pns == {b \in Ids : Kind(b) = "permanode"}
Files == {b \in Ids : Kind(b) = "file"}
Dirs == {b \in Ids : Kind(b) = "dir"}

(* ---------------- claims (the fold of DESIGN C.2 `Claims`) ---------------- *)
AC == {c \in Ids : Kind(c) = "claim"}
Dels == {d \in Ids : Kind(d) = "delete"}
RECURSIVE IsDel(_)
IsDel(x) == \E d \in Dels : Items[d].target = x /\ ~IsDel(d)     \* well-founded: refs are hashes
Deleted == {x \in Ids : IsDel(x)}
LC == AC \ Deleted                                              \* deleted claims do not count
ClaimsOfPn == [p \in Pns |-> {c \in LC : Items[c].pn = p}]
ClaimVid(c) == IF Items[c].valref # 0 THEN RefVidBase + Items[c].valref ELSE Items[c].val   \* 0 = no value
(* Times are milliseconds after the worlds' epoch: an item's date (seconds) plus its nano field; the times in
   constraints (at, time, modTime) are whole seconds. *)
DateOf(x) == Items[x].date * 1000 + (Items[x].nano \div 1000000)
ClaimBefore(c, d) == DateOf(c) < DateOf(d) \/ (DateOf(c) = DateOf(d) /\ c < d)
Apply(v, c) == CASE Items[c].claim = "set" -> <<ClaimVid(c)>>
                 [] Items[c].claim = "add" -> Append(v, ClaimVid(c))
                 [] Items[c].claim = "del" -> IF ClaimVid(c) = 0 THEN <<>> ELSE SelectSeq(v, LAMBDA w : w # ClaimVid(c))
RECURSIVE FoldC(_, _, _)
FoldC(s, i, v) == IF i > Len(s) THEN v ELSE FoldC(s, i + 1, Apply(v, s[i]))
(* values of attr on p as of T (hasT = FALSE: now) according to signer (0 = any) *)
ValsAt(p, attr, signer, hasT, T) ==
  LET S == {c \in ClaimsOfPn[p] : /\ Items[c].attr = attr
                                  /\ (signer = 0 \/ Items[c].signer = signer)
                                  /\ (~hasT \/ DateOf(c) <= T * 1000)}
  IN FoldC(SetToSortSeq(S, ClaimBefore), 1, <<>>)
AttrNames == ToSet(W.attrs)
NowVals == [p \in Pns |-> [attr \in AttrNames |-> [sg \in {0, Owner} |-> ValsAt(p, attr, sg, FALSE, 0)]]]   \* evaluated once
Vals(p, attr, signer, hasT, T) ==
  IF ~hasT /\ attr \in AttrNames /\ signer \in {0, Owner} THEN NowVals[p][attr][signer] ELSE ValsAt(p, attr, signer, hasT, T)

MaxOf(S) == CHOOSE m \in S : \A x \in S : x <= m
(* PermanodeModtime: newest non-deleted attribute claim of any signer (dd: the code also counts the
   date of a live delete claim on the permanode itself) *)
ModOf(p, dd) == LET S == {DateOf(c) : c \in ClaimsOfPn[p]}
                         \cup (IF dd THEN {DateOf(d) : d \in {d \in Dels \ Deleted : Items[d].target = p}} ELSE {})
                IN [has |-> S # {}, t |-> IF S = {} THEN 0 ELSE MaxOf(S)]
PnMod0 == [p \in Pns |-> ModOf(p, FALSE)]
PnMod1 == [p \in Pns |-> ModOf(p, TRUE)]
PnMod(D) == IF "DeleteDateIsModtime" \in D THEN PnMod1 ELSE PnMod0
(* pnCamliContent: the last set / del-attribute of camliContent *)
CCApply(st, c) == CASE Items[c].claim = "set" -> [ref |-> Items[c].valref, t |-> DateOf(c)]
                    [] Items[c].claim = "del" -> [ref |-> 0, t |-> 0]
                    [] OTHER -> st
RECURSIVE FoldCC(_, _, _)
FoldCC(s, i, st) == IF i > Len(s) THEN st ELSE FoldCC(s, i + 1, CCApply(st, s[i]))
CCOf(p) == FoldCC(SetToSortSeq({c \in ClaimsOfPn[p] : Items[c].attr = "camliContent"}, ClaimBefore), 1, [ref |-> 0, t |-> 0])
(* PermanodeAnyTime: time of the content (a file's time, else the date of the camliContent claim),
   else the modtime.  (The worlds do not use the explicit date attributes of nodeattr.) *)
TimeOf(p, mod, ci) == LET cc == CCOf(p) IN
             IF cc.ref # 0 /\ Kind(cc.ref) = "file" THEN [has |-> TRUE, t |-> DateOf(cc.ref)]
             ELSE IF cc.ref # 0 /\ ~ci THEN [has |-> TRUE, t |-> cc.t]
             ELSE mod[p]
PnTimeTab == [dd \in BOOLEAN |-> [ci \in BOOLEAN |-> [p \in Pns |-> TimeOf(p, IF dd THEN PnMod1 ELSE PnMod0, ci)]]]
PnTime(D) == PnTimeTab["DeleteDateIsModtime" \in D]["ContentClaimTimeIgnored" \in D]
HasAnyClaim(p) == \E c \in AC : Items[c].pn = p
EverNodeType(p) == {ClaimVid(c) : c \in {c \in AC : Items[c].pn = p /\ Items[c].attr = "camliNodeType"}}

(* ---------------- files and directories ---------------- *)
DirKids == [d \in Dirs |-> ToSet(Items[Items[d].children[1]].children)]
ParentDirs(b) == {d \in Dirs : b \in DirKids[d]}
CapOf(D) == IF "DirChildrenCappedByLimit" \notin D THEN 0
            ELSE IF "cap1" \in D THEN 1 ELSE IF "cap2" \in D THEN 2 ELSE IF "cap3" \in D THEN 3
            ELSE IF "cap4" \in D THEN 4 ELSE IF "cap5" \in D THEN 5 ELSE 0
(* the children the matcher sees: all of them, or (deviation) the first CapOf(D) in ref order *)
Kids(D, d) == IF CapOf(D) = 0 THEN DirKids[d]
              ELSE LET q == SetToSortSeq(DirKids[d], LAMBDA x, y : Items[x].rank < Items[y].rank)
                   IN {q[j] : j \in 1..(IF Len(q) < CapOf(D) THEN Len(q) ELSE CapOf(D))}
RECURSIVE Desc(_, _)
Desc(D, d) == Kids(D, d) \cup UNION {Desc(D, c) : c \in Kids(D, d) \cap Dirs}

(* ---------------- harness truth tables ---------------- *)
SpVids  == [i \in 1..Len(W.spreds) |-> ToSet(W.spreds[i].vids)]
SpNames == [i \in 1..Len(W.spreds) |-> ToSet(W.spreds[i].names)]
SpMimes == [i \in 1..Len(W.spreds) |-> ToSet(W.spreds[i].mimes)]
IpVids  == [i \in 1..Len(W.ipreds) |-> ToSet(W.ipreds[i].vids)]
PfxIds  == [i \in 1..Len(W.prefixes) |-> ToSet(W.prefixes[i].ids)]
PfxExact == [i \in 1..Len(W.prefixes) |-> W.prefixes[i].exact]
EdgeAttrs == ToSet(W.edgeattrs)

IntOK(v, lo, hi, zmax) == (lo # 0 => v >= lo) /\ ((hi # 0 \/ zmax) => v <= hi)       \* IntConstraint: 0 = don't check
TimeOK(t, hasB, B, hasA, A) == (hasB => t < B * 1000) /\ (hasA => t >= A * 1000)      \* TimeConstraint (t in ms, bounds in s)

(* ---------------- the matcher ---------------- *)
RECURSIVE M(_, _, _, _), PnM(_, _, _, _), FileM(_, _, _, _), DirM(_, _, _, _)

(* permanodeMatchesAttrVals / permanodeMatchesAttrVal *)
AttrOK(D, tr, n, vals) ==
  LET hasVC == n.v # 0 \/ n.sp # 0 \/ n.ip # 0 \/ n.a # 0
      ValOK(w) == /\ (n.v # 0 => w = n.v)
                  /\ (n.sp # 0 => w \in SpVids[n.sp])
                  /\ (n.ip # 0 => w \in IpVids[n.ip])
                  /\ (n.a # 0 => (w > RefVidBase /\ M(D, tr, n.a, w - RefVidBase)))
      nmatch == Cardinality({j \in 1..Len(vals) : ValOK(vals[j])})
  IN /\ ((n.lo # 0 \/ n.hi # 0 \/ n.zmax) => IntOK(Len(vals), n.lo, n.hi, n.zmax))
     /\ (hasVC => (nmatch > 0 /\ (n.all => nmatch = Len(vals))))

Hidden(p, hasT, T) ==
  LET dv == Vals(p, "camliDefVis", Owner, hasT, T)
      nt == Vals(p, "camliNodeType", Owner, hasT, T)
  IN \/ (Len(dv) > 0 /\ W.hideVid # 0 /\ dv[1] = W.hideVid)
     \/ (Len(nt) > 0 /\ W.venueVid # 0 /\ nt[1] = W.venueVid)

(* RelationConstraint.match: related = permanodes (or blobs) linked by an edge attribute that the
   parent still has as of `at` (claims of any signer) *)
EdgeOK(n, attr) == IF n.edge # "" THEN attr = n.edge ELSE attr \in EdgeAttrs
Related(n, p) ==
  IF n.rel = "child"
  THEN {w - RefVidBase : w \in {w \in UNION {ToSet(Vals(p, at, 0, n.hasAt, n.at)) : at \in {x \in AttrNames : EdgeOK(n, x)}} : w > RefVidBase}}
  ELSE {q \in Pns : \E at \in AttrNames : EdgeOK(n, at) /\ (RefVidBase + p) \in ToSet(Vals(q, at, 0, n.hasAt, n.at))}
RelOK(D, tr, n, p) ==
  LET R == Related(n, p) IN
  IF n.relAny THEN \E r \in R : M(D, tr, n.b, r)
  ELSE R # {} /\ \A r \in R : M(D, tr, n.b, r)

PnM(D, tr, i, b) == LET n == tr[i] IN
  /\ CT[b] = "permanode"
  /\ (n.s # "" => AttrOK(D, tr, n, Vals(b, n.s, Owner, n.hasAt, n.at)))
  /\ (n.hid => ~Hidden(b, n.hasAt, n.at))
  /\ ((n.hasMtb \/ n.hasMta) => (PnMod(D)[b].has /\ TimeOK(PnMod(D)[b].t, n.hasMtb, n.mtb, n.hasMta, n.mta)))
  /\ ((n.hasTb \/ n.hasTa) => (PnTime(D)[b].has /\ TimeOK(PnTime(D)[b].t, n.hasTb, n.tb, n.hasTa, n.ta)))
  /\ (n.rel # "" => RelOK(D, tr, n, b))

FileM(D, tr, i, b) == LET n == tr[i] IN
  /\ CT[b] = "file"
  /\ IntOK(Items[b].fsize, n.lo, n.hi, FALSE)
  /\ (n.sp # 0 => b \in SpNames[n.sp])
  /\ (n.mp # 0 => b \in SpMimes[n.mp])
  /\ (n.a # 0 => \E d \in ParentDirs(b) : DirM(D, tr, n.a, d))
  /\ (n.wh # 0 => Items[b].whole = n.wh)

DirM(D, tr, i, b) == LET n == tr[i] IN
  /\ CT[b] = "directory"
  /\ (n.p # 0 => b \in PfxIds[n.p])
  /\ (n.sp # 0 => b \in SpNames[n.sp])
  /\ (n.a # 0 => \E d \in ParentDirs(b) : DirM(D, tr, n.a, d))
  /\ ((n.lo # 0 \/ n.hi # 0 \/ n.zmax) => IntOK(Cardinality(Kids(D, b)), n.lo, n.hi, n.zmax))
  /\ (n.b # 0 =>
        IF ~n.rec THEN \E c \in Kids(D, b) : M(D, tr, n.b, c)
        ELSE IF "RecursiveWholeDir" \in D
             THEN \/ \E c \in Kids(D, b) : M(D, tr, n.b, c)
                  \/ \E c \in Kids(D, b) \cap Dirs : DirM(D, tr, i, c)      \* the code: the whole constraint again
             ELSE \E c \in Desc(D, b) : M(D, tr, n.b, c))                    \* documented: any descendant

(* genMatcher / LogicalConstraint.matcher *)
M(D, tr, i, b) == LET n == tr[i] IN
  CASE n.k = "any"     -> TRUE
    [] n.k = "type"    -> CT[b] = n.s
    [] n.k = "anytype" -> CT[b] # ""
    [] n.k = "prefix"  -> b \in PfxIds[n.p]
    [] n.k = "size"    -> IntOK(Items[b].size, n.lo, n.hi, FALSE)
    [] n.k = "and"     -> M(D, tr, n.a, b) /\ M(D, tr, n.b, b)
    [] n.k = "or"      -> M(D, tr, n.a, b) \/ M(D, tr, n.b, b)
    [] n.k = "xor"     -> M(D, tr, n.a, b) # M(D, tr, n.b, b)
    [] n.k = "not"     -> ~M(D, tr, n.a, b)
    [] n.k = "pn"      -> PnM(D, tr, i, b)
    [] n.k = "file"    -> FileM(D, tr, i, b)
    [] n.k = "dir"     -> DirM(D, tr, i, b)

Matches(D, tr) == {b \in Ids : M(D, tr, 1, b)}

(* ---------------- the planner ---------------- *)
RECURSIVE OnlyPn(_, _), TypesSeq(_, _, _), AtMostOne(_, _), ByWhole(_, _)
(* onlyMatchesPermanode *)
OnlyPn(tr, i) == LET n == tr[i] IN
  \/ n.k = "pn" \/ (n.k = "type" /\ n.s = "permanode")
  \/ (n.k = "and" /\ (OnlyPn(tr, n.a) \/ OnlyPn(tr, n.b)))
(* matchesPermanodeTypes: the list of node types; <<>> = "might match other things" *)
TypesSeq(D, tr, i) == LET n == tr[i] IN
  CASE n.k = "pn" /\ n.s = "camliNodeType" /\ n.v # 0 -> <<n.v>>
    [] n.k = "and" -> (IF TypesSeq(D, tr, n.a) # <<>> THEN TypesSeq(D, tr, n.a) ELSE TypesSeq(D, tr, n.b))
    [] n.k = "or"  -> (IF "OrAppendsTypes" \in D THEN TypesSeq(D, tr, n.a) \o TypesSeq(D, tr, n.b)      \* the code: append(sa, sb...)
                       ELSE IF TypesSeq(D, tr, n.a) = <<>> \/ TypesSeq(D, tr, n.b) = <<>> THEN <<>>
                       ELSE TypesSeq(D, tr, n.a) \o TypesSeq(D, tr, n.b))
    [] OTHER -> <<>>
PnTypes(D, tr, i) == ToSet(TypesSeq(D, tr, i))
(* how many times the typed source sends permanode p: once (intended), or once per listed type it ever had *)
Mult(D, tr, p) == IF "TypedSourceRepeats" \in D
                  THEN LET ts == TypesSeq(D, tr, 1) IN Cardinality({j \in 1..Len(ts) : ts[j] \in EverNodeType(p)})
                  ELSE 1
(* matchesAtMostOneBlob: the prefix id of a complete blobref, 0 = none *)
AtMostOne(tr, i) == LET n == tr[i] IN
  IF n.k = "prefix" /\ PfxExact[n.p] THEN n.p
  ELSE IF n.k = "and" THEN (IF AtMostOne(tr, n.a) # 0 THEN AtMostOne(tr, n.a) ELSE AtMostOne(tr, n.b))
  ELSE 0
(* matchesFileByWholeRef *)
ByWhole(tr, i) == LET n == tr[i] IN
  \/ (n.k = "and" /\ (ByWhole(tr, n.a) \/ ByWhole(tr, n.b)))
  \/ (n.k = "file" /\ n.wh # 0)

(* plannedQuery: an unspecified sort becomes CreatedDesc when the query is about permanodes only *)
EffSort(tr, s) == IF s = "unspecified" THEN (IF OnlyPn(tr, 1) THEN "created" ELSE "unsorted") ELSE s

(* pickCandidateSource: the name of the enumeration *)
SourceName(D, tr, s, mode) ==
  LET es == EffSort(tr, s) IN
  IF mode = "classic" THEN "index_blob_meta"
  ELSE IF OnlyPn(tr, 1) /\ es = "lastmod" THEN "corpus_permanode_lastmod"
  ELSE IF OnlyPn(tr, 1) /\ es = "created" THEN "corpus_permanode_created"
  ELSE IF OnlyPn(tr, 1) /\ PnTypes(D, tr, 1) # {} THEN "corpus_permanode_types"
  ELSE IF AtMostOne(tr, 1) # 0 THEN "one_blob"
  ELSE IF ByWhole(tr, 1) THEN "corpus_file_meta"
  ELSE IF tr[1].k \in {"type", "anytype"} THEN "corpus_blob_meta"
  ELSE "index_blob_meta"
SourceSorted(name) == name \in {"corpus_permanode_lastmod", "corpus_permanode_created"}

(* ... and the set of blobs it enumerates *)
SourceSet(D, name, tr) ==
  CASE name = "corpus_permanode_lastmod" ->
         (IF "SortedSourceDropsSome" \in D THEN {p \in Pns : p \notin Deleted /\ PnMod(D)[p].has} ELSE Pns)
    [] name = "corpus_permanode_created" ->
         (IF "SortedSourceDropsSome" \in D THEN {p \in Pns : p \notin Deleted /\ PnTime(D)[p].has} ELSE Pns)
    [] name = "corpus_permanode_types" -> {p \in Pns : EverNodeType(p) \cap PnTypes(D, tr, 1) # {}}
    [] name = "one_blob" -> (IF AtMostOne(tr, 1) # 0 THEN PfxIds[AtMostOne(tr, 1)] ELSE {})
    [] name = "corpus_file_meta" -> Files
    [] name = "corpus_blob_meta" -> (IF tr[1].k = "type" THEN {b \in Ids : CT[b] = tr[1].s} ELSE {b \in Ids : CT[b] # ""})
    [] OTHER -> Ids

(* ---------------- order and limit ---------------- *)
HasKey(D, s, b) == CASE s \in {"created", "createdAsc"} -> CT[b] = "permanode" /\ PnTime(D)[b].has
                     [] s \in {"lastmod", "lastmodAsc"} -> CT[b] = "permanode" /\ PnMod(D)[b].has
                     [] OTHER -> TRUE
(* x must come strictly before y.  Ties (equal times) and permanodes without a time are not ordered
   by the documentation, so every arrangement of them is admissible. *)
StrictBefore(D, s, x, y) ==
  CASE s = "blobref"    -> Items[x].rank < Items[y].rank
    [] s = "created"    -> HasKey(D, s, x) /\ HasKey(D, s, y) /\ PnTime(D)[x].t > PnTime(D)[y].t
    [] s = "createdAsc" -> HasKey(D, s, x) /\ HasKey(D, s, y) /\ PnTime(D)[x].t < PnTime(D)[y].t
    [] s = "lastmod"    -> HasKey(D, s, x) /\ HasKey(D, s, y) /\ PnMod(D)[x].t > PnMod(D)[y].t
    [] s = "lastmodAsc" -> HasKey(D, s, x) /\ HasKey(D, s, y) /\ PnMod(D)[x].t < PnMod(D)[y].t
    [] OTHER -> FALSE                                      \* unsorted / unspecified: set semantics
(* one canonical full order (keyless items last, ties by blobref) ... *)
Order(D, C, s) == SetToSortSeq(C, LAMBDA x, y :
                 \/ (HasKey(D, s, x) /\ ~HasKey(D, s, y))
                 \/ (HasKey(D, s, x) = HasKey(D, s, y) /\ StrictBefore(D, s, x, y))
                 \/ (HasKey(D, s, x) = HasKey(D, s, y) /\ ~StrictBefore(D, s, x, y) /\ ~StrictBefore(D, s, y, x) /\ Items[x].rank < Items[y].rank))
Limit(q, n) == IF n = 0 \/ Len(q) <= n THEN q ELSE SubSeq(q, 1, n)
(* ... and the relation "out is the first `limit` of SOME admissible full order of C" *)
ValidOut(D, out, C, s, limit) ==
  LET O == ToSet(out) IN
  /\ Cardinality(O) = Len(out)                                                   \* no duplicate
  /\ O \subseteq C                                                               \* nothing that does not match
  /\ Len(out) = (IF limit = 0 \/ Cardinality(C) < limit THEN Cardinality(C) ELSE limit)   \* nothing missed
  /\ \A i, j \in 1..Len(out) : i < j => ~StrictBefore(D, s, out[j], out[i])      \* in the requested order
  /\ \A x \in C \ O : \A y \in O : ~StrictBefore(D, s, x, y)                     \* the FIRST limit of it
(* the same when the source may send candidate x up to mult[x] times (deviation TypedSourceRepeats) *)
ValidOutRepeats(D, out, C, mult, s, limit) ==
  LET O == ToSet(out)
      total == Cardinality({pj \in C \X (1..Len(out) + 1) : pj[2] <= mult[pj[1]]}) IN
  /\ O \subseteq C
  /\ \A x \in O : Cardinality({j \in 1..Len(out) : out[j] = x}) <= mult[x]
  /\ (limit = 0 => \A x \in C : Cardinality({j \in 1..Len(out) : out[j] = x}) = mult[x])
  /\ (limit # 0 => Len(out) = (IF total < limit THEN total ELSE limit) \/ Len(out) = limit)
  /\ \A i, j \in 1..Len(out) : i < j => ~StrictBefore(D, s, out[j], out[i])
  /\ \A x \in C \ O : \A y \in O : ~StrictBefore(D, s, x, y)
OrdSort(s) == IF s = "unspecified" THEN "unsorted" ELSE s

(* ---------------- leg S: every tree of the bounded grammar ---------------- *)
Z == [k |-> "", a |-> 0, b |-> 0, s |-> "", p |-> 0, lo |-> 0, hi |-> 0, zmax |-> FALSE, v |-> 0, sp |-> 0, ip |-> 0,
      mp |-> 0, all |-> FALSE, at |-> 0, hasAt |-> FALSE, mtb |-> 0, hasMtb |-> FALSE, mta |-> 0, hasMta |-> FALSE,
      tb |-> 0, hasTb |-> FALSE, ta |-> 0, hasTa |-> FALSE, rel |-> "", edge |-> "", relAny |-> FALSE, hid |-> FALSE,
      wh |-> 0, rec |-> FALSE]
Shift(t, d) == [j \in 1..Len(t) |-> [t[j] EXCEPT !.a = IF @ = 0 THEN 0 ELSE @ + d, !.b = IF @ = 0 THEN 0 ELSE @ + d]]
Bin(op, x, y) == <<[Z EXCEPT !.k = op, !.a = 2, !.b = 2 + Len(x)]>> \o Shift(x, 1) \o Shift(y, 1 + Len(x))
Neg(x) == <<[Z EXCEPT !.k = "not", !.a = 2]>> \o Shift(x, 1)
MenuN == IF MenuSize < Len(W.menu) THEN MenuSize ELSE Len(W.menu)
Atoms == {W.menu[j] : j \in 1..MenuN}
Ops == {"and", "or", "xor"}
(* (an operator with a parameter, so that TLC does not evaluate the whole set at start-up) *)
Trees2(A) == A \cup {Bin(op, x, y) : op \in Ops, x \in A, y \in A} \cup {Neg(x) : x \in A}
Sorts == {"unspecified", "unsorted", "blobref", "created", "createdAsc", "lastmod"}

(* TLC computes initial states with one thread, successors with all workers: the trees are therefore
   generated as successors of seed states (one per atom x, one per op2(x, y)). *)
VARIABLES tree, sort
vars == <<tree, sort>>
Init == tree = <<>> /\ sort = "seed"
Next == \/ tree = <<>> /\ sort' = "seed" /\ \E j \in 1..MenuN : j % Parts = Part /\ tree' = W.menu[j]
        \/ /\ tree # <<>> /\ sort = "seed"
           /\ \/ /\ \/ tree' = tree
                    \/ tree' = Neg(tree)
                    \/ \E op \in Ops, y \in Atoms : tree' = Bin(op, Neg(tree), y)
                 /\ sort' \in Sorts
              \/ /\ \E op2 \in Ops, y \in Atoms : tree' = Bin(op2, tree, y)
                 /\ sort' = "seed2"
        \/ /\ sort = "seed2"
           /\ \/ tree' = tree
              \/ tree' = Neg(tree)
              \/ \E op \in {"and", "or"}, z \in Atoms : tree' = Bin(op, tree, z) \/ tree' = Bin(op, z, tree)
           /\ sort' \in Sorts
Spec == Init /\ [][Next]_vars
Live == Len(tree) > 0 /\ sort \notin {"seed", "seed2"}

(* the source the (possibly deviating) planner enumerates contains every blob that matches *)
SourceCoversMatches ==
  Live => Matches({}, tree) \subseteq SourceSet(Deviations, SourceName(Deviations, tree, sort, "build"), tree)
(* the typed permanode source sends every candidate once *)
TypedSourceOnce ==
  (Live /\ SourceName(Deviations, tree, sort, "build") = "corpus_permanode_types") =>
     \A p \in Matches({}, tree) : Mult(Deviations, tree, p) <= 1
(* the (possibly deviating) matcher implements the documented meaning *)
MatcherAgrees == (Live /\ Deviations \cap {"RecursiveWholeDir", "DeleteDateIsModtime", "ContentClaimTimeIgnored", "DirChildrenCappedByLimit"} # {}) => Matches(Deviations, tree) = Matches({}, tree)
(* the same invariants, printing the refuting (tree, sort) as JSON so that leg G can replay a model
   counterexample on the real code *)
Cex(P) == P \/ (PrintT(<<"CEX", ToJson([tree |-> tree, sort |-> sort, limit |-> 0])>>) /\ FALSE)
SourceCoversMatchesX == Cex(SourceCoversMatches)
TypedSourceOnceX == Cex(TypedSourceOnce)
MatcherAgreesX == Cex(MatcherAgrees)
(* Order / Limit produce a result the validation relation accepts, and it is the only one when keys are unique *)
OrderLimitValid ==
  (Live /\ Len(tree) <= 3) =>
    LET C == Matches({}, tree) \cap (IF sort \in {"created", "createdAsc", "lastmod"} THEN Pns ELSE Ids)
        s == OrdSort(sort) IN
    \A n \in {0, 1, 2, 3} :
       /\ ValidOut({}, Limit(Order({}, C, s), n), C, s, n)
       /\ (C # {} => ~ValidOut({}, Tail(Order({}, C, s)), C, s, 0))                     \* an element missing: rejected
       /\ (s = "blobref" /\ Cardinality(C) > 1 => ~ValidOut({}, Reverse(Order({}, C, s)), C, s, 0))   \* wrong order: rejected
=============================================================================
