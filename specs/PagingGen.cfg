SPECIFICATION Spec
CONSTANTS
  Mode = "bfs"
  MaxN = 4
  SimMin = 5
  SimMax = 6
INVARIANT Emit
CHECK_DEADLOCK FALSE
