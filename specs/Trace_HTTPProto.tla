-------------------------- MODULE Trace_HTTPProto --------------------------
(* Trace validation of recorded executions of a REAL in-process perkeep server (serverinit.Load of a
   high-level configuration, handlers installed on an httptest server) driven through
     via = "client" : pkg/client.Client (ReceiveBlob/Upload, StatBlobs, EnumerateBlobs, Fetch, RemoveBlobs)
     via = "raw"    : a net/http client speaking the documented protocol
   against HTTPProto (= BlobStore + wire rules).  Same structure as Trace_BlobStore: a concatenation of
   independent histories, each started by a "reset" line; collect mode (PrintT <<"VIOL", line, ...>>).
   Refinement over Trace_BlobStore: only a mismatching MUTATOR kills the history (model and server have
   diverged); a mismatching observation is reported and the history goes on, because observations do not
   change the map.

   Lines (ev = "op"): the Trace_BlobStore vocabulary {op, args, res, size, list} plus, for via = "raw",
   status (HTTP code), cont (continueAfter rank, 0 = absent), fast (answered at once), clen
   (Content-Length header of a GET), n / ver (number of blobN parameters / camliversion sent) for stat,
   limit (0 = parameter absent) and wait (0 absent, 1 "maxwaitsec=0", 2 "maxwaitsec=1") for enum.
   ev = "xremove": removal through direct storage access (harness side door), ev = "hub": a blob-hub
   notification observed during the preceding call. *)
EXTENDS HTTPProto, Json, IOUtils

VARIABLES l, dead, lastUp

Trace == ndJsonDeserialize(IOEnv.TRACE_FILE)
Ev == Trace[l]

tvars == <<hvars, l, dead, lastUp>>

BigBlobs == {2 * i : i \in 1..atoi(IOEnv.VERIF_BIGN)}

TInit == /\ l = 1 /\ dead = TRUE /\ lastUp = {}
         /\ present = {}
         /\ size = [b \in Blobs |-> 0]
         /\ caps = [canRemove |-> FALSE, readOnly |-> FALSE, subfetch |-> "no"]
         /\ reply = [op |-> "init", res |-> "ok", size |-> 0, list |-> <<>>]
         /\ wire = W(0, 0, TRUE)

TReset == /\ l <= Len(Trace) /\ Ev.ev = "reset"
          /\ present' = SeqSet(Ev.pre)
          /\ size' = [b \in Blobs |-> IF b \div 2 <= Len(Ev.sizes) THEN Ev.sizes[b \div 2] ELSE 0]
          /\ caps' = [canRemove |-> Ev.canRemove, readOnly |-> Ev.readOnly, subfetch |-> Ev.subfetch]
          /\ reply' = [op |-> "init", res |-> "ok", size |-> 0, list |-> <<>>]
          /\ wire' = W(0, 0, TRUE)
          /\ dead' = FALSE /\ lastUp' = {} /\ l' = l + 1

WaitOf(e) == IF e.wait = 0 THEN "none" ELSE IF e.wait = 1 THEN "zero" ELSE "pos"
NoWire(r) == WR(r, W(0, 0, TRUE))
AllLimit == Cardinality(Blobs) + 1

(* The set of <<map reply, wire part>> pairs the protocol allows for the logged call, in the current state. *)
Allowed(e) ==
  IF e.via = "client" THEN
    CASE e.op = "receive"  -> {NoWire(ReceiveReply(e.b))}
      [] e.op = "fetch"    -> {NoWire(FetchReply(e.b))}
      [] e.op = "stat"     -> {NoWire(StatReply(SeqSet(e.bs)))}
      [] e.op = "enum"     -> {NoWire(EnumReply(e.after, e.limit))}
      [] e.op = "enumall"  -> {NoWire(EnumReply(0, AllLimit))}
      [] e.op = "enumwait" -> {WR(EnumReply(0, AllLimit), W(0, 0, f)) : f \in (IF present # {} THEN {TRUE} ELSE BOOLEAN)}
                              \* EnumerateBlobsOpts{MaxWait}: the client pages by itself; blobs present => at once
      [] e.op = "remove"   -> {NoWire(RemoveReply(SeqSet(e.bs)))}
  ELSE
    CASE e.op = "receive"  -> UploadWire("put", <<e.b>>)
      [] e.op = "upload"   -> UploadWire("multipart", e.bs)
      [] e.op = "fetch"    -> GetWire(e.b)
      [] e.op = "head"     -> HeadWire(e.b)
      [] e.op = "range"    -> RangeWire(e.b, e.off, e.len)
      [] e.op = "stat"     -> StatWire(SeqSet(e.bs), e.n, e.ver)
      [] e.op = "enum"     -> EnumWire(e.after, e.limit, WaitOf(e))
      [] e.op = "remove"   -> RemoveWire(SeqSet(e.bs))

(* A PUT answers 204 without a body: the size is not on the wire.  A GET must announce the length it sends. *)
Same(x, e) ==
  /\ x.r.res = e.res /\ x.r.list = e.list
  /\ ((e.via = "raw" /\ e.op = "receive") \/ x.r.size = e.size)
  /\ x.w.status = e.status /\ x.w.cont = e.cont /\ x.w.fast = e.fast
  /\ ((e.via = "raw" /\ e.op = "fetch" /\ e.res = "ok") => e.clen = e.size)

Mutator(e) == e.op \in {"receive", "upload", "remove"}

(* The module's own action for the logged call. *)
Act(e) ==
  IF e.via = "client" THEN
    /\ CASE e.op = "receive"  -> Receive(e.b)
         [] e.op = "fetch"    -> Fetch(e.b)
         [] e.op = "stat"     -> Stat(SeqSet(e.bs))
         [] e.op = "enum"     -> Enumerate(e.after, e.limit)
         [] e.op = "enumall"  -> Enumerate(0, AllLimit)
         [] e.op = "enumwait" -> Enumerate(0, AllLimit)
         [] e.op = "remove"   -> RemoveBlobs(SeqSet(e.bs))
    /\ wire' = W(0, 0, e.fast)
  ELSE
    CASE e.op = "receive"  -> Upload("put", <<e.b>>)
      [] e.op = "upload"   -> Upload("multipart", e.bs)
      [] e.op = "fetch"    -> GetReq(e.b)
      [] e.op = "head"     -> HeadReq(e.b)
      [] e.op = "range"    -> RangeGet(e.b, e.off, e.len)
      [] e.op = "stat"     -> StatBatch(SeqSet(e.bs), e.n, e.ver)
      [] e.op = "enum"     -> EnumeratePage(e.after, e.limit, WaitOf(e))
      [] e.op = "remove"   -> RemoveRequest(SeqSet(e.bs))

Accepted(e) == IF e.res # "ok" THEN {}
               ELSE IF e.op = "receive" THEN {e.b}
               ELSE IF e.op = "upload" THEN SeqSet(e.bs) ELSE {}

TOp == /\ l <= Len(Trace) /\ Ev.ev = "op" /\ ~dead
       /\ l' = l + 1
       /\ IF \E x \in Allowed(Ev) : Same(x, Ev)
          THEN /\ Act(Ev) /\ Same(WR(reply', wire'), Ev) /\ dead' = FALSE /\ lastUp' = Accepted(Ev)
          ELSE /\ PrintT(<<"VIOL", l, Ev.op, {x.r : x \in Allowed(Ev)}, {x.w : x \in Allowed(Ev)}>>)
               /\ dead' = Mutator(Ev) /\ lastUp' = {} /\ UNCHANGED hvars

(* Removal behind the server's back (direct storage access): the environment's move. *)
TSide == /\ l <= Len(Trace) /\ Ev.ev = "xremove" /\ ~dead
         /\ l' = l + 1
         /\ IF Ev.res = "ok"
            THEN SideRemove(SeqSet(Ev.bs)) /\ dead' = FALSE
            ELSE PrintT(<<"VIOL", l, "xremove", {"ok"}, {}>>) /\ dead' = TRUE /\ UNCHANGED hvars
         /\ lastUp' = {}

(* Notify(b) only for a blob the call just completed had accepted. *)
THub == /\ l <= Len(Trace) /\ Ev.ev = "hub" /\ ~dead
        /\ l' = l + 1
        /\ (IF Ev.b \in lastUp /\ Ev.b \in present THEN TRUE ELSE PrintT(<<"VIOL", l, "hub", {"accepted-upload"}, {}>>))
        /\ UNCHANGED <<hvars, dead, lastUp>>

TSkip == /\ l <= Len(Trace) /\ Ev.ev \in {"op", "xremove", "hub"} /\ dead
         /\ l' = l + 1 /\ UNCHANGED <<hvars, dead, lastUp>>

TNext == TReset \/ TOp \/ TSide \/ THub \/ TSkip
TSpec == TInit /\ [][TNext]_tvars

(* Invariants of the protocol are evaluated at every state of the recorded execution (small universes). *)
TTypeOK == present \subseteq Blobs
TWirePaging == Cardinality(Blobs) > 20 \/ WirePagingTheorem
TraceAccepted == TLCGet("stats").diameter - 1 = Len(Trace)
=============================================================================
