---------------------------- MODULE SyncValidate ----------------------------
(* pkg/server/sync.go + pkg/blobserver/sync.go - the "source minus destination" machinery of the sync handler:
   full validation (POST mode=validate / validateOnStart) and fullSyncOnStart.

     startFullValidation   resets the counters if the previous validation is complete, refuses while one is running,
                           vshards = shardPrefixes() (256 two-hex-digit prefixes per hash function), go runFullValidation
     runFullValidation     one goroutine per shard prefix, at most 30 at a time (here MaxPar)
     validateShardPrefix   startValidatePrefix(src), startValidatePrefix(dst): two enumerator goroutines, each
                           EnumerateAllFrom(store, pfx): EnumerateBlobs(after = cursor, 1000) call after call, every blob
                           with the prefix is sent down a channel of 64 (ChanCap) and counted (vsrcCount / vdestCount),
                           the first blob without the prefix ends it; on an error a zero-value SizedRef (the sentinel) is
                           sent down the channel, then the error on errc.
                           ListMissingDestinationBlobs(missingc, func(Ref){}, src, dst): the two-cursor merge (ChanPeeker:
                           Peek / Take): source exhausted -> stop; source sentinel -> stop; destination exhausted -> emit
                           the source blob; destination sentinel -> stop; equal refs -> take both (sizes differ: the
                           size-mismatch callback, which validation leaves empty: a wrong-sized copy is NOT enqueued);
                           src < dst -> emit, take src; dst < src -> take dst.
                           Everything emitted is collected; then srcErr.Get(), dstErr.Get() (wait for the enumerators);
                           an error -> vshardErrs, nothing enqueued; otherwise enqueue() each missing blob
                           (addBlobToCopy, then queue.Set; a blob already in needCopy counts as enqueued), vmissing++;
                           vshardDone++ in every case.
     fullSyncOnStart       readQueueToMemory; runSync(pending) until a pass copies nothing; runSync("full",
                           EnumerateAll(src)): EVERY source blob is fed to the copy workers (not only the ones the
                           destination lacks), through a non-blocking send into a channel of 1000 (WorkCap): when it is
                           full the feed stops ("Enough for this batch. Will get it later.").

   The module has two granularities.
   - Fine: every step of a shard's pipeline (push, sentinel / close, peek, compare, drain, control) is an action
     (LocalStep); used on one pipeline with fixed input streams (MergeSpec: every pair of sorted streams over a
     small universe, every error position) to check that the merge emits exactly src \ dst, terminates, never
     blocks an enumerator, and that the pipeline is confluent (Run(r) is the same whatever step is taken).
   - Coarse: a shard's pipeline is a deterministic dataflow network that reads the stores only in EnumerateBlobs
     calls and writes the queue only in enqueue, so between those it is run to its fixed point (Run) in the same
     step.  Used for the validation as a whole (Spec) and by Trace_SyncValidate.

   Blobs are 1..N in the byte order of their ref text; smap[b] is the shard (prefix) of b, monotone in b; Shards may
   contain shards that hold no blob.  dsz[b] = 0 absent / 1 present with the right size / 2 present with a wrong size. *)
EXTENDS Naturals, FiniteSets, Sequences, TLC

CONSTANTS Blobs, Shards, ChanCap, WorkCap, Pool,
          MaxFaults, MaxEnv, MaxUploads, MaxRounds, Copier,
          Deviations   \* subset of {"AdvanceBothOnLess", "IgnoreDstError", "PrefixOffByOne", "NoDrainAfterMerge",
                       \*            "FullSyncBatchCutoff", "EnqueueWrongSized"}

VARIABLES src, dsz, queue, needCopy, smap,       \* stores, persistent rows, memory
          vrun, sh, round,                       \* validation: requested at least once / per-shard record / number
          ust, acked, nup,                       \* uploads in flight (as in Sync.tla)
          cst,                                   \* copies in flight (as in Sync.tla)
          fs,                                    \* full sync on start
          src0, d0, touched, venq, efault, nfaults, nenv   \* history (properties only)
vars == <<src, dsz, queue, needCopy, smap, vrun, sh, round, ust, acked, nup, cst, fs,
          src0, d0, touched, venq, efault, nfaults, nenv>>

Nil  == [b |-> 0, z |-> 9]      \* no peeked value
Sent == [b |-> 0, z |-> 0]      \* blob.SizedRef{}: the sentinel
Sides == {"s", "d"}
Other(x) == IF x = "s" THEN "d" ELSE "s"

NewEnum  == [st |-> "call", cur |-> 0, todo |-> <<>>, more |-> FALSE, err |-> FALSE,
             ch |-> <<>>, cl |-> FALSE, pk |-> Nil, cnt |-> 0]
NewShard == [pc |-> "idle", s |-> NewEnum, d |-> NewEnum, mst |-> "run", out |-> <<>>, mism |-> {},
             stage |-> "mem", eerr |-> FALSE, qerr |-> FALSE, nenq |-> 0]

Dev(x) == x \in Deviations

(* ------------------------------------------------------------------ the pipeline of one shard: local steps *)
LocalNames == {"pushS", "pushD", "endS", "endD", "mpeekS", "msrcEnd", "msentS", "mpeekD", "mdstEnd", "msentD",
               "mcmp", "drainS", "drainD", "ctl"}

Valid(it) == it.b > 0

EnPush(r, x) == r.pc = "run" /\ r[x].st = "push" /\ Len(r[x].ch) < ChanCap
ApPush(r, x) == LET e == r[x] IN
  [r EXCEPT ![x] = [e EXCEPT !.ch = Append(e.ch, Head(e.todo)), !.todo = Tail(e.todo), !.cnt = e.cnt + 1,
                              !.st = IF Len(e.todo) > 1 THEN "push" ELSE IF e.more THEN "call" ELSE "end"]]

\* the enumeration is over: on an error the sentinel goes down the channel (a blocking send), then errc; close
EnEnd(r, x) == r.pc = "run" /\ r[x].st = "end" /\ (r[x].err => Len(r[x].ch) < ChanCap)
ApEnd(r, x) == LET e == r[x] IN
  [r EXCEPT ![x] = [e EXCEPT !.ch = IF e.err THEN Append(e.ch, Sent) ELSE e.ch, !.cl = TRUE, !.st = "done"]]

Merging(r) == r.pc = "run" /\ r.mst = "run"
EnM(n, r) ==
  /\ Merging(r)
  /\ CASE n = "mpeekS"  -> r.s.pk = Nil /\ r.s.ch # <<>>
       [] n = "msrcEnd" -> r.s.pk = Nil /\ r.s.ch = <<>> /\ r.s.cl
       [] n = "msentS"  -> r.s.pk = Sent
       [] n = "mpeekD"  -> Valid(r.s.pk) /\ r.d.pk = Nil /\ r.d.ch # <<>>
       [] n = "mdstEnd" -> Valid(r.s.pk) /\ r.d.pk = Nil /\ r.d.ch = <<>> /\ r.d.cl
       [] n = "msentD"  -> Valid(r.s.pk) /\ r.d.pk = Sent
       [] n = "mcmp"    -> Valid(r.s.pk) /\ Valid(r.d.pk)
ApM(n, r) ==
  CASE n = "mpeekS"  -> [r EXCEPT !.s.pk = Head(r.s.ch), !.s.ch = Tail(r.s.ch)]
    [] n = "msrcEnd" -> [r EXCEPT !.mst = "done"]
    [] n = "msentS"  -> [r EXCEPT !.mst = "done"]
    [] n = "mpeekD"  -> [r EXCEPT !.d.pk = Head(r.d.ch), !.d.ch = Tail(r.d.ch)]
    [] n = "mdstEnd" -> [r EXCEPT !.out = Append(r.out, r.s.pk.b), !.s.pk = Nil]
    [] n = "msentD"  -> [r EXCEPT !.mst = "done"]
    [] n = "mcmp"    ->
         IF r.s.pk.b = r.d.pk.b
         THEN [r EXCEPT !.s.pk = Nil, !.d.pk = Nil,
                        !.mism = IF r.s.pk.z # r.d.pk.z THEN r.mism \cup {r.s.pk.b} ELSE r.mism,
                        !.out = IF Dev("EnqueueWrongSized") /\ r.s.pk.z # r.d.pk.z THEN Append(r.out, r.s.pk.b) ELSE r.out]
         ELSE IF r.s.pk.b < r.d.pk.b
         THEN [r EXCEPT !.out = Append(r.out, r.s.pk.b), !.s.pk = Nil,
                        !.d.pk = IF Dev("AdvanceBothOnLess") THEN Nil ELSE r.d.pk]
         ELSE [r EXCEPT !.d.pk = Nil]

\* intended: once the merge has stopped, what the enumerators still send is thrown away so that they can finish.
\* The code as written does not do that: the deviation NoDrainAfterMerge.
EnDrain(r, x) == r.pc = "run" /\ r.mst = "done" /\ r[x].ch # <<>> /\ ~Dev("NoDrainAfterMerge")
ApDrain(r, x) == [r EXCEPT ![x].ch = Tail(r[x].ch)]

\* missingc is closed; srcErr.Get(), then dstErr.Get(); an error ends the shard, otherwise the missing blobs are enqueued
EnCtl(r) == r.pc = "run" /\ r.mst = "done" /\ r.s.st = "done" /\ (r.s.err \/ r.d.st = "done")
ApCtl(r) == IF r.s.err \/ (r.d.err /\ ~Dev("IgnoreDstError"))
            THEN [r EXCEPT !.pc = "fin", !.eerr = TRUE]
            ELSE [r EXCEPT !.pc = IF r.out = <<>> THEN "fin" ELSE "enq"]

En(n, r) == CASE n = "pushS" -> EnPush(r, "s") [] n = "pushD" -> EnPush(r, "d")
              [] n = "endS" -> EnEnd(r, "s")   [] n = "endD" -> EnEnd(r, "d")
              [] n = "drainS" -> EnDrain(r, "s") [] n = "drainD" -> EnDrain(r, "d")
              [] n = "ctl" -> EnCtl(r)
              [] OTHER -> EnM(n, r)
Ap(n, r) == CASE n = "pushS" -> ApPush(r, "s") [] n = "pushD" -> ApPush(r, "d")
              [] n = "endS" -> ApEnd(r, "s")   [] n = "endD" -> ApEnd(r, "d")
              [] n = "drainS" -> ApDrain(r, "s") [] n = "drainD" -> ApDrain(r, "d")
              [] n = "ctl" -> ApCtl(r)
              [] OTHER -> ApM(n, r)

\* some enabled local step ("" if none): a fixed scan order (the network is deterministic - confluence is checked by
\* MergeSpec - so the order does not matter; merge steps first, they make room in the channels)
NextName(r) ==
  IF r.pc # "run" THEN ""
  ELSE IF r.mst = "run" /\ r.s.pk = Nil /\ r.s.ch # <<>> THEN "mpeekS"
  ELSE IF r.mst = "run" /\ r.s.pk = Nil /\ r.s.ch = <<>> /\ r.s.cl THEN "msrcEnd"
  ELSE IF r.mst = "run" /\ r.s.pk = Sent THEN "msentS"
  ELSE IF r.mst = "run" /\ Valid(r.s.pk) /\ r.d.pk = Nil /\ r.d.ch # <<>> THEN "mpeekD"
  ELSE IF r.mst = "run" /\ Valid(r.s.pk) /\ r.d.pk = Nil /\ r.d.ch = <<>> /\ r.d.cl THEN "mdstEnd"
  ELSE IF r.mst = "run" /\ Valid(r.s.pk) /\ r.d.pk = Sent THEN "msentD"
  ELSE IF r.mst = "run" /\ Valid(r.s.pk) /\ Valid(r.d.pk) THEN "mcmp"
  ELSE IF EnPush(r, "s") THEN "pushS"
  ELSE IF EnPush(r, "d") THEN "pushD"
  ELSE IF EnEnd(r, "s") THEN "endS"
  ELSE IF EnEnd(r, "d") THEN "endD"
  ELSE IF EnDrain(r, "s") THEN "drainS"
  ELSE IF EnDrain(r, "d") THEN "drainD"
  ELSE IF EnCtl(r) THEN "ctl"
  ELSE ""
Quiescent(r) == NextName(r) = ""
ScanComplete(r) == Quiescent(r) <=> \A n \in LocalNames : ~En(n, r)      \* checked by MergeSpec
\* the fixed point of the local steps
RECURSIVE Run(_), RunN(_, _)
RunN(r, n) == IF n = "" THEN r ELSE Run(Ap(n, r))
Run(r) == RunN(r, NextName(r))

\* a shard that waits for something that will never come: no local step and no EnumerateBlobs call outstanding
Blocked(r) == r.pc = "run" /\ Quiescent(r) /\ r.s.st # "call" /\ r.d.st # "call"

(* ------------------------------------------------------------------ stores as the enumerators see them *)
InStore(x, b) == IF x = "s" THEN b \in src ELSE dsz[b] # 0
SizeIn(x, b) == IF x = "s" THEN 1 ELSE dsz[b]
LastOfShard(b) == \A c \in Blobs : smap[c] = smap[b] => c <= b
\* the blobs with the prefix of shard p strictly after the cursor, in order
ShardSet(x, p, cur) == {b \in Blobs : InStore(x, b) /\ smap[b] = p /\ b > cur
                                      /\ ~(Dev("PrefixOffByOne") /\ LastOfShard(b))}
RECURSIVE SetToSeqAsc(_)
SetToSeqAsc(S) == IF S = {} THEN <<>> ELSE LET m == CHOOSE a \in S : \A c \in S : a <= c
                                           IN <<m>> \o SetToSeqAsc(S \ {m})
Items(x, p, cur) == LET q == SetToSeqAsc(ShardSet(x, p, cur)) IN [i \in 1..Len(q) |-> [b |-> q[i], z |-> SizeIn(x, q[i])]]
\* a blob after the shard exists: it is what ends the enumeration (errNotPrefix)
Beyond(x, p) == \E b \in Blobs : InStore(x, b) /\ (smap[b] > p \/ (Dev("PrefixOffByOne") /\ smap[b] = p /\ LastOfShard(b)))

\* the record after one EnumerateBlobs call that handed `its` (blobs with the prefix) to the callback, `byd` =
\* a blob without the prefix followed, `fail` = the call returned an error (after those items)
AfterCall(r, x, its, byd, fail) ==
  LET e == r[x]
      more == ~fail /\ ~byd /\ its # <<>>
      e2 == [e EXCEPT !.todo = its, !.err = fail, !.more = more,
                      !.cur = IF its = <<>> THEN e.cur ELSE its[Len(its)].b,
                      !.st = IF its # <<>> THEN "push" ELSE "end"]
  IN [r EXCEPT ![x] = e2]

(* ------------------------------------------------------------------ derived counters (what the status page shows) *)
RECURSIVE SumOver(_, _)
SumOver(S, f) == IF S = {} THEN 0 ELSE LET p == CHOOSE q \in S : TRUE IN f[p] + SumOver(S \ {p}, f)
vsrcCount  == SumOver(Shards, [p \in Shards |-> sh[p].s.cnt])
vdestCount == SumOver(Shards, [p \in Shards |-> sh[p].d.cnt])
vmissing   == SumOver(Shards, [p \in Shards |-> sh[p].nenq])
vshardDone == Cardinality({p \in Shards : sh[p].pc = "fin"})
vshardErrs == {p \in Shards : sh[p].pc = "fin" /\ (sh[p].eerr \/ sh[p].qerr)}
ValDone == vrun /\ \A p \in Shards : sh[p].pc = "fin"

(* ------------------------------------------------------------------ validation: global actions *)
NoFS == fs.pc = "off"
\* (reload: validateOnStart - the handler has just been created by newSyncFromConfig, which read the queue into memory)
StartValR(reload) ==
            /\ NoFS /\ (~vrun \/ ValDone) /\ round < MaxRounds
            /\ vrun' = TRUE /\ round' = round + 1
            /\ sh' = [p \in Shards |-> [NewShard EXCEPT !.pc = "run"]]      \* (at most 30 shards at a time: scheduling only)
            /\ src0' = src /\ d0' = dsz /\ venq' = {} /\ efault' = {}
            /\ touched' = {b \in Blobs : cst[b] # "idle"}      \* (a copy in flight may complete on a destination somebody changed before)
            /\ needCopy' = IF reload THEN needCopy \cup queue ELSE needCopy
            /\ UNCHANGED <<src, dsz, queue, smap, ust, acked, nup, cst, fs, nfaults, nenv>>
StartVal == StartValR(FALSE)
\* startFullValidation while one is running: nothing
StartValBusy == vrun /\ ~ValDone /\ UNCHANGED vars

\* one EnumerateBlobs call of the enumerator of side x of shard p: without a fault, or failing after handing over cut
\* blobs of the shard, of which the callback saw the first k (k <= cut: the rest was still in EnumerateAllFrom's buffer
\* when the error came back)
\* (operator arguments are evaluated once, LET definitions at every use: the item list is passed down as an argument)
EnumCallB(p, x, its, byd, fail, fine) ==
     /\ nfaults' = IF fail THEN nfaults + 1 ELSE nfaults
     /\ efault' = IF fail THEN efault \cup {p} ELSE efault
     /\ sh' = [sh EXCEPT ![p] = IF fine THEN AfterCall(sh[p], x, its, byd, fail) ELSE Run(AfterCall(sh[p], x, its, byd, fail))]
     /\ UNCHANGED <<src, dsz, queue, needCopy, smap, vrun, round, ust, acked, nup, cst, fs,
                    src0, d0, touched, venq, nenv>>
EnumCallA(p, x, all, fine) ==
     \/ EnumCallB(p, x, all, Beyond(x, p), FALSE, fine)
     \/ /\ nfaults < MaxFaults
        /\ \E cut \in 0..Len(all) : \E k \in (IF fine THEN {cut} ELSE 0..cut) :
              EnumCallB(p, x, SubSeq(all, 1, k), FALSE, TRUE, fine)
EnumCallR(p, x, fine) == /\ sh[p].pc = "run" /\ sh[p][x].st = "call"
                         /\ EnumCallA(p, x, Items(x, p, sh[p][x].cur), fine)
EnumCall(p, x) == EnumCallR(p, x, FALSE)

\* enqueue of the next missing blob: addBlobToCopy ...
EnqMem(p) == LET r == sh[p]
                 b == Head(r.out)
                 last == Len(r.out) = 1
             IN /\ r.pc = "enq" /\ r.stage = "mem"
                /\ IF b \in needCopy
                   THEN /\ sh' = [sh EXCEPT ![p].out = Tail(r.out), ![p].nenq = r.nenq + 1,
                                            ![p].pc = IF last THEN "fin" ELSE "enq"]
                        /\ UNCHANGED needCopy
                   ELSE /\ sh' = [sh EXCEPT ![p].stage = "row"]
                        /\ needCopy' = needCopy \cup {b}
                /\ UNCHANGED <<src, dsz, queue, smap, vrun, round, ust, acked, nup, cst, fs,
                               src0, d0, touched, venq, efault, nfaults, nenv>>
\* ... then queue.Set (ok = FALSE: the queue refused the row; the blob stays in memory, the shard reports the error)
EnqRow(p, ok) == LET r == sh[p]
                     b == Head(r.out)
                     last == Len(r.out) = 1
                 IN /\ r.pc = "enq" /\ r.stage = "row"
                    /\ ~ok => nfaults < MaxFaults
                    /\ nfaults' = IF ok THEN nfaults ELSE nfaults + 1
                    /\ queue' = IF ok THEN queue \cup {b} ELSE queue
                    /\ venq' = venq \cup {b}
                    /\ sh' = [sh EXCEPT ![p].out = Tail(r.out), ![p].stage = "mem",
                                        ![p].nenq = IF ok THEN r.nenq + 1 ELSE r.nenq,
                                        ![p].qerr = r.qerr \/ ~ok,
                                        ![p].pc = IF last THEN "fin" ELSE "enq"]
                    /\ UNCHANGED <<src, dsz, needCopy, smap, vrun, round, ust, acked, nup, cst, fs,
                                   src0, d0, touched, efault, nenv>>

(* ------------------------------------------------------------------ uploads through the receive hook (Sync.tla) *)
Racing == vrun /\ ~ValDone        \* uploads and other writers are explored while a validation runs (before it: another initial state)
SourceAccept(b) == /\ ust[b] = "idle" /\ nup < MaxUploads
                   /\ src' = src \cup {b} /\ ust' = [ust EXCEPT ![b] = "stored"] /\ nup' = nup + 1
                   /\ touched' = touched \cup {b}          \* (the source changed under the validation's feet)
                   /\ UNCHANGED <<dsz, queue, needCopy, smap, vrun, sh, round, acked, cst, fs,
                                  src0, d0, venq, efault, nfaults, nenv>>
EnqueueMem(b) == /\ ust[b] = "stored"
                 /\ IF b \in needCopy
                    THEN /\ ust' = [ust EXCEPT ![b] = "idle"] /\ acked' = acked \cup {b} /\ UNCHANGED needCopy
                    ELSE /\ ust' = [ust EXCEPT ![b] = "mem"] /\ needCopy' = needCopy \cup {b} /\ UNCHANGED acked
                 /\ UNCHANGED <<src, dsz, queue, smap, vrun, sh, round, nup, cst, fs,
                                src0, d0, touched, venq, efault, nfaults, nenv>>
EnqueueRow(b) == /\ ust[b] = "mem"
                 /\ queue' = queue \cup {b} /\ acked' = acked \cup {b} /\ ust' = [ust EXCEPT ![b] = "idle"]
                 /\ UNCHANGED <<src, dsz, needCopy, smap, vrun, sh, round, nup, cst, fs,
                                src0, d0, touched, venq, efault, nfaults, nenv>>

\* the hook's queue.Set fails: the upload is answered with the error, the blob stays in memory without a row
EnqueueRowFail(b) == /\ ust[b] = "mem" /\ nfaults < MaxFaults /\ nfaults' = nfaults + 1
                     /\ ust' = [ust EXCEPT ![b] = "idle"]
                     /\ UNCHANGED <<src, dsz, queue, needCopy, smap, vrun, sh, round, acked, nup, cst, fs,
                                    src0, d0, touched, venq, efault, nenv>>

(* ------------------------------------------------------------------ other writers of the two stores (they void what was
   owed for the blob: an acknowledged upload whose blob somebody else removes is no longer the sync handler's business) *)
\* acked holds b while the handler owes the delivery of an acknowledged upload, and Voided(b) once another writer took
\* that obligation away
Voided(b) == b + 100000
VoidAck(b) == IF b \in acked THEN (acked \ {b}) \cup {Voided(b)} ELSE acked
RmSrc(b) == /\ b \in src /\ nenv < MaxEnv /\ nenv' = nenv + 1
            /\ src' = src \ {b} /\ touched' = touched \cup {b} /\ acked' = VoidAck(b)
            /\ UNCHANGED <<dsz, queue, needCopy, smap, vrun, sh, round, ust, nup, cst, fs,
                           src0, d0, venq, efault, nfaults>>
SetDst(b, z) == /\ dsz[b] # z /\ nenv < MaxEnv /\ nenv' = nenv + 1
                /\ dsz' = [dsz EXCEPT ![b] = z] /\ touched' = touched \cup {b} /\ acked' = VoidAck(b)
                /\ UNCHANGED <<src, queue, needCopy, smap, vrun, sh, round, ust, nup, cst, fs,
                               src0, d0, venq, efault, nfaults>>

(* ------------------------------------------------------------------ the copier (Sync.tla), also the full sync's worker *)
\* (the feed loop of the full sync is taken to run as far as it can at once, see fullSyncOnStart below)
AllIdle == \A b \in Blobs : cst[b] = "idle"
Min2(a, b) == IF a < b THEN a ELSE b
FeedMax(f) == LET room == (WorkCap + Pool) - Cardinality(f.work)
                  m == IF room > 0 THEN Min2(room, Len(f.feed)) ELSE 0
              IN IF Dev("FullSyncBatchCutoff") /\ Len(f.feed) > m
                 \* workch is full: "Enough for this batch. Will get it later." - for the full sync there is no later
                 THEN [f EXCEPT !.work = f.work \cup {f.feed[i] : i \in 1..m}, !.feed = <<>>, !.fed = f.fed + m,
                                !.cutoff = TRUE, !.last = TRUE]
                 ELSE [f EXCEPT !.work = f.work \cup {f.feed[i] : i \in 1..m},
                                !.feed = SubSeq(f.feed, m + 1, Len(f.feed)), !.fed = f.fed + m]
Wanted(b) == b \in needCopy \/ b \in fs.work
CopyFetch(b, o) == /\ Copier /\ Wanted(b) /\ cst[b] = "idle" /\ o \in {"ok", "fail"}
                   /\ (o = "ok") => b \in src
                   /\ (o = "fail") => (b \notin src \/ nfaults < MaxFaults)
                   /\ nfaults' = IF o = "fail" /\ b \in src THEN nfaults + 1 ELSE nfaults
                   /\ cst' = [cst EXCEPT ![b] = IF o = "ok" THEN "fetched" ELSE "idle"]
                   /\ fs' = IF o = "fail" THEN FeedMax([fs EXCEPT !.work = fs.work \ {b}, !.failed = TRUE]) ELSE fs
                   /\ UNCHANGED <<src, dsz, queue, needCopy, smap, vrun, sh, round, ust, acked, nup,
                                  src0, d0, touched, venq, efault, nenv>>
DestReceive(b, o) == /\ cst[b] = "fetched" /\ o \in {"ok", "fail"}
                     /\ (o = "fail") => nfaults < MaxFaults
                     /\ nfaults' = IF o = "fail" THEN nfaults + 1 ELSE nfaults
                     /\ dsz' = IF o = "ok" THEN [dsz EXCEPT ![b] = 1] ELSE dsz
                     /\ cst' = [cst EXCEPT ![b] = IF o = "ok" THEN "written" ELSE "idle"]
                     /\ fs' = IF o = "fail" THEN FeedMax([fs EXCEPT !.work = fs.work \ {b}, !.failed = TRUE]) ELSE fs
                     /\ UNCHANGED <<src, queue, needCopy, smap, vrun, sh, round, ust, acked, nup,
                                    src0, d0, touched, venq, efault, nenv>>
QueueDelete(b) == /\ cst[b] = "written"
                  /\ queue' = queue \ {b} /\ cst' = [cst EXCEPT ![b] = "deleted"]
                  /\ UNCHANGED <<src, dsz, needCopy, smap, vrun, sh, round, ust, acked, nup, fs,
                                 src0, d0, touched, venq, efault, nfaults, nenv>>
\* (a full-sync copy of a blob that is not in needCopy ends with queue.Delete only - setError returns early, "IGNORING
\* DUPLICATE UPLOAD" -: the same step with nothing to delete from memory)
MemDelete(b) == /\ cst[b] = "deleted"
                /\ needCopy' = needCopy \ {b} /\ cst' = [cst EXCEPT ![b] = "idle"]
                /\ fs' = FeedMax([fs EXCEPT !.work = fs.work \ {b}])
                /\ UNCHANGED <<src, dsz, queue, smap, vrun, sh, round, ust, acked, nup,
                               src0, d0, touched, venq, efault, nfaults, nenv>>

(* ------------------------------------------------------------------ fullSyncOnStart *)
\* fs.pc: "off" | "pend" (runSync over needCopy, pass after pass, until a pass copies nothing) | "full" (runSync("full"):
\* EnumerateBlobs call after call over the whole source, every blob handed to the copy workers) | "done".
\* The feed loop is taken to run as far as it can at once (FeedMax): what it has fed is then a superset of what the
\* real loop has fed at the same moment, so every copy the real workers start is allowed here.
FSStart == /\ fs.pc = "off" /\ ~vrun /\ round < MaxRounds /\ round' = round + 1
           /\ needCopy' = queue                     \* readQueueToMemory
           /\ fs' = [fs EXCEPT !.pc = "pend"]
           /\ src0' = src /\ d0' = dsz /\ touched' = {}
           /\ UNCHANGED <<src, dsz, queue, smap, vrun, sh, ust, acked, nup, cst, venq, efault, nfaults, nenv>>
\* EnumerateBlobs(after = cursor) of the full sync: every source blob after the cursor (its = those handed over: all of
\* them, or a prefix if the call failed); the first call comes once the passes over needCopy are over
FSEnumB(its, fail, none) ==
  /\ \/ fs.pc = "full" /\ ~fs.last
     \/ fs.pc = "pend" /\ AllIdle /\ (needCopy = {} \/ fs.failed)
  /\ nfaults' = IF fail THEN nfaults + 1 ELSE nfaults
  /\ fs' = FeedMax([fs EXCEPT !.pc = "full", !.failed = FALSE, !.feed = fs.feed \o its, !.eerr = fs.eerr \/ fail,
                              !.last = fail \/ none,
                              !.cur = IF its = <<>> THEN fs.cur ELSE its[Len(its)]])
  /\ UNCHANGED <<src, dsz, queue, needCopy, smap, vrun, sh, round, ust, acked, nup, cst,
                 src0, d0, touched, venq, efault, nenv>>
FSEnumA(all) == \/ FSEnumB(all, FALSE, all = <<>>)
                \/ /\ nfaults < MaxFaults
                   /\ \E cut \in 0..Len(all) : FSEnumB(SubSeq(all, 1, cut), TRUE, FALSE)
EnumBatch == 1000          \* EnumerateAll asks for 1000 blobs at a time
FirstBatch(q) == SubSeq(q, 1, Min2(Len(q), EnumBatch))
FSEnum == FSEnumA(FirstBatch(SetToSeqAsc({b \in src : b > fs.cur})))
\* (after a cut-off the code never gets here: runSync waits for the enumerator's result while the enumerator waits for
\* somebody to read what it sends)
FSDoneStep == /\ fs.pc = "full" /\ fs.last /\ fs.feed = <<>> /\ fs.work = {} /\ AllIdle /\ ~fs.cutoff
              /\ fs' = [fs EXCEPT !.pc = "done"]
              /\ UNCHANGED <<src, dsz, queue, needCopy, smap, vrun, sh, round, ust, acked, nup, cst,
                             src0, d0, touched, venq, efault, nfaults, nenv>>
NewFS == [pc |-> "off", cur |-> 0, feed |-> <<>>, work |-> {}, fed |-> 0, last |-> FALSE,
          eerr |-> FALSE, failed |-> FALSE, cutoff |-> FALSE]

(* ------------------------------------------------------------------ specifications *)
Monotone(f) == \A a, b \in Blobs : a < b => f[a] <= f[b]

InitCommon == /\ queue \in SUBSET Blobs /\ needCopy = {}
              /\ vrun = FALSE /\ round = 0
              /\ ust = [b \in Blobs |-> "idle"] /\ acked = {} /\ nup = 0
              /\ cst = [b \in Blobs |-> "idle"] /\ fs = NewFS
              /\ touched = {} /\ venq = {} /\ efault = {}
              /\ nfaults = 0 /\ nenv = 0
Init == /\ src \in SUBSET Blobs /\ dsz \in [Blobs -> 0..2]
        /\ smap \in {f \in [Blobs -> Shards] : Monotone(f)}
        /\ InitCommon /\ queue \in {{}, src}
        /\ sh = [p \in Shards |-> NewShard] /\ src0 = {} /\ d0 = [b \in Blobs |-> 0]

ValNext == \/ StartVal
           \/ \E p \in Shards : \/ EnqMem(p) \/ \E ok \in BOOLEAN : EnqRow(p, ok)
                                \/ \E x \in Sides : EnumCall(p, x)
           \/ \E b \in Blobs : \/ (Racing /\ SourceAccept(b)) \/ EnqueueMem(b) \/ EnqueueRow(b) \/ EnqueueRowFail(b)
                               \/ (Racing /\ (RmSrc(b) \/ \E z \in 0..1 : SetDst(b, z)))
                               \/ \E o \in {"ok", "fail"} : CopyFetch(b, o) \/ DestReceive(b, o)
                               \/ QueueDelete(b) \/ MemDelete(b)
Spec == Init /\ [][ValNext]_vars

\* fine-grained validation (every local step interleaved), for a tiny instance: same properties
FineNext == \/ StartVal
            \/ \E p \in Shards : \/ EnqMem(p) \/ EnqRow(p, TRUE)
                                 \/ \E x \in Sides : EnumCallR(p, x, TRUE)
                                 \/ \E n \in LocalNames : /\ En(n, sh[p]) /\ sh' = [sh EXCEPT ![p] = Ap(n, sh[p])]
                                                          /\ UNCHANGED <<src, dsz, queue, needCopy, smap, vrun, round, ust,
                                                                         acked, nup, cst, fs, src0, d0, touched, venq,
                                                                         efault, nfaults, nenv>>
            \/ \E b \in Blobs : \/ (Racing /\ SourceAccept(b)) \/ EnqueueMem(b) \/ EnqueueRow(b) \/ EnqueueRowFail(b)
                                \/ (Racing /\ (RmSrc(b) \/ \E z \in 0..1 : SetDst(b, z)))
FineSpec == Init /\ [][FineNext]_vars

FSNext == \/ FSStart \/ FSDoneStep \/ FSEnum
          \/ \E b \in Blobs : \/ \E o \in {"ok", "fail"} : CopyFetch(b, o) \/ DestReceive(b, o)
                              \/ QueueDelete(b) \/ MemDelete(b)
                              \/ RmSrc(b)
FSInit == /\ src \in SUBSET Blobs /\ dsz \in [Blobs -> 0..2] /\ smap = [b \in Blobs |-> CHOOSE p \in Shards : TRUE]
          /\ InitCommon /\ sh = [p \in Shards |-> NewShard] /\ src0 = {} /\ d0 = [b \in Blobs |-> 0]
FSSpec == FSInit /\ [][FSNext]_vars

(* ---- one pipeline with given input streams: the merge on its own *)
\* sorted streams over Blobs: the source blobs, the destination blobs with their size class, the position at which
\* either enumeration fails (Len + 1 = it does not)
Pipe(ss, ds, scut, dcut) ==
  LET mk(q, cut) == [NewEnum EXCEPT !.todo = SubSeq(q, 1, IF cut <= Len(q) THEN cut ELSE Len(q)),
                                    !.err = cut <= Len(q),
                                    !.st = IF (IF cut <= Len(q) THEN cut ELSE Len(q)) = 0 THEN "end" ELSE "push"]
  IN [NewShard EXCEPT !.pc = "run", !.s = mk(ss, scut), !.d = mk(ds, dcut)]
MInit == /\ src \in SUBSET Blobs /\ dsz \in [Blobs -> 0..2]
         /\ smap = [b \in Blobs |-> CHOOSE p \in Shards : TRUE]
         /\ InitCommon /\ queue = {} /\ src0 = src /\ d0 = dsz
         /\ \E scut, dcut \in 0..(Cardinality(Blobs) + 1) :
              /\ scut <= Cardinality(src) + 1 /\ dcut <= Cardinality({b \in Blobs : dsz[b] # 0}) + 1
              /\ (scut > Cardinality(src) \/ dcut > Cardinality({b \in Blobs : dsz[b] # 0}))     \* at most one side fails
              /\ sh = [p \in Shards |-> Pipe(Items("s", p, 0), Items("d", p, 0), scut, dcut)]
MergeNext == \E p \in Shards : \E n \in LocalNames :
                /\ En(n, sh[p]) /\ sh' = [sh EXCEPT ![p] = Ap(n, sh[p])]
                /\ UNCHANGED <<src, dsz, queue, needCopy, smap, vrun, round, ust, acked, nup, cst, fs,
                               src0, d0, touched, venq, efault, nfaults, nenv>>

MergeSpec == MInit /\ [][MergeNext]_vars

(* ------------------------------------------------------------------ properties *)
TypeOK == /\ src \subseteq Blobs /\ queue \subseteq Blobs /\ needCopy \subseteq Blobs
          /\ \A p \in Shards : /\ sh[p].pc \in {"idle", "run", "enq", "fin"}
                               /\ Len(sh[p].s.ch) <= ChanCap /\ Len(sh[p].d.ch) <= ChanCap

Clean == nfaults = 0          \* no injected fault so far
\* after a validation that reported no error, every blob that was at the source and not at the destination when it
\* began, and that nobody else removed or wrote meanwhile, has a row (or is known to the copier, or was delivered)
Complete == (ValDone /\ vshardErrs = {}) =>
              \A b \in src0 \ touched : d0[b] = 0 => (b \in queue \/ b \in needCopy \/ dsz[b] = 1)
\* validation enqueues only what the source has and the destination lacks; a copy of the wrong size counts as present
NoSpurious == \A b \in venq : (b \in src0 \/ b \in touched)
                              /\ (d0[b] = 0 \/ b \in touched)
\* a shard reports an enumeration error exactly if one of its enumerations failed, and then enqueues nothing
ErrShard == \A p \in Shards : sh[p].pc = "fin" =>
              /\ sh[p].eerr <=> p \in efault
              /\ sh[p].eerr => sh[p].nenq = 0 /\ ~sh[p].qerr
\* uploads that race with the validation are not lost: acknowledged => row or delivered
\* (a hook that finds the blob already pending acknowledges at once: the row is then still owed by whoever put the blob in
\* memory - the validation's enqueue or another upload - until that party's queue.Set; if that Set fails the blob
\* is in memory only)
RowOwed(b) == \/ ust[b] = "mem"
              \/ \E p \in Shards : sh[p].pc = "enq" /\ sh[p].stage = "row" /\ Head(sh[p].out) = b
UploadsDurable == \A b \in acked \cap Blobs : b \in queue \/ dsz[b] = 1 \/ RowOwed(b) \/ (nfaults > 0 /\ b \in needCopy)
\* no shard waits for ever (coarse model: nothing to do, nothing outstanding, not finished)
NoStuck == \A p \in Shards : ~Blocked(sh[p])
\* a quiet validation counts exactly
CountersExact == (ValDone /\ Clean /\ nenv = 0 /\ nup = 0 /\ ~Copier) =>
                   /\ vsrcCount = Cardinality(src0) /\ vdestCount = Cardinality({b \in Blobs : d0[b] # 0})
                   /\ vmissing = Cardinality({b \in src0 : d0[b] = 0})
                   /\ vshardDone = Cardinality(Shards)
\* full sync: once it is over without a fault, everything the source had (and still has) is at the destination, intact
FullSyncComplete == (fs.pc = "done" /\ Clean) => \A b \in src0 \ touched : dsz[b] = 1
FullSyncFeedsAll == ~fs.cutoff
FSQueueOnlyAfterAck == [][\A b \in Blobs : (b \in queue /\ b \notin queue') => cst[b] = "written"]_vars

(* ---- the merge on its own (MergeSpec: Shards = {1}, the streams are fixed in MInit) *)
RECURSIVE Ascending(_)
Ascending(q) == Len(q) < 2 \/ (q[1] < q[2] /\ Ascending(Tail(q)))
SeqSet(q) == {q[i] : i \in 1..Len(q)}
Present == {b \in Blobs : dsz[b] # 0}
MergeCorrect == \A p \in Shards : Quiescent(sh[p]) =>
   LET r == sh[p] IN
   /\ Ascending(r.out) /\ SeqSet(r.out) \subseteq src \ Present
   /\ r.mism \subseteq {b \in src : dsz[b] = 2}
   /\ (~r.s.err /\ ~r.d.err) => /\ SeqSet(r.out) = src \ Present
                                /\ r.mism = {b \in src : dsz[b] = 2}
                                /\ ~r.eerr /\ r.pc = (IF r.out = <<>> THEN "fin" ELSE "enq")
                                /\ r.s.cnt = Cardinality(src) /\ r.d.cnt = Cardinality(Present)
   /\ (r.s.err \/ r.d.err) => r.pc = "fin" /\ r.eerr
\* nobody is left waiting: when nothing can move, the shard is past its pipeline
QuiescentDone == \A p \in Shards : /\ Quiescent(sh[p]) => sh[p].pc # "run"
                                    /\ ScanComplete(sh[p])
\* the network is deterministic: every step leads to the same fixed point
\* (what is left in the channels of a finished shard, and how many destination blobs were counted before a source
\* error ended the shard, depend on the schedule: the enumerator that is not waited for keeps counting until cancelled)
Obs(r) == [pc |-> r.pc, out |-> r.out, mism |-> r.mism, eerr |-> r.eerr, scnt |-> r.s.cnt,
           dcnt |-> IF r.s.err THEN 0 ELSE r.d.cnt]
Confluent == [][\A p \in Shards : Obs(Run(sh'[p])) = Obs(Run(sh[p]))]_vars
\* termination of the pipeline: every local step strictly decreases a natural number
B2N(x) == IF x THEN 1 ELSE 0
Measure(r) == 9 * (Len(r.s.todo) + Len(r.d.todo)) + 3 * (Len(r.s.ch) + Len(r.d.ch))
              + 2 * (B2N(r.s.pk # Nil) + B2N(r.d.pk # Nil)) + 5 * (B2N(r.s.st = "end") + B2N(r.d.st = "end"))
              + B2N(r.mst = "run") + B2N(r.pc = "run")
Decreasing == [][\A p \in Shards : sh'[p] # sh[p] => Measure(sh'[p]) < Measure(sh[p])]_vars
=============================================================================
