------------------------------ MODULE IndexOOO ------------------------------
(* Out-of-order indexing: pkg/index ReceiveBlob / noteBlobIndexedLocked / removeAllMissingEdges /
   getNewPendingBlobIndex / MarkDone / indexReadyBlobs.  `need` holds needs+neededBy as one relation;
   `rows` are the persisted "missing|have|need" rows.  Lock sections are single actions. *)
EXTENDS Naturals, FiniteSets, TLC, Sequences
CONSTANTS Blobs, Deps, IdxDep, Never, Threads, NoBlob, AllowRestart, Deviations
VARIABLES stored, delivered, have, meta, rows, need, ready, pending, recentDone, pc, cur, miss, restarted
vars == <<stored, delivered, have, meta, rows, need, ready, pending, recentDone, pc, cur, miss, restarted>>
ToDeliver == (Blobs \ Never) \ delivered
Init == /\ stored = {} /\ delivered = {} /\ have = [b \in Blobs |-> "none"] /\ meta = [b \in Blobs |-> FALSE]
        /\ rows = {} /\ need = {} /\ ready = {} /\ pending = {} /\ recentDone = {} /\ restarted = FALSE
        /\ pc = [t \in Threads |-> "idle"] /\ cur = [t \in Threads |-> NoBlob] /\ miss = [t \in Threads |-> {}]
\* noteBlobIndexedLocked(br): needers whose only remaining need was br become ready
NBI_need(nd, br)      == {p \in nd : p[2] # br}
NBI_ready(nd, rd, br) == rd \cup {n \in {p[1] : p \in {q \in nd : q[2] = br}} :
                                    {p[2] : p \in {q \in nd : q[1] = n}} = {br}}
StartDeliver(t) == /\ pc[t] = "idle" /\ \E b \in ToDeliver :       \* blob reaches the blob source, then the index
                        /\ stored' = stored \cup {b} /\ delivered' = delivered \cup {b}
                        /\ cur' = [cur EXCEPT ![t] = b] /\ pc' = [pc EXCEPT ![t] = "begin"]
                   /\ UNCHANGED <<have, meta, rows, need, ready, pending, recentDone, miss, restarted>>
StartReindex(t) == /\ pc[t] = "idle" /\ \E b \in ready :           \* indexReadyBlobs pops one
                        /\ ready' = ready \ {b} /\ cur' = [cur EXCEPT ![t] = b] /\ pc' = [pc EXCEPT ![t] = "begin"]
                   /\ UNCHANGED <<stored, delivered, have, meta, rows, need, pending, recentDone, miss, restarted>>
Begin(t) == /\ pc[t] = "begin" /\ cur[t] \notin pending            \* getNewPendingBlobIndex
            /\ pending' = pending \cup {cur[t]} /\ pc' = [pc EXCEPT ![t] = "checkhave"]
            /\ UNCHANGED <<stored, delivered, have, meta, rows, need, ready, recentDone, cur, miss, restarted>>
CheckHave(t) == /\ pc[t] = "checkhave"
                /\ pc' = [pc EXCEPT ![t] = IF have[cur[t]] = "indexed" THEN "markdone" ELSE "populate"]
                /\ UNCHANGED <<stored, delivered, have, meta, rows, need, ready, pending, recentDone, cur, miss, restarted>>
Populate(t) == /\ pc[t] = "populate"                               \* outside ix.mu
               /\ LET b == cur[t]  m == Deps[b] \ stored IN
                  IF m # {} THEN /\ miss' = [miss EXCEPT ![t] = m] /\ pc' = [pc EXCEPT ![t] = "lock_missing"]
                                 /\ UNCHANGED <<rows, need>>
                  ELSE IF IdxDep[b] # NoBlob /\ ~meta[IdxDep[b]]    \* delete claim, target not indexed: noteNeeded
                       THEN /\ rows' = rows \cup {<<b, IdxDep[b]>>} /\ need' = need \cup {<<b, IdxDep[b]>>}
                            /\ miss' = [miss EXCEPT ![t] = {}] /\ pc' = [pc EXCEPT ![t] = "lock_partial"]
                       ELSE /\ miss' = [miss EXCEPT ![t] = {}] /\ pc' = [pc EXCEPT ![t] = "lock_full"]
                            /\ UNCHANGED <<rows, need>>
               /\ UNCHANGED <<stored, delivered, have, meta, ready, pending, recentDone, cur, restarted>>
LockMissing(t) == /\ pc[t] = "lock_missing"
                  /\ LET new == {<<cur[t], m>> : m \in miss[t]} IN rows' = rows \cup new /\ need' = need \cup new
                  /\ pc' = [pc EXCEPT ![t] = "markdone"]
                  /\ UNCHANGED <<stored, delivered, have, meta, ready, pending, recentDone, cur, miss, restarted>>
Commit(t, full) == LET b == cur[t] IN
   /\ have' = [have EXCEPT ![b] = IF full THEN "indexed" ELSE "partial"] /\ meta' = [meta EXCEPT ![b] = TRUE]
   /\ need' = NBI_need(need, b) /\ ready' = NBI_ready(need, ready, b) /\ recentDone' = recentDone \cup {b}
   /\ rows' = IF full \/ "PartialCommitDropsMissingRow" \in Deviations       \* removeAllMissingEdges(b)
              THEN {r \in rows : r[1] # b}
              ELSE {r \in rows : r[1] # b \/ r = <<b, IdxDep[b]>>}             \* intended: keep the still-open need
   /\ pc' = [pc EXCEPT ![t] = "markdone"]
   /\ UNCHANGED <<stored, delivered, pending, cur, miss, restarted>>
LockPartial(t) == pc[t] = "lock_partial" /\ Commit(t, FALSE)
LockFull(t)    == pc[t] = "lock_full" /\ Commit(t, TRUE)
RECURSIVE DrainRecent(_, _, _)
DrainRecent(nd, rd, S) == IF S = {} THEN <<nd, rd>>
                          ELSE LET x == CHOOSE x \in S : TRUE IN DrainRecent(NBI_need(nd, x), NBI_ready(nd, rd, x), S \ {x})
MarkDone(t) == /\ pc[t] = "markdone" /\ pending' = pending \ {cur[t]}
               /\ IF pending \ {cur[t]} = {}
                  THEN LET S == {x \in recentDone : \E p \in need : p[2] = x}  r == DrainRecent(need, ready, S)
                       IN need' = r[1] /\ ready' = r[2] /\ recentDone' = {}
                  ELSE UNCHANGED <<need, ready, recentDone>>
               /\ pc' = [pc EXCEPT ![t] = "idle"] /\ cur' = [cur EXCEPT ![t] = NoBlob]
               /\ UNCHANGED <<stored, delivered, have, meta, rows, miss, restarted>>
AllIdle == \A t \in Threads : pc[t] = "idle"
Restart == /\ AllowRestart /\ ~restarted /\ AllIdle /\ ready = {}    \* index.New: initNeededMapsLocked from rows
           /\ need' = rows /\ recentDone' = {} /\ pending' = {} /\ restarted' = TRUE
           /\ UNCHANGED <<stored, delivered, have, meta, rows, ready, pc, cur, miss>>
Next == \/ \E t \in Threads : StartDeliver(t) \/ StartReindex(t) \/ Begin(t) \/ CheckHave(t) \/ Populate(t)
                              \/ LockMissing(t) \/ LockPartial(t) \/ LockFull(t) \/ MarkDone(t)
        \/ Restart
Spec == Init /\ [][Next]_vars
Quiescent == AllIdle /\ ready = {} /\ ToDeliver = {}
AllDeps(b) == Deps[b] \cup (IF IdxDep[b] = NoBlob THEN {} ELSE {IdxDep[b]})
Confluent == Quiescent => \A b \in delivered :
   /\ (AllDeps(b) \subseteq delivered => have[b] = "indexed")
   /\ (~(AllDeps(b) \subseteq delivered) =>
          have[b] # "indexed" /\ \E x \in AllDeps(b) \ delivered : <<b, x>> \in need /\ <<b, x>> \in rows)
=============================================================================
