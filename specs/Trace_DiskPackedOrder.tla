------------------------ MODULE Trace_DiskPackedOrder ------------------------
(* System-call level validation of diskpacked's append path against the step order of DiskPacked.tla
   (AppendHdr -> AppendBody -> Fsync -> IndexSet): the real store runs fault-free under strace with an index KV
   that issues a marker write(2) just before every index update, which puts the index updates into the total
   order of the process's system calls.  Lines (projected by the orchestrator from the strace output):
     {"call":"reset"} {"call":"write","f":pack} {"call":"fsync","f":pack} {"call":"idxset","f":""}
     {"call":"pwrite"|"punch","f":pack} {"call":"idxbatch"} {"call":"begin"|"end","f":op}
   Checked: an index row is written only when no pack file has written-but-unsynced bytes (Durability in
   DiskPacked.tla rests on it: an indexed record is on disk), every receive that writes to a pack ends with an
   index update, and nothing is appended to a pack after its fsync and before the index update. Collect mode. *)
EXTENDS Naturals, Sequences, FiniteSets, TLC, Json, IOUtils

VARIABLES dirty, wrote, l
Trace == ndJsonDeserialize(IOEnv.TRACE_FILE)
Ev == Trace[l]
vars == <<dirty, wrote, l>>
Init == dirty = {} /\ wrote = FALSE /\ l = 1
Is(c) == l <= Len(Trace) /\ Ev.call = c /\ l' = l + 1
Viol(w) == PrintT(<<"VIOL", l, w>>)

TReset == Is("reset") /\ dirty' = {} /\ wrote' = FALSE
TBegin == Is("begin") /\ wrote' = FALSE /\ UNCHANGED dirty
AppendWrite == Is("write") /\ dirty' = dirty \cup {Ev.f} /\ wrote' = TRUE            \* AppendHdr / AppendBody
Fsync == Is("fsync") /\ dirty' = dirty \ {Ev.f} /\ UNCHANGED wrote
IndexSet == /\ Is("idxset")
            /\ (dirty # {} => Viol(<<"index row written while a pack file has un-synced appended bytes", dirty>>))
            /\ wrote' = FALSE /\ UNCHANGED dirty
TEnd == /\ Is("end")
        /\ ((Ev.f = "receive" /\ wrote /\ Ev.res = "ok") => Viol("receive appended to a pack but wrote no index row"))
        /\ UNCHANGED <<dirty, wrote>>
Other == l <= Len(Trace) /\ Ev.call \in {"pwrite", "punch", "idxbatch", "idxdel"} /\ l' = l + 1 /\ UNCHANGED <<dirty, wrote>>

TNext == TReset \/ TBegin \/ AppendWrite \/ Fsync \/ IndexSet \/ TEnd \/ Other
TSpec == Init /\ [][TNext]_vars
TraceAccepted == TLCGet("stats").diameter - 1 = Len(Trace)
=============================================================================
