SPECIFICATION Spec
CONSTANTS
  Blobs = {1, 2}
  MaxCrashes = 1
  Deviations = {}
INVARIANTS TypeOK DurablePending MemoryCoversQueue QueuedInSource
CHECK_DEADLOCK FALSE
