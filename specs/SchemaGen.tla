----------------------------- MODULE SchemaGen -----------------------------
(* Input generator for C15.  TLC enumerates
     - well-formed part trees (GMode = "g1" | "g2" | "g3": depth 1, 2, 3), emitted as the tree only -
       what every read of it must return is recomputed by Trace_Schema from the same tree;
     - the writer case matrix (GMode = "wcases"): length x content class x reader fragmentation;
     - the static-set cases (GMode = "dcases"): threshold x member count around max and max^2.
   Bytes of blob k are 16k, 16k+1, ... so a byte value identifies (blob, position); 0 is a hole byte.
   Nodes are 101 (root), 102, 103; a node only references higher-numbered nodes. *)
EXTENDS Schema, Json

CONSTANTS GMode,      \* which family to emit
          GWide       \* FALSE: the quick families; TRUE: the thorough ones (more windows and neighbours)

G1 == <<16, 17, 18, 19>>
G2 == <<32, 33, 34>>
GBase == (1 :> Chunk(G1)) @@ (2 :> Chunk(G2))

(* every window <<off, n>> into a source of length L, and a thinned set that keeps the boundary cases:
   offset 0 / small offsets, length 1..2, reaching the end, ending one byte before the end *)
WinsAll(L) == {w \in (0..(L - 1)) \X (1..L) : w[1] + w[2] <= L}
WinsFew(L) == {w \in WinsAll(L) : w[1] <= 2 /\ (w[2] <= 2 \/ w[1] + w[2] >= L - 1)}
Wins(L) == IF GWide THEN WinsAll(L) ELSE WinsFew(L)

BlobWins(b, L) == {BlobPart(b, w[1], w[2]) : w \in WinsAll(L)}
AllLeaves == {HolePart(1), HolePart(2)} \cup BlobWins(1, 4) \cup BlobWins(2, 3)
(* a part that ends before its blob does, parts with in-part offsets, a whole blob, a hole *)
KeyLeaves == {HolePart(1), BlobPart(1, 0, 4), BlobPart(1, 1, 2), BlobPart(1, 2, 2), BlobPart(2, 0, 2), BlobPart(2, 1, 1)}
              \cup (IF GWide THEN {HolePart(2), BlobPart(1, 0, 2), BlobPart(2, 0, 3), BlobPart(2, 2, 1)} ELSE {})
Around == {<<>>, <<BlobPart(2, 1, 1)>>} \cup (IF GWide THEN {<<HolePart(1)>>, <<BlobPart(2, 0, 3)>>} ELSE {})

Deep3 == {<<BlobPart(1, 0, 4)>>, <<BlobPart(1, 1, 2)>>, <<BlobPart(1, 1, 2), BlobPart(2, 0, 2)>>,
          <<HolePart(1), BlobPart(1, 0, 4)>>, <<BlobPart(2, 0, 2), HolePart(1)>>}
          \cup (IF GWide THEN SeqsUpTo({BlobPart(1, 0, 4), BlobPart(1, 1, 2), BlobPart(2, 0, 2), HolePart(1)}, 2) ELSE {})
With(F, id, kind, ps) == (id :> Node(kind, ps)) @@ F
WinParts(F, id) == {BytesPart(id, w[1], w[2]) : w \in Wins(SizeOf(F, id))}

(* The families, as predicates on the tree (nested quantifiers: TLC enumerates the initial states one by one
   instead of first building and normalising one huge set of forests). *)
P2Of(F3) == {<<w3>> : w3 \in WinParts(F3, 103)}
            \cup {<<w3, BlobPart(2, 0, 2)>> : w3 \in WinParts(F3, 103)}
            \cup {<<BlobPart(1, 1, 2), w3>> : w3 \in WinParts(F3, 103)}
GTree(F) ==
  CASE GMode = "g1" -> \E ps \in SeqsUpTo(AllLeaves, IF GWide THEN 3 ELSE 2) \cup [1..3 -> KeyLeaves \cup {BlobPart(2, 0, 3)}] \cup {<<>>} :
                          F = With(GBase, Root, "file", ps)
    [] GMode = "g2" -> \E p2 \in SeqsUpTo(KeyLeaves, 2) :
                          LET F2 == With(GBase, 102, "bytes", p2) IN
                          \/ \E pre \in Around, post \in Around, w \in WinParts(F2, 102) : F = With(F2, Root, "file", pre \o <<w>> \o post)
                          \/ \E w \in WinParts(F2, 102), v \in WinParts(F2, 102) : F = With(F2, Root, "file", <<w, v>>)
    [] GMode = "g3" -> \E p3 \in Deep3 :
                          LET F3 == With(GBase, 103, "bytes", p3) IN
                          \E p2 \in P2Of(F3) :
                             LET F2 == With(F3, 102, "bytes", p2) IN
                             \/ \E pre \in Around, w \in WinParts(F2, 102) : F = With(F2, Root, "file", pre \o <<w>>)
                             \/ \E w \in WinParts(F2, 102), v \in {x \in WinParts(F3, 103) : x.off = 1 \/ (x.off = 0 /\ x.size = 1)} :
                                   F = With(F2, Root, "file", <<w, v>>)
    [] OTHER -> F = GBase

(* ---- case matrices ---- *)
Ki == 1024
WLens == <<0, 1, 64 * Ki - 1, 64 * Ki, 64 * Ki + 1, 256 * Ki - 1, 256 * Ki, 256 * Ki + 1,
           Ki * Ki - 1, Ki * Ki, Ki * Ki + 1, 3 * Ki * Ki,
           \* just past the offsets where the hard cap cuts content that never splits (256 KiB + k * 1 MiB)
           256 * Ki + Ki * Ki + 1, 256 * Ki + Ki * Ki + 200, 256 * Ki + Ki * Ki + 20000>> \o (IF GWide THEN <<2 * Ki * Ki + 17, 5 * Ki * Ki + 3>> ELSE <<>>)
WClasses == {"zeros", "random", "periodic", "splitoften", "splitnever"}
WFrags == {"whole", "onebyte", "dataeof", "half", "oddeof"}   \* oddeof: reads of 10007 bytes, the last one returning data and EOF together
WCases == {[len |-> WLens[i], class |-> c, frag |-> f] : i \in 1..Len(WLens), c \in WClasses, f \in WFrags}

DCounts(max) == {0, 1, max - 1, max, max + 1, max * max - 1, max * max, max * max + 1, max * max + max + 1}
                  \cup (IF GWide THEN {2 * max, 2 * max + 1, max * max * max + 1} ELSE {})
DCases == UNION {{[max |-> m, n |-> n] : n \in DCounts(m)} : m \in {3, 10}}

GInit == /\ GTree(rF) /\ rRoot = Root /\ rPos = 0 /\ rReply = NoReply
         /\ WIdle /\ SIdle
GSpec == GInit /\ [][UNCHANGED vars]_vars

NodeIds(F) == {i \in DOMAIN F : i > 100}
TreeJson(F) == [blobs |-> [i \in 1..2 |-> F[i].data],
                nodes |-> [i \in 1..Cardinality(NodeIds(F)) |-> [id |-> 100 + i, kind |-> F[100 + i].kind, parts |-> F[100 + i].parts]],
                root |-> Root]

Emit == CASE GMode \in {"g1", "g2", "g3"} -> (WellFormed(rF, rRoot) /\ PrintT(<<"TREE", ToJson(TreeJson(rF))>>))
          [] GMode = "wcases" -> \A c \in WCases : PrintT(<<"WCASE", ToJson(c)>>)
          [] GMode = "dcases" -> \A c \in DCases : PrintT(<<"DCASE", ToJson(c)>>)
=============================================================================
