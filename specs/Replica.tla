------------------------------ MODULE Replica ------------------------------
(* pkg/blobserver/replica: a store that fans every ReceiveBlob out to its write replicas, tallies
   their results as they arrive and acknowledges at minWritesForSuccess; reads go to the read
   replicas (Fetch: first that has it; Stat: all, de-duplicated; Enumerate: merged).

   Configuration (write set, read set, minWrites) and the environment (initial contents of every
   replica, the outcome of every upload) are VARIABLES chosen in Init, so one TLC run covers all of
   them.  One action per step of the code:
     RecvStart(b)       ReceiveBlob slurps the source and starts one upload goroutine per replica
     ReplicaDone(i)     the result of replica i reaches the tally loop (any order = slow replicas)
     Straggler(i)       an upload that completes after the call has returned
     RemoveStart/RemoveDone(i)/RemoveRet    RemoveBlobs fan-out
     Fetch/Stat/Enumerate                   reads, when no call is in flight
   Deviations (the code as it is, each a named, reproduced finding):
     "StragglersAfterAck"   the call returns at quorum while the remaining uploads keep running
                            (H26: a later RemoveBlobs can be overtaken by a straggler's write)
     "RemoveBestEffort"     RemoveBlobs reports success if ANY replica succeeded (H24)          *)
EXTENDS Naturals, FiniteSets, Sequences, SequencesExt

CONSTANTS N,            \* number of underlying stores 1..N
          Blobs,        \* even naturals (ranks)
          Deviations,
          FullConfig    \* TRUE: every write/read subset; FALSE: write = read = all

Stores == 1..N
Outcomes == {"ok", "err", "wrongsize"}

VARIABLES W, Rd, MinW,      \* configuration
          has,              \* [Stores -> SUBSET Blobs]  what each underlying store holds
          call,             \* the public call in flight, or NoCall
          outcome,          \* [Stores -> Outcomes]  environment: how each upload/remove of this call ends
          done,             \* stores whose result has been tallied
          nSuccess,
          ret,              \* "none" | "pending" | "ok" | "err"
          acked,            \* blobs whose receive was acknowledged and that were not removed since
          removedOk,        \* blobs whose removal was acknowledged and that were not received since
          copiesAtAck,      \* number of write replicas holding a correctly sized copy at the ack
          pendingBg,        \* uploads <<store, blob, stores?>> still running after their call returned
          reply

vars == <<W, Rd, MinW, has, call, outcome, done, nSuccess, ret, acked, removedOk, copiesAtAck, pendingBg, reply>>
cfgvars == <<W, Rd, MinW>>

NoCall == [op |-> "none", b |-> 0]
Stragglers == "StragglersAfterAck" \in Deviations

SortedSeq(S) == SetToSortSeq(S, <)
Prefix(s, n) == SubSeq(s, 1, IF n < Len(s) THEN n ELSE Len(s))
Visible == UNION {has[i] : i \in Rd}        \* what the read replicas hold, together

Init == /\ IF FullConfig
           THEN W \in (SUBSET Stores) \ {{}} /\ Rd \in (SUBSET Stores) \ {{}}
           ELSE W = Stores /\ Rd = Stores
        /\ MinW \in 1..Cardinality(W)
        /\ has \in [Stores -> SUBSET Blobs]
        /\ call = NoCall /\ outcome = [i \in Stores |-> "ok"] /\ done = {} /\ nSuccess = 0 /\ ret = "none"
        /\ acked = {} /\ removedOk = {} /\ copiesAtAck = 0 /\ pendingBg = {}
        /\ reply = [op |-> "init", res |-> "ok", list |-> <<>>]

Idle == call.op = "none"

(* ---------------------------------------------------------------- receive *)
RecvStart(b) ==
  /\ Idle
  /\ call' = [op |-> "recv", b |-> b]
  /\ outcome' \in [Stores -> Outcomes]
  /\ done' = {} /\ nSuccess' = 0 /\ ret' = "pending" /\ copiesAtAck' = 0
  /\ removedOk' = removedOk \ {b}      \* from now on b may legitimately be present (even if the call fails)
  /\ UNCHANGED <<cfgvars, has, acked, pendingBg, reply>>

Stored(o) == o \in {"ok", "wrongsize"}     \* a wrong-size report still stored the bytes

ReplicaDone(i) ==
  /\ call.op = "recv" /\ ret = "pending" /\ i \in W \ done
  /\ done' = done \cup {i}
  /\ has' = [has EXCEPT ![i] = IF Stored(outcome[i]) THEN @ \cup {call.b} ELSE @]
  /\ nSuccess' = IF outcome[i] = "ok" THEN nSuccess + 1 ELSE nSuccess
  /\ LET ok == outcome[i] = "ok" /\ nSuccess + 1 = MinW
         last == done \cup {i} = W
     IN /\ ret' = IF ok THEN "ok" ELSE IF last THEN "err" ELSE "pending"
        /\ copiesAtAck' = IF ok THEN Cardinality({j \in (done \cup {i}) : outcome[j] = "ok"}) ELSE copiesAtAck
        /\ acked' = IF ok THEN acked \cup {call.b} ELSE acked
        /\ removedOk' = IF ok THEN removedOk \ {call.b} ELSE removedOk
  /\ UNCHANGED <<cfgvars, call, outcome, pendingBg, reply>>

(* An upload completes after the tally loop has decided but before the caller has its answer: in the
   intended mechanism all remaining uploads do (or are cancelled); in the code they merely may - the
   return and the stragglers run concurrently. *)
LateDone(i) ==
  /\ call.op = "recv" /\ ret \in {"ok", "err"} /\ i \in W \ done
  /\ done' = done \cup {i}
  /\ has' = [has EXCEPT ![i] = IF Stored(outcome[i]) THEN @ \cup {call.b} ELSE @]
  /\ UNCHANGED <<cfgvars, call, outcome, nSuccess, ret, acked, removedOk, copiesAtAck, pendingBg, reply>>

(* The caller gets its answer.  With "StragglersAfterAck" (the code) the uploads not yet tallied keep
   running in the background, each remembering whether it will store the blob. *)
RecvRet ==
  /\ call.op = "recv" /\ ret \in {"ok", "err"}
  /\ (Stragglers \/ done = W)
  /\ reply' = [op |-> "receive", res |-> ret, list |-> <<>>]
  /\ pendingBg' = pendingBg \cup {<<i, call.b, Stored(outcome[i])>> : i \in W \ done}
  /\ call' = NoCall /\ ret' = "none"
  /\ UNCHANGED <<cfgvars, has, outcome, done, nSuccess, acked, removedOk, copiesAtAck>>

(* The code: an upload of an already answered call lands whenever it likes - also after later calls. *)
Straggler(p) ==
  /\ p \in pendingBg
  /\ pendingBg' = pendingBg \ {p}
  /\ has' = [has EXCEPT ![p[1]] = IF p[3] THEN @ \cup {p[2]} ELSE @]
  /\ UNCHANGED <<cfgvars, call, outcome, done, nSuccess, ret, acked, removedOk, copiesAtAck, reply>>

(* ---------------------------------------------------------------- remove *)
RemoveStart(b) ==
  /\ Idle
  /\ call' = [op |-> "rm", b |-> b]
  /\ outcome' \in [Stores -> {"ok", "err"}]
  /\ done' = {} /\ nSuccess' = 0 /\ ret' = "pending"
  /\ UNCHANGED <<cfgvars, has, acked, removedOk, copiesAtAck, reply, pendingBg>>

RemoveDone(i) ==
  /\ call.op = "rm" /\ i \in W \ done
  /\ done' = done \cup {i}
  /\ has' = [has EXCEPT ![i] = IF outcome[i] = "ok" THEN @ \ {call.b} ELSE @]
  /\ nSuccess' = IF outcome[i] = "ok" THEN nSuccess + 1 ELSE nSuccess
  /\ UNCHANGED <<cfgvars, call, outcome, ret, acked, removedOk, copiesAtAck, reply, pendingBg>>

RemoveRet ==
  /\ call.op = "rm" /\ done = W
  /\ LET ok == IF "RemoveBestEffort" \in Deviations THEN nSuccess > 0 ELSE nSuccess = Cardinality(W)
     IN /\ reply' = [op |-> "remove", res |-> IF ok THEN "ok" ELSE "err", list |-> <<>>]
        /\ removedOk' = IF ok THEN removedOk \cup {call.b} ELSE removedOk
        /\ acked' = acked \ {call.b}
  /\ call' = NoCall /\ ret' = "none"
  /\ UNCHANGED <<cfgvars, has, outcome, done, nSuccess, copiesAtAck, pendingBg>>

(* ---------------------------------------------------------------- reads *)
FetchReply(b) == [op |-> "fetch", res |-> IF b \in Visible THEN "ok" ELSE "notexist", list |-> <<>>]
StatReply(S) == [op |-> "stat", res |-> "ok", list |-> SortedSeq(S \cap Visible)]
EnumReply(after, limit) == [op |-> "enum", res |-> "ok", list |-> Prefix(SortedSeq({b \in Visible : b > after}), limit)]

(* Fetch under replica loss: the read replicas in F are lost for this call (every call on them fails with an error
   that is not "does not exist").  The code walks the read replicas in configuration order (here: index order),
   returns the first success and otherwise the LAST replica's answer.  Deviation "FetchStopsAtError": the walk goes
   on only after a not-exist answer and stops at the first other error (a seeded change, kept as a sensitivity run). *)
MinOf(S) == CHOOSE x \in S : \A y \in S : x <= y
MaxOf(S) == CHOOSE x \in S : \A y \in S : y <= x
FetchWalk(b, F) ==
  LET up == {i \in Rd \ F : b \in has[i]}
      dn == Rd \cap F
  IN IF "FetchStopsAtError" \in Deviations
     THEN IF up # {} /\ (dn = {} \/ MinOf(up) < MinOf(dn)) THEN "ok"
          ELSE IF dn # {} THEN "failed" ELSE "notexist"
     ELSE IF up # {} THEN "ok"
          ELSE IF dn # {} /\ MaxOf(Rd) \in dn THEN "failed" ELSE "notexist"
FetchF(b, F) == Idle /\ reply' = [op |-> "fetch", res |-> FetchWalk(b, F), list |-> <<>>]
                /\ UNCHANGED <<cfgvars, has, call, outcome, done, nSuccess, ret, acked, removedOk, copiesAtAck, pendingBg>>
(* Stat / enumerate under replica loss: the read replicas in F fail the call.  The property asks for the
   reference map's answer from every successful call, so an answer given while replicas are lost is an error or
   the complete list.  The code fails the call as soon as one read replica fails.  Deviation
   "StatSkipsFailedReplica" (a seeded change, kept as a sensitivity run): the answers of the surviving replicas
   are reported as a success. *)
VisibleWithout(F) == UNION {has[i] : i \in Rd \ F}
StatUnderLoss(S, F) ==
  IF F \cap Rd = {} THEN StatReply(S)
  ELSE IF "StatSkipsFailedReplica" \in Deviations /\ Rd \ F # {}
       THEN [op |-> "stat", res |-> "ok", list |-> SortedSeq(S \cap VisibleWithout(F))]
       ELSE [op |-> "stat", res |-> "failed", list |-> <<>>]
EnumUnderLoss(a, l, F) ==
  IF F \cap Rd = {} THEN EnumReply(a, l)
  ELSE IF "StatSkipsFailedReplica" \in Deviations /\ Rd \ F # {}
       THEN [op |-> "enum", res |-> "ok", list |-> Prefix(SortedSeq({b \in VisibleWithout(F) : b > a}), l)]
       ELSE [op |-> "enum", res |-> "failed", list |-> <<>>]
(* what the property accepts as the answer (res, list) of a stat of S / an enumeration while F is lost *)
StatAnswerOK(S, F, res, list) == IF res = "ok" THEN list = StatReply(S).list ELSE F \cap Rd # {} /\ res = "failed"
EnumAnswerOK(a, l, F, res, list) == IF res = "ok" THEN list = EnumReply(a, l).list ELSE F \cap Rd # {} /\ res = "failed"
(* StatF / EnumF change nothing but `reply` (which is outside the VIEW): they are steps of the trace specification
   only; the model check judges them through the state predicate ListsSurviveLoss. *)
StatF(S, F) == Idle /\ reply' = StatUnderLoss(S, F)
               /\ UNCHANGED <<cfgvars, has, call, outcome, done, nSuccess, ret, acked, removedOk, copiesAtAck, pendingBg>>
EnumF(a, l, F) == Idle /\ reply' = EnumUnderLoss(a, l, F)
                  /\ UNCHANGED <<cfgvars, has, call, outcome, done, nSuccess, ret, acked, removedOk, copiesAtAck, pendingBg>>
Fetch(b) == Idle /\ reply' = FetchReply(b)
            /\ UNCHANGED <<cfgvars, has, call, outcome, done, nSuccess, ret, acked, removedOk, copiesAtAck, pendingBg>>
Stat(S) == Idle /\ reply' = StatReply(S)
           /\ UNCHANGED <<cfgvars, has, call, outcome, done, nSuccess, ret, acked, removedOk, copiesAtAck, pendingBg>>
Enumerate(a, l) == Idle /\ reply' = EnumReply(a, l)
                   /\ UNCHANGED <<cfgvars, has, call, outcome, done, nSuccess, ret, acked, removedOk, copiesAtAck, pendingBg>>

Next == \/ \E b \in Blobs : RecvStart(b) \/ RemoveStart(b) \/ Fetch(b) \/ (\E F \in SUBSET Rd : FetchF(b, F))
        \/ \E i \in Stores : ReplicaDone(i) \/ LateDone(i) \/ RemoveDone(i)
        \/ \E p \in pendingBg : Straggler(p)
        \/ RecvRet \/ RemoveRet
        \/ \E S \in SUBSET Blobs : Stat(S)
        \/ \E a \in 0..(2 * Cardinality(Blobs) + 1), l \in 1..3 : Enumerate(a, l)

Spec == Init /\ [][Next]_vars

-----------------------------------------------------------------------------
(* C12 *)
GoodCopies == Cardinality({i \in W : outcome[i] = "ok" /\ i \in done})
QuorumAtAck == (call.op = "recv" /\ ret = "ok") => (copiesAtAck >= MinW /\ GoodCopies >= MinW)
ErrOnlyBelowQuorum == (call.op = "recv" /\ ret = "err") => (done = W /\ nSuccess < MinW)
Decided == (call.op = "recv" /\ done = W) => ret # "pending"
(* a blob stays fetchable as long as one read replica holds it; stat/enumerate list it exactly once *)
ReadsSurvive == \A b \in Blobs : (\E i \in Rd : b \in has[i]) <=> FetchReply(b).res = "ok"
(* ... also when any subset F of the read replicas is lost, as long as a surviving one holds it *)
ReadsSurviveLoss == \A b \in Blobs : \A F \in SUBSET Rd :
                      /\ ((\E i \in Rd \ F : b \in has[i]) <=> FetchWalk(b, F) = "ok")
                      /\ (F = {} => FetchWalk(b, F) = FetchReply(b).res)
(* stat and enumerate answer as the reference map or fail, whatever subset of the read replicas is lost *)
ListsSurviveLoss == \A F \in SUBSET Rd :
                      /\ \A S \in SUBSET Blobs : LET r == StatUnderLoss(S, F) IN StatAnswerOK(S, F, r.res, r.list)
                      /\ \A a \in 0..(2 * Cardinality(Blobs) + 1), l \in 1..3 :
                            LET r == EnumUnderLoss(a, l, F) IN EnumAnswerOK(a, l, F, r.res, r.list)
ExactlyOnce == \A S \in SUBSET Blobs :
                 LET l == StatReply(S).list IN Cardinality({l[k] : k \in 1..Len(l)}) = Len(l)
(* beyond C12 (C01/C13/C14): an acknowledged removal stays in force until the blob is received again *)
NoResurrection == (Idle /\ W = Rd) => \A b \in removedOk : b \notin Visible
(* an acknowledged, unremoved blob is readable whenever the read set covers the write set *)
AckedReadable == (Idle /\ W \subseteq Rd) => \A b \in acked : b \in Visible
View == <<W, Rd, MinW, has, call, outcome, done, nSuccess, ret, acked, removedOk, copiesAtAck, pendingBg>>
=============================================================================
