SPECIFICATION TSpec
CONSTANTS
  Deviations = {}
  MaxFree = 3
POSTCONDITION TraceAccepted
CHECK_DEADLOCK FALSE
