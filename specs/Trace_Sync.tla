----------------------------- MODULE Trace_Sync -----------------------------
(* Validates recorded executions of the real sync handler (pkg/server/sync.go, created through
   blobserver.CreateHandler("sync") over harness gates) against Sync.  One line per lower-layer call that took
   effect, in the order of the gates' common log, plus the driver's own marks.  All lines have ev, b, res:

     reset  res = configuration                     new run (segment); every line carries its run number sg
     start                                          a handler incarnation is being created         Start
     find                                           queue.Find("","") of readQueueToMemory        Reload
     up     b                                       src.ReceiveBlob stored b                       SourceAccept(b)
     set    b                                       queue.Set(b)                                   EnqueueRow(b)
     fetch  b res in FetchOutcomes                  src.Fetch by the copier, outcome as served     CopyFetch(b, res)
     recv   b res in DestOutcomes                   dst.ReceiveBlob, outcome as reported           DestReceive(b, res)
     del    b                                       queue.Delete(b)                                QueueDelete(b)
     crash                                          every gate of the incarnation froze            Crash
     heal                                           no fault is armed any more                     Heal
     ack    b res in {ok, err}                      blobserver.Receive(src, b) returned            observation
     final  b res in {delivered, undelivered, corrupt}, row in BOOLEAN                             observation
            (after the bounded wait on the healed system: destination contents compared byte for byte, queue rows)

   The memory-only steps EnqueueMem(b) and MemDelete(b) are not observable: they are silent steps (no line
   consumed) that TLC places wherever a behaviour of Sync needs them.  The action property of Sync is built into
   the guards: a `del` line is accepted only in the state that follows the destination's acknowledgement of
   that copy, a `set` line only after the source accepted, a `recv` line only after a good source read.
   The liveness half is checked at the bounded horizon: every acknowledged blob must be observed `delivered`.
   Segments are independent; dead chain / high-water protocol with round-robin registers as in Trace_Lin.
   Instances: MC_TraceSync (Blobs = 1..40) and MC_TraceSyncBurst (1..120, burst family). *)
EXTENDS Sync, Sequences, TLC, Json, IOUtils

VARIABLES l, dead, segno
Trace == ndJsonDeserialize(IOEnv.TRACE_FILE)
Ev == Trace[l]
tvars == <<vars, l, dead, segno>>

Fresh == /\ src' = {} /\ dst' = {} /\ queue' = {} /\ needCopy' = {} /\ acked' = {}
         /\ ust' = [b \in Blobs |-> "idle"] /\ cst' = [b \in Blobs |-> "idle"]
         /\ up' = FALSE /\ loaded' = FALSE /\ faulty' = TRUE /\ crashes' = 0

TInit == /\ l = 1 /\ dead = TRUE /\ segno = 0
         /\ src = {} /\ dst = {} /\ queue = {} /\ needCopy = {} /\ acked = {}
         /\ ust = [b \in Blobs |-> "idle"] /\ cst = [b \in Blobs |-> "idle"]
         /\ up = FALSE /\ loaded = FALSE /\ faulty = TRUE /\ crashes = 0

ASSUME \A i \in 10..73 : TLCSet(i, 0)
\* 64 registers chosen round-robin per segment: a live state lags behind the dead front-runner by one BFS level per silent
\* step, so states of several segments coexist; with 8 registers a long segment (100 silent steps) followed by more than 8
\* short ones had its register overwritten and its lines went unreported (seen in Trace_SyncValidate, which prints every
\* line instead).  64 segments are always longer than the lag of one.
Mark == IF l > TLCGet(10 + segno) THEN TLCSet(10 + segno, l) /\ PrintT(<<"HW", l>>) ELSE TRUE
IsEv(e) == l <= Len(Trace) /\ Ev.ev = e /\ l' = l + 1
(* Placement of the silent steps (a partial-order reduction: only the search is pruned, every line is still
   matched against Sync's actions).  Both silent steps of b read and write only b's components (ust[b], cst[b],
   b's membership of needCopy and acked), so they commute with every line and every silent step of another blob,
   except Crash (which resets the memory).
   - MemDelete(b): the only step whose outcome depends on it is the duplicate check of an upload hook of b
     (EnqueueMem(b)).  So a pending MemDelete(b) is carried across a line only while such a hook can still run
     before it: the source has stored b and the hook has not run (ust[b] = "stored"), or a source receive of b
     lies ahead in the same run; otherwise it is taken at once.
   - EnqueueMem(b) is taken as late as possible: right before a line of b (its `set`, a `fetch` that overtook the
     row, the `ack`, ...), or before a `crash` line if it is the duplicate case (the only effect that survives
     the crash is the acknowledgement; a first-time EnqueueMem(b) followed by a crash without a line of b in
     between leaves no trace and is dropped).
   This keeps the search linear instead of doubling the branches at every delivery and at every upload in
   flight (burst family: 100 concurrent uploads). *)
UpAhead(b) == \E j \in l..(IF l + 200 < Len(Trace) THEN l + 200 ELSE Len(Trace)) :
                  Trace[j].ev = "up" /\ Trace[j].b = b /\ Trace[j].sg = Ev.sg
NoLinger == \A b \in Blobs : cst[b] = "deleted" => (ust[b] = "stored" \/ UpAhead(b))
Live == ~dead /\ NoLinger /\ UNCHANGED <<dead, segno>>
\* Mark must be the LAST conjunct of an action (TLC evaluates conjuncts in order).

TReset == /\ IsEv("reset") /\ Fresh /\ dead' = FALSE
          /\ segno' = (segno + 1) % 64 /\ TLCSet(10 + ((segno + 1) % 64), 0)

\* the source held the blob before the handler was attached: no hook ran, nothing is queued for it
TPre    == IsEv("pre") /\ Live /\ Ev.b \in Blobs /\ ~up /\ src' = src \cup {Ev.b}
           /\ UNCHANGED <<dst, queue, needCopy, ust, cst, acked, up, loaded, faulty, crashes>> /\ Mark
TStart  == IsEv("start") /\ Live /\ Start /\ Mark
TFind   == IsEv("find") /\ Live /\ Reload /\ Mark
TUp     == IsEv("up") /\ Live /\ Ev.b \in Blobs /\ SourceAccept(Ev.b) /\ Mark
TSet    == IsEv("set") /\ Live /\ Ev.b \in Blobs /\ EnqueueRow(Ev.b) /\ Mark
TFetch  == IsEv("fetch") /\ Live /\ Ev.b \in Blobs /\ CopyFetch(Ev.b, Ev.res) /\ Mark
TRecv   == IsEv("recv") /\ Live /\ Ev.b \in Blobs /\ DestReceive(Ev.b, Ev.res) /\ Mark
TDel    == IsEv("del") /\ Live /\ Ev.b \in Blobs /\ QueueDelete(Ev.b) /\ Mark
TCrash  == IsEv("crash") /\ Live /\ Crash /\ Mark
THeal   == IsEv("heal") /\ Live /\ Heal /\ Mark

\* the client's view of an upload: "ok" only for an upload whose hook completed (row written, or duplicate of a pending one)
TAck == /\ IsEv("ack") /\ Live /\ Ev.b \in Blobs
        /\ ust[Ev.b] = "idle"
        /\ Ev.res \in {"ok", "err"}
        /\ (Ev.res = "ok") => Ev.b \in acked
        /\ UNCHANGED vars /\ Mark

\* the bounded-horizon observation
TFinal == /\ IsEv("final") /\ Live /\ Ev.b \in Blobs
          /\ Ev.res \in {"delivered", "undelivered"}            \* never "corrupt"
          /\ (Ev.b \in acked) => Ev.res = "delivered"            \* liveness, at the horizon
          /\ (Ev.res = "delivered") <=> (Ev.b \in dst)
          /\ Ev.row <=> (Ev.b \in queue)
          /\ UNCHANGED vars /\ Mark

\* silent steps
TSilent == /\ ~dead /\ l <= Len(Trace)
           /\ \E b \in Blobs : \/ MemDelete(b)
                               \/ (Ev.b = b \/ (Ev.ev = "crash" /\ b \in needCopy)) /\ EnqueueMem(b)
           /\ UNCHANGED <<l, dead, segno>>

TGiveUp == ~dead /\ l <= Len(Trace) /\ Ev.ev # "reset" /\ l' = l + 1 /\ dead' = TRUE /\ Fresh /\ UNCHANGED segno
TSkip == dead /\ l <= Len(Trace) /\ Ev.ev # "reset" /\ l' = l + 1 /\ UNCHANGED <<vars, dead, segno>>

TNext == TReset \/ TPre \/ TStart \/ TFind \/ TUp \/ TSet \/ TFetch \/ TRecv \/ TDel \/ TCrash \/ THeal \/ TAck \/ TFinal
         \/ TSilent \/ TGiveUp \/ TSkip
TSpec == TInit /\ [][TNext]_tvars
Consumed == TLCGet("stats").diameter >= Len(Trace)
=============================================================================
