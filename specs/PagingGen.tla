----------------------------- MODULE PagingGen -----------------------------
(* World and query generator for C09.  A world is n permanodes; permanode i carries one set-attribute
   claim (title) dated by its time slot, so the slot assignment [1..n -> 1..3] is the tie pattern;
   the time class maps slots to real dates:
     normal     100 s apart                      allequal   every permanode at the same instant
     pre1970    all before the unix epoch        span1970   -100 s, -1 ns, +100 s around the unix epoch
     subsec     1 ns, 2 ns, 999999999 ns in the same second      presub   the same, before the epoch
     zoned      the instants of "normal", always with dateCreated values written with different UTC offsets
   Option `zones` (always on in class zoned, on in about 40 % of the other worlds): the dateCreated value of
   permanode i spells its instant with offset Z, +02:00 or +05:30 (i mod 3), so the members of a tie group
   carry the SAME instant in different time zones (time.Time values with different Location pointers).
   The model's times stay instants: equal instants tie, the blobref breaks the tie.  Claim dates cannot
   carry a zone (index rows are always written in UTC), only the time-valued attributes can.
   Options vary with the world: some permanodes carry the tag the constraint asks for (odd ones), one
   may be deleted, the first may carry a later claim that is deleted (must not move its modtime), and in
   created mode "dc" every permanode has a dateCreated attribute whose order is the REVERSE of the
   modtime order (so the two continuable sorts disagree).
   Mode "bfs": every (n <= MaxN, slot assignment, class) with options derived from the assignment.
   Mode "sim" (-simulate): n in SimMin..SimMax, everything drawn with RandomElement (one successor per
   step, see ClaimsGen).  Each printed record carries the world items (creation = delivery order) and the
   query grid: sorts x limits 1..n+1 (paging) and x every permanode as pivot (around). *)
EXTENDS Integers, Sequences, FiniteSets, TLC, Json

CONSTANTS Mode, MaxN, SimMin, SimMax
VARIABLES n, cls, slot, opts, ended
gvars == <<n, cls, slot, opts, ended>>

U0 == -1322443957                      \* the unix epoch on the world's time axis (seconds relative to world.Epoch)
Classes == <<"normal", "allequal", "pre1970", "span1970", "subsec", "presub", "zoned">>
Nanos(s) == CASE s = 1 -> 1 [] s = 2 -> 2 [] OTHER -> 999999999
TimeOf(c, s) == CASE c \in {"normal", "zoned"} -> <<100 * s, 0>>
                  [] c = "allequal" -> <<100, 0>>
                  [] c = "pre1970"  -> <<U0 - 1000 + 100 * s, 0>>
                  [] c = "span1970" -> (CASE s = 1 -> <<U0 - 100, 0>> [] s = 2 -> <<U0 - 1, 999999999>> [] OTHER -> <<U0 + 100, 0>>)
                  [] c = "subsec"   -> <<100, Nanos(s)>>
                  [] c = "presub"   -> <<U0 - 50, Nanos(s)>>
Later(c) == CASE c \in {"normal", "allequal", "subsec", "zoned"} -> <<500, 0>>                              \* after every slot of the class
              [] c = "span1970" -> <<U0 + 500, 0>> [] OTHER -> <<U0 - 10, 0>>

NoOpts == [del |-> 0, created |-> "same", cons |-> "any", xdel |-> FALSE, zones |-> FALSE, tagattr |-> "tag"]
RECURSIVE Sum(_)
Sum(s) == IF s = <<>> THEN 0 ELSE Head(s) + Sum(Tail(s))
Derived == LET k == Sum(slot) IN
           [del |-> LET d == (k + n) % (n + 2) IN IF d > n THEN 0 ELSE d,
            created |-> IF k % 2 = 0 /\ cls # "zoned" THEN "same" ELSE "dc",
            cons |-> <<"any", "tag", "and">>[(k % 3) + 1],
            xdel |-> (k % 4) < 2,
            zones |-> cls = "zoned" \/ (k % 5) < 2,
            tagattr |-> IF (k + n) % 2 = 0 THEN "tag" ELSE "camliNodeType"]
Drawn == [del |-> RandomElement(0..n), created |-> IF cls = "zoned" THEN "dc" ELSE RandomElement({"same", "dc"}),
          cons |-> RandomElement({"any", "tag", "and"}), xdel |-> RandomElement(BOOLEAN),
          zones |-> cls = "zoned" \/ RandomElement(1..5) <= 2, tagattr |-> RandomElement({"tag", "camliNodeType"})]

Init == n = 0 /\ cls = "" /\ slot = <<>> /\ opts = NoOpts /\ ended = FALSE
Start == /\ n = 0
         /\ IF Mode = "bfs" THEN n' \in 1..MaxN /\ cls' \in {Classes[i] : i \in 1..Len(Classes)}
            ELSE n' = RandomElement(SimMin..SimMax) /\ cls' = Classes[RandomElement(1..Len(Classes))]
         /\ UNCHANGED <<slot, opts, ended>>
AddSlot == /\ n > 0 /\ Len(slot) < n
           /\ IF Mode = "bfs" THEN \E s \in 1..3 : slot' = Append(slot, s)
              ELSE slot' = Append(slot, RandomElement(1..3))
           /\ UNCHANGED <<n, cls, opts, ended>>
End == /\ n > 0 /\ Len(slot) = n /\ ~ended
       /\ ended' = TRUE
       /\ opts' = IF Mode = "bfs" THEN Derived ELSE Drawn
       /\ UNCHANGED <<n, cls, slot>>
Next == Start \/ AddSlot \/ End
Spec == Init /\ [][Next]_gvars

(* ---- the world: ids 1, 2 keys; 3..n+2 permanodes; then the claims *)
Rec(i, k, c, pn, a, v, t, tgt) == [id |-> i, kind |-> k, claim |-> c, pn |-> pn, attr |-> a, val |-> v,
                                   date |-> t[1], nano |-> t[2], signer |-> 1, target |-> tgt]
PnId(i) == i + 2
TitleVal == 1
TagVal == 2
ZoneOffsets == <<0, 120, 330>>                        \* minutes east of UTC: "Z", "+02:00", "+05:30"
CreatedVal(s, z) == 10 + 3 * z + s                     \* value id of instant slot s written in zone variant z
RECURSIVE ClaimsFrom(_, _)
ClaimsFrom(i, next) ==          \* claims of permanodes i..n, ids from next
   IF i > n THEN <<>>
   ELSE LET t == TimeOf(cls, slot[i])
            title == <<Rec(next, "claim", "set", PnId(i), "title", TitleVal, t, 0)>>
            tag == IF i % 2 = 1 THEN <<Rec(next + 1, "claim", "add", PnId(i), opts.tagattr, TagVal, t, 0)>> ELSE <<>>
            k2 == next + 1 + Len(tag)
            dc == IF opts.created = "dc" THEN <<Rec(k2, "claim", "set", PnId(i), "dateCreated", CreatedVal(4 - slot[i], IF opts.zones THEN i % 3 ELSE 0), t, 0)>> ELSE <<>>
            k3 == k2 + Len(dc)
            x == IF opts.xdel /\ i = 1 THEN <<Rec(k3, "claim", "set", PnId(i), "title", TitleVal, Later(cls), 0),
                                              Rec(k3 + 1, "delete", "", 0, "", 0, Later(cls), k3)>> ELSE <<>>
            k4 == k3 + Len(x)
            d == IF opts.del = i THEN <<Rec(k4, "delete", "", 0, "", 0, Later(cls), PnId(i))>> ELSE <<>>
        IN title \o tag \o dc \o x \o d \o ClaimsFrom(i + 1, k4 + Len(d))
Keys == <<Rec(1, "key", "", 0, "", 0, <<0, 0>>, 0), [Rec(2, "key", "", 0, "", 0, <<0, 0>>, 0) EXCEPT !.signer = 2]>>
Permanodes == [i \in 1..n |-> Rec(PnId(i), "permanode", "", 0, "", 0, <<0, 0>>, 0)]
Items == Keys \o Permanodes \o ClaimsFrom(1, n + 3)
VTimes == [v \in 1..19 |-> IF v > 10 THEN TimeOf(cls, ((v - 11) % 3) + 1) ELSE <<0, 0>>]     \* instants
VZones == [v \in 1..19 |-> IF v > 10 THEN ZoneOffsets[((v - 11) \div 3) + 1] ELSE 0]          \* how the string spells them

Emit == ended => PrintT(<<"WORLD", ToJson([items |-> Items, n |-> n, cls |-> cls, slots |-> slot, opts |-> opts, vtimes |-> VTimes, vzones |-> VZones,
                                           cons |-> opts.cons, tagval |-> TagVal, tagattr |-> opts.tagattr, sorts |-> <<"created", "mod">>,
                                           limits |-> [i \in 1..(n + 1) |-> i], pivots |-> [i \in 1..n |-> PnId(i)]])>>)
=============================================================================
