----------------------------- MODULE DiskPacked -----------------------------
(* pkg/blobserver/diskpacked: one pack file as a sequence of records, an index ref -> position, a writer at the end.
   Record = [b, hdr \in {"ok","torn"}, body \in {"none","ok","torn","zero"}, x \in BOOLEAN (header x-ed out by delete)].
   Process death at any step; Reopen; then more operations; Reindex = walk of the pack. Roll-over is a separate module. *)
EXTENDS Naturals, Sequences, FiniteSets
CONSTANTS Blobs, MaxRecs, Deviations
\* Deviations (the code as it is): "NoTailRepairOnOpen", "ZeroBeforeIndexDelete", "WalkAcceptsShortBody"
VARIABLES pack, index, op, live, up
vars == <<pack, index, op, live, up>>
NoOp == [kind |-> "none", b |-> 0, pc |-> "-"]
Init == pack = <<>> /\ index = [b \in Blobs |-> 0] /\ op = NoOp /\ live = {} /\ up = TRUE
Rec(b) == [b |-> b, hdr |-> "ok", body |-> "none", x |-> FALSE]
Last == Len(pack)
SetLast(f, v) == [pack EXCEPT ![Last] = [@ EXCEPT ![f] = v]]
Idle == up /\ op.kind = "none"
\* ---- receive ----
RecvStart(b) == /\ Idle /\ Len(pack) < MaxRecs
                /\ IF index[b] # 0 /\ ~(index[b] = Last /\ pack[Last].body \in {"torn","none"})   \* dup: extent inside the file
                   THEN live' = live \cup {b} /\ UNCHANGED <<pack, index, op, up>>
                   ELSE op' = [kind |-> "recv", b |-> b, pc |-> "hdr"] /\ UNCHANGED <<pack, index, live, up>>
AppendHdr  == up /\ op.kind = "recv" /\ op.pc = "hdr"  /\ pack' = Append(pack, Rec(op.b)) /\ op' = [op EXCEPT !.pc = "body"] /\ UNCHANGED <<index, live, up>>
AppendBody == up /\ op.kind = "recv" /\ op.pc = "body" /\ pack' = SetLast("body", "ok") /\ op' = [op EXCEPT !.pc = "fsync"] /\ UNCHANGED <<index, live, up>>
Fsync      == up /\ op.kind = "recv" /\ op.pc = "fsync" /\ op' = [op EXCEPT !.pc = "index"] /\ UNCHANGED <<pack, index, live, up>>
IndexSet   == up /\ op.kind = "recv" /\ op.pc = "index" /\ index' = [index EXCEPT ![op.b] = Last] /\ op' = [op EXCEPT !.pc = "ack"] /\ UNCHANGED <<pack, live, up>>
AckRecv    == up /\ op.kind = "recv" /\ op.pc = "ack" /\ live' = live \cup {op.b} /\ op' = NoOp /\ UNCHANGED <<pack, index, up>>
\* ---- remove ----
ZeroFirst == "ZeroBeforeIndexDelete" \in Deviations
RmStart(b) == /\ Idle /\ live' = live \ {b}          \* from now on the blob may legitimately be absent
              /\ IF index[b] = 0 THEN UNCHANGED <<pack, index, op, up>>
                 ELSE op' = [kind |-> "rm", b |-> b, pc |-> IF ZeroFirst THEN "xhdr" ELSE "idx"] /\ UNCHANGED <<pack, index, up>>
At == index[op.b]
DelHdr   == up /\ op.kind = "rm" /\ op.pc = "xhdr" /\ pack' = [pack EXCEPT ![IF ZeroFirst THEN At ELSE op.pos] = [@ EXCEPT !.x = TRUE]]
            /\ op' = [op EXCEPT !.pc = "zero"] /\ UNCHANGED <<index, live, up>>
DelBody  == up /\ op.kind = "rm" /\ op.pc = "zero" /\ pack' = [pack EXCEPT ![IF ZeroFirst THEN At ELSE op.pos] = [@ EXCEPT !.body = "zero"]]
            /\ op' = (IF ZeroFirst THEN [op EXCEPT !.pc = "idx"] ELSE NoOp) /\ UNCHANGED <<index, live, up>>
IndexDel == up /\ op.kind = "rm" /\ op.pc = "idx" /\ index' = [index EXCEPT ![op.b] = 0]
            /\ op' = (IF ZeroFirst THEN NoOp ELSE [kind |-> "rm", b |-> op.b, pc |-> "xhdr", pos |-> At]) /\ UNCHANGED <<pack, live, up>>
\* ---- crash / reopen ----
TornTails == IF op.kind = "recv" /\ op.pc \in {"body", "fsync"} /\ Last > 0      \* unsynced append: any prefix survives
             THEN {SubSeq(pack, 1, Last - 1), SetLast("hdr", "torn"), SetLast("body", "torn")} \cup {pack}
             ELSE {pack}
Crash  == /\ up /\ up' = FALSE /\ pack' \in TornTails /\ op' = NoOp
          /\ live' = live /\ UNCHANGED index
Reopen == /\ ~up /\ up' = TRUE
          /\ pack' = IF "NoTailRepairOnOpen" \in Deviations \/ Last = 0 THEN pack
                     ELSE IF pack[Last].hdr = "torn" \/ pack[Last].body \in {"torn","none"} THEN SubSeq(pack, 1, Last - 1) ELSE pack
          /\ UNCHANGED <<index, op, live>>
Next == \/ \E b \in Blobs : RecvStart(b) \/ RmStart(b)
        \/ AppendHdr \/ AppendBody \/ Fsync \/ IndexSet \/ AckRecv \/ DelHdr \/ DelBody \/ IndexDel \/ Crash \/ Reopen
Spec == Init /\ [][Next]_vars
\* ---- observations ----
Intact(i) == pack[i].hdr = "ok" /\ pack[i].body = "ok"
FetchIntact(b) == index[b] # 0 /\ pack[index[b]].body = "ok"
Durability == up => \A b \in live : FetchIntact(b)
NoWrongBytes == up => \A b \in Blobs : index[b] # 0 => pack[index[b]].body = "ok"     \* indexed => right bytes (fetch/stat/enumerate agree)
Bad(i) == pack[i].hdr = "torn" \/ pack[i].body \in {"torn", "none"}
WalkOK == \A i \in 1..Last : Bad(i) => /\ i = Last
                                       /\ (pack[i].hdr = "torn" \/ "WalkAcceptsShortBody" \notin Deviations)
Walked == {pack[i].b : i \in {j \in 1..Last : ~pack[j].x /\ ~Bad(j)}}
ReindexRebuilds == (up /\ op.kind = "none") => (WalkOK /\ live \subseteq Walked)
StreamNeverTorn == (up /\ op.kind = "none") => \A i \in 1..Last : Bad(i) => i = Last   \* a torn record in the middle is mis-read by Stream
=============================================================================
