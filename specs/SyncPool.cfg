SPECIFICATION PSpec
CONSTANTS
  Blobs = {1, 2}
  MaxCrashes = 1
  Deviations = {}
  Pool = 1
  WorkCap = 1
  ResCap = 1
INVARIANTS TypeOK PoolTypeOK DurablePending MemoryCoversQueue QueuedInSource
PROPERTIES Delivered RefinesSync RowDeletedOnlyAfterDestAck
CHECK_DEADLOCK FALSE
