SPECIFICATION TSpec
CONSTANTS
  Deviations = {}
  MaxClaims = 0
  MaxDeletes = 0
  SAttrs = {}
  SVals = {}
  SDates = {}
  ClaimSigners = {}
  DelDates = {}
  DelSigners = {}
  MixDeletes = FALSE
POSTCONDITION TraceAccepted
CHECK_DEADLOCK FALSE
