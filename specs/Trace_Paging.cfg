SPECIFICATION TSpec
CONSTANTS
  Pn = {}
  TimeVals <- TraceTimeVals
  UnixZero <- TraceUnixZero
  MaxLimit = 0
  Deviations = {}
POSTCONDITION TraceAccepted
CHECK_DEADLOCK FALSE
