SPECIFICATION Spec
CONSTANTS
  Clients = {1, 2}
  Serialize = TRUE
INVARIANT NoStaleCopy
CHECK_DEADLOCK FALSE
