-------------------------- MODULE Trace_BlobStore --------------------------
(* Trace validation of recorded executions of a REAL perkeep storage configuration against the
   BlobStore reference map.  The trace is a concatenation of independent histories, each started
   by a "reset" line carrying the configuration's capabilities and the true blob sizes.

   One line per completed public call:  {"ev":"op","op":..,args..,"res":..,"size":..,"list":..}.
   Every BlobStore action is deterministic up to the SubFetch "maybe" capability, so the trace
   spec runs in collect mode: a line whose logged reply is not one the module allows is reported
   (PrintT <<"VIOL", line, expected>>), the rest of that history is skipped (the model and the
   implementation have diverged), and validation resumes at the next reset.  Acceptance still
   requires every line to be consumed. *)
EXTENDS BlobStore, TLC, Json, IOUtils

VARIABLES l, dead

Trace == ndJsonDeserialize(IOEnv.TRACE_FILE)
Ev == Trace[l]

tvars == <<vars, l, dead>>

TInit == /\ l = 1 /\ dead = TRUE
         /\ present = {}
         /\ size = [b \in Blobs |-> 0]
         /\ caps = [canRemove |-> TRUE, readOnly |-> FALSE, subfetch |-> "yes"]
         /\ reply = [op |-> "init", res |-> "ok", size |-> 0, list |-> <<>>]

SeqToSet(s) == {s[i] : i \in 1..Len(s)}

TReset == /\ l <= Len(Trace) /\ Ev.ev = "reset"
          /\ present' = SeqToSet(Ev.pre)
          /\ size' = [b \in Blobs |-> IF b \div 2 <= Len(Ev.sizes) THEN Ev.sizes[b \div 2] ELSE 0]
          /\ caps' = [canRemove |-> Ev.canRemove, readOnly |-> Ev.readOnly, subfetch |-> Ev.subfetch]
          /\ reply' = [op |-> "init", res |-> "ok", size |-> 0, list |-> <<>>]
          /\ dead' = FALSE /\ l' = l + 1

(* The set of replies the module allows for the logged call, in the current state. *)
Allowed(e) ==
  CASE e.op = "receive"  -> {ReceiveReply(e.b)}
    [] e.op = "fetch"    -> {FetchReply(e.b)}
    [] e.op = "subfetch" -> SubFetchReplies(e.b, e.off, e.len)
    [] e.op = "stat"     -> {StatReply(SeqToSet(e.bs))}
    [] e.op = "enum"     -> {EnumReply(e.after, e.limit)}
    [] e.op = "remove"   -> {RemoveReply(SeqToSet(e.bs))}
    [] e.op = "stream"   -> {StreamReply}

Same(r, e) == r.res = e.res /\ r.size = e.size /\ r.list = e.list

(* The module's own action for the logged call. *)
Act(e) ==
  CASE e.op = "receive"  -> Receive(e.b)
    [] e.op = "fetch"    -> Fetch(e.b)
    [] e.op = "subfetch" -> SubFetch(e.b, e.off, e.len)
    [] e.op = "stat"     -> Stat(SeqToSet(e.bs))
    [] e.op = "enum"     -> Enumerate(e.after, e.limit)
    [] e.op = "remove"   -> RemoveBlobs(SeqToSet(e.bs))
    [] e.op = "stream"   -> Stream

TOp == /\ l <= Len(Trace) /\ Ev.ev = "op" /\ ~dead
       /\ l' = l + 1
       /\ IF \E r \in Allowed(Ev) : Same(r, Ev)
          THEN /\ Act(Ev) /\ Same(reply', Ev) /\ dead' = FALSE
          ELSE /\ PrintT(<<"VIOL", l, Ev.op, Allowed(Ev)>>)
               /\ dead' = TRUE /\ UNCHANGED vars

TSkip == /\ l <= Len(Trace) /\ Ev.ev = "op" /\ dead
         /\ l' = l + 1 /\ UNCHANGED <<vars, dead>>

TNext == TReset \/ TOp \/ TSkip
TSpec == TInit /\ [][TNext]_tvars

(* Invariants of the reference map are evaluated at every state of the recorded execution. *)
TTypeOK == present \subseteq Blobs
TraceAccepted == TLCGet("stats").diameter - 1 = Len(Trace)
=============================================================================
