SPECIFICATION PSpec
CONSTANTS
  Blobs = {1, 2, 3}
  MaxCrashes = 0
  Deviations = {"BlockingFeedSmallChannel"}
  Pool = 1
  WorkCap = 3
  ResCap = 0
INVARIANTS TypeOK PoolTypeOK
PROPERTIES Delivered
CHECK_DEADLOCK FALSE
