SPECIFICATION Spec
CONSTANTS
  N = 3
  Blobs = {2, 4}
  Deviations = {}
  FullConfig = FALSE
INVARIANTS QuorumAtAck ErrOnlyBelowQuorum Decided ReadsSurvive ReadsSurviveLoss ListsSurviveLoss ExactlyOnce NoResurrection AckedReadable
VIEW View
CHECK_DEADLOCK FALSE
