----------------------------- MODULE ClaimsGen -----------------------------
(* World and query generator for C07.  Reuses the world-building actions of Claims (ids are in
   creation order and that order is the ARRIVAL order in which the real index receives the blobs;
   claim dates are chosen freely, so arrival order differs from date order in most worlds).

   Mode "bfs": every world with exactly Depth items after the permanode (exhaustive, small constants).
   Mode "sim": used with -simulate.  A behaviour alternates SimPick (draw what kind of blob comes next:
   attribute claim, delete of a claim, delete of a live delete claim = undelete, delete of the permanode,
   or stop - so that delete chains are frequent although there are far fewer of them than claim shapes)
   and SimDo (draw the blob); it stops after MinItems..Depth items and the world is printed once.

   Each printed record carries the world and the query grid (attributes x times x signer filters) that
   the replayer must ask on every query path; the expected answers are NOT printed - Trace_Claims
   recomputes them from the world when it validates the recorded replies. *)
EXTENDS Claims, Json, SequencesExt

CONSTANTS Mode, Depth, MinItems, QTimes, QSigners
VARIABLES mode, ended
gvars == <<world, mode, ended>>

Items == Cardinality(world) - 3
LiveDeletes == {d.id : d \in {d \in Ds : ~Deleted(world, d.id)}}
ClaimIds == {c.id : c \in Cs}

GInit == world = World0 /\ mode = "pick" /\ ended = FALSE

(* -simulate evaluates invariants on every successor, so "sim" steps have exactly one successor: the
   random choices are made with RandomElement (seeded by -seed) instead of by branching.  A LET
   definition is re-evaluated at every use, so the drawn kind is first stored in `mode` (SimPick)
   and only then acted upon (SimDo). *)
Kinds == <<"claim", "claim", "claim", "delclaim", "undelete", "delpn", "end">>
SimPick == /\ Mode = "sim" /\ ~ended /\ mode = "pick"
           /\ mode' = IF Items >= Depth THEN "end" ELSE Kinds[RandomElement(1..Len(Kinds))]
           /\ UNCHANGED <<world, ended>>
SimDo == /\ Mode = "sim" /\ ~ended /\ mode # "pick"
         /\ mode' = "pick"
         /\ LET targets == CASE mode = "delclaim" -> ClaimIds [] mode = "undelete" -> LiveDeletes
                              [] mode = "delpn" -> {PN} [] OTHER -> {}
            IN CASE mode = "claim" /\ Cardinality(Cs) < MaxClaims ->
                      AddClaim(RandomElement(GoodShapes)) /\ UNCHANGED ended
                 [] mode \in {"delclaim", "undelete", "delpn"} /\ targets # {} /\ Cardinality(Ds) < MaxDeletes ->
                      AddDelete(RandomElement(IF targets = {} THEN {0} ELSE targets), RandomElement(DelDates), RandomElement(DelSigners))
                      /\ UNCHANGED ended
                 [] mode = "end" /\ Items >= MinItems -> ended' = TRUE /\ UNCHANGED world
                 [] OTHER -> UNCHANGED <<world, ended>>

BfsStep == /\ Mode = "bfs" /\ ~ended /\ UNCHANGED mode
           /\ IF Items = Depth THEN ended' = TRUE /\ UNCHANGED world
              ELSE /\ UNCHANGED ended
                   /\ \/ \E sh \in GoodShapes : AddClaim(sh)
                      \/ \E t \in Deletable, d \in DelDates, s \in DelSigners : AddDelete(t, d, s)

GNext == SimPick \/ SimDo \/ BfsStep
GSpec == GInit /\ [][GNext]_gvars

ItemSeq == [i \in 1..Cardinality(world) |-> CHOOSE c \in world : c.id = i]
SortedSeq(S) == SetToSortSeq(S, <)
StrSeq(S) == SetToSeq(S)
Emit == ended => PrintT(<<"WORLD", ToJson([items |-> ItemSeq, pn |-> PN, attrs |-> StrSeq(SAttrs),
                                           times |-> SortedSeq(QTimes), signers |-> SortedSeq(QSigners),
                                           vals |-> SortedSeq(SVals)])>>)
=============================================================================
