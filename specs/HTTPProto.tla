---------------------------- MODULE HTTPProto ----------------------------
(* The documented HTTP blob protocol (doc/protocol/blob-{stat,upload,get,enumerate}.md, served by
   pkg/blobserver/handlers and gethandler) as a wire-level view of the BlobStore reference map.

   Every wire action is BlobStore's own action / *Reply operator plus the wire details a client sees:
     status   HTTP status code
     cont     "continueAfter" of an enumerate page as a rank (0 = key absent)
     fast     the reply came at once (long-poll: a request with maxwaitsec > 0 may block only
              while there is nothing to return)
   Documented rules modelled here:
     stat       blob1..blobN, camliversion required; every server supports N <= MaxStat (1000); beyond
                that it may answer 400.  The reply lists exactly the requested blobs that are present.
     upload     multipart POST (several parts, reply lists what was received, in order) or PUT (204).
     get/head   200 + explicit Content-Length = blob size (+ body) | 404.
     range      (HTTP, not perkeep-specific) 206 slice | 416 | the server may ignore Range (200 full).
     enumerate  after / limit / maxwaitsec.  Page = present blobs > after, ascending, at most
                EffLimit(limit) (DefaultLimit when absent, capped at MaxEnum); continueAfter is present
                iff the page is full and then names its last blob; maxwaitsec > 0 with after is 400;
                maxwaitsec > 0 returns immediately if any blob is available.
     remove     403 unless the handler is configured deletable (the high-level configuration is not).
   SideRemove is the environment (direct storage access behind the server), used by the harness to
   explore present sets that shrink. *)
EXTENDS BlobStore, TLC

CONSTANTS MaxStat, DefaultLimit, MaxEnum,
          MaxWireLimit,     \* model bound: limit parameter ranges over 0..MaxWireLimit, 0 = absent
          Deviations        \* {} = the documented protocol.  Named deviations of the implementation:
                            \*   "LongPollGuardInverted"  handlers/enumerate.go loops while time.Now().After(deadline):
                            \*                            maxwaitsec > 0 answers an empty page at once (H15)

VARIABLE wire
hvars == <<vars, wire>>

W(status, cont, fast) == [status |-> status, cont |-> cont, fast |-> fast]
WR(r, w) == [r |-> r, w |-> w]
SeqSet(s) == {s[i] : i \in 1..Len(s)}

Waits == {"none", "zero", "pos"}     \* maxwaitsec absent, =0, >0

EffLimit(l) == IF l = 0 THEN DefaultLimit ELSE Min2(l, MaxEnum)

-----------------------------------------------------------------------------
(* Wire replies: sets of <<map reply, wire part>> the protocol allows in the current state. *)

BadRequest(op) == WR(R(op, "badrequest", 0, <<>>), W(400, 0, TRUE))

StatWire(S, n, ver) ==
  IF ~ver THEN {BadRequest("stat")}
  ELSE IF n > MaxStat THEN {BadRequest("stat"), WR(StatReply(S), W(200, 0, TRUE))}
  ELSE {WR(StatReply(S), W(200, 0, TRUE))}

ContOf(list, eff) == IF Len(list) = eff THEN list[eff][1] ELSE 0

EnumWire(after, l, wait) ==
  IF wait = "pos" /\ after # 0 THEN {BadRequest("enum")}
  ELSE IF wait = "pos" /\ "LongPollGuardInverted" \in Deviations THEN {WR(R("enum", "ok", 0, <<>>), W(200, 0, TRUE))}
  ELSE LET eff == EffLimit(l)
           rp  == EnumReply(after, eff)
       IN {WR(rp, W(200, ContOf(rp.list, eff), f)) :
              f \in (IF Len(rp.list) > 0 \/ wait # "pos" THEN {TRUE} ELSE BOOLEAN)}

GetWire(b) == LET rp == FetchReply(b) IN {WR(rp, W(IF rp.res = "ok" THEN 200 ELSE 404, 0, TRUE))}
HeadWire(b) == LET rp == FetchReply(b) IN
               {WR(R("head", rp.res, rp.size, <<>>), W(IF rp.res = "ok" THEN 200 ELSE 404, 0, TRUE))}

(* Range: bytes=off-(off+len-1), len >= 1. *)
RangeWire(b, off, len) ==
  LET rp == FetchReply(b) IN
  IF rp.res # "ok" THEN {WR(R("range", "notexist", 0, <<>>), W(404, 0, TRUE))}
  ELSE {WR(R("range", "ok", size[b], <<>>), W(200, 0, TRUE))} \cup
       (IF off >= size[b] THEN {WR(R("range", "outofrange", 0, <<>>), W(416, 0, TRUE))}
        ELSE {WR(R("range", "ok", Min2(len, size[b] - off), <<>>), W(206, 0, TRUE))})

UploadReply(bs) == R("upload", "ok", 0, [i \in 1..Len(bs) |-> <<bs[i], ReceiveReply(bs[i]).size>>])
UploadWire(kind, bs) ==
  IF kind = "put" THEN {WR(ReceiveReply(bs[1]), W(204, 0, TRUE))}
  ELSE {WR(UploadReply(bs), W(200, 0, TRUE))}

RemoveWire(S) == {WR(RemoveReply(S), W(IF caps.canRemove THEN 200 ELSE 403, 0, TRUE))}

-----------------------------------------------------------------------------
(* Wire actions.  Each 2xx step is the BlobStore action itself (a multi-part upload is the
   composition of its parts' Receives). *)

Answer(x) == reply' = x.r /\ wire' = x.w

StatBatch(S, n, ver) ==
  /\ n >= Cardinality(S)
  /\ \E x \in StatWire(S, n, ver) : Answer(x)
  /\ UNCHANGED <<present, size, caps>>

Upload(kind, bs) ==
  /\ Len(bs) >= 1 /\ (kind = "put" => Len(bs) = 1)
  /\ ~caps.readOnly
  /\ present' = present \cup SeqSet(bs)
  /\ \E x \in UploadWire(kind, bs) : Answer(x)
  /\ UNCHANGED <<size, caps>>

GetReq(b) == (\E x \in GetWire(b) : Answer(x)) /\ UNCHANGED <<present, size, caps>>
HeadReq(b) == (\E x \in HeadWire(b) : Answer(x)) /\ UNCHANGED <<present, size, caps>>
RangeGet(b, off, len) == len >= 1 /\ (\E x \in RangeWire(b, off, len) : Answer(x)) /\ UNCHANGED <<present, size, caps>>

EnumeratePage(after, l, wait) ==
  /\ \E x \in EnumWire(after, l, wait) : Answer(x)
  /\ UNCHANGED <<present, size, caps>>

RemoveRequest(S) ==
  /\ present' = (IF caps.canRemove THEN present \ S ELSE present)
  /\ \E x \in RemoveWire(S) : Answer(x)
  /\ UNCHANGED <<size, caps>>

SideRemove(S) ==
  /\ present' = present \ S
  /\ reply' = R("xremove", "ok", 0, <<>>) /\ wire' = W(0, 0, TRUE)
  /\ UNCHANGED <<size, caps>>

HInit == /\ present = {}
         /\ size \in [Blobs -> {0, 1, 5}]
         /\ caps \in {c \in CapsSet : ~c.readOnly /\ c.subfetch = "yes"}
         /\ reply = [op |-> "init", res |-> "ok", size |-> 0, list |-> <<>>]
         /\ wire = W(0, 0, TRUE)

UploadSeqs == {<<b>> : b \in Blobs} \cup {<<a, b>> : a, b \in Blobs}

HNext == \/ \E S \in SUBSET Blobs, n \in 0..(MaxStat + 1), ver \in BOOLEAN : StatBatch(S, n, ver)
         \/ \E kind \in {"put", "multipart"}, bs \in UploadSeqs : Upload(kind, bs)
         \/ \E b \in Blobs : GetReq(b) \/ HeadReq(b)
         \/ \E b \in Blobs, off \in 0..6, len \in 1..6 : RangeGet(b, off, len)
         \/ \E a \in 0..MaxCursor, l \in 0..MaxWireLimit, w \in Waits : EnumeratePage(a, l, w)
         \/ \E S \in SUBSET Blobs : S # {} /\ (RemoveRequest(S) \/ SideRemove(S))

HSpec == HInit /\ [][HNext]_hvars

-----------------------------------------------------------------------------
(* What a protocol client can rely on. *)

(* Paging over the wire: following continueAfter (and stopping when it is absent) concatenates to the
   sorted present set, for every limit parameter incl. absent (0) and above the server's cap. *)
RECURSIVE WirePages(_, _, _, _)
WirePages(P, after, l, fuel) ==
  LET eff == EffLimit(l)
      pg  == EnumRefs(P, after, eff)
  IN IF Len(pg) = eff /\ fuel > 0 THEN pg \o WirePages(P, pg[eff], l, fuel - 1) ELSE pg
WirePagingTheorem == \A l \in 0..MaxWireLimit :
                       WirePages(present, 0, l, Cardinality(Blobs) + 1) = SortedSeq(present)

(* continueAfter is present iff the page is full, and then it is the last blob of the page; a page that
   is not full ends the enumeration (nothing present lies beyond it). *)
ContinueIffFull == \A a \in 0..MaxCursor, l \in 0..MaxWireLimit :
                     \A x \in EnumWire(a, l, "none") :
                        LET n == Len(x.r.list) IN
                        /\ (x.w.cont # 0) = (n = EffLimit(l))
                        /\ (x.w.cont # 0 => x.w.cont = x.r.list[n][1])
                        /\ (x.w.cont = 0 => SeqSet(EnumRefs(present, a, EffLimit(l))) = {b \in present : b > a})

(* Long poll: with maxwaitsec > 0 and something to return, the same page comes back at once. *)
LongPollImmediate == \A l \in 0..MaxWireLimit :
                       present # {} => \A x \in EnumWire(0, l, "pos") : x.w.fast /\ Len(x.r.list) > 0
                                          /\ \E y \in EnumWire(0, l, "none") : y.r = x.r /\ y.w.cont = x.w.cont

(* Stat batches: splitting any request set into batches of at most MaxStat refs and concatenating the
   replies gives StatOf of the whole set. *)
RECURSIVE Batches(_)
Batches(s) == IF Len(s) <= MaxStat THEN <<s>> ELSE <<SubSeq(s, 1, MaxStat)>> \o Batches(SubSeq(s, MaxStat + 1, Len(s)))
RECURSIVE Concat(_)
Concat(ss) == IF Len(ss) = 0 THEN <<>> ELSE ss[1] \o Concat(Tail(ss))
StatBatchTheorem == \A S \in SUBSET Blobs :
                      LET bt == Batches(SortedSeq(S)) IN
                      /\ \A i \in 1..Len(bt) : Cardinality(StatWire(SeqSet(bt[i]), Len(bt[i]), TRUE)) = 1
                      /\ Concat([i \in 1..Len(bt) |-> StatReply(SeqSet(bt[i])).list]) = StatOf(present, size, S)

(* GET / HEAD carry the true length; Range agrees with SubFetch where both are defined. *)
GetLength == \A b \in Blobs : \A x \in GetWire(b) \cup HeadWire(b) :
                (x.w.status = 200) = (b \in present) /\ (x.w.status = 200 => x.r.size = size[b])
RangeAgreesWithSubFetch ==
  \A b \in present, off \in 0..6, len \in 1..6 :
     \A x \in RangeWire(b, off, len) : x.w.status = 206 => x.r \in {[r EXCEPT !.op = "range"] : r \in SubFetchReplies(b, off, len)}

(* Refinement: a 2xx answer to a single-blob request is a step of the reference map with the same
   reply; other answers leave the map alone; a multi-part upload adds exactly its parts. *)
MapNext == Next
WireRefinesMap ==
  [][/\ (wire'.status \in {200, 204} /\ reply'.op \in {"receive", "fetch", "stat", "enum"} => MapNext)
     /\ (wire'.status \notin {0, 200, 204} => present' = present)
     /\ (reply'.op = "upload" => present' = present \cup {reply'.list[i][1] : i \in 1..Len(reply'.list)})
     /\ (\A b \in Blobs : b \in present /\ b \notin present' => reply'.op \in {"xremove", "remove"})
     /\ (\A b \in Blobs : b \notin present /\ b \in present' => reply'.op \in {"receive", "upload"})]_hvars

HView == <<present, size, caps>>
=============================================================================
