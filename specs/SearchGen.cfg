SPECIFICATION GSpec
CONSTANTS
  WorldFile = "c08_ws.json"
  Deviations = {}
  MenuSize = 8
  Part = 0
  Parts = 1
  GenMode = "exh"
  Depth = 3
  GSorts = {"unspecified", "unsorted", "blobref", "created", "createdAsc", "lastmod", "lastmodAsc"}
  GLimits = {0, 2}
INVARIANT Emit
CHECK_DEADLOCK FALSE
