--------------------------- MODULE MC_ReplicaInd ---------------------------
(* Apalache instance of ReplicaInd: the universe is FIXED (N = 4 stores, 2 blobs), the deviations and the
   configuration mode are universally quantified (chosen by the solver), the LENGTH of behaviours is unbounded.
     apalache-mc check --cinit=ConstInit --init=Init    --inv=IndInv --length=0 MC_ReplicaInd.tla      base
     apalache-mc check --cinit=ConstInit --init=IndInit --inv=IndInv --length=1 MC_ReplicaInd.tla      step
     apalache-mc check --cinit=ConstInit --init=IndInit --inv=Props  --length=0 MC_ReplicaInd.tla      IndInv => C12
   must fail (anti-vacuity):
     --cinit=ConstInit         --init=WeakInit --inv=WeakInv --length=1     IndInv without PendingBelow
     --cinit=ConstInitAckEarly --init=IndInit  --inv=IndInv  --length=1     acknowledgement one success early  *)
EXTENDS ReplicaInd

ConstInit == /\ N = 4 /\ Blobs = {2, 4}
             /\ Deviations \in SUBSET {"StragglersAfterAck", "RemoveBestEffort"}
             /\ FullConfig \in BOOLEAN

ConstInitAckEarly == /\ N = 4 /\ Blobs = {2, 4}
                     /\ Deviations = {"AckEarly"}
                     /\ FullConfig \in BOOLEAN
=============================================================================
