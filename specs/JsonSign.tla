------------------------------ MODULE JsonSign ------------------------------
(* pkg/jsonsign: a signed schema blob is four regions

        payload  ·  separator  ·  signature  ·  tail
        {"camliVersion":1,...  ,"camliSig":"  wsBcBAAB...=XXXX  "}\n

   The verifier splits at the LAST separator, checks that what follows is a JSON object with the single
   key camliSig, parses payload+"}" for camliSigner, fetches that key blob and checks the signature over the
   PAYLOAD BYTES.  Signatures are IDEAL here: a key's signature verifies for exactly the byte string that
   was signed with it, and for no other.

   Abstract documents are sequences of symbols; the separator ,"camliSig":" is abstracted to
   <<Comma, Quote, Key, Quote, Colon, Quote>>, which keeps its only repetition (the quote) and the fact that
   its first symbol occurs nowhere else in it.  A scenario says how the document under test came about:

     right     signed by the key its payload names; that key's blob can be fetched
     otherkey  the signer reference in the payload was swapped for another (fetchable) key after signing
     missing   as right, but the named key blob cannot be fetched
     resigned  the payload names key 1 but the signature was made by key 2 over the same bytes
     notakey   the named blob exists but is not a public key

   Part 1 (model-checked): for every abstract payload and every canonical single-symbol mutation
   (substitute / insert / delete) of the signed document, the verdict of the ideal verifier on the MUTATED
   SEQUENCE (re-split from scratch) is the one the simple region rule predicts:
      mutation in payload or separator            -> rejected
      mutation in signature or tail               -> the re-split payload is the original one (so acceptance,
                                                     if the armor still decodes to the same packet, exposes the
                                                     original payload)
      no mutation                                 -> accepted iff the scenario is `right`.
   This is what entitles the trace spec to judge a real mutation by its byte offset alone.
   Deviations (sensitivity): "FirstSep" splits at the first separator (a payload containing a look-alike is
   then not even verifiable: BaseVerdict fails); "TrustSigner" checks the signature against the key that made
   it instead of the key the payload names (resigned documents are then accepted: BaseVerdict fails);
   "NonCanonical" admits non-canonical mutations (inserting a quote before the separator's last quote is really
   an insertion into the signature: RejectRuleSound fails) - which is why driver and trace spec insist on
   canonical mutations.

   Part 2: RegionOf / ExpectedClass / Conforms are the operators the generator and the trace spec use on
   real documents (byte offsets, real lengths). *)
EXTENDS Integers, Sequences, FiniteSets

CONSTANTS Deviations, MaxFree

Comma == 1
Quote == 2
Key   == 3
Colon == 4
X     == 5      \* any other payload byte
S1    == 6      \* signature characters
S2    == 7
Brace == 8
Symbols == 1..8
Sep  == <<Comma, Quote, Key, Quote, Colon, Quote>>
SigSyms == <<S1, S2, S1>>
TailSyms == <<Quote, Brace>>
SepLen == Len(Sep)

Scenarios == {"right", "otherkey", "missing", "resigned", "notakey"}
(* signedIsDoc: the byte string that was signed is this document's payload; namedIsSigner: the key the
   payload names made the signature; avail: the named blob can be fetched and is a public key *)
ScenFacts(sc) ==
  CASE sc = "right"    -> [signedIsDoc |-> TRUE,  namedIsSigner |-> TRUE,  avail |-> TRUE]
    [] sc = "otherkey" -> [signedIsDoc |-> FALSE, namedIsSigner |-> FALSE, avail |-> TRUE]
    [] sc = "missing"  -> [signedIsDoc |-> TRUE,  namedIsSigner |-> TRUE,  avail |-> FALSE]
    [] sc = "resigned" -> [signedIsDoc |-> TRUE,  namedIsSigner |-> FALSE, avail |-> TRUE]
    [] sc = "notakey"  -> [signedIsDoc |-> TRUE,  namedIsSigner |-> FALSE, avail |-> FALSE]

--------------------------------------------------------------------------------
(* Part 2 first: the region rule, on offsets (0-based) of a real document of plen + seplen + siglen + tail bytes *)
RegionOf(off, plen, seplen, siglen) ==
  IF off < plen THEN "payload"
  ELSE IF off < plen + seplen THEN "sep"
  ELSE IF off < plen + seplen + siglen THEN "sig"
  ELSE "tail"                                           \* includes off = total: appending a byte

ExpectedClass(sc, region, kind) ==
  IF kind = "none" THEN (IF sc = "right" THEN "must-accept" ELSE "must-reject")
  ELSE IF sc # "right" THEN "must-reject"
  ELSE IF region \in {"payload", "sep"} THEN "must-reject"
  ELSE "may-accept"                                     \* ... but then the exposed payload is the original

(* verdict in {"accept","reject","panic"}; psame in {"t","f","na"}: exposed payload map and signer = original *)
Conforms(class, verdict, psame) ==
  CASE class = "must-reject" -> verdict = "reject"
    [] class = "may-accept"  -> verdict = "reject" \/ (verdict = "accept" /\ psame = "t")
    [] class = "must-accept" -> verdict = "accept" /\ psame = "t"

--------------------------------------------------------------------------------
(* Part 1: abstract documents, mutations, the ideal verifier *)
PayloadSyms == {Comma, Quote, Key, Colon, X}
Free(n) == UNION {[1..k -> PayloadSyms] : k \in 0..n}
(* No well-formedness of the payload is assumed: free sequences, sequences with a separator look-alike inside,
   and sequences ENDING in a proper prefix of the separator (a real payload can end in ," - a string value
   whose last character is a comma - the longer prefixes are there to show that the rule does not depend on it). *)
Payloads == {p \in Free(MaxFree) : Len(p) > 0}
              \cup {q1 \o Sep \o q2 : q1 \in Free(1), q2 \in Free(2)}
              \cup {q \o SubSeq(Sep, 1, k) : q \in Free(1), k \in 1..(SepLen - 1)}

Doc(p) == p \o Sep \o SigSyms \o TailSyms

NoMut == [kind |-> "none", pos |-> 0, sym |-> 0]
(* Canonical mutations: a substitution changes the symbol; an insertion BEFORE position pos does not repeat
   the symbol it precedes (that is the same document as inserting after it); a deletion is of the last
   symbol of a run.  pos is 1-based; insertion at Len+1 appends. *)
Mutations(d) ==
     {[kind |-> "sub", pos |-> i, sym |-> y] : i \in 1..Len(d), y \in Symbols}
  \cup {[kind |-> "ins", pos |-> i, sym |-> y] : i \in 1..(Len(d) + 1), y \in Symbols}
  \cup {[kind |-> "del", pos |-> i, sym |-> 0] : i \in 1..Len(d)}
Canonical(d, m) ==
  CASE m.kind = "sub" -> m.sym # d[m.pos]
    [] m.kind = "ins" -> m.pos = Len(d) + 1 \/ m.sym # d[m.pos]
    [] m.kind = "del" -> m.pos = Len(d) \/ d[m.pos] # d[m.pos + 1]
    [] OTHER -> TRUE
Apply(d, m) ==
  CASE m.kind = "sub" -> [d EXCEPT ![m.pos] = m.sym]
    [] m.kind = "ins" -> SubSeq(d, 1, m.pos - 1) \o <<m.sym>> \o SubSeq(d, m.pos, Len(d))
    [] m.kind = "del" -> SubSeq(d, 1, m.pos - 1) \o SubSeq(d, m.pos + 1, Len(d))
    [] OTHER -> d

SepAt(d, i) == i + SepLen - 1 <= Len(d) /\ SubSeq(d, i, i + SepLen - 1) = Sep
SepPositions(d) == {i \in 1..Len(d) : SepAt(d, i)}
MaxOf(S) == CHOOSE x \in S : \A y \in S : y <= x
MinOf(S) == CHOOSE x \in S : \A y \in S : x <= y
SplitAt(d) == IF "FirstSep" \in Deviations THEN MinOf(SepPositions(d)) ELSE MaxOf(SepPositions(d))   \* bytes.LastIndex
Found(d) == SepPositions(d) # {}
BP(d)   == SubSeq(d, 1, SplitAt(d) - 1)                      \* "bytes payload"
Rest(d) == SubSeq(d, SplitAt(d) + SepLen, Len(d))            \* signature and tail

(* The ideal verifier on document d, when the document that was produced is Doc(p) under scenario sc. *)
Verdict(d, p, sc) ==
  LET f == ScenFacts(sc)
      keyOK == IF "TrustSigner" \in Deviations THEN TRUE ELSE f.namedIsSigner /\ f.avail
  IN IF ~Found(d) THEN "reject"
     ELSE IF BP(d) # p \/ ~f.signedIsDoc THEN "reject"      \* nothing but the signed bytes verifies
     ELSE IF ~keyOK THEN "reject"
     ELSE IF Rest(d) = SigSyms \o TailSyms THEN "accept"
     ELSE "either"                                          \* same payload, armor text altered

VARIABLES phase, pay, scen, mut
vars == <<phase, pay, scen, mut>>

Init == phase = "start" /\ pay = <<>> /\ scen = "right" /\ mut = NoMut
Choose == /\ phase = "start" /\ phase' = "doc"
          /\ pay' \in Payloads /\ scen' \in Scenarios /\ mut' = NoMut
Mutate == /\ phase = "doc" /\ phase' = "mut"
          /\ mut' \in {m \in Mutations(Doc(pay)) : Canonical(Doc(pay), m) \/ "NonCanonical" \in Deviations}
          /\ UNCHANGED <<pay, scen>>
Next == Choose \/ Mutate
Spec == Init /\ [][Next]_vars

D0 == Doc(pay)
D1 == Apply(D0, mut)
Region == RegionOf(mut.pos - 1, Len(pay), SepLen, Len(SigSyms))
Class == ExpectedClass(scen, Region, mut.kind)

(* the signed document verifies, and only under the right scenario *)
BaseVerdict == phase = "doc" => Verdict(D0, pay, scen) = (IF scen = "right" THEN "accept" ELSE "reject")
(* the region rule never demands rejection of something the ideal verifier could accept ... *)
RejectRuleSound == (phase = "mut" /\ Class = "must-reject") => Verdict(D1, pay, scen) = "reject"
(* ... and where it tolerates acceptance, the payload the verifier would expose is the original one *)
MayAcceptKeepsPayload == (phase = "mut" /\ Class = "may-accept") => (Found(D1) /\ BP(D1) = pay)
(* ... and is not vacuous: some such mutations are acceptable to the ideal verifier *)
RuleComplete == (phase = "mut" /\ Class = "may-accept") => Verdict(D1, pay, scen) \in {"either", "accept"}
=============================================================================
