-------------------------- MODULE BlobStoreFault --------------------------
(* BlobStore plus transient lower-layer failures (C13).  A public call during which an injected
   lower-layer fault fired ("faulted call") may
     - complete normally (the fault hit a redundant or best-effort lower call): then it must have
       exactly its normal reply and effect; or
     - fail: it returns an error in bounded time (any error class except hang/panic), leaves every
       blob it touched either untouched or completely processed (receive: absent-or-present,
       remove: any subset removed - TLC keeps every branch until a later observation decides), and
       changes nothing else.
   A call that was NOT hit by a fault behaves exactly as BlobStore says - so a fault that leaks into a
   later call (an error that persists, a lost blob, a torn blob, a hang) is a rejected trace.
   Recovery (pack re-index, zip recovery, meta re-scan) must reproduce `present`, except that the
   undetermined outcome of a FAILED mutator may be decided again by the rebuild: a blob whose last
   mutation failed (`limbo`) may come out either way (its bytes were written but the index row was not,
   or the other way round) - an acknowledged blob never. *)
EXTENDS BlobStore

VARIABLE limbo        \* blobs whose most recent receive/remove failed
fvars == <<vars, limbo>>

FailedReply(op) == R(op, "failed", 0, <<>>)

(* A failed receive of a blob that is present and settled (acknowledged earlier, not in limbo) is a failed no-op:
   the earlier acknowledgement stands, so the blob stays settled - a rebuild may not drop it. *)
FailedReceive(b) ==
  /\ present' \in {present, present \cup {b}}
  /\ limbo' = IF b \in present /\ b \notin limbo THEN limbo ELSE limbo \cup {b}
  /\ reply' = FailedReply("receive")
  /\ UNCHANGED <<size, caps>>

FailedRemove(S) ==
  /\ present' \in {present \ T : T \in SUBSET S}
  /\ limbo' = limbo \cup S
  /\ reply' = FailedReply("remove")
  /\ UNCHANGED <<size, caps>>

FailedRead(op) ==
  /\ reply' = FailedReply(op)
  /\ UNCHANGED <<present, size, caps, limbo>>

Recover ==
  /\ present' \in {(present \ D) \cup A : D \in SUBSET limbo, A \in SUBSET limbo}
  /\ UNCHANGED limbo      \* a later, different rebuild (reopen vs. re-index from the packs) may decide again
  /\ reply' = FailedReply("recover")
  /\ UNCHANGED <<size, caps>>

(* successful mutators settle the blobs they touch: an acknowledged blob is never in limbo *)
OkReceive(b) == Receive(b) /\ limbo' = (IF caps.readOnly THEN limbo ELSE limbo \ {b})
OkRemove(S) == RemoveBlobs(S) /\ limbo' = (IF caps.canRemove THEN limbo \ S ELSE limbo)
OkFetch(b) == Fetch(b) /\ UNCHANGED limbo
OkSubFetch(b, off, len) == SubFetch(b, off, len) /\ UNCHANGED limbo
OkStat(S) == Stat(S) /\ UNCHANGED limbo
OkEnumerate(a, l) == Enumerate(a, l) /\ UNCHANGED limbo
(* StreamBlobs walks the primary data, the other reads go through the index: for a blob in limbo the two may
   disagree (a complete but unindexed record is streamed; an x-ed header whose index row survived is not). The
   property only demands that acknowledged blobs are streamed intact and nothing torn is presented. *)
OkStream == /\ \E X \in SUBSET limbo :
                 reply' = R("stream", "ok", 0, StatOf((present \ limbo) \cup X, size, Blobs))
            /\ UNCHANGED <<present, size, caps, limbo>>

NextF == \/ \E b \in Blobs : OkReceive(b) \/ OkFetch(b) \/ FailedReceive(b)
         \/ \E b \in Blobs, off \in 0..2, len \in 0..2 : OkSubFetch(b, off, len)
         \/ \E S \in SUBSET Blobs : OkStat(S) \/ (S # {} /\ (OkRemove(S) \/ FailedRemove(S)))
         \/ \E a \in 0..MaxCursor, l \in 1..MaxLimit : OkEnumerate(a, l)
         \/ \E op \in {"fetch", "subfetch", "stat", "enum", "stream"} : FailedRead(op)
         \/ OkStream
         \/ Recover
SpecF == Init /\ limbo = {} /\ [][NextF]_fvars

(* A failed call never creates a blob it was not asked to receive and never deletes one it was not asked to
   remove; recovery only re-decides blobs in limbo; an acknowledged blob (present, not in limbo) survives it. *)
FailureIsLocal == [][\A b \in Blobs :
                       /\ (b \notin present /\ b \in present') => (reply'.op = "receive" \/ (reply'.op = "recover" /\ b \in limbo))
                       /\ (b \in present /\ b \notin present') => (reply'.op = "remove" \/ (reply'.op = "recover" /\ b \in limbo))]_fvars
AckedSurviveRecovery == [][reply'.op = "recover" => (present \ limbo) \subseteq present']_fvars
LimboOnlyAfterFailure == limbo \subseteq Blobs
FView == <<present, size, caps, limbo>>
=============================================================================
