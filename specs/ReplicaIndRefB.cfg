SPECIFICATION SpecB
CONSTANTS
  N = 3
  Blobs = {2, 4}
  Deviations = {}
  FullConfig = FALSE
INVARIANTS IndInv
PROPERTIES RSpec
CHECK_DEADLOCK FALSE
