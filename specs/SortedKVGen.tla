---------------------------- MODULE SortedKVGen ----------------------------
(* Behaviour generator for SortedKV: the module's own actions plus a history variable recording the
   calls (never the replies: those are recomputed by Trace_SortedKV when the recorded execution of
   the real store is validated).

   Mode "mut"   : mutators only (set / delete / flush / reopen over GenKeys x GenVals), exhaustively by
                  BFS to depth Depth; the replayer makes a full observation after every step.
   Mode "batch" : the same plus every batch of at most MaxBatch mutations over BatchKeys x BatchVals
                  (the empty batch included), built mutation by mutation like BeginBatch/Set/Delete/
                  CommitBatch in the code, so the enumeration cost is linear in the batch length.
   Mode "scan"  : every history  set(k, v) ; flush | reopen ; find(start, end)  over BatchKeys x BatchVals and ALL
                  cursor pairs (inverted and empty ranges included): every range shape against a store whose
                  data has just been moved (flushed to the backing store / written out and reopened).
   Mode "all"   : every call over the whole alphabet including get and find(start, end), used with
                  -simulate for long random histories (batches over the whole alphabet). *)
EXTENDS SortedKV, TLC, Json

CONSTANTS Mode, Depth, GenKeys, GenVals, BatchKeys, BatchVals

VARIABLES hist,      \* sequence of calls
          inb,       \* a batch is being built
          pending    \* its mutations so far

gvars == <<vars, hist, inb, pending>>

GInit == Init /\ hist = <<>> /\ inb = FALSE /\ pending = <<>>

Call(o) == Do(o) /\ hist' = Append(hist, o)

KS == IF Mode = "all" THEN Keys ELSE GenKeys
VS == IF Mode = "all" THEN Vals ELSE GenVals
BK == IF Mode = "all" THEN Keys ELSE BatchKeys
BV == IF Mode = "all" THEN Vals ELSE BatchVals

(* One disjunct of GNext per kind of call: in -simulate mode TLC first picks a disjunct at random and then
   one of its successors, so every kind of call is about equally frequent whatever its number of arguments. *)
Can == ~inb /\ Len(hist) < Depth /\ UNCHANGED <<inb, pending>>
Stage(n) == Mode # "scan" \/ Len(hist) = n          \* "scan" histories have a fixed shape
SetA    == Can /\ Stage(0) /\ \E k \in (IF Mode = "scan" THEN BK ELSE KS), v \in (IF Mode = "scan" THEN BV ELSE VS) :
                                Call(O("set", k, v, <<>>))
DeleteA == Can /\ Mode # "scan" /\ \E k \in KS : Call(O("delete", k, 0, <<>>))
FlushA  == Can /\ Stage(1) /\ Call(O("flush", 0, 0, <<>>))
ReopenA == Can /\ Stage(1) /\ Call(O("reopen", 0, 0, <<>>))
GetA    == Can /\ Mode = "all" /\ \E k \in Keys : Call(O("get", k, 0, <<>>))
FindA   == Can /\ (Mode = "all" \/ (Mode = "scan" /\ Len(hist) = 2))
               /\ \E s \in Cursors, e \in Cursors : Call(O("find", s, e, <<>>))
FindAllA == Can /\ Mode = "all" /\ \E s \in {0, 1}, e \in {0, NK} : Call(O("find", s, e, <<>>))

Begin  == /\ Mode \in {"batch", "all"} /\ ~inb /\ Len(hist) < Depth
          /\ inb' = TRUE /\ UNCHANGED <<vars, hist, pending>>
Add    == /\ inb /\ Len(pending) < MaxBatch
          /\ \E mu \in {SetMut(k, v) : k \in BK, v \in BV} \cup {DelMut(k) : k \in BK} :
                pending' = Append(pending, mu)
          /\ UNCHANGED <<vars, hist, inb>>
Commit == /\ inb /\ Call(O("batch", 0, 0, pending))
          /\ inb' = FALSE /\ pending' = <<>>

(* In -simulate mode TLC evaluates invariants on ALL successors of the current state, so printing at
   depth Depth would emit every sibling; a single deterministic End step makes one print per trace. *)
End == /\ ~inb /\ Len(hist) = Depth
       /\ hist' = Append(hist, O("end", 0, 0, <<>>)) /\ UNCHANGED <<vars, inb, pending>>

Add2 == Add
GNext == SetA \/ DeleteA \/ FlushA \/ ReopenA \/ GetA \/ FindA \/ FindAllA \/ Begin \/ Add \/ Add2 \/ Commit \/ End
GSpec == GInit /\ [][GNext]_gvars

Emit == Len(hist) = Depth + 1 => PrintT(<<"HIST", ToJson(SubSeq(hist, 1, Depth))>>)
GView == <<hist, inb, pending>>
=============================================================================
