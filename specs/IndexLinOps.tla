----------------------------- MODULE IndexLinOps -----------------------------
(* C14, index side: what "each completed read is consistent with some sequential ordering of the calls that respects
   their real-time order" means for an index that is fed by concurrent ReceiveBlob calls.  Pure operators, shared by
   the model (IndexLin.tla, leg S) and the trace validator (Trace_IndexLin.tla, leg T).

   STATE.  Everything a reader can see of index + corpus + deletes caches is a function of two sets of blobs:
     M = blobs whose meta row is committed (partial or full commit),
     X = blobs that are fully indexed (have:...|indexed).
   Every commit happens in one Index.Lock section (rows, deletes cache and corpus together) and every reader holds
   Index.RLock, so a read observes ONE pair (M, X) that existed at some instant between its call and its return.
   Dependencies as in IndexOOOPred: F[b] = fetch dependencies (must be in the blob source: signer's key, every part
   of a file, the static set of a directory), I[b] = index dependency (a delete claim needs its target's META row;
   0 = none).  Shape of a state (WellFormed): X \subseteq M; a blob without index dependency is fully indexed as soon
   as it has its meta row; a blob with one can only be fully indexed when its target has its meta row.

   BOUNDS for a read with call c and return r (c, r = positions in the log, which is ordered by one atomic counter
   stamped before each call and after each return):
     upper: b \in M only if the delivery of b was CALLED before r and so were the deliveries of all of F[b] (a fetch
            dependency is satisfied by the blob source; the source write is the first thing a delivery does);
     lower: b \in M if b is SURE at c.  A delivery acknowledged before c makes b sure when all of F[b] had been
            acknowledged before that delivery was called (then its fetches succeed and ReceiveBlob commits at least
            partially before it returns); it makes b surely FULLY indexed when in addition I[b] = 0 or I[b] was
            already sure to have its meta row when the delivery was called.
   LAG (the only permissive part, and it is the documented design of pkg/index/receive.go): a blob delivered before
   its dependency is "noted as needed" and re-indexed by an asynchronous goroutine (indexReadyBlobs) some time after
   the dependency commits; ReceiveBlob of either blob does not wait for it ("Lie and say things are good").  Such a
   blob may therefore become visible at any point between its own delivery call and the end of asynchronous
   indexing; it is only sure after quiescence (QuietM / QuietX = IndexOOOPred's function of the delivered set).
   MONOTONICITY: rows are never removed, so once a completed read has PROVED b \in M (every explanation of its
   reply contains b), b is a lower bound for every read called after that read returned - whichever goroutine. *)
EXTENDS IndexOOOPred

AutoX(M, I) == {b \in M : I[b] = 0}
OptX(M, I) == {b \in M : I[b] # 0 /\ I[b] \in M}
WellFormed(M, X, I) == /\ X \subseteq M /\ AutoX(M, I) \subseteq X /\ X \subseteq (AutoX(M, I) \cup OptX(M, I))

UBM(started, F) == {b \in started : F[b] \subseteq started}

(* all states <<M, X>> between the bounds; blobs outside Rel (irrelevant to the question asked) are left out of the
   enumeration: their membership does not constrain the others (b \in M needs nothing of the other blobs' visibility,
   b \in X only I[b] \in M) *)
Cands(lbM, lbX, started, F, I, Rel) ==
  LET ub == UBM(started, F) \cup lbM
      freeM == (ub \ lbM) \cap Rel
  IN UNION { LET M == lbM \cup s
                 base == AutoX(M, I) \cup lbX
                 freeX == (OptX(M, I) \ base) \cap Rel
             IN { <<M, base \cup x>> : x \in SUBSET freeX } : s \in SUBSET freeM }

(* what a set E of explanations proves *)
MustM(E) == LET s0 == CHOOSE s \in E : TRUE IN {b \in s0[1] : \A s \in E : b \in s[1]}
MustX(E) == LET s0 == CHOOSE s \in E : TRUE IN {b \in s0[2] : \A s \in E : b \in s[2]}

(* acknowledgement of a delivery of b: doneAtCall = deliveries acknowledged before it was called,
   lbMAtCall = blobs sure to have their meta row when it was called *)
SureMetaAtAck(b, doneAtCall, F) == F[b] \subseteq doneAtCall
SureFullAtAck(b, doneAtCall, lbMAtCall, F, I) == SureMetaAtAck(b, doneAtCall, F) /\ (I[b] = 0 \/ I[b] \in lbMAtCall)

(* after quiescence (all deliveries acknowledged, asynchronous indexing drained): exactly IndexOOOPred *)
QuietM(D, F) == {b \in D : HasMeta(b, D, F)}
QuietX(D, F, I) == {b \in D : Indexable(b, D, F, I)}
=============================================================================
