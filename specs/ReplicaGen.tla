---------------------------- MODULE ReplicaGen ----------------------------
(* Scenario enumerator for the replica store: every configuration (write set, read set, minWrites),
   every outcome vector {ok, err, wrongsize}^|W| and every completion order of the uploads, over two
   patterns of pre-existing replica contents.  Each scenario is one initial state; the invariant prints
   it as JSON.  The real replica store is then driven through the scenario by the gate scheduler
   (uploads released in exactly this order) and the recorded events are validated by Trace_Replica. *)
EXTENDS Naturals, FiniteSets, Sequences, TLC, Json, SequencesExt

CONSTANTS N, RdMode      \* RdMode: "all" = every read set, "few" = {W, all stores, {1}}
Stores == 1..N
Outcomes == {"ok", "err", "wrongsize"}

VARIABLES W, Rd, MinW, outcome, order, pre

Perms(S) == {s \in [1..Cardinality(S) -> S] : \A i, j \in 1..Cardinality(S) : i # j => s[i] # s[j]}

\* contents before the call: nothing anywhere / blob 2 and 4 spread with an overlap, the received blob (6) nowhere
PrePatterns == {[i \in Stores |-> {}], [i \in Stores |-> IF i = 1 THEN {2, 4} ELSE IF i = 2 THEN {4} ELSE {2, 8}]}

Init == /\ W \in (SUBSET Stores) \ {{}}
        /\ Rd \in (IF RdMode = "all" THEN (SUBSET Stores) \ {{}} ELSE {W, Stores, {1}})
        /\ MinW \in 1..Cardinality(W)
        /\ outcome \in [W -> Outcomes]
        /\ order \in Perms(W)
        /\ pre \in PrePatterns
Next == UNCHANGED <<W, Rd, MinW, outcome, order, pre>>
Spec == Init /\ [][Next]_<<W, Rd, MinW, outcome, order, pre>>

SS(S) == SetToSortSeq(S, <)
Emit == PrintT(<<"SCN", ToJson([n |-> N, w |-> SS(W), rd |-> SS(Rd), min |-> MinW, b |-> 6,
                                outcome |-> [i \in Stores |-> IF i \in W THEN outcome[i] ELSE "none"],
                                order |-> order,
                                pre |-> [i \in Stores |-> SS(pre[i])]])>>)
=============================================================================
