--------------------------- MODULE Trace_AuthMatrix ---------------------------
(* Validation of the recorded access matrix of a REAL in-process perkeepd (serverinit.Load +
   InstallHandlers, one high-level configuration and one auth mode per process) against AuthMatrix.

   Trace lines (harness/cmd/c17 -mode matrix):
     {"ev":"server","hl":..,"auth":..,"patterns":[..]}
     {"ev":"req","pattern":..,"routed":..,"htype":..,"sub":..,"method":..,"creds":..,"status":N,"cls":..}
         htype is the type of the handler the server's own mux routed the request to
     {"ev":"end","hl":..}
   Collect mode (cells are independent): a reply class outside Expected(htype, sub, method, creds)
   prints <<"VIOL", line, hl, auth, method, htype, sub, creds, expectation, observed>>; an unknown
   handler type prints <<"UNKNOWN", ..>>; at "end" every handler type of MustShowContent(hl) must
   have answered some request WITH credentials with seeded content, else <<"VACUOUS", ..>>. *)
EXTENDS AuthMatrix, Json, IOUtils, Sequences

VARIABLES l, hl, authm, seen

Trace == ndJsonDeserialize(IOEnv.TRACE_FILE)
Ev == Trace[l]
tvars == <<cell, l, hl, authm, seen>>

TInit == l = 1 /\ cell = NoCell /\ hl = "none" /\ authm = "none" /\ seen = {}

TServer == /\ l <= Len(Trace) /\ Ev.ev = "server"
           /\ hl' = Ev.hl /\ authm' = Ev.auth /\ seen' = {} /\ cell' = NoCell /\ l' = l + 1

TReq == /\ l <= Len(Trace) /\ Ev.ev = "req"
        /\ Ask(Ev.htype, Ev.sub, Ev.method, Ev.creds)            \* the module's own action
        /\ l' = l + 1 /\ UNCHANGED <<hl, authm>>
        /\ seen' = IF Ev.creds = "good" /\ Ev.cls = "content" THEN seen \cup {Ev.htype} ELSE seen
        /\ IF Ev.htype \notin HTypes
           THEN PrintT(<<"UNKNOWN", l, hl, Ev.htype, Ev.pattern>>)
           ELSE (Ev.cls \in Expected(Ev.htype, Ev.sub, Ev.method, Ev.creds)
                   \/ PrintT(<<"VIOL", l, hl, authm, Ev.method, Ev.htype, Ev.sub, Ev.creds,
                               Expect(Ev.htype, Ev.sub, Ev.method, Ev.creds), Ev.cls>>))

TEnd == /\ l <= Len(Trace) /\ Ev.ev = "end"
        /\ l' = l + 1 /\ UNCHANGED <<cell, hl, authm, seen>>
        /\ (MustShowContent(hl) \subseteq seen \/ PrintT(<<"VACUOUS", l, hl, MustShowContent(hl) \ seen>>))

TNext == TServer \/ TReq \/ TEnd
TSpec == TInit /\ [][TNext]_tvars
TraceAccepted == TLCGet("stats").diameter - 1 = Len(Trace)
=============================================================================
