---------------------------- MODULE Trace_IndexLin ----------------------------
(* C14, family index+reads, implementation -> specification.  cmd/c14q feeds a REAL index.Index (+ corpus) from W
   writer goroutines while R reader goroutines ask read calls (each one Index.RLock section, as the search and share
   handlers do); every delivery and every read is logged as a call line and a return line in the order of one
   global atomic counter.  A segment:

     reset{n, deps[{id,f,i,kind}], items[world records of Claims.tla]}
     deliver{id,item} / delivered{id,item,res}         ReceiveBlob of the source store, then of the index; res =
                                                        "injected": the harness made the KV commit of this attempt fail
                                                        (without effect), ReceiveBlob returned that error; the attempt
                                                        acknowledges nothing and the writer delivers the blob again
     call{id} / ret{id, op, arguments, projected reply} one read
     quiesce                                            writers joined, asynchronous indexing awaited
     state{delivered, have, missing, need, ready}       final out-of-order state (IndexOOOPred.ConfluentState)

   For every ret line the reply must be the answer of the read's abstract meaning (Claims.tla for attributes,
   deletions, modification time and claim lists; IndexOOOPred for the meta/have rows) on SOME state <<M, X>> between
   the bounds that IndexLinOps derives from the real-time order: at least what was sure when the read was called
   (acknowledged deliveries whose dependencies had been acknowledged before, plus what completed reads have proved),
   at most what had been started when it returned.  Collect mode: a reply that no state explains is printed as
   <<"VIOL", line, op, class, ...>> with class
       fresh->regressed    explained only when the knowledge proved by earlier completed reads is dropped
                           (a reader saw the newer state and a later read sees the older one)
       fresh->stale        explained only by a state that lacks an acknowledged delivery
       consistent->torn    no state over any subset of the started deliveries gives this reply
   and validation goes on (nothing is learned from a rejected reply).

   Scoping note (not a relaxation of C14): the corpus attribute paths ignore deletions of attribute claims - the
   open finding H2 of property C07.  This family judges ORDER, not the attribute semantics, so an attribute reply is
   accepted when it is the documented value OR the value with deleted claims still counting, on ONE state. *)
EXTENDS Claims, IndexLinOps, Json, IOUtils

VARIABLES l, FD, IDp, AllB, kind, started, done, sureM, sureX, knownM, knownX, dcall, rcall, expl
Trace == ndJsonDeserialize(IOEnv.TRACE_FILE)
Ev == Trace[l]
tvars == <<world, l, FD, IDp, AllB, kind, started, done, sureM, sureX, knownM, knownX, dcall, rcall, expl>>

SeqToSet(s) == {s[k] : k \in 1..Len(s)}
PairSet(s) == {<<s[k][1], s[k][2]>> : k \in 1..Len(s)}
NoDups(s) == Len(s) = Cardinality(SeqToSet(s))
T3(t) == IF t = 0 THEN Zero ELSE <<t, 0>>

(* ---- the world as the readers can see it in state <<M, X>>: a delete claim takes effect (deleted| row, deletes
   caches, its claim row on the permanode) only when it is fully indexed, every other blob with its meta row *)
Wv(M, X) == {c \in world : IF c.kind = "delete" THEN c.id \in X ELSE c.id \in M}

CType(k) == CASE k = "permanode" -> "permanode"
              [] k \in {"claim", "delete", "share"} -> "claim"
              [] k = "file" -> "file"
              [] k = "bytes" -> "bytes"
              [] k = "staticset" -> "static-set"
              [] k = "dir" -> "directory"
              [] OTHER -> ""

(* ---- abstract meaning of each read on <<M, X>> *)
OkMeta(e, M, X) ==      \* Index.GetBlobMeta (corpus) + the meta: and have: rows, one lock section
   /\ e.found = (e.b \in M) /\ e.metarow = (e.b \in M)
   /\ e.have = (IF e.b \in X THEN "indexed" ELSE IF e.b \in M THEN "partial" ELSE "none")
   /\ (e.found => e.ctype = CType(kind[e.b]))
OkDeleted(e, M, X) ==   \* Index.IsDeleted (index deletes cache) + Corpus.IsDeleted, one lock section
   LET d == Deleted(Wv(M, X), e.b) IN e.ix = d /\ e.c = d
OkAttr(e, M, X) ==      \* Corpus.PermanodeAttrValue + AppendPermanodeAttrValues, one lock section
   LET W == Wv(M, X) IN
   \E D \in {{}, {"IgnoreClaimDeletion"}} : \E v \in AttrValuesD(W, e.pn, e.attr, T3(e.t), e.signer, D) :
      e.first = First(v) /\ (e.list = v \/ e.list = Dedup(v))
OkMod(e, M, X) ==       \* Corpus.PermanodeModtime
   LET m == ModTimeD(Wv(M, X), e.pn, {}) IN IF m = Zero THEN ~e.ok ELSE e.ok /\ m = <<e.sec, e.nano>>
OkClaims(e, M, X) ==    \* Index.AppendClaims
   ~e.err /\ NoDups(e.ids) /\ SeqToSet(e.ids) = ClaimsAbout(Wv(M, X), e.pn, "", 0)
OkFile(e, M, X) == e.found = (e.b \in M)                 \* Index.GetFileInfo
OkEnum(e, M, X) == NoDups(e.ids) /\ SeqToSet(e.ids) = M   \* Corpus.EnumerateBlobMeta
(* search.Handler.Query, all permanodes sorted by creation time, judged as a SET: the sorted corpus source lists the
   permanodes that have their meta row, are not deleted and have a time, i.e. a live attribute claim (or a
   camliContent claim, whose deletion the time look-up ignores).  That the source drops claim-less permanodes is
   C08's finding H4, mirrored here, not judged. *)
OkSearch(e, M, X) ==
   LET W == Wv(M, X) IN
   /\ ~e.err /\ NoDups(e.ids)
   /\ SeqToSet(e.ids) = {pn \in PNs(world) : /\ pn \in M /\ ~Deleted(W, pn)
                                            /\ \E c \in W : /\ c.kind = "claim" /\ c.pn = pn
                                                            /\ (~Deleted(W, c.id) \/ c.attr = "camliContent")}
Ok(e, M, X) == CASE e.op = "meta" -> OkMeta(e, M, X)
                 [] e.op = "deleted" -> OkDeleted(e, M, X)
                 [] e.op = "attr" -> OkAttr(e, M, X)
                 [] e.op = "modtime" -> OkMod(e, M, X)
                 [] e.op = "claims" -> OkClaims(e, M, X)
                 [] e.op = "file" -> OkFile(e, M, X)
                 [] e.op = "enum" -> OkEnum(e, M, X)
                 [] e.op = "search" -> OkSearch(e, M, X)
(* blobs whose visibility can influence the reply *)
Rel(e) == CASE e.op \in {"meta", "file"} -> {e.b} \cup (IF IDp[e.b] # 0 THEN {IDp[e.b]} ELSE {})
            [] e.op = "enum" -> AllB
            [] OTHER -> {b \in AllB : kind[b] \in {"permanode", "claim", "delete"}}

Explanations(e, lbM, lbX) == {s \in Cands(lbM, lbX, started, FD, IDp, Rel(e)) : Ok(e, s[1], s[2])}
Class(e, lb) == IF Explanations(e, lb.m, lb.x) # {} THEN "fresh->regressed"
                ELSE IF Explanations(e, {}, {}) # {} THEN "fresh->stale" ELSE "consistent->torn"

TInit == /\ l = 1 /\ world = {} /\ FD = <<>> /\ IDp = <<>> /\ AllB = {} /\ kind = <<>> /\ started = {} /\ done = {}
         /\ sureM = {} /\ sureX = {} /\ knownM = {} /\ knownX = {} /\ dcall = <<>> /\ rcall = <<>> /\ expl = {}
Is(e) == l <= Len(Trace) /\ Ev.ev = e /\ l' = l + 1

TReset == /\ Is("reset")
          /\ world' = SeqToSet(Ev.items)
          /\ AllB' = 1..Ev.n
          /\ FD' = [b \in 1..Ev.n |-> SeqToSet(Ev.deps[b].f)]
          /\ IDp' = [b \in 1..Ev.n |-> Ev.deps[b].i]
          /\ kind' = [b \in 1..Ev.n |-> Ev.deps[b].kind]
          /\ started' = {} /\ done' = {} /\ sureM' = {} /\ sureX' = {} /\ knownM' = {} /\ knownX' = {}
          /\ dcall' = <<>> /\ rcall' = <<>> /\ expl' = {}

TDeliver == /\ Is("deliver")
            /\ started' = started \cup {Ev.item}
            /\ dcall' = (Ev.id :> [done |-> done, lbm |-> sureM \cup knownM]) @@ dcall
            /\ UNCHANGED <<world, FD, IDp, AllB, kind, done, sureM, sureX, knownM, knownX, rcall, expl>>

TDelivered == /\ Is("delivered")
              /\ LET b == Ev.item  dc == dcall[Ev.id] IN
                 IF Ev.res = "ok"
                 THEN /\ done' = done \cup {b}
                      /\ sureM' = sureM \cup (IF SureMetaAtAck(b, dc.done, FD) THEN {b} ELSE {})
                      /\ sureX' = sureX \cup (IF SureFullAtAck(b, dc.done, dc.lbm, FD, IDp) THEN {b} ELSE {})
                 ELSE /\ (Ev.res # "injected" => PrintT(<<"VIOL", l, "deliver", "ok->error", Ev.item>>))
                      /\ UNCHANGED <<done, sureM, sureX>>
              /\ UNCHANGED <<world, FD, IDp, AllB, kind, started, knownM, knownX, dcall, rcall, expl>>

TCall == /\ Is("call")
         /\ rcall' = (Ev.id :> [m |-> sureM, x |-> sureX, km |-> knownM, kx |-> knownX]) @@ rcall
         /\ UNCHANGED <<world, FD, IDp, AllB, kind, started, done, sureM, sureX, knownM, knownX, dcall, expl>>

TRet == /\ Is("ret")
        /\ LET lb == rcall[Ev.id] IN
           /\ expl' = Explanations(Ev, lb.m \cup lb.km, lb.x \cup lb.kx)     \* evaluated once (primed variable)
           /\ IF expl' # {}
              THEN /\ knownM' = knownM \cup MustM(expl') /\ knownX' = knownX \cup MustX(expl')
              ELSE /\ PrintT(<<"VIOL", l, Ev.op, Class(Ev, lb), [sure |-> <<lb.m, lb.x>>, known |-> <<lb.km, lb.kx>>, started |-> started]>>)
                   /\ UNCHANGED <<knownM, knownX>>
        /\ rcall' = [i \in DOMAIN rcall \ {Ev.id} |-> rcall[i]]
        /\ UNCHANGED <<world, FD, IDp, AllB, kind, started, done, sureM, sureX, dcall>>

(* writers joined and the asynchronous re-indexing drained: the lag is over, the state is IndexOOOPred's function of
   the acknowledged set *)
TQuiesce == /\ Is("quiesce")
            /\ sureM' = sureM \cup QuietM(done, FD) /\ sureX' = sureX \cup QuietX(done, FD, IDp)
            /\ UNCHANGED <<world, FD, IDp, AllB, kind, started, done, knownM, knownX, dcall, rcall, expl>>

TState == /\ Is("state")
          /\ LET D == SeqToSet(Ev.delivered)
                 have == [b \in AllB |-> Ev.have[b]]
             IN /\ (~ConfluentState(AllB, D, FD, IDp, have, PairSet(Ev.need), PairSet(Ev.missing))
                       => PrintT(<<"VIOL", l, "state", "confluent->other", [b \in AllB |-> ExpectedHave(b, D, FD, IDp)]>>))
                /\ (Ev.ready # 0 => PrintT(<<"VIOL", l, "state", "drained->ready-not-empty", Ev.ready>>))
          /\ UNCHANGED <<world, FD, IDp, AllB, kind, started, done, sureM, sureX, knownM, knownX, dcall, rcall, expl>>

TNext == TReset \/ TDeliver \/ TDelivered \/ TCall \/ TRet \/ TQuiesce \/ TState
TSpec == TInit /\ [][TNext]_tvars
TraceAccepted == TLCGet("stats").diameter - 1 = Len(Trace)
=============================================================================
