SPECIFICATION Spec
CONSTANTS
  Blobs = {1, 2}
  MaxCrashes = 1
  Deviations = {}
INVARIANTS TypeOK
PROPERTIES RowDeletedOnlyAfterDestAck
CHECK_DEADLOCK FALSE
