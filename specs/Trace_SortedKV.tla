-------------------------- MODULE Trace_SortedKV --------------------------
(* Trace validation of recorded executions of a REAL perkeep sorted.KeyValue (memory, leveldb, kvfile,
   sqlite, or buffer.New(memory, one of these)) against the SortedKV reference map.  The trace is a
   concatenation of independent histories, each started by a "reset" line: a fresh store whose content
   is "pre", a list of [key, value] pairs - empty except for the aged configurations, where the harness has
   written (and, generations ago, closed and reopened) that content itself through the same interface.

   One line per completed public call, all of the same shape:
     {"ev":"op","op":..,"a":..,"b":..,"muts":[[kind,key,value],..],"res":..,"v":..,"list":[[key,value],..]}
   with keys / values / cursors as ranks of the harness alphabets (a key or value the store returned
   that is not in the alphabet is logged as -1); res is "ok" | "notfound" | "err" | "panic" | "hang".

   SortedKV is deterministic, so the trace spec runs in collect mode: a line whose logged reply is not
   the one the module computes is reported (PrintT <<"VIOL", line, expected reply>>), the rest of that
   history is skipped (model and implementation have diverged) and validation resumes at the next
   reset.  Acceptance still requires every line to be consumed.  The module's own Do / ReplyOf are
   reused: nothing about the map is restated here. *)
EXTENDS SortedKV, TLC, Json, IOUtils

VARIABLES l, dead

Trace == ndJsonDeserialize(IOEnv.TRACE_FILE)
Ev == Trace[l]

tvars == <<vars, l, dead>>

TInit == /\ l = 1 /\ dead = TRUE
         /\ Init

TReset == /\ l <= Len(Trace) /\ Ev.ev = "reset"
          /\ m' = [k \in Keys |-> IF \E i \in 1..Len(Ev.pre) : Ev.pre[i][1] = k
                                    THEN Ev.pre[CHOOSE i \in 1..Len(Ev.pre) : Ev.pre[i][1] = k][2] ELSE Absent]
          /\ reply' = R(NoCall, "ok", 0, <<>>)
          /\ dead' = FALSE /\ l' = l + 1

CallOf(e) == O(e.op, e.a, e.b, e.muts)
Same(r, e) == r.res = e.res /\ r.v = e.v /\ r.list = e.list

TOp == /\ l <= Len(Trace) /\ Ev.ev = "op" /\ ~dead
       /\ l' = l + 1
       /\ LET o == CallOf(Ev) IN
          IF Same(ReplyOf(m, o), Ev)
          THEN /\ Do(o) /\ dead' = FALSE
          ELSE /\ PrintT(<<"VIOL", l, ReplyOf(m, o)>>)
               /\ dead' = TRUE /\ UNCHANGED vars

TSkip == /\ l <= Len(Trace) /\ Ev.ev = "op" /\ dead
         /\ l' = l + 1 /\ UNCHANGED <<vars, dead>>

TNext == TReset \/ TOp \/ TSkip
TSpec == TInit /\ [][TNext]_tvars

(* Invariants of the reference map are evaluated at every state of the recorded execution. *)
TraceAccepted == TLCGet("stats").diameter - 1 = Len(Trace)
=============================================================================
