------------------------------- MODULE Sync -------------------------------
(* pkg/server/sync.go - asynchronous replication source -> destination through a persistent queue.

     upload      blobserver.Receive(src): src.ReceiveBlob, then the hub runs the handler's receive hook
                 (newSyncFromConfig: GetHub(from).AddReceiveHook(sh.enqueue)):
                 enqueue = addBlobToCopy (needCopy, memory; a blob already in needCopy is a duplicate and the
                 hook returns at once) THEN queue.Set(ref, size) (the persistent row); the upload is acknowledged
                 when the hook returns.
     copy loop   syncLoop/runSync enumerate needCopy; copyBlob: from.Fetch (size and digest verified),
                 to.ReceiveBlob (returned size verified); copyStatus.setError: on success queue.Delete(ref) and
                 then, under the mutex, delete(needCopy, ref); on failure the blob stays in needCopy (lastFail)
                 and is retried on the next round.
     restart     newSyncFromConfig: readQueueToMemory (queue.Find("","") -> needCopy) before the loop starts.

   One action per lower-layer call or critical section.  ust[b] is the program counter of the upload of b in
   flight, cst[b] the one of the copy of b in flight (one syncLoop per handler: at most one copy of b at a time).
   The uploader and the copier of the same blob run concurrently: the copy of b may overtake the queue.Set of b
   (the row then outlives the delivery - harmless, it is re-copied and deleted after the next restart).
   Faults (destination error / wrong size / error after storing, source read corrupt / missing / error) may
   happen while `faulty`; a crash loses the memory and every call in flight.
   The copier here may start the copy of any pending blob at any time; how runSync hands the pending blobs to
   its worker pool through bounded channels (and how that can block for ever) is SyncPool.tla. *)
EXTENDS Naturals, FiniteSets

CONSTANTS Blobs, MaxCrashes,
          Deviations   \* subset of {"DeleteRowBeforeWrite", "NoQueueReload", "EnqueueBeforeSourceAccept"}
                       \* (SyncPool.tla, the pass / worker-pool structure of the copy loop, adds "BlockingFeedSmallChannel")

VARIABLES src,        \* blobs stored by the source
          dst,        \* blobs whose bytes the destination holds
          queue,      \* persistent rows
          needCopy,   \* in-memory pending set of the running handler
          ust,        \* [Blobs -> "idle" | "stored" | "mem"]       upload in flight
          cst,        \* [Blobs -> "idle" | "fetched" | "written" | "deleted"]  copy in flight
          acked,      \* uploads whose hook completed (the client may have been told "ok")
          up, loaded, \* process running / readQueueToMemory done
          faulty, crashes
vars == <<src, dst, queue, needCopy, ust, cst, acked, up, loaded, faulty, crashes>>

FetchOutcomes == {"ok", "corrupt", "missing", "error", "sizemis"}
DestOutcomes  == {"ok", "error", "wrongsize", "after"}

TypeOK == /\ src \subseteq Blobs /\ dst \subseteq Blobs /\ queue \subseteq Blobs /\ needCopy \subseteq Blobs
          /\ ust \in [Blobs -> {"idle", "stored", "mem"}]
          /\ cst \in [Blobs -> {"idle", "fetched", "written", "deleted"}]
          /\ acked \subseteq Blobs /\ up \in BOOLEAN /\ loaded \in BOOLEAN /\ faulty \in BOOLEAN
          /\ crashes \in 0..MaxCrashes

Init == /\ src = {} /\ dst = {} /\ queue = {} /\ needCopy = {} /\ acked = {}
        /\ ust = [b \in Blobs |-> "idle"] /\ cst = [b \in Blobs |-> "idle"]
        /\ up = FALSE /\ loaded = FALSE /\ faulty = TRUE /\ crashes = 0

Running == up /\ loaded

(* ---- upload path ---- *)
SourceAccept(b) == /\ Running /\ ust[b] = "idle"
                   /\ src' = src \cup {b} /\ ust' = [ust EXCEPT ![b] = "stored"]
                   /\ UNCHANGED <<dst, queue, needCopy, cst, acked, up, loaded, faulty, crashes>>

HookMayRun(b) == ust[b] = "stored" \/ ("EnqueueBeforeSourceAccept" \in Deviations /\ ust[b] = "idle")

\* addBlobToCopy; a duplicate ends the hook (and acknowledges the upload) without a row
EnqueueMem(b) == /\ Running /\ HookMayRun(b)
                 /\ IF b \in needCopy
                    THEN /\ ust' = [ust EXCEPT ![b] = "idle"] /\ acked' = acked \cup {b} /\ UNCHANGED needCopy
                    ELSE /\ ust' = [ust EXCEPT ![b] = "mem"] /\ needCopy' = needCopy \cup {b} /\ UNCHANGED acked
                 /\ UNCHANGED <<src, dst, queue, cst, up, loaded, faulty, crashes>>

EnqueueRow(b) == /\ Running /\ ust[b] = "mem"
                 /\ queue' = queue \cup {b} /\ acked' = acked \cup {b} /\ ust' = [ust EXCEPT ![b] = "idle"]
                 /\ UNCHANGED <<src, dst, needCopy, cst, up, loaded, faulty, crashes>>

(* ---- copy path ---- *)
CopyFetch(b, o) == /\ Running /\ b \in needCopy /\ cst[b] = "idle" /\ o \in FetchOutcomes
                   /\ (o = "ok") => b \in src
                   /\ (o # "ok") => (faulty \/ b \notin src)
                   /\ cst' = [cst EXCEPT ![b] = IF o = "ok" THEN "fetched" ELSE "idle"]
                   /\ queue' = (IF o = "ok" /\ "DeleteRowBeforeWrite" \in Deviations THEN queue \ {b} ELSE queue)
                   /\ UNCHANGED <<src, dst, needCopy, ust, acked, up, loaded, faulty, crashes>>

DestReceive(b, o) == /\ Running /\ cst[b] = "fetched" /\ o \in DestOutcomes
                     /\ (o # "ok") => faulty
                     /\ dst' = (IF o = "error" THEN dst ELSE dst \cup {b})
                     /\ cst' = [cst EXCEPT ![b] = IF o = "ok" THEN "written" ELSE "idle"]
                     /\ UNCHANGED <<src, queue, needCopy, ust, acked, up, loaded, faulty, crashes>>

QueueDelete(b) == /\ Running /\ cst[b] = "written"
                  /\ queue' = queue \ {b} /\ cst' = [cst EXCEPT ![b] = "deleted"]
                  /\ UNCHANGED <<src, dst, needCopy, ust, acked, up, loaded, faulty, crashes>>

MemDelete(b) == /\ Running /\ cst[b] = "deleted"
                /\ needCopy' = needCopy \ {b} /\ cst' = [cst EXCEPT ![b] = "idle"]
                /\ UNCHANGED <<src, dst, queue, ust, acked, up, loaded, faulty, crashes>>

(* ---- environment ---- *)
Heal == faulty /\ faulty' = FALSE /\ UNCHANGED <<src, dst, queue, needCopy, ust, cst, acked, up, loaded, crashes>>

Crash == /\ up /\ crashes < MaxCrashes /\ crashes' = crashes + 1
         /\ up' = FALSE /\ loaded' = FALSE /\ needCopy' = {}
         /\ ust' = [b \in Blobs |-> "idle"] /\ cst' = [b \in Blobs |-> "idle"]
         /\ UNCHANGED <<src, dst, queue, acked, faulty>>

Start == /\ ~up /\ up' = TRUE /\ loaded' = FALSE /\ needCopy' = {}
         /\ UNCHANGED <<src, dst, queue, ust, cst, acked, faulty, crashes>>

\* readQueueToMemory
Reload == /\ up /\ ~loaded /\ loaded' = TRUE
          /\ needCopy' = (IF "NoQueueReload" \in Deviations THEN {} ELSE queue)
          /\ UNCHANGED <<src, dst, queue, ust, cst, acked, up, faulty, crashes>>

Next == \/ Heal \/ Crash \/ Start \/ Reload
        \/ \E b \in Blobs : \/ SourceAccept(b) \/ EnqueueMem(b) \/ EnqueueRow(b)
                            \/ QueueDelete(b) \/ MemDelete(b)
                            \/ \E o \in FetchOutcomes : CopyFetch(b, o)
                            \/ \E o \in DestOutcomes : DestReceive(b, o)

Fairness == /\ WF_vars(Heal) /\ WF_vars(Start) /\ WF_vars(Reload)
            /\ \A b \in Blobs : /\ WF_vars(\E o \in FetchOutcomes : CopyFetch(b, o))
                                /\ WF_vars(\E o \in DestOutcomes : DestReceive(b, o))
                                /\ WF_vars(QueueDelete(b)) /\ WF_vars(MemDelete(b))
Spec == Init /\ [][Next]_vars /\ Fairness

(* ---- properties ---- *)
\* an acknowledged upload is at the destination or has a row, in every state (so also after any crash)
DurablePending == \A b \in acked : b \in dst \/ b \in queue
\* once the queue has been read, every row of an undelivered blob is known to the copier
MemoryCoversQueue == Running => \A b \in queue : b \in needCopy \/ b \in dst
\* nothing is enqueued that the source has not accepted
QueuedInSource == \A b \in queue \cup needCopy : b \in src
\* a row disappears only in the step that follows the destination's acknowledgement of that copy
RowDeletedOnlyAfterDestAck == [][\A b \in Blobs : (b \in queue /\ b \notin queue') => cst[b] = "written"]_vars
Delivered == \A b \in Blobs : (b \in acked) ~> (b \in dst)
=============================================================================
