SPECIFICATION TSpec
CONSTANTS
  Blobs <- TraceBlobs
  Shards <- TraceShards
  ChanCap = 64
  WorkCap = 1000
  Pool = 5
  MaxFaults = 100000
  MaxEnv = 100000
  MaxUploads = 100000
  MaxRounds = 100000
  Copier = TRUE
  Deviations = {"NoDrainAfterMerge", "FullSyncBatchCutoff"}
POSTCONDITION Consumed
CHECK_DEADLOCK FALSE
