SPECIFICATION GSpec
CONSTANTS
  Deviations = {}
  MaxFree = 3
  Mode = "base"
INVARIANT Emit
CHECK_DEADLOCK FALSE
