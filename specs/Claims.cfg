SPECIFICATION Spec
CONSTANTS
  Deviations = {}
  MaxClaims = 2
  MaxDeletes = 2
  SAttrs = {"a"}
  SVals = {1, 2}
  SDates = {10, 20}
  ClaimSigners = {1, 2}
  DelDates = {25}
  DelSigners = {1}
  MixDeletes = FALSE
INVARIANTS L1_DeletedClaimsVanish L2_UndeleteRestores L3_ChainParity L4_ZeroIsLatest L5_SignerFilter L6_NoTiesUnique L7_SetIsDelAdd L8_DelValue L9_HistoryIgnoresFuture L10_ModTime L11_Shapes L12_AttrIndependent
CHECK_DEADLOCK FALSE
