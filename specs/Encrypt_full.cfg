SPECIFICATION ESpec
CONSTANTS
  Plain = {p1, p2, p3, p4, p5}
  Limit = 2
  Full = 4
  Macro = FALSE
  Witness = "none"
  MaxId = 13
  MaxJobs = 2
  MaxFault = 0
  MaxCrash = 0
  Forge = {}
  TamperOn = FALSE
  Deviations = {}
SYMMETRY PlainSym
INVARIANTS ETypeOK Recoverable IndexRight IndexBackedByMeta FetchSound AckedFetchable WitnessState
PROPERTIES DeleteOnlyCovered WitnessStep
CHECK_DEADLOCK FALSE
