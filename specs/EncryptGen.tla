---------------------------- MODULE EncryptGen ----------------------------
(* Scenario enumerator for the encrypt store (C11).  Each scenario is one initial state; the invariant prints
   it as JSON; harness/cmd/c11 runs it on the real store and Trace_Encrypt validates what was recorded.

   hist    n receives (the code compacts when MORE than 100 small meta blobs are tracked, so the first
           compaction starts inside receive 101, the second inside receive 201), restarts - index kept or
           wiped - at points chosen relative to the compaction steps: before any compaction (60), right after
           the first one (101), between two (150), right after the second (202), at the end.
           jitter: seeded delays at every lower-layer call and the blob with the smallest ref as the 101st, so
           that the job's first index read overtakes that receive's index.Set: the job gives up, >100 small
           meta blobs stay until a start-up scan compacts them.
   long    histories past FullMetaBlobSize (Full = 10000 lines): the packed meta blob that rolls on from compaction to
           compaction (101, 201, ... lines) exceeds Full inside receive Full + 1 and is then left alone; the next
           compaction (receive Full + Limit + 2) packs only the Limit + 1 one-entry meta blobs recorded since.  n =
           Full + Limit + 50 receives; restarts - index kept or wiped - before the crossing (Full - 50), right at it
           (Full + 1), after it (Full + 50: the start-up scan must leave the full meta blob alone); always a final
           restart from the wrapped stores alone with a fetch of every blob.  Recorded with macro lines (see
           Trace_Encrypt.tla); raw = one line per lower-layer call over the whole history (thorough tier, once).
   crash   the process dies at a lower-layer call of the receive that triggers the compaction and of the job it
           starts: w<i> = i-th call of that window (index duplicate check, blobs.ReceiveBlob, meta.ReceiveBlob
           of the one-entry meta, index.Set / first index reads of the job), m<pct> = inside the job's index
           reads, e2 = the packed meta's ReceiveBlob, e1 = RemoveBlobs of the small meta blobs, rmpartial = half
           way through that RemoveBlobs, e0 = after the last call; restart with the index kept or wiped;
           `second`: a second crash inside the compaction that the restart itself starts (same classes,
           relative to the restart's own calls); cont = receives after the restart (105: through the next
           compaction).
   fault   a lower-layer call of the same window (same classes `at` as crash) returns an injected error ONCE and the
           process goes on: fk = "error" (the call had no effect) | "after" (it took effect but reported an error;
           the gate stores know both kinds for every mutating call); at = rmpartial: RemoveBlobs removes half of the
           small meta blobs and fails.  Projection and client view right after the failed call, cont further uploads
           (105: through the next compaction), a restart - index kept or wiped -, projection and client view again.
   tamper  target in ciphertext of a big / tiny blob, one-entry meta blob, packed meta blob; kind in single-bit
           flip at a position class of the age file (version byte, header text, header MAC, payload, last byte;
           "all" = every byte), truncation by 1 / to half / to nothing, extension by one byte, swap with another
           object of the same store, swap ciphertext <-> meta blob, and "forge": the ciphertext of a user blob
           whose plaintext is a well-formed meta file copied over a meta blob. *)
EXTENDS Naturals, FiniteSets, Sequences, SequencesExt, TLC, Json

CONSTANTS Tier,     \* "quick" | "thorough"
          Limit, Full   \* encrypt.SmallMetaCountLimit, encrypt.FullMetaBlobSize of the code under test

VARIABLES kind, n, restarts, jitter, at, wipe, second, cont, target, tk, pos, raw, fk
gvars == <<kind, n, restarts, jitter, at, wipe, second, cont, target, tk, pos, raw, fk>>

Quick == Tier = "quick"
HistLens == IF Quick THEN {105, 230} ELSE {105, 150, 205, 230, 320}
MaxRestarts == IF Quick THEN 1 ELSE 2
Points(len) == {p \in {60, 101, 150, 202, len} : p <= len}
RestartSeqs(len) ==
  {SetToSortSeq({[at |-> a, wipe |-> w[a]] : a \in R}, LAMBDA x, y : x.at < y.at) :
      <<R, w>> \in {<<R2, w2>> \in (SUBSET Points(len)) \X [Points(len) -> BOOLEAN] :
                      /\ Cardinality(R2) <= MaxRestarts
                      /\ \A a \in Points(len) \ R2 : w2[a] = FALSE}}

LongLen == Full + Limit + 50
LongRestarts == IF Quick THEN {<<[at |-> Full + 50, wipe |-> TRUE]>>}
                ELSE {<<>>} \cup {<<[at |-> a, wipe |-> w]>> : a \in {Full - 50, Full + 1, Full + 50}, w \in BOOLEAN}
LongScenarios == {[n |-> LongLen, restarts |-> r, raw |-> FALSE] : r \in LongRestarts}
                 \cup (IF Quick THEN {} ELSE {[n |-> LongLen + Limit, restarts |-> <<[at |-> Full + 1, wipe |-> TRUE]>>, raw |-> FALSE],
                                             [n |-> LongLen, restarts |-> <<[at |-> Full + 50, wipe |-> TRUE]>>, raw |-> TRUE]})

CrashPoints == {"w1", "w2", "w3", "w4", "w5", "m30", "m70", "e3", "e2", "e1", "e0", "rmpartial"}
SecondOf(a) == IF a \in {"e1", "e2", "rmpartial", "m70"} THEN (IF Quick THEN {"", "e1", "e2"} ELSE {"", "e0", "e1", "e2", "e3", "m50", "w1", "w3"}) ELSE {""}
ContOf(a, s) == IF s = "" /\ a \in {"e1", "e2", "w3", "rmpartial"} THEN {3, 105} ELSE {3}

FaultKinds(a) == IF a = "rmpartial" THEN {"error"} ELSE {"error", "after"}
FaultScns == IF Quick
               THEN {[at |-> a, fk |-> "error", wipe |-> w, cont |-> 3] : a \in CrashPoints, w \in BOOLEAN}
                    \cup {[at |-> a, fk |-> "error", wipe |-> TRUE, cont |-> 105] : a \in {"w4", "m30", "e2", "e1"}}
                    \cup {[at |-> a, fk |-> "after", wipe |-> TRUE, cont |-> 3] : a \in {"w2", "w3", "w4", "e2", "e1"}}
               ELSE {[at |-> a, fk |-> f, wipe |-> w, cont |-> c] : a \in CrashPoints, f \in {"error", "after"}, w \in BOOLEAN, c \in {3, 105}}
FaultFamily == {s \in FaultScns : s.fk \in FaultKinds(s.at)}

Targets == {"blob", "blobtiny", "metasingle", "metapacked"}
Kinds == {"flip", "trunc1", "trunchalf", "trunc0", "extend", "swap", "xswap"}
FlipPos(t) == {"version", "header", "mac", "body", "last"} \cup (IF ~Quick /\ t \in {"blobtiny", "metasingle", "blob"} THEN {"all"} ELSE {})

Init ==
  \/ /\ kind = "long" /\ \E s \in LongScenarios : n = s.n /\ restarts = s.restarts /\ raw = s.raw
     /\ wipe = FALSE /\ jitter = FALSE /\ at = "" /\ second = "" /\ cont = 0 /\ target = "" /\ tk = "" /\ pos = "" /\ fk = ""
  \/ /\ kind = "hist" /\ n \in HistLens /\ restarts \in RestartSeqs(n) /\ wipe = FALSE /\ jitter \in BOOLEAN
     /\ at = "" /\ second = "" /\ cont = 0 /\ target = "" /\ tk = "" /\ pos = "" /\ raw = FALSE /\ fk = ""
  \/ /\ kind = "crash" /\ at \in CrashPoints /\ wipe \in BOOLEAN /\ second \in SecondOf(at) /\ cont \in ContOf(at, second)
     /\ n = 0 /\ restarts = <<>> /\ jitter = FALSE /\ target = "" /\ tk = "" /\ pos = "" /\ raw = FALSE /\ fk = ""
  \/ /\ kind = "fault" /\ \E s \in FaultFamily : at = s.at /\ fk = s.fk /\ wipe = s.wipe /\ cont = s.cont
     /\ n = 0 /\ restarts = <<>> /\ jitter = FALSE /\ second = "" /\ target = "" /\ tk = "" /\ pos = "" /\ raw = FALSE
  \/ /\ kind = "tamper" /\ target \in Targets /\ tk \in Kinds /\ wipe \in BOOLEAN
     /\ pos \in (IF tk = "flip" THEN FlipPos(target) ELSE {"-"})
     /\ n = 0 /\ restarts = <<>> /\ jitter = FALSE /\ at = "" /\ second = "" /\ cont = 0 /\ raw = FALSE /\ fk = ""
  \/ /\ kind = "tamper" /\ target = "metasingle" /\ tk = "forge" /\ pos \in {"own", "other"} /\ wipe \in BOOLEAN
     /\ n = 0 /\ restarts = <<>> /\ jitter = FALSE /\ at = "" /\ second = "" /\ cont = 0 /\ raw = FALSE /\ fk = ""
Next == UNCHANGED gvars
Spec == Init /\ [][Next]_gvars

Emit == PrintT(<<"SCN", ToJson([kind |-> kind, n |-> n, restarts |-> restarts, jitter |-> jitter, at |-> at, wipe |-> wipe, second |-> second,
                                cont |-> cont, pre |-> Limit, target |-> target, tk |-> tk, pos |-> pos, raw |-> raw, fk |-> fk])>>)
=============================================================================
