---------------------------- MODULE Trace_Schema ----------------------------
(* Trace validation of recorded executions of the REAL pkg/schema code against Schema.tla, in collect
   mode: a line the module does not allow is reported (PrintT <<"VIOL", line, ...>>) and validation goes
   on; acceptance still requires every line to be consumed.  The Go side only projects what the real
   code returned (byte values = ids, blobrefs = small integers, errors = classes); every expected value
   is computed here, by the operators and actions of Schema.

   READER  {"ev":"tree", blobs, nodes, root, size, open}     a new part tree has been stored (reset)
           {"ev":"readat", rs:[[off, len, res, [ids]]...]}    FileReader.ReadAt for every (off, len)
           {"ev":"seqread", runs:[[buf, [[res, ids]...]]...]}  fresh readers, Read(buf) until EOF, 5 buffer sizes
           {"ev":"rop", op:"new"|"seek"|"read", ...}          one reader object driven step by step
           {"ev":"chunks", parts:[[kind, ref, off, size]...]}  ForeachChunk
   WRITER  {"ev":"wstart", len}                                a new WriteFileFromReader call (reset)
           {"ev":"upload", id, kind, size, match, parts}       one completed upload, completion order
           {"ev":"wdone", res, file, readback}                 the call returned; the file was read back
   SETS    {"ev":"dir", max, n, shape}                         a directory of n members was built (reset)
           {"ev":"members", via, res, ids}                     DirReader.StaticSet / Readdir-all
           {"ev":"readdir", k, res, pages}                     DirReader.Readdir(k) until exhausted *)
EXTENDS Schema, Json, IOUtils

VARIABLES l, dead

Trace == ndJsonDeserialize(IOEnv.TRACE_FILE)
Ev == Trace[l]
tvars == <<vars, l, dead>>

TInit == /\ l = 1 /\ dead = TRUE
         /\ RIdle /\ WIdle /\ SIdle

Is(k) == l <= Len(Trace) /\ Ev.ev = k
Step == l' = l + 1
Viol(x) == PrintT(<<"VIOL", l>> \o x)

-----------------------------------------------------------------------------
(* READER *)
ForestOf(e) ==
  LET nb == Len(e.blobs)
      ids == {e.nodes[i].id : i \in 1..Len(e.nodes)}
      nodeOf(id) == LET n == CHOOSE i \in 1..Len(e.nodes) : e.nodes[i].id = id IN
                    Node(e.nodes[n].kind, e.nodes[n].parts)
  IN [id \in (1..nb) \cup ids |-> IF id \in 1..nb THEN Chunk(e.blobs[id]) ELSE nodeOf(id)]

TTree == /\ Is("tree") /\ Step
         /\ rF' = ForestOf(Ev) /\ rRoot' = Ev.root /\ rPos' = 0 /\ rReply' = NoReply
         /\ UNCHANGED <<wvars, svars>>
         /\ IF ~WellFormed(rF', rRoot') THEN Viol(<<"tree", "input-not-well-formed">>) /\ dead' = TRUE
            ELSE IF Ev.open # "ok" \/ Ev.size # SizeOf(rF', rRoot')
                 THEN Viol(<<"open", StartClass(rF', rRoot', 0), "size", "unexplained", <<"ok", SizeOf(rF', rRoot')>>, <<Ev.open, Ev.size>>>>) /\ dead' = TRUE
                 ELSE dead' = FALSE

(* io.ReaderAt: all the bytes [off, off+len) that exist, and an error exactly when they are fewer than len *)
ReadAtRes(size, off, len) == IF len = 0 THEN {"ok", "eof"} ELSE IF off + len <= size THEN {"ok"} ELSE {"eof"}
ReadAtBad(D, size, r) == r[4] # Slice(D, r[1], r[2]) \/ r[3] \notin ReadAtRes(size, r[1], r[2])
TReadAt == /\ Is("readat") /\ ~dead /\ Step /\ UNCHANGED <<vars, dead>>
           /\ LET D == Denote(rF, rRoot)
                  size == SizeOf(rF, rRoot)
                  bad == {i \in 1..Len(Ev.rs) : ReadAtBad(D, size, Ev.rs[i])}
              IN IF bad = {} THEN TRUE ELSE
                 LET i == CHOOSE j \in bad : \A k \in bad : j <= k
                     r == Ev.rs[i]
                     devs == {j \in bad : Ev.rs[j][4] = MReadAt(rF, rRoot, Ev.rs[j][1], Ev.rs[j][2])} IN
                 Viol(<<"readat", StartClass(rF, rRoot, r[1]),
                        IF r[4] # Slice(D, r[1], r[2]) THEN "bytes" ELSE "res",
                        IF devs = bad THEN "as-deviation" ELSE "unexplained",
                        [off |-> r[1], len |-> r[2], expected |-> Slice(D, r[1], r[2]), got |-> r[4], res |-> r[3]],
                        Cardinality(bad), Len(Ev.rs),
                        \* how many of the bad reads are exactly what the mechanism with the believed deviation returns
                        Cardinality(devs),
                        {StartClass(rF, rRoot, Ev.rs[j][1]) : j \in bad}>>)

(* a fresh reader read to the end with one buffer size: each Read is a reply RRead allows at that position *)
RECURSIVE SeqReadBad(_, _, _, _)
SeqReadBad(chunks, i, pos, buf) ==      \* 0 = fine, else the index of the first Read that is not allowed
  IF i > Len(chunks) THEN 0
  ELSE LET c == chunks[i]
           r == RR("read", c[1], pos + Len(c[2]), c[2]) IN
       IF r \notin ReadRepliesAt(rF, rRoot, pos, buf) THEN i
       ELSE IF c[1] = "eof" THEN (IF i = Len(chunks) THEN 0 ELSE i + 1)
       ELSE SeqReadBad(chunks, i + 1, pos + Len(c[2]), buf)
(* what the mechanism (with the believed deviations of the configuration) delivers for sequential reads *)
RECURSIVE MSeq(_, _)
MSeq(pos, buf) == LET size == SizeOf(rF, rRoot) IN
                  IF pos >= size THEN <<>>
                  ELSE LET r == MReadAt(rF, rRoot, pos, Min2(buf, size - pos)) IN
                       IF Len(r) = 0 THEN <<>> ELSE r \o MSeq(pos + Len(r), buf)
RECURSIVE CatChunks(_, _)
CatChunks(chunks, i) == IF i > Len(chunks) THEN <<>> ELSE chunks[i][2] \o CatChunks(chunks, i + 1)
RunBad(run) ==       \* run = <<buf, chunks>>
  LET b == SeqReadBad(run[2], 1, 0, run[1])
      all == CatChunks(run[2], 1) IN
  ~(b = 0 /\ all = Denote(rF, rRoot) /\ run[2][Len(run[2])][1] = "eof")
TSeqRead == /\ Is("seqread") /\ ~dead /\ Step /\ UNCHANGED <<vars, dead>>
            /\ LET bad == {i \in 1..Len(Ev.runs) : RunBad(Ev.runs[i])} IN
               IF bad = {} THEN TRUE ELSE
               LET run == Ev.runs[CHOOSE j \in bad : \A k \in bad : j <= k]
                   b == SeqReadBad(run[2], 1, 0, run[1])
                   all == CatChunks(run[2], 1)
                   D == Denote(rF, rRoot)
                   devs == {i \in bad : CatChunks(Ev.runs[i][2], 1) # D /\ CatChunks(Ev.runs[i][2], 1) = MSeq(0, Ev.runs[i][1])} IN
               Viol(<<"seqread", StartClass(rF, rRoot, Len(CatChunks(SubSeq(run[2], 1, Max2(b, 1) - 1), 1))),
                      IF all = D THEN "res" ELSE "bytes",
                      IF devs = bad THEN "as-deviation" ELSE "unexplained",
                      [buf |-> run[1], expected |-> D, got |-> all, firstbad |-> b], Cardinality(bad), Len(Ev.runs)>>)

(* one reader object, step by step: the module's own actions *)
TRopNew == /\ Is("rop") /\ Ev.op = "new" /\ Step
           /\ rF # <<>>
           /\ rPos' = 0 /\ rReply' = NoReply /\ dead' = FALSE
           /\ UNCHANGED <<rF, rRoot, wvars, svars>>
TRopSeek == /\ Is("rop") /\ Ev.op = "seek" /\ ~dead /\ Step /\ UNCHANGED <<wvars, svars>>
            /\ LET exp == RSeekReply(Ev.whence, Ev.off) IN
               IF exp.res = Ev.res /\ (Ev.res = "ok" => exp.pos = Ev.pos)
               THEN RSeek(Ev.whence, Ev.off) /\ dead' = FALSE
               ELSE /\ Viol(<<"seek", StartClass(rF, rRoot, rPos), "res", "unexplained", [expected |-> exp, got |-> <<Ev.res, Ev.pos>>]>>)
                    /\ dead' = TRUE /\ UNCHANGED rvars
TRopRead == /\ Is("rop") /\ Ev.op = "read" /\ ~dead /\ Step /\ UNCHANGED <<wvars, svars>>
            /\ LET got == RR("read", Ev.res, rPos + Len(Ev.ids), Ev.ids) IN
               IF got \in RReadReplies(Ev.n)
               THEN RRead(Ev.n) /\ rReply' = got /\ dead' = FALSE
               ELSE /\ Viol(<<"read", StartClass(rF, rRoot, rPos),
                              IF Ev.ids = ReadAt(rF, rRoot, rPos, Len(Ev.ids)) THEN "res" ELSE "bytes",
                              IF Ev.ids # ReadAt(rF, rRoot, rPos, Len(Ev.ids)) /\ Ev.ids = MReadAt(rF, rRoot, rPos, Min2(Ev.n, Max2(SizeOf(rF, rRoot) - rPos, 0)))
                                 THEN "as-deviation" ELSE "unexplained",
                              [pos |-> rPos, n |-> Ev.n, expected |-> ReadAt(rF, rRoot, rPos, Ev.n), got |-> Ev.ids, res |-> Ev.res]>>)
                    /\ dead' = TRUE /\ UNCHANGED rvars
TRopSkip == /\ Is("rop") /\ Ev.op # "new" /\ dead /\ Step /\ UNCHANGED <<vars, dead>>

PartTuple(p) == <<p.kind, p.ref, p.off, p.size>>
TChunks == /\ Is("chunks") /\ ~dead /\ Step /\ UNCHANGED <<vars, dead>>
           /\ LET w == ChunkWalk(rF, rRoot)
                  exp == [i \in 1..Len(w) |-> PartTuple(w[i])] IN
              IF Ev.res = "ok" /\ Ev.parts = exp THEN TRUE ELSE
              Viol(<<"chunks", StartClass(rF, rRoot, 0), "parts", "unexplained", [expected |-> exp, got |-> Ev.parts, res |-> Ev.res]>>)

TReaderSkip == /\ l <= Len(Trace) /\ Ev.ev \in {"readat", "seqread", "chunks"} /\ dead /\ Step /\ UNCHANGED <<vars, dead>>

-----------------------------------------------------------------------------
(* WRITER *)
TWStart == /\ Is("wstart") /\ Step
           /\ wN' = Ev.len /\ wF' = <<>> /\ wM' = <<>> /\ wFile' = NoFile /\ wAfter' = 0 /\ wPlan' = <<>>
           /\ dead' = FALSE /\ UNCHANGED <<rvars, svars>>

EvNode(e) == IF e.kind = "chunk" THEN [kind |-> "chunk", size |-> e.size, data |-> <<>>, parts |-> <<>>]
             ELSE Node(e.kind, e.parts)
(* the module's Upload effect, then the module's properties on the new state *)
TUpload == /\ Is("upload") /\ ~dead /\ Step /\ UNCHANGED <<rvars, svars>>
           /\ Upload(Ev.id, EvNode(Ev), Ev.match)
           /\ IF WOk(wF', wM', wFile', wN, wAfter') THEN dead' = FALSE
              ELSE /\ dead' = TRUE
                   /\ Viol(<<"upload", Ev.kind,
                             CASE ~ChunkCap(wF') -> "chunk-cap"
                               [] ~FileLast(wAfter') -> "upload-after-file"
                               [] ~Closed(wF', wFile'[1]) -> "file-before-parts"
                               [] ~WellFormed(wF', wFile'[1]) -> "file-not-well-formed"
                               [] SizeOf(wF', wFile'[1]) # wN -> "file-size"
                               [] OTHER -> "file-denotes-other-bytes",
                             [id |-> Ev.id, size |-> Ev.size, len |-> wN, uploads |-> Cardinality(DOMAIN wF')]>>)
TWDone == /\ Is("wdone") /\ ~dead /\ Step /\ UNCHANGED <<vars, dead>>
          /\ IF Ev.res = "ok" /\ wFile # NoFile /\ wFile[1] = Ev.file /\ Ev.readback = "full" THEN TRUE ELSE
                Viol(<<"wdone", Ev.res,
                       CASE Ev.res # "ok" -> "write-failed"
                         [] wFile = NoFile -> "no-file-blob"
                         [] wFile[1] # Ev.file -> "returned-ref-is-not-the-file-blob"
                         [] OTHER -> "readback-" \o Ev.readback,
                       [len |-> wN, uploads |-> Cardinality(DOMAIN wF)]>>)
TWriterSkip == /\ l <= Len(Trace) /\ Ev.ev \in {"upload", "wdone"} /\ dead /\ Step /\ UNCHANGED <<vars, dead>>

-----------------------------------------------------------------------------
(* STATIC SETS *)
TDir == /\ Is("dir") /\ Step
        /\ sMax' = Ev.max /\ sN' = Ev.n /\ UNCHANGED <<rvars, wvars>>
        /\ LET want == Ids(Ev.n) IN
           /\ (IF Ev.shape = Spread(want, Ev.max) THEN TRUE ELSE PrintT(<<"DRIFT", l, "static-set blobs differ from Spread", Ev.max, Ev.n>>))
           /\ IF Ev.res = "ok" /\ SameBag(Members(Ev.shape), want) THEN dead' = FALSE
              ELSE Viol(<<"dir", Ev.res, "spread", [max |-> Ev.max, n |-> Ev.n, got |-> Len(Members(Ev.shape))]>>) /\ dead' = TRUE
SetDiff(ids, want) == [missing |-> Cardinality(SeqRange(want) \ SeqRange(ids)),
                       extra |-> Cardinality(SeqRange(ids) \ SeqRange(want)),
                       dups |-> Len(ids) - Cardinality(SeqRange(ids))]
TMembers == /\ Is("members") /\ ~dead /\ Step /\ UNCHANGED <<vars, dead>>
            /\ LET want == Members(Spread(Ids(sN), sMax)) IN
               IF Ev.res = "ok" /\ (Ev.ids = want \/ SameBag(Ev.ids, want)) THEN TRUE ELSE
               Viol(<<"members", Ev.via, "list", [max |-> sMax, n |-> sN, res |-> Ev.res, diff |-> SetDiff(Ev.ids, want)]>>)
TReaddir == /\ Is("readdir") /\ ~dead /\ Step /\ UNCHANGED <<vars, dead>>
            /\ LET want == Members(Spread(Ids(sN), sMax))
                   all == FlattenSeqs(Ev.pages, 1) IN
               IF Ev.res = "ok" /\ (all = want \/ SameBag(all, want)) /\ (\A i \in 1..Len(Ev.pages) : Len(Ev.pages[i]) <= Ev.k /\ Len(Ev.pages[i]) >= 1) THEN TRUE ELSE
               Viol(<<"readdir", Ev.k, IF SameBag(all, want) THEN "pages" ELSE "list",
                      [max |-> sMax, n |-> sN, res |-> Ev.res, diff |-> SetDiff(all, want)]>>)
TSetSkip == /\ l <= Len(Trace) /\ Ev.ev \in {"members", "readdir"} /\ dead /\ Step /\ UNCHANGED <<vars, dead>>

TNext == \/ TTree \/ TReadAt \/ TSeqRead \/ TRopNew \/ TRopSeek \/ TRopRead \/ TRopSkip \/ TChunks \/ TReaderSkip
         \/ TWStart \/ TUpload \/ TWDone \/ TWriterSkip
         \/ TDir \/ TMembers \/ TReaddir \/ TSetSkip
TSpec == TInit /\ [][TNext]_tvars

TTypeOK == rPos >= 0 /\ wAfter >= 0
TraceAccepted == TLCGet("stats").diameter - 1 = Len(Trace)
=============================================================================
