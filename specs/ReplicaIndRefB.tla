-------------------------- MODULE ReplicaIndRefB --------------------------
(* Anti-drift, direction B: every behaviour of ReplicaInd is a behaviour of Replica.tla (the copy allows nothing
   that the real module forbids).  Replica's two extra variables are supplied here: Rd (never read by the write
   path; = W) and reply, which Replica!RecvRet / Replica!RemoveRet determine.  The reply of a removal is
   recomputed here (RmOk duplicates the LET of RemoveRet): a wrong duplicate makes R!Spec FAIL, never pass. *)
EXTENDS ReplicaInd
VARIABLES Rd, reply
varsB == <<vars, Rd, reply>>
R == INSTANCE Replica
RmOk == IF "RemoveBestEffort" \in Deviations THEN nSuccess > 0 ELSE nSuccess = Cardinality(W)
InitB == Init /\ Rd = W /\ reply = [op |-> "init", res |-> "ok", list |-> <<>>]
NextB == /\ Next
         /\ Rd' = Rd
         /\ reply' = (IF RecvRet THEN [op |-> "receive", res |-> ret, list |-> <<>>]
                      ELSE IF RemoveRet THEN [op |-> "remove", res |-> IF RmOk THEN "ok" ELSE "err", list |-> <<>>]
                      ELSE reply)
SpecB == InitB /\ [][NextB]_varsB
RSpec == R!Init /\ [][R!Next]_(R!vars)
=============================================================================
