------------------------------ MODULE Ingest ------------------------------
(* C02 - only bytes matching their blobref, within the size cap, are ever accepted.

   An OFFER is a (ref, bytes) pair pushed into one ingest path of perkeep over one backend:
     path      "receive"   blobserver.Receive(backend, ref, reader)           (the verified entry point)
               "put"       handlers.CreatePutUploadHandler(backend)            PUT  /camli/<ref>
               "multipart" handlers.CreateBatchUploadHandler(backend)          POST /camli/upload
               "direct"    backend.ReceiveBlob(ref, reader) of a store that re-verifies by itself
               "cond"      cond storage -> blobserver.Receive(chosen child)
     refKind   hash function the ref names: sha1 | sha224 | sha256 | unknown (no such hash registered)
     sizeKind  size of the content T the ref was computed from: s0 | s1 | small | maxm1 | max | maxp1
               (maxp1 = 16 MiB + 1 under its TRUE ref) | maxp1prefix (body of 16 MiB + 1 bytes offered
               under the ref of its first 16 MiB)
     bytesKind how the offered bytes relate to T: exact | truncated (last byte missing) | extended (one
               more byte) | bitflip | permuted
     readerKind how the source delivers them: whole | onebyte | dataeof (last bytes together with EOF)
               | error (fails half way)
   The decision table (Accepted / ErrClasses / visibility / notification) is the specification; the small
   state machine below states the order of the effects (store, then notify, then acknowledge) and is what
   TLC checks; Trace_Ingest binds both to recorded executions of the real code. *)
EXTENDS Naturals, FiniteSets, TLC

CONSTANTS Max,            \* the blob size limit (16 MiB = 16777216)
          Small,          \* the size the harness uses for "small"
          Backends,       \* backends under test
          BigBackends,    \* backends on which the sizes around Max are offered
          Deviations      \* {} = the intended behaviour.  "LimitTruncates": blobserver.receive wraps the source
                          \* in LimitReader(Max), so a longer body is silently cut and judged by its prefix (H14)

Paths == {"receive", "put", "multipart", "direct", "cond"}
RefKinds == {"sha1", "sha224", "sha256", "unknown"}
SizeKinds == {"s0", "s1", "small", "maxm1", "max", "maxp1", "maxp1prefix"}
BytesKinds == {"exact", "truncated", "extended", "bitflip", "permuted"}
ReaderKinds == {"whole", "onebyte", "dataeof", "error"}
BigSizes == {"maxm1", "max", "maxp1", "maxp1prefix"}

(* Which backend sits behind which path (facts of the code: only memory and encrypt re-verify). *)
PathBackends(p) == CASE p = "direct" -> {"memory", "encrypt"} \cap Backends
                     [] p = "cond"   -> {"condgate"} \cap Backends
                     [] OTHER        -> Backends \ {"encrypt", "condgate"}

TrueSize(sk) == CASE sk = "s0" -> 0 [] sk = "s1" -> 1 [] sk = "small" -> Small [] sk = "maxm1" -> Max - 1
                  [] sk = "max" -> Max [] sk = "maxp1" -> Max + 1 [] sk = "maxp1prefix" -> Max

Consistent(o) ==
  /\ o.backend \in PathBackends(o.path)
  /\ (o.bytesKind \in {"truncated", "bitflip"} => TrueSize(o.sizeKind) >= 1)
  /\ (o.bytesKind = "permuted" => TrueSize(o.sizeKind) >= 2)
  /\ (o.sizeKind = "maxp1prefix" => o.bytesKind = "extended")      \* the body IS the content plus one byte
  /\ (o.sizeKind \in BigSizes => o.backend \in BigBackends)

OfferSpace == [path : Paths, backend : Backends, refKind : RefKinds, sizeKind : SizeKinds,
               bytesKind : BytesKinds, readerKind : ReaderKinds]
Offers == {o \in OfferSpace : Consistent(o)}

-----------------------------------------------------------------------------
(* The decision table. *)
OfferedSize(o) == CASE o.bytesKind = "truncated" -> TrueSize(o.sizeKind) - 1
                    [] o.bytesKind = "extended"  -> TrueSize(o.sizeKind) + 1
                    [] OTHER                     -> TrueSize(o.sizeKind)
Supported(o) == o.refKind # "unknown"
Complete(o)  == o.readerKind # "error"
HashOK(o)    == o.bytesKind = "exact"
WithinCap(o) == OfferedSize(o) <= Max

(* The entry points enforce the cap.  A store's own re-verification is a digest check: by the BlobReceiver
   contract its caller guarantees the cap, so for path "direct" an over-size blob with a matching digest is
   left open (both outcomes are allowed). *)
EnforcesCap(o) == o.path # "direct"

Accepted(o) == Supported(o) /\ Complete(o) /\ HashOK(o) /\ WithinCap(o)
MayAccept(o) == Accepted(o) \/ (~EnforcesCap(o) /\ Supported(o) /\ Complete(o) /\ HashOK(o))
MustReject(o) == ~MayAccept(o)

(* Rejection classes: every reason that applies to the offer is an acceptable answer (which one is noticed
   first is the path's business: the PUT handler looks at Content-Length before the hash name, a store may
   read the source before it asks for the hash).  A digest verdict ("corrupt") needs a computable digest and
   the whole body; an over-size body may be reported as too large or - its digest cannot match within the
   cap - as corrupt. *)
ErrClasses(o) == (IF ~Supported(o) THEN {"unsupported"} ELSE {})
                 \cup (IF ~Complete(o) THEN {"srcerr"} ELSE {})
                 \cup (IF ~WithinCap(o) THEN {"toolarge"} ELSE {})
                 \cup (IF Supported(o) /\ Complete(o) /\ (~HashOK(o) \/ ~WithinCap(o)) THEN {"corrupt"} ELSE {})

(* Does an acknowledged receive on this path notify the blob hub?  (blobserver.Receive does; a store's own
   ReceiveBlob does not.) *)
Notifies(o) == o.path # "direct"

(* What the deviating implementation accepts: the body is judged by its first Max bytes. *)
DevAccepts(o) == /\ "LimitTruncates" \in Deviations /\ o.path # "direct"
                 /\ Supported(o) /\ Complete(o)
                 /\ o.bytesKind = "extended" /\ TrueSize(o.sizeKind) = Max

-----------------------------------------------------------------------------
(* Order of effects for one offer. *)
VARIABLES o, pc, visible, hub, res

ivars == <<o, pc, visible, hub, res>>

Init == /\ o \in Offers /\ pc = "start" /\ visible = FALSE /\ hub = 0 /\ res = "none"

Store == /\ pc = "start" /\ (MayAccept(o) \/ DevAccepts(o))
         /\ pc' = "stored" /\ visible' = TRUE /\ UNCHANGED <<o, hub, res>>
Notify == /\ pc = "stored" /\ Notifies(o)
          /\ pc' = "notified" /\ hub' = hub + 1 /\ UNCHANGED <<o, visible, res>>
Ack == /\ (pc = "notified" \/ (pc = "stored" /\ ~Notifies(o)))
       /\ pc' = "done" /\ res' = "ok" /\ UNCHANGED <<o, visible, hub>>
Reject == /\ pc = "start" /\ ~Accepted(o) /\ ~DevAccepts(o)
          /\ pc' = "done" /\ res' \in ErrClasses(o) /\ UNCHANGED <<o, visible, hub>>

Next == Store \/ Notify \/ Ack \/ Reject
Spec == Init /\ [][Next]_ivars

OnlyAcceptableStored == visible => MayAccept(o)
NotifyOnlyAfterStore == hub > 0 => visible /\ Notifies(o)
RejectedLeavesNoTrace == (pc = "done" /\ res # "ok") => (~visible /\ hub = 0 /\ res \in ErrClasses(o))
AcceptedIsVisible == (pc = "done" /\ res = "ok") => (visible /\ MayAccept(o) /\ hub = (IF Notifies(o) THEN 1 ELSE 0))
Decided == pc = "done" => (Accepted(o) => res = "ok") /\ (MustReject(o) => res # "ok")
NotifyAfterStoreOrder == [][hub' > hub => pc = "stored"]_ivars
=============================================================================
