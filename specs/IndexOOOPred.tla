----------------------------- MODULE IndexOOOPred -----------------------------
(* The function F(delivered set) the index must compute, whatever the arrival order (C05), as a predicate on the
   quiescent out-of-order state.  F[b] = fetch dependencies of b (blobs that must be in the blob source: signer's
   key; every part of a file; the static set of a directory), I[b] = index dependency (0 = none; a delete claim
   needs the META ROW of its target).  A blob's meta row is written by a partial or full commit, i.e. as soon as
   its fetch dependencies are there; a blob is fully indexed when, in addition, its index dependency has its
   meta row. *)
EXTENDS Naturals, FiniteSets, Sequences

HasMeta(b, D, F) == b \in D /\ F[b] \subseteq D
Indexable(b, D, F, I) == HasMeta(b, D, F) /\ (I[b] = 0 \/ HasMeta(I[b], D, F))
ExpectedHave(b, D, F, I) == IF Indexable(b, D, F, I) THEN "indexed" ELSE IF HasMeta(b, D, F) THEN "partial" ELSE "none"
OpenNeeds(b, D, F, I) == IF ~HasMeta(b, D, F) THEN {<<b, x>> : x \in F[b] \ D}
                         ELSE IF ~Indexable(b, D, F, I) THEN {<<b, I[b]>>} ELSE {}

(* have: [blob -> status]; need: set of <<needer, needed>> in memory; rows: persisted missing| rows *)
ConfluentState(All, D, F, I, have, need, rows) ==
  /\ \A b \in All : have[b] = ExpectedHave(b, D, F, I)
  \* every delivered blob that is not fully indexed is remembered as pending, in memory AND in a persisted row,
  \* for some dependency it is really waiting for
  /\ \A b \in D : ~Indexable(b, D, F, I) =>
        \E p \in OpenNeeds(b, D, F, I) : p \in need /\ p \in rows
  \* nothing is recorded as waiting that is not (no stale edge keeps a blob from ever being re-indexed)
  /\ \A p \in need : p[1] \in D /\ ~Indexable(p[1], D, F, I)
  /\ \A p \in rows : p[1] \in D /\ ~Indexable(p[1], D, F, I)
=============================================================================
