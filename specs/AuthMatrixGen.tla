---------------------------- MODULE AuthMatrixGen ----------------------------
(* Enumerates the abstract request cells (sub-path class x method x credentials); the driver
   instantiates each of them below every pattern the real server installed and records which
   handler type answered.  The expected class is NOT emitted: Trace_AuthMatrix recomputes it. *)
EXTENDS AuthMatrix, Json
VARIABLE g
GInit == g \in [sub : Subs, method : Methods, creds : Creds] /\ cell = NoCell
GNext == UNCHANGED <<g, cell>>
GSpec == GInit /\ [][GNext]_<<g, cell>>
Emit == PrintT(<<"CELL", ToJson(g)>>)
=============================================================================
