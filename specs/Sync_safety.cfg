SPECIFICATION Spec
CONSTANTS
  Blobs = {1, 2, 3}
  MaxCrashes = 1
  Deviations = {}
INVARIANTS TypeOK DurablePending MemoryCoversQueue QueuedInSource
PROPERTIES RowDeletedOnlyAfterDestAck
CHECK_DEADLOCK FALSE
