----------------------------- MODULE Trace_Share -----------------------------
(* Validation of recorded executions of the REAL share handler (created through
   blobserver.CreateHandler("share") over a real index, called through httptest) against Share.

   Trace lines (ndjson, written by harness/cmd/c17 -mode share):
     {"ev":"world","name":..,"state":"live"|"reopened","now":N,"items":[item records],"refs":[..]}
         a new store: the blobs were built from exactly these records, stored, indexed; with
         state = "reopened" a fresh index was opened over the same rows before any request
     {"ev":"req","chain":[ids],"method":..,"asm":bool,"cls":<reply class>,"gen":bool,"gserved":bool}
         one unauthenticated request  /<last>?via=<others>[&assemble=1]  and the class of the reply;
         gen: the request came from ShareGen, gserved is the generator's Served(chain)

   Every request is judged by the module's own operators, recomputed from the world JSON:
   cls \in Allowed(world, now, chain, method, asm), in particular Served(chain) <=> "exact".
   Requests are independent of each other, so the spec runs in collect mode: a line whose class is
   not allowed is reported as
     <<"VIOL", line, state, method, asm, ShareState, PathClass, expectation, observed, explaining deviations>>
   and validation continues; acceptance requires every line to be consumed.  The last field lists
   the known deviations of the code (Share!KnownDeviations) under which the mechanism model would
   produce exactly the observed class - attribution only, never used to accept a line. *)
EXTENDS Share, Json, IOUtils

VARIABLE l

Trace == ndJsonDeserialize(IOEnv.TRACE_FILE)
Ev == Trace[l]
tvars == <<vars, l>>

TInit == /\ l = 1 /\ world = <<>> /\ now = 0 /\ istate = "none" /\ req = NoReq /\ reply = "none"

TWorld == /\ l <= Len(Trace) /\ Ev.ev = "world"
          /\ world' = Ev.items /\ now' = Ev.now /\ istate' = Ev.state
          /\ req' = NoReq /\ reply' = "none" /\ l' = l + 1

(* the mechanism model with exactly the deviations D switched on *)
MechWith(D, W, t, is, ch, method, asm) ==
  LET M == INSTANCE Share WITH Deviations <- D IN M!MechOutcome(W, t, is, ch, method, asm)
Explaining(e) == {d \in KnownDeviations : MechWith({d}, world, now, istate, e.chain, e.method, e.asm) = e.cls}

TReq == /\ l <= Len(Trace) /\ Ev.ev = "req"
        /\ Request(Ev.chain, Ev.method, Ev.asm)          \* the module's own action
        /\ l' = l + 1
        /\ (~Ev.gen \/ Ev.gserved = Served(world, now, Ev.chain)
              \/ PrintT(<<"GENMISMATCH", l, Ev.chain, Ev.gserved>>))
        /\ (Ev.cls \in Allowed(world, now, Ev.chain, Ev.method, Ev.asm)
              \/ PrintT(<<"VIOL", l, istate, Ev.method, Ev.asm,
                          ShareState(world, now, Ev.chain[1]), PathClass(world, Ev.chain),
                          Expect(world, now, Ev.chain, Ev.method, Ev.asm), Ev.cls, Explaining(Ev)>>))

TNext == TWorld \/ TReq
TSpec == TInit /\ [][TNext]_tvars

(* The intended mechanism (Deviations = {}) agrees with the property on every recorded request. *)
TMechanismRefines == MechanismRefines
TraceAccepted == TLCGet("stats").diameter - 1 = Len(Trace)
=============================================================================
