SPECIFICATION BSpec
CONSTANTS
  NK = 4
  NV = 3
  BigKeys = {3}
  BigVals = {3}
  MaxBatch = 2
  MaxBufferSet = {0, 1, 2}
  StrictBack = TRUE
  ExclusiveBack = TRUE
  Deviations = {}
INVARIANTS BTypeOK NoLeakedBatch NoOversizeAnywhere MergeIsShadowedUnion
PROPERTIES RefinesDirected NeverPanicsOrHangs
VIEW BView
CHECK_DEADLOCK FALSE
