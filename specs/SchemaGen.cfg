SPECIFICATION GSpec
CONSTANTS
  Deviations = {}
  MaxChunk = 2
  MaxN = 5
  BitsSet = {1, 2, 3}
  Family = "d1"
  SetMaxes = {3}
  SetNMax = 0
  ReaderSteps = FALSE
  GMode = "g1"
  GWide = FALSE
INVARIANT Emit
CHECK_DEADLOCK FALSE
