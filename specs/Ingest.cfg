SPECIFICATION Spec
CONSTANTS
  Max = 16777216
  Small = 41
  Backends = {"memory", "localdisk", "diskpacked", "gate", "encrypt", "condgate", "replicagate", "shardgate", "nsgate", "packedgate"}
  BigBackends = {"memory", "localdisk", "diskpacked", "gate", "encrypt", "condgate", "replicagate", "shardgate", "nsgate", "packedgate"}
  Deviations = {}
INVARIANTS OnlyAcceptableStored NotifyOnlyAfterStore RejectedLeavesNoTrace AcceptedIsVisible Decided
PROPERTIES NotifyAfterStoreOrder
CHECK_DEADLOCK FALSE
