SPECIFICATION HSpec
CONSTANTS
  Blobs = {2, 4, 6}
  MaxCursor = 7
  MaxLimit = 5
  MaxStat = 2
  DefaultLimit = 2
  MaxEnum = 4
  Deviations = {}
  MaxWireLimit = 5
INVARIANTS TypeOK PagingTheorem PageShape WirePagingTheorem ContinueIffFull LongPollImmediate StatBatchTheorem GetLength RangeAgreesWithSubFetch
PROPERTIES WireRefinesMap
VIEW HView
CHECK_DEADLOCK FALSE
