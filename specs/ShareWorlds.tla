---------------------------- MODULE ShareWorlds ----------------------------
(* The small stores of blobs on which Share.tla is model-checked and from which ShareGen.tla
   enumerates request chains.  A world is a sequence of uniform item records; item i has id i
   and references only earlier items (refs are hashes: no cycles).  The same records, written
   as JSON, are what harness/cmd/c17 turns into real signed blobs (verif/world), a blob store
   and a real index, and what Trace_Share.tla reads back from the trace.

     key        the signer's public key (always item 1, always stored)
     permanode  a permanode
     claim      set-attribute claim on permanode `target` whose VALUE is the ref of mention[1]
                (a genuine schema blob that names a ref in a non-link field)
     share      share claim: target, transitive, expires (seconds after 2011-11-28; 0 = never);
                search = TRUE: a share of a SEARCH (what `pk-put share -search=..` writes): it has a
                "search" field and NO "target" (target = 0)
     delete     delete claim of item `target` (a share; or a delete = undelete)
     chunk      plain bytes; with `mention`: plain bytes that contain the text of those refs
     bytes/file `parts` (blobRef / bytesRef links); with `mention`: the refs also occur in a
                non-link JSON field of the schema blob
     staticset  "members" = children, "mergeSets" = merge
     dir        "entries" = children[1]
   stored = FALSE: the blob exists (has a ref) but is neither in the store nor indexed. *)
EXTENDS Integers, Sequences

It(id, kind) == [id |-> id, kind |-> kind, target |-> 0, transitive |-> FALSE, expires |-> 0, search |-> FALSE,
                 parts |-> <<>>, children |-> <<>>, merge |-> <<>>, mention |-> <<>>, stored |-> TRUE]
Blob(ref)  == [kind |-> "blob",  ref |-> ref, off |-> 0, size |-> 16]       \* every plain chunk is 16 bytes
Bytes(ref, size) == [kind |-> "bytes", ref |-> ref, off |-> 0, size |-> size]
Share(id, target, transitive, expires) ==
  [It(id, "share") EXCEPT !.target = target, !.transitive = transitive, !.expires = expires]
SearchShare(id, transitive, expires) ==
  [It(id, "share") EXCEPT !.search = TRUE, !.transitive = transitive, !.expires = expires]
Delete(id, target) == [It(id, "delete") EXCEPT !.target = target]

Past   == 100            \* 2011: long expired
Future == 1000000000     \* 2043: not yet expired
NowS   == 500000000      \* the model's clock (2027); the driver logs the real one
UnixEpoch == 0 - 1322443957   \* 1970-01-01T00:00:00Z on this axis: expired for 41 years (and "zero" to careless time code)

(* A: directory tree  dir -> static-set -> file -> (bytes -> chunk, chunk); a chunk and a file that
   merely MENTION another blob; transitive / non-transitive / expired / not-yet-expired shares. *)
WorldA == <<
  It(1, "key"),
  It(2, "chunk"),
  [It(3, "chunk") EXCEPT !.mention = <<2>>],
  [It(4, "bytes") EXCEPT !.parts = <<Blob(2)>>],
  [It(5, "file")  EXCEPT !.parts = <<Bytes(4, 16), Blob(2)>>, !.mention = <<3>>],
  [It(6, "staticset") EXCEPT !.children = <<5>>],
  [It(7, "dir") EXCEPT !.children = <<6>>],
  Share(8, 7, TRUE, 0),
  Share(9, 7, FALSE, 0),
  Share(10, 5, TRUE, Past),
  Share(11, 5, TRUE, Future) >>

(* B: deleted share, deleted-then-undeleted share, share of a (deleted) share, a delete claim
   that was never stored, a share whose target is absent. *)
WorldB == <<
  It(1, "key"),
  It(2, "chunk"),
  [It(3, "file") EXCEPT !.parts = <<Blob(2)>>],
  Share(4, 3, TRUE, 0),
  Delete(5, 4),
  Share(6, 3, TRUE, 0),
  Delete(7, 6),
  Delete(8, 7),
  Share(9, 4, FALSE, 0),
  [Delete(10, 9) EXCEPT !.stored = FALSE],
  Share(11, 10, TRUE, 0) >>

(* C: a large directory whose static-set spreads its members over "mergeSets"; a share of a
   claim whose value names a file (not a link); a transitive share of the merge set itself. *)
WorldC == <<
  It(1, "key"),
  It(2, "chunk"),
  [It(3, "file") EXCEPT !.parts = <<Blob(2)>>],
  [It(4, "staticset") EXCEPT !.children = <<3>>],
  [It(5, "staticset") EXCEPT !.merge = <<4>>],
  [It(6, "dir") EXCEPT !.children = <<5>>],
  Share(7, 6, TRUE, 0),
  It(8, "permanode"),
  [It(9, "claim") EXCEPT !.target = 8, !.mention = <<3>>],
  Share(10, 9, TRUE, 0),
  Share(11, 5, TRUE, 0) >>

(* D: shares of a search (no target): transitive, non-transitive, expired, deleted; next to them an
   ordinary share of the file and a share whose target is a search share. *)
WorldD == <<
  It(1, "key"),
  It(2, "chunk"),
  [It(3, "file") EXCEPT !.parts = <<Blob(2)>>],
  [It(4, "staticset") EXCEPT !.children = <<3>>],
  SearchShare(5, TRUE, 0),
  SearchShare(6, FALSE, 0),
  SearchShare(7, TRUE, Past),
  SearchShare(8, TRUE, 0),
  Delete(9, 8),
  Share(10, 3, TRUE, 0),
  Share(11, 5, FALSE, 0) >>

(* E: longer delete chains: a share deleted, undeleted and deleted AGAIN (three delete claims in a row), and a
   share whose undeletion stands because the claim deleting it again was never stored. *)
WorldE == <<
  It(1, "key"),
  It(2, "chunk"),
  [It(3, "file") EXCEPT !.parts = <<Blob(2)>>],
  Share(4, 3, TRUE, 0),
  Delete(5, 4),
  Delete(6, 5),
  Delete(7, 6),
  Share(8, 3, TRUE, 0),
  Delete(9, 8),
  Delete(10, 9),
  [Delete(11, 10) EXCEPT !.stored = FALSE],
  Share(12, 3, TRUE, UnixEpoch) >>

WorldSeq   == <<WorldA, WorldB, WorldC, WorldD, WorldE>>
WorldNames == <<"A-tree", "B-deletes", "C-mergesets", "D-searchshares", "E-redeleted">>
=============================================================================
