SPECIFICATION WSpec
CONSTANTS
  Deviations = {}
  MaxChunk = 2
  MaxN = 5
  BitsSet = {1, 2, 3}
  Family = "d1"
  SetMaxes = {3}
  SetNMax = 140
  ReaderSteps = FALSE
INVARIANT WChunkCap
INVARIANT WFileComplete
INVARIANT WFileLast
INVARIANT WDenoteBytes
INVARIANT WDenoteIsInput
INVARIANT WPlanSane
CHECK_DEADLOCK FALSE
