------------------------------ MODULE IndexLin ------------------------------
(* C14, index side, leg S: the interval condition that Trace_IndexLin demands of the REAL index is an invariant of
   the out-of-order indexing mechanism (IndexOOO.tla: Begin / CheckHave / Populate outside the lock / one lock section
   per commit / MarkDone, asynchronous re-indexing of ready blobs), extended by
     - the corpus (`corp`: blobs whose meta the corpus holds) and the deletes caches (`dcache`: fully indexed delete
       claims), which the code updates INSIDE the commit's lock section;
     - a reader process that calls (snapshots the lower bounds), reads rows, corpus and cache in one atomic step
       (Index.RLock) and returns;
     - the bookkeeping of the validator (started, acknowledged, sure and proved sets), computed by the SAME operators
       (IndexLinOps) from the same events: a delivery is called at StartDeliver and acknowledged at MarkDone.
   ReadsExplained: every completed read is explained by a state between the bounds (Cands).  So the bounds never
   reject a behaviour of the intended mechanism - including every lag of the asynchronous path - for all
   interleavings of 2 threads and a reader over 4 blobs (key, permanode, claim, delete claim).
   LinDev switches (sensitivity; each MUST violate ReadsExplained):
     "AckBeforeCommit"    ReceiveBlob acknowledges before its rows are committed (commit left to a goroutine)
     "CorpusAfterUnlock"  the corpus is updated after the lock section instead of inside it (torn read)
     "DeletesCacheLate"   the deletes cache is brought up to date only when no other receive is in flight
     "CorpusBeforeCommit" the corpus is updated before the rows are committed and not rolled back when the commit
                          fails (needs MaxFaults > 0: LFailCommit = the KV commit of a delivery fails without effect,
                          ReceiveBlob returns the error, the attempt is never acknowledged) *)
EXTENDS IndexOOO, IndexLinOps
CONSTANTS LinDev, MaxReads, MaxFaults
VARIABLES mode, hStarted, hDone, hSureM, hSureX, hKnownM, hKnownX, dsnap, rpc, rlb, reads, corp, dcache, quieted, bad, faults
hvars == <<mode, hStarted, hDone, hSureM, hSureX, hKnownM, hKnownX, dsnap, rpc, rlb, reads, corp, dcache, quieted, bad, faults>>
lvars == <<vars, hvars>>

RowsM == {b \in Blobs : meta[b]}
RowsX == {b \in Blobs : have[b] = "indexed"}
Dels(S) == {b \in S : IdxDep[b] # NoBlob}
NoSnap == [done |-> {}, lbm |-> {}]

LInit == /\ Init /\ mode = [t \in Threads |-> "none"] /\ hStarted = {} /\ hDone = {} /\ hSureM = {} /\ hSureX = {}
         /\ hKnownM = {} /\ hKnownX = {} /\ dsnap = [t \in Threads |-> NoSnap] /\ rpc = "idle" /\ rlb = [m |-> {}, x |-> {}]
         /\ reads = 0 /\ corp = {} /\ dcache = {} /\ quieted = FALSE /\ bad = FALSE /\ faults = 0

(* acknowledgement of the delivery thread t runs: the validator's `delivered` line *)
Ack(t) == LET b == cur[t] IN
   /\ hDone' = hDone \cup {b}
   /\ hSureM' = hSureM \cup (IF SureMetaAtAck(b, dsnap[t].done, Deps) THEN {b} ELSE {})
   /\ hSureX' = hSureX \cup (IF SureFullAtAck(b, dsnap[t].done, dsnap[t].lbm, Deps, IdxDep) THEN {b} ELSE {})
NoAck == UNCHANGED <<hDone, hSureM, hSureX>>
Early == "AckBeforeCommit" \in LinDev

LStartDeliver(t) == /\ StartDeliver(t)
                    /\ mode' = [mode EXCEPT ![t] = "deliver"] /\ hStarted' = hStarted \cup {cur'[t]}
                    /\ dsnap' = [dsnap EXCEPT ![t] = [done |-> hDone, lbm |-> hSureM \cup hKnownM]]
                    /\ UNCHANGED <<hDone, hSureM, hSureX, hKnownM, hKnownX, rpc, rlb, reads, corp, dcache, quieted, bad, faults>>
LStartReindex(t) == /\ StartReindex(t) /\ mode' = [mode EXCEPT ![t] = "reindex"]
                    /\ UNCHANGED <<hStarted, hDone, hSureM, hSureX, hKnownM, hKnownX, dsnap, rpc, rlb, reads, corp, dcache, quieted, bad, faults>>
LSilent(t) == /\ (Begin(t) \/ CheckHave(t) \/ LockMissing(t)) /\ UNCHANGED hvars
LPopulate(t) == /\ Populate(t)
                /\ IF Early /\ mode[t] = "deliver" THEN Ack(t) ELSE NoAck
                /\ UNCHANGED <<mode, hStarted, hKnownM, hKnownX, dsnap, rpc, rlb, reads, corp, dcache, quieted, bad, faults>>
LCommit(t) == /\ (LockPartial(t) \/ LockFull(t))
              /\ corp' = (IF "CorpusAfterUnlock" \in LinDev THEN corp ELSE corp \cup {cur[t]})
              /\ dcache' = (IF "DeletesCacheLate" \in LinDev THEN dcache ELSE Dels({b \in Blobs : have'[b] = "indexed"}))
              /\ UNCHANGED <<mode, hStarted, hDone, hSureM, hSureX, hKnownM, hKnownX, dsnap, rpc, rlb, reads, quieted, bad, faults>>
LMarkDone(t) == /\ MarkDone(t)
                /\ IF mode[t] = "deliver" /\ ~Early THEN Ack(t) ELSE NoAck
                /\ mode' = [mode EXCEPT ![t] = "none"]
                /\ corp' = (IF "CorpusAfterUnlock" \in LinDev THEN corp \cup ({cur[t]} \cap RowsM) ELSE corp)
                /\ dcache' = (IF "DeletesCacheLate" \in LinDev /\ pending \ {cur[t]} = {} THEN Dels(RowsX) ELSE dcache)
                /\ UNCHANGED <<hStarted, hKnownM, hKnownX, dsnap, rpc, rlb, reads, quieted, bad, faults>>

(* the commit of a DELIVERY fails without effect on the rows: ReceiveBlob returns the error (validator: a `delivered`
   line with res = "injected", which acknowledges nothing) *)
LFailCommit(t) == /\ faults < MaxFaults /\ mode[t] = "deliver" /\ pc[t] \in {"lock_partial", "lock_full"}
                  /\ faults' = faults + 1
                  /\ pc' = [pc EXCEPT ![t] = "markdone"] /\ mode' = [mode EXCEPT ![t] = "failed"]
                  /\ corp' = (IF "CorpusBeforeCommit" \in LinDev THEN corp \cup {cur[t]} ELSE corp)
                  /\ UNCHANGED <<stored, delivered, have, meta, rows, need, ready, pending, recentDone, cur, miss, restarted>>
                  /\ UNCHANGED <<hStarted, hDone, hSureM, hSureX, hKnownM, hKnownX, dsnap, rpc, rlb, reads, dcache, quieted, bad>>

(* the validator's `quiesce` line: writers joined, asynchronous indexing drained *)
LQuiesce == /\ Quiescent /\ ~quieted /\ quieted' = TRUE
            /\ hSureM' = hSureM \cup QuietM(hDone, Deps) /\ hSureX' = hSureX \cup QuietX(hDone, Deps, IdxDep)
            /\ UNCHANGED <<vars, mode, hStarted, hDone, hKnownM, hKnownX, dsnap, rpc, rlb, reads, corp, dcache, bad, faults>>

RCall == /\ rpc = "idle" /\ reads < MaxReads /\ rpc' = "called"
         /\ rlb' = [m |-> hSureM \cup hKnownM, x |-> hSureX \cup hKnownX]
         /\ UNCHANGED <<vars, mode, hStarted, hDone, hSureM, hSureX, hKnownM, hKnownX, dsnap, reads, corp, dcache, quieted, bad, faults>>
(* one Index.RLock section reads the rows, the corpus and the deletes cache; the reply is explained iff ONE candidate
   state gives all three *)
RRet == /\ rpc = "called" /\ rpc' = "idle" /\ reads' = reads + 1
        /\ LET E == {s \in Cands(rlb.m, rlb.x, hStarted, Deps, IdxDep, Blobs) :
                        s[1] = RowsM /\ s[2] = RowsX /\ corp = s[1] /\ dcache = Dels(s[2])}
           IN IF E = {} THEN bad' = TRUE /\ UNCHANGED <<hKnownM, hKnownX>>
              ELSE /\ bad' = bad /\ hKnownM' = hKnownM \cup MustM(E) /\ hKnownX' = hKnownX \cup MustX(E)
        /\ UNCHANGED <<vars, mode, hStarted, hDone, hSureM, hSureX, dsnap, rlb, corp, dcache, quieted, faults>>

LNext == \/ \E t \in Threads : LStartDeliver(t) \/ LStartReindex(t) \/ LSilent(t) \/ LPopulate(t) \/ LCommit(t) \/ LMarkDone(t) \/ LFailCommit(t)
         \/ LQuiesce \/ RCall \/ RRet
LSpec == LInit /\ [][LNext]_lvars
ReadsExplained == ~bad
(* the mechanism's own property still holds in the extended model *)
StillConfluent == Confluent
=============================================================================
