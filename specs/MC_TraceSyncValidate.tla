------------------------ MODULE MC_TraceSyncValidate ------------------------
EXTENDS Trace_SyncValidate
TraceBlobs == 1..90
TraceShards == 1..7
=============================================================================
