--------------------------- MODULE Trace_Replica ---------------------------
(* Validates recorded executions of the real replica store (driven through TLC's scenarios by the gate
   scheduler, or by seeded random drivers) against Replica.  Lines:
     cfg   {n, w, rd, min, pre}                 new scenario: configuration and initial contents
     start {b}                                  ReceiveBlob called
     done  {i, outcome}                         the gate of store i completed its ReceiveBlob (outcome as observed)
     ret   {res}                                ReceiveBlob returned
     bg    {i}                                  an upload completed after the return
     op    {op: fetch|stat|enum, ..., res, list}  reads
     op    {op: fetchf, b, down, res}             fetch while the read replicas in `down` fail every call (gate faults)
     op    {op: statf, bs, down, res, list} / {op: enumf, after, limit, down, res, list}   likewise for stat / enumerate
   The upload outcomes are not given at `start`: TLC infers them (RecvStart chooses, `done` lines prune).
   The C12 invariants are evaluated in every state of every recorded execution. *)
EXTENDS Replica, TLC, Json, IOUtils

VARIABLE l
Trace == ndJsonDeserialize(IOEnv.TRACE_FILE)
Ev == Trace[l]
tvars == <<vars, l>>

SeqSet(s) == {s[k] : k \in 1..Len(s)}
Ranks(s) == [k \in 1..Len(s) |-> s[k][1]]

TInit == /\ l = 1 /\ W = Stores /\ Rd = Stores /\ MinW = 1 /\ has = [i \in Stores |-> {}]
         /\ call = NoCall /\ outcome = [i \in Stores |-> "ok"] /\ done = {} /\ nSuccess = 0 /\ ret = "none"
         /\ acked = {} /\ removedOk = {} /\ copiesAtAck = 0 /\ pendingBg = {}
         /\ reply = [op |-> "init", res |-> "ok", list |-> <<>>]

IsEv(e) == l <= Len(Trace) /\ Ev.ev = e /\ l' = l + 1

TCfg == /\ IsEv("cfg")
        /\ W' = SeqSet(Ev.w) /\ Rd' = SeqSet(Ev.rd) /\ MinW' = Ev.min
        /\ has' = [i \in Stores |-> IF i <= Len(Ev.pre) THEN SeqSet(Ev.pre[i]) ELSE {}]
        /\ call' = NoCall /\ outcome' = [i \in Stores |-> "ok"] /\ done' = {} /\ nSuccess' = 0 /\ ret' = "none"
        /\ acked' = {} /\ removedOk' = {} /\ copiesAtAck' = 0 /\ pendingBg' = {}
        /\ reply' = [op |-> "init", res |-> "ok", list |-> <<>>]

TStart == IsEv("start") /\ RecvStart(Ev.b) /\ \A i \in Stores \ W : outcome'[i] = "ok"

TDone == /\ IsEv("done") /\ outcome[Ev.i] = Ev.outcome
         /\ (ReplicaDone(Ev.i) \/ LateDone(Ev.i))

TRet == IsEv("ret") /\ RecvRet /\ reply'.res = Ev.res

TBg == IsEv("bg") /\ \E p \in pendingBg : p[1] = Ev.i /\ Straggler(p)

TRmStart == IsEv("rmstart") /\ RemoveStart(Ev.b) /\ \A i \in Stores \ W : outcome'[i] = "ok"
TRmDone == IsEv("rmdone") /\ outcome[Ev.i] = Ev.outcome /\ RemoveDone(Ev.i)
TRmRet == IsEv("rmret") /\ RemoveRet /\ reply'.res = Ev.res

TOp == /\ IsEv("op")
       /\ CASE Ev.op = "fetch" -> Fetch(Ev.b)
            [] Ev.op = "fetchf" -> FetchF(Ev.b, SeqSet(Ev.down) \cap Rd)
            [] Ev.op = "stat"  -> Stat(SeqSet(Ev.bs))
            [] Ev.op = "enum"  -> Enumerate(Ev.after, Ev.limit)
            [] Ev.op = "statf" -> StatF(SeqSet(Ev.bs), SeqSet(Ev.down) \cap Rd)
            [] Ev.op = "enumf" -> EnumF(Ev.after, Ev.limit, SeqSet(Ev.down) \cap Rd)
       /\ (Ev.op \in {"fetch", "fetchf", "stat", "enum"} => reply'.res = Ev.res)
       /\ (Ev.op \in {"stat", "enum"} => reply'.list = Ranks(Ev.list))
       \* under loss the property accepts the complete answer or a failure (whichever the code chose)
       /\ (Ev.op = "statf" => StatAnswerOK(SeqSet(Ev.bs), SeqSet(Ev.down) \cap Rd, Ev.res, Ranks(Ev.list)))
       /\ (Ev.op = "enumf" => EnumAnswerOK(Ev.after, Ev.limit, SeqSet(Ev.down) \cap Rd, Ev.res, Ranks(Ev.list)))

TNext == TCfg \/ TStart \/ TDone \/ TRet \/ TBg \/ TOp \/ TRmStart \/ TRmDone \/ TRmRet
TSpec == TInit /\ [][TNext]_tvars

TraceAccepted == TLCGet("stats").diameter - 1 = Len(Trace)
=============================================================================
