SPECIFICATION TSpec
CONSTANTS
  Blobs = {2, 4, 6, 8, 10, 12, 14, 16}
  MaxCursor = 17
  MaxLimit = 9
INVARIANT TypeOK
POSTCONDITION TraceAccepted
CHECK_DEADLOCK FALSE
