----------------------------- MODULE BlobPacked -----------------------------
(* pkg/blobserver/blobpacked: loose blobs in `small`, zips in `large`, meta rows b:/z:/w:.  One file F with data chunks;
   ZipOf[c] says which zip a chunk goes to; the file schema blob is copied into every zip (its b: row points at the last).
   Pack steps per zip (writeAZip): ZipStore -> MetaBatch -> DeleteLoose (blob by blob, may fail) ; finally WholeRow. *)
EXTENDS Naturals, FiniteSets
CONSTANTS Chunks, F, NZips, ZipOf, Deviations, Concurrent   \* Concurrent: client calls may interleave with a running pack (C14); FALSE = sequential histories + crashes (C04)
\* Deviations: "RemoveKeepsLooseCopy" (H7), "RecoveryForgetsRemovals" (documented TODO in reindex)
Blob == Chunks \cup {F}
InZip(z) == {c \in Chunks : ZipOf[c] = z} \cup {F}
VARIABLES small, large, metaB, metaZ, metaW, removed, pk, up
vars == <<small, large, metaB, metaZ, metaW, removed, pk, up>>
Idle == [pc |-> "idle", z |-> 0, del |-> {}]
Init == small = Blob /\ large = {} /\ metaB = [b \in Blob |-> 0] /\ metaZ = {} /\ metaW = FALSE
        /\ removed = {} /\ pk = [pc |-> "start", z |-> 1, del |-> {}] /\ up = TRUE     \* all blobs acknowledged, packing triggered
\* ---- packer ----
ZipStore  == up /\ pk.pc = "start" /\ large' = large \cup {pk.z} /\ pk' = [pk EXCEPT !.pc = "meta"]
             /\ UNCHANGED <<small, metaB, metaZ, metaW, removed, up>>
MetaBatch == up /\ pk.pc = "meta" /\ metaB' = [b \in Blob |-> IF b \in InZip(pk.z) THEN pk.z ELSE metaB[b]]
             /\ metaZ' = metaZ \cup {pk.z} /\ pk' = [pk EXCEPT !.pc = "del", !.del = InZip(pk.z)]
             /\ UNCHANGED <<small, large, metaW, removed, up>>
NextZip   == IF pk.z < NZips THEN [pc |-> "start", z |-> pk.z + 1, del |-> {}] ELSE [pc |-> "whole", z |-> 0, del |-> {}]
DeleteOne == up /\ pk.pc = "del" /\ pk.del # {} /\ \E b \in pk.del :
                 small' = small \ {b} /\ pk' = [pk EXCEPT !.del = pk.del \ {b}]
             /\ UNCHANGED <<large, metaB, metaZ, metaW, removed, up>>
DeleteDone == up /\ pk.pc = "del" /\ pk' = NextZip          \* also models "RemoveBlobs on small failed; error is only logged"
              /\ UNCHANGED <<small, large, metaB, metaZ, metaW, removed, up>>
WholeRow  == up /\ pk.pc = "whole" /\ metaW' = TRUE /\ pk' = Idle /\ UNCHANGED <<small, large, metaB, metaZ, removed, up>>
\* ---- clients ----
Quiet == Concurrent \/ pk.pc = "idle"
Remove(b) == /\ up /\ Quiet /\ b \notin removed /\ removed' = removed \cup {b}
             /\ IF metaB[b] # 0
                THEN /\ metaB' = [metaB EXCEPT ![b] = 0]
                     /\ small' = IF "RemoveKeepsLooseCopy" \in Deviations THEN small ELSE small \ {b}
                ELSE small' = small \ {b} /\ UNCHANGED metaB
             /\ UNCHANGED <<large, metaZ, metaW, pk, up>>
ReReceive(b) == /\ up /\ Quiet /\ b \in removed /\ removed' = removed \ {b}
                /\ small' = IF metaB[b] # 0 THEN small ELSE small \cup {b}
                /\ UNCHANGED <<large, metaB, metaZ, metaW, pk, up>>
\* ---- crash / restart ----
Crash == up /\ up' = FALSE /\ pk' = Idle /\ UNCHANGED <<small, large, metaB, metaZ, metaW, removed>>
Reindexed(base) == [b \in Blob |-> LET zs == {z \in large : b \in InZip(z)} IN
                       IF zs = {} \/ ("RecoveryForgetsRemovals" \notin Deviations /\ b \in removed) THEN base[b]
                       ELSE CHOOSE z \in zs : \A y \in zs : y <= z]
Restart(mode) == /\ ~up /\ up' = TRUE
                 /\ metaB' = CASE mode = "none" -> metaB
                               [] mode = "fast" -> Reindexed(metaB)
                               [] mode = "full" -> Reindexed([b \in Blob |-> 0])
                 /\ metaZ' = IF mode = "none" THEN metaZ ELSE large
                 /\ metaW' = IF mode = "none" THEN metaW ELSE (large = 1..NZips)
                 /\ UNCHANGED <<small, large, removed, pk>>
Next == ZipStore \/ MetaBatch \/ DeleteOne \/ DeleteDone \/ WholeRow \/ Crash
        \/ \E b \in Blob : Remove(b) \/ ReReceive(b)
        \/ \E m \in {"none", "fast", "full"} : Restart(m)
Spec == Init /\ [][Next]_vars
\* ---- client view ----
Present(b) == metaB[b] # 0 \/ b \in small
Servable(b) == IF metaB[b] # 0 THEN metaB[b] \in large ELSE b \in small
Invisible  == up => \A b \in Blob \ removed : Present(b) /\ Servable(b)       \* packing / crash / recovery never hide an acknowledged blob
RemovedGone == up => \A b \in removed : ~Present(b)
RowsPointIntoLarge == \A b \in Blob : metaB[b] # 0 => metaB[b] \in large
WholeOnlyWhenComplete == metaW => large = 1..NZips
=============================================================================
