SPECIFICATION Spec
CONSTANTS
  Blobs = {1, 2}
  Shards = {1, 2}
  ChanCap = 1
  WorkCap = 2
  Pool = 1
  MaxFaults = 1
  MaxEnv = 0
  MaxUploads = 0
  MaxRounds = 1
  Copier = FALSE
  Deviations = {}
INVARIANTS ErrShard

CHECK_DEADLOCK FALSE
