---------------------------- MODULE Trace_Claims ----------------------------
(* Validation of recorded answers of the REAL index / corpus / search handler against the documented
   claim semantics of Claims.tla.  The trace is a concatenation of worlds; each starts with a "world"
   line carrying the harness world file (items in arrival order, ids 1..n); every following line is the
   projected reply of one query path to one question, asked after the first `n` items were delivered:

     q        attribute values of (pn, attr) at time t for a signer filter; apis says which of
              first (single value), list (all values), has (set of values reported present) were asked
     deleted  the set of item ids the path reports deleted
     mod      the permanode's modification time
     claims   the live claims the index lists for (pn, attr filter, signer filter)

   All expected answers are recomputed here, from the world, with the operators of Claims.  Collect
   mode: a line whose reply the specification does not allow is printed as <<"VIOL", line, ...>>
   together with whether the reply is what the listed deviation (H2, "IgnoreClaimDeletion") predicts,
   and validation goes on; acceptance still requires every line to be consumed. *)
EXTENDS Claims, Json, IOUtils

VARIABLE l
Trace == ndJsonDeserialize(IOEnv.TRACE_FILE)
Ev == Trace[l]
tvars == <<world, l>>

SeqToSet(s) == {s[i] : i \in 1..Len(s)}
Upto(n) == {c \in world : c.id <= n}
T3(t) == IF t = 0 THEN Zero ELSE <<t, 0>>
Asked(e, api) == api \in SeqToSet(e.apis)

(* the reply of a q line is allowed under deviation set D iff ONE admissible order explains all parts of it *)
QOk(e, D) ==
   LET Wn == Upto(e.n) IN
   \E v \in AttrValuesD(Wn, e.pn, e.attr, T3(e.t), e.signer, D) :
      /\ Asked(e, "first") => e.first = First(v)
      /\ Asked(e, "list") => (e.list = v \/ e.list = Dedup(v))
      /\ Asked(e, "has") => SeqToSet(e.has) = SeqSet(v)
      /\ ~Asked(e, "absent")
DeletedOk(e) == SeqToSet(e.ids) = DeletedSet(Upto(e.n))
ModOk(e, D) == LET m == ModTimeD(Upto(e.n), e.pn, D) IN
               IF m = Zero THEN ~e.ok ELSE e.ok /\ m = <<e.sec, e.nano>>
ClaimsOk(e) == /\ SeqToSet(e.ids) = ClaimsAbout(Upto(e.n), e.pn, e.attr, e.signer)
               /\ Len(e.ids) = Cardinality(SeqToSet(e.ids))
               /\ e.signer # 0 => e.dated          \* one signer's rows come back in date order

WithAttrOk(e, D) == /\ Len(e.pns) = Cardinality(SeqToSet(e.pns))
                    /\ WithAttrOkD(SeqToSet(e.pns), Upto(e.n), e.attr, e.v, T3(e.t), e.signer, D)

Expected(e) == CASE e.ev = "q" -> AttrValues(Upto(e.n), e.pn, e.attr, T3(e.t), e.signer)
                 [] e.ev = "deleted" -> DeletedSet(Upto(e.n))
                 [] e.ev = "mod" -> ModTime(Upto(e.n), e.pn)
                 [] e.ev = "claims" -> ClaimsAbout(Upto(e.n), e.pn, e.attr, e.signer)
                 [] e.ev = "withattr" -> <<WithAttrMustD(Upto(e.n), e.attr, e.v, T3(e.t), e.signer, {}),
                                           WithAttrMayD(Upto(e.n), e.attr, e.v, T3(e.t), e.signer, {})>>

(* class of a rejected reply: which listed deviation (if any) explains it, or what kind of difference it is *)
Class(e) ==
   CASE e.ev = "q" -> IF QOk(e, {"IgnoreClaimDeletion"}) THEN "deleted-claim-applied"
                      ELSE IF Asked(e, "absent") THEN "permanode-absent" ELSE "other-values"
     [] e.ev = "mod" -> IF ModOk(e, {"ModTimeCountsPermanodeDelete"}) THEN "permanode-delete-date-counted"
                        ELSE IF ModOk(e, {"IgnoreClaimDeletion"}) THEN "deleted-claim-date-counted" ELSE "other-time"
     [] e.ev = "deleted" -> IF DeletedSet(Upto(e.n)) \ SeqToSet(e.ids) # {} THEN "deleted-reported-live" ELSE "live-reported-deleted"
     [] e.ev = "withattr" -> IF WithAttrOk(e, {"ValueLookupIgnoresLaterClaims"}) THEN "stale-value-matched"
                             ELSE IF WithAttrMustD(Upto(e.n), e.attr, e.v, T3(e.t), e.signer, {}) \ SeqToSet(e.pns) # {} THEN "live-value-missed"
                             ELSE "other-permanodes"
     [] e.ev = "claims" -> LET exp == ClaimsAbout(Upto(e.n), e.pn, e.attr, e.signer) IN
                           IF SeqToSet(e.ids) \ exp # {} THEN
                              (IF \E x \in SeqToSet(e.ids) \ exp : Deleted(Upto(e.n), x) THEN "deleted-claim-listed" ELSE "foreign-claim-listed")
                           ELSE IF exp \ SeqToSet(e.ids) # {} THEN "live-claim-missing" ELSE "order-or-duplicate"

TInit == l = 1 /\ world = {}

TWorld == /\ l <= Len(Trace) /\ Ev.ev = "world"
          /\ world' = SeqToSet(Ev.items)
          /\ l' = l + 1

TLine == /\ l <= Len(Trace) /\ Ev.ev # "world"
         /\ l' = l + 1 /\ UNCHANGED world
         /\ LET ok == CASE Ev.ev = "q" -> QOk(Ev, {})
                        [] Ev.ev = "deleted" -> DeletedOk(Ev)
                        [] Ev.ev = "mod" -> ModOk(Ev, {})
                        [] Ev.ev = "claims" -> ClaimsOk(Ev)
                        [] Ev.ev = "withattr" -> WithAttrOk(Ev, {})
            IN ok \/ PrintT(<<"VIOL", l, Ev.ev, Ev.path, Class(Ev), Expected(Ev)>>)

TNext == TWorld \/ TLine
TSpec == TInit /\ [][TNext]_tvars

TraceAccepted == TLCGet("stats").diameter - 1 = Len(Trace)
=============================================================================
