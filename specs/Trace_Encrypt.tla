--------------------------- MODULE Trace_Encrypt ---------------------------
(* Validation of recorded runs of the real encrypt store (harness/cmd/c11) against
     - Encrypt.tla: the mechanism.  Every mutating lower-layer call the real store made on the wrapped
       `blobs` / `meta` stores and on its index is one line ("lower"); it must be the next step of the
       receive in flight or of a compaction job of the model with the code's threshold (Limit = 100).
       Quiescent projections of the REAL stores ("state": every meta blob decrypted with the harness's copy
       of the key, every ciphertext decrypted and hashed) must equal the model's state; crash projections
       ("crash": the durable state at the frozen lower-layer call) must be Recoverable; restarts must rebuild
       exactly the acknowledged map (IndexRight) from the meta blobs alone.
     - BlobStoreFault.tla: the client view (fetch / stat / enumerate / remove = refused; a receive cut by the
       crash may or may not have happened).
     - "leak" lines (byte and name scan of everything stored underneath) must be empty, "tamper" lines
       (a fresh instance on a damaged / substituted object) must report only original-or-fail outcomes.
   Known limit of the binding: the model records every meta blob once per start-up scan; the code would record a
   packed meta blob twice if the scan's second enumeration page saw the blob a start-up compaction had just
   uploaded (its ref must sort after every older one and the upload must beat the scan) - the model would then
   expect the next compaction one receive later than the code starts it.  Not observed in >10^3 start-up scans.
   One linear pass over independent segments (reset .. reset) with the `dead` give-up chain and <<"HW", line>>
   marks of Trace_BlobStoreFault; a dying live branch says why (<<"WHY", line, reason>>). *)
EXTENDS BlobStoreFault, Encrypt, Sequences, Json, IOUtils

VARIABLES l, dead
Trace == ndJsonDeserialize(IOEnv.TRACE_FILE)
Ev == Trace[l]
tvars == <<fvars, evars, l, dead>>

BlobsDef == {2 * i : i \in 1..345}
SeqToSet(s) == {s[i] : i \in 1..Len(s)}
Pairs(s) == {[p |-> s[i][1], c |-> s[i][2]] : i \in 1..Len(s)}

CanonF == /\ present' = {} /\ size' = [b \in Blobs |-> 0]
          /\ caps' = [canRemove |-> TRUE, readOnly |-> FALSE, subfetch |-> "yes"]
          /\ reply' = [op |-> "init", res |-> "ok", size |-> 0, list |-> <<>>] /\ limbo' = {}
CanonE == /\ enc' = {} /\ metas' = {} /\ heap' = {} /\ index' = {} /\ acked' = {} /\ recv' = NoRecv /\ jobs' = {}
          /\ mode' = "up" /\ todo' = {} /\ nextId' = 1 /\ tam' = NoTam /\ fents' = {} /\ ncrash' = 0

TInit == /\ l = 1 /\ dead = TRUE
         /\ present = {} /\ size = [b \in Blobs |-> 0]
         /\ caps = [canRemove |-> TRUE, readOnly |-> FALSE, subfetch |-> "yes"]
         /\ reply = [op |-> "init", res |-> "ok", size |-> 0, list |-> <<>>] /\ limbo = {}
         /\ EInit

ASSUME TLCSet(1, 0)
Mark == IF l > TLCGet(1) THEN TLCSet(1, l) /\ PrintT(<<"HW", l>>) ELSE TRUE
Check(name, cond) == IF cond THEN TRUE ELSE PrintT(<<"WHY", l, name>>) /\ FALSE
IsEv(e) == l <= Len(Trace) /\ Ev.ev = e /\ l' = l + 1
Live == ~dead /\ dead' = FALSE

TReset == /\ IsEv("reset")
          /\ present' = SeqToSet(Ev.pre)
          /\ size' = [b \in Blobs |-> IF b \div 2 <= Len(Ev.sizes) THEN Ev.sizes[b \div 2] ELSE 0]
          /\ caps' = [canRemove |-> Ev.canRemove, readOnly |-> Ev.readOnly, subfetch |-> Ev.subfetch]
          /\ reply' = [op |-> "init", res |-> "ok", size |-> 0, list |-> <<>>]
          /\ limbo' = {}
          /\ CanonE
          /\ dead' = FALSE

(* ------------------------------------------------------------------ lower-layer calls *)
ListedAll(M, E, A) == A \subseteq {e.p : e \in {x \in AllEnts(M) : [id |-> x.c, p |-> x.p] \in E}}

TLower ==
  /\ IsEv("lower") /\ Live /\ UNCHANGED fvars
  /\ CASE Ev.act = "idxmiss" ->
            \/ RecvStart(Ev.p) /\ recv'.p = Ev.p           \* the duplicate check of a new blob
            \/ \E j \in jobs : Ev.p \in j.plains /\ JobAbandon(j)
       [] Ev.act = "blobput" -> Ev.id = nextId /\ RecvBlob
       [] Ev.act = "metaput" ->
            /\ Ev.id = nextId
            /\ \/ Ev.np <= 1 /\ RecvMeta
               \/ Ev.np # 1 /\ \E j \in jobs : JobUploadFrom(j, {"get", "upload"})
       [] Ev.act = "idxset" -> recv.p = Ev.p /\ recv.c = Ev.c /\ RecvIndex
       [] Ev.act = "metadel" ->
            \E j \in jobs :
              \/ j.del = SeqToSet(Ev.ids) /\ JobDelete(j)
              \/ /\ SeqToSet(Ev.ids) # j.del /\ SeqToSet(Ev.ids) \subseteq j.del /\ j.pc = "delete"    \* cut by the crash
                 /\ metas' = {m \in metas : m.id \notin SeqToSet(Ev.ids)}
                 /\ jobs' = jobs \ {j}
                 /\ UNCHANGED <<enc, heap, index, acked, recv, mode, todo, nextId, tam, fents, ncrash>>
       [] OTHER -> FALSE
  /\ IF Ev.act = "metadel"
       THEN Check("an acknowledged blob is no longer listed in any stored meta blob (Recoverable)", ListedAll(metas', enc', acked'))
       ELSE TRUE
  /\ Mark

(* ------------------------------------------------------------------ public calls *)
Act(e) ==
  CASE e.op = "receive"  -> OkReceive(e.b)
    [] e.op = "fetch"    -> OkFetch(e.b)
    [] e.op = "stat"     -> OkStat(SeqToSet(e.bs))
    [] e.op = "enum"     -> OkEnumerate(e.after, e.limit)
    [] e.op = "remove"   -> OkRemove(SeqToSet(e.bs))
    [] OTHER             -> FALSE
Same(r, e) == r.res = e.res /\ r.size = e.size /\ r.list = e.list
FailClasses == {"frozen", "other", "failed"}

TReceiveOk ==
  /\ IsEv("op") /\ Live /\ Ev.op = "receive" /\ Ev.res = "ok"
  /\ Act(Ev) /\ Same(reply', Ev)
  /\ \/ recv = NoRecv /\ Ev.b \in Dom(index) /\ RecvStart(Ev.b)       \* duplicate: acknowledged without any write
     \/ recv.p = Ev.b /\ RecvAck
  /\ Check("acknowledged but not listed in a stored meta blob / ciphertext missing", ListedIn(metas', enc', Ev.b))
  /\ Mark

(* a receive cut by the crash (the process died: whatever it returned was never seen) *)
TReceiveCut ==
  /\ IsEv("op") /\ Live /\ Ev.op = "receive" /\ Ev.flt /\ Ev.res \in FailClasses
  /\ FailedReceive(Ev.b)
  /\ UNCHANGED evars
  /\ Mark

TRead ==
  /\ IsEv("op") /\ Live /\ Ev.op # "receive"
  /\ Act(Ev) /\ Same(reply', Ev)
  /\ UNCHANGED evars
  /\ Mark

(* ------------------------------------------------------------------ projections of the real stores *)
ProjMetas == {[id |-> Ev.metas[i][1], ents |-> Pairs(Ev.metas[i][2])] : i \in 1..Len(Ev.metas)}
ProjEnc == {[id |-> Ev.enc[i][1], p |-> Ev.enc[i][2]] : i \in 1..Len(Ev.enc)}
ProjIndex == Pairs(Ev.index)

TState ==
  /\ IsEv("state") /\ Live
  /\ Check("stored ciphertexts differ from the model's", ProjEnc = enc)
  /\ Check("stored meta blobs differ from the model's", ProjMetas = metas)
  /\ Check("index rows differ from the model's", ProjIndex = index)
  /\ Check("Recoverable", ListedAll(metas, enc, acked))
  /\ Check("IndexRight", acked \subseteq Dom(index) /\ Functional(index) /\ \A e \in index : [id |-> e.c, p |-> e.p] \in enc)
  /\ UNCHANGED <<fvars, evars>>
  /\ Mark

(* the process died; the line carries the projection of the durable state at that instant *)
TCrash ==
  /\ IsEv("crash") /\ Live
  /\ IF Ev.exact
       THEN /\ Check("crash state: stored ciphertexts differ from the model's", ProjEnc = enc)
            /\ Check("crash state: stored meta blobs differ from the model's", ProjMetas = metas)
       ELSE \* a restart was cut by a second crash: only legal changes
            /\ Check("a ciphertext disappeared", enc \subseteq ProjEnc)
            /\ Check("a meta blob disappeared whose entries are not covered", \A m \in metas \ ProjMetas : m.ents \subseteq AllEnts(ProjMetas))
            /\ Check("a new meta blob lists unknown entries", \A m \in ProjMetas \ metas : m.ents \subseteq AllEnts(metas))
  /\ enc' = ProjEnc /\ metas' = ProjMetas /\ index' = ProjIndex
  /\ Check("crash state is not Recoverable", ListedAll(ProjMetas, ProjEnc, acked))
  /\ mode' = "down" /\ heap' = {} /\ jobs' = {} /\ recv' = NoRecv /\ todo' = {} /\ ncrash' = ncrash + 1
  /\ Check("crash state: index rows differ from the model's", Ev.exact => ProjIndex = index)
  /\ nextId' = Ev.nextid
  /\ UNCHANGED <<acked, tam, fents, fvars>>
  /\ Mark

Groups == {SeqToSet(Ev.groups[i]) : i \in 1..Len(Ev.groups)}
MetaById(i) == CHOOSE m \in metas : m.id = i

(* a fresh instance: the start-up scan rebuilds the index from the meta blobs (wipe: the old rows are gone),
   records every meta blob and starts one compaction per Limit+1 recorded (groups = what the jobs then removed) *)
TRestart ==
  /\ IsEv("restart") /\ Live /\ Ev.res = "ok" /\ ~Ev.frozen
  /\ mode \in {"up", "down"} /\ jobs = {} /\ recv = NoRecv
  /\ Check("conflicting entries in the meta blobs", Functional(AllEnts(metas)))
  /\ index' = Override(IF Ev.wipe THEN {} ELSE index, AllEnts(metas))
  /\ Check("start-up compaction of unknown meta blobs", \A g \in Groups : g \subseteq Ids(metas) /\ Cardinality(g) = Limit + 1)
  /\ Check("start-up compactions overlap", \A g, h \in Groups : g = h \/ g \cap h = {})
  /\ jobs' = {[plains |-> UNION {PlainsOf(MetaById(i)) : i \in g}, del |-> g, pc |-> "get", second |-> FALSE] : g \in Groups}
  /\ heap' = {[id |-> m.id, plains |-> PlainsOf(m)] : m \in {x \in metas : x.id \notin UNION Groups}}
  /\ Check("more than Limit small meta blobs tracked without compaction", Cardinality(heap') <= Limit)
  /\ mode' = "up" /\ recv' = NoRecv /\ todo' = {}
  /\ UNCHANGED <<enc, metas, acked, nextId, tam, fents, ncrash>>
  /\ Check("IndexRight: an acknowledged blob is not in the rebuilt index", acked \subseteq Dom(index'))
  /\ Check("IndexRight: an index row without stored ciphertext", \A e \in index' : [id |-> e.c, p |-> e.p] \in enc)
  \* client view: exactly the rebuilt index; nothing but the blobs of interrupted receives may differ
  /\ present' = Dom(index')
  /\ Check("acknowledged blob lost by the restart", (present \ limbo) \subseteq present')
  /\ Check("blob appeared from nowhere", present' \subseteq present \cup limbo)
  /\ reply' = FailedReply("recover") /\ UNCHANGED <<size, caps, limbo>>
  /\ Mark

(* a start-up cut by a (second) crash: the following crash line adopts the projection *)
TRestartCut ==
  /\ IsEv("restart") /\ Live /\ Ev.frozen
  /\ UNCHANGED <<fvars, evars>>
  /\ Mark

(* ------------------------------------------------------------------ leak, tamper *)
TLeak ==
  /\ IsEv("leak") /\ Live
  /\ Check("plaintext found underneath", Len(Ev.found) = 0)
  /\ UNCHANGED <<fvars, evars>>
  /\ Mark

TTamper ==
  /\ IsEv("tamper") /\ Live
  /\ Ev.target \in TamperTargets /\ Ev.kind \in TamperKinds
  \* (re-validation with the deviation the code is believed to have attributes a rejected line to it)
  /\ Check("a fetch returned bytes that are not the original",
           \A i \in 1..Len(Ev.out) : Ev.out[i][2] \in SoundOutcomes \/ (Ev.crafted /\ Has("MetaShapedBlobAccepted")))
  /\ UNCHANGED <<fvars, evars>>
  /\ Mark

(* ------------------------------------------------------------------ giving up on a segment *)
TGiveUp == ~dead /\ l <= Len(Trace) /\ Ev.ev # "reset" /\ l' = l + 1 /\ dead' = TRUE /\ CanonF /\ CanonE
TSkip == dead /\ l <= Len(Trace) /\ Ev.ev # "reset" /\ l' = l + 1 /\ UNCHANGED <<fvars, evars, dead>>

TNext == TReset \/ TLower \/ TReceiveOk \/ TReceiveCut \/ TRead \/ TState \/ TCrash \/ TRestart \/ TRestartCut
         \/ TLeak \/ TTamper \/ TGiveUp \/ TSkip
TSpec == TInit /\ [][TNext]_tvars
TraceAccepted == TLCGet("stats").diameter - 1 = Len(Trace)
=============================================================================
