--------------------------- MODULE Trace_Encrypt ---------------------------
(* Validation of recorded runs of the real encrypt store (harness/cmd/c11) against
     - Encrypt.tla: the mechanism.  Every mutating lower-layer call the real store made on the wrapped
       `blobs` / `meta` stores and on its index is one line ("lower"); it must be the next step of the
       receive in flight or of a compaction job of the model with the code's threshold (Limit = 100).
       Quiescent projections of the REAL stores ("state": every meta blob decrypted with the harness's copy
       of the key, every ciphertext decrypted and hashed) must equal the model's state; crash projections
       ("crash": the durable state at the frozen lower-layer call) must be Recoverable; restarts must rebuild
       exactly the acknowledged map (IndexRight) from the meta blobs alone.
       A lower-layer call that returned an injected error (family "fault": res = "injected" - no effect -,
       "injected-after" - the call took effect all the same -, "partial" - half a RemoveBlobs; the process goes on) must be
       the model's FAILING step of the same call (RecvStartErr, RecvBlobFail, RecvMetaFail, RecvIndexFail, JobGetFail,
       JobUploadFail, JobDeleteFail: the receive fails unacknowledged, the job gives up with everything kept); the
       projections and the client view after it, after the continuation and after the later restart are judged by the
       same rules as everywhere else (an acknowledged blob is fetched as the original).
     - BlobStoreFault.tla: the client view (fetch / stat / enumerate / remove = refused; a receive cut by the
       crash may or may not have happened).
     - "leak" lines (byte and name scan of everything stored underneath) must be empty, "tamper" lines
       (a fresh instance on a damaged / substituted object) must report only original-or-fail outcomes.
   Known limit of the binding: the model records every meta blob once per start-up scan; the code would record a
   packed meta blob twice if the scan's second enumeration page saw the blob a start-up compaction had just
   uploaded (its ref must sort after every older one and the upload must beat the scan) - the model would then
   expect the next compaction one receive later than the code starts it.  Not observed in >10^3 start-up scans.
   Long histories (family "long": past FullMetaBlobSize = 10000 lines in one packed meta blob) come with macro
   lines: "recvn" = a run of k complete, undisturbed receive cycles (per cycle the index miss, the ciphertext's
   and the one-entry meta blob's ReceiveBlob, index.Set and the reply - all their data is in the line) is taken
   as ONE RecvBatch step of Encrypt.tla, which is k x (RecvStart, RecvBlob, RecvMeta, RecvIndex, RecvAck);
   "fetchn" = a run of fetches, each judged by FetchReply.  Everything else (the lower-layer calls of every
   compaction, a cycle a compaction's call fell into, projections, restarts) stays one line = one step.
   The heap's pop order among meta blobs of EQUAL line count is not observable: the trace spec takes them by id
   (Orders <- TOrders); this matters only if a group boundary falls inside a run of equally long meta blobs.
   One linear pass over independent segments (reset .. reset) with the `dead` give-up chain and <<"HW", line>>
   marks of Trace_BlobStoreFault; a dying live branch says why (<<"WHY", line, reason>>). *)
EXTENDS BlobStoreFault, Encrypt, Sequences, Json, IOUtils, FiniteSetsExt

VARIABLES l, dead
Trace == ndJsonDeserialize(IOEnv.TRACE_FILE)
Ev == Trace[l]
tvars == <<fvars, evars, l, dead>>

CONSTANT NBlobs      \* size of the universe of the recorded run (345 for the short families)
BlobsDef == {2 * i : i \in 1..NBlobs}
(* heap.Pop order: fewest lines first; ties by id (not observable, see above) *)
TOrders(h) == {SetToSortSeq(h, LAMBDA a, b : a.n < b.n \/ (a.n = b.n /\ a.id < b.id))}
RECURSIVE SumN(_)
SumN(S) == IF S = {} THEN 0 ELSE LET x == CHOOSE y \in S : TRUE IN x.n + SumN(S \ {x})
SeqToSet(s) == {s[i] : i \in 1..Len(s)}
Pairs(s) == {[p |-> s[i][1], c |-> s[i][2]] : i \in 1..Len(s)}

CanonF == /\ present' = {} /\ size' = [b \in Blobs |-> 0]
          /\ caps' = [canRemove |-> TRUE, readOnly |-> FALSE, subfetch |-> "yes"]
          /\ reply' = [op |-> "init", res |-> "ok", size |-> 0, list |-> <<>>] /\ limbo' = {}
CanonE == /\ enc' = {} /\ metas' = {} /\ heap' = {} /\ index' = {} /\ acked' = {} /\ recv' = NoRecv /\ jobs' = {}
          /\ mode' = "up" /\ todo' = {} /\ nextId' = 1 /\ tam' = NoTam /\ fents' = {} /\ ncrash' = 0 /\ nfault' = 0

TInit == /\ l = 1 /\ dead = TRUE
         /\ present = {} /\ size = [b \in Blobs |-> 0]
         /\ caps = [canRemove |-> TRUE, readOnly |-> FALSE, subfetch |-> "yes"]
         /\ reply = [op |-> "init", res |-> "ok", size |-> 0, list |-> <<>>] /\ limbo = {}
         /\ EInit

ASSUME TLCSet(1, 0)
Mark == IF l > TLCGet(1) THEN TLCSet(1, l) /\ PrintT(<<"HW", l>>) ELSE TRUE
Check(name, cond) == IF cond THEN TRUE ELSE PrintT(<<"WHY", l, name>>) /\ FALSE
IsEv(e) == l <= Len(Trace) /\ Ev.ev = e /\ l' = l + 1
Live == ~dead /\ dead' = FALSE

TReset == /\ IsEv("reset")
          /\ present' = SeqToSet(Ev.pre)
          /\ size' = [b \in Blobs |-> IF b \div 2 <= Len(Ev.sizes) THEN Ev.sizes[b \div 2] ELSE 0]
          /\ caps' = [canRemove |-> Ev.canRemove, readOnly |-> Ev.readOnly, subfetch |-> Ev.subfetch]
          /\ reply' = [op |-> "init", res |-> "ok", size |-> 0, list |-> <<>>]
          /\ limbo' = {}
          /\ CanonE
          /\ dead' = FALSE

(* ------------------------------------------------------------------ lower-layer calls *)
(* every plain of A is listed, with a stored ciphertext of it, in a meta blob of M (sets of ranks merged one meta
   blob at a time: TLC's UNION is quadratic in the number of elements) *)
ListedPlains(M, E) == FoldSet(LAMBDA m, acc : acc \cup {e.p : e \in {x \in m.ents : [id |-> x.c, p |-> x.p] \in E}}, {}, M)
ListedAll(M, E, A) == SubsetEq(A, ListedPlains(M, E))
TAllEnts(M) == FoldSet(LAMBDA m, acc : acc \cup m.ents, {}, M)
(* the step removed meta blobs: every entry of theirs that counts is held by a meta blob that stays (looked for in
   the ones with at least as many lines first), or its plain is listed by another entry that stays *)
HeldBy(es, K, M1, E, A) ==
  \A e \in es : e.p \in A => \/ [id |-> e.c, p |-> e.p] \in E /\ \E m2 \in K : e \in m2.ents
                             \/ ListedIn(M1, E, e.p)
StillListed(M0, M1, E, A) ==
  \A m \in {x \in M0 : x.id \notin Ids(M1)} : HeldBy(m.ents, {x \in M1 : x.n > m.n}, M1, E, A)

(* Start-up compactions that feed each other: the start-up scan goes on recording meta blobs while the compactions it
   has started run, so the packed meta blob one of them uploads can be popped, with the meta blobs recorded since, into
   the next group (Encrypt.tla: ScanOne / JobUpload interleaved).  The restart line is ONE step; a group that holds
   such a not-yet-uploaded meta blob (an id the model has not handed out yet) waits in `todo` - unused otherwise while
   a trace is followed - and becomes a job when the upload it waits for is seen: that upload is JobUploadFrom, except
   that recordMeta's push ends in that group instead of the heap. *)
UploadIntoPending(j, g) ==
  /\ Running /\ j \in jobs /\ j.pc \in {"get", "upload"} /\ SubsetEq(j.plains, Dom(index)) /\ j.n < Full
  /\ LET j1 == [j EXCEPT !.pc = "upload"]
         rest == Advance((jobs \ {j}) \cup {j1}, j1)
         M1 == metas \cup {[id |-> nextId, ents |-> {e \in index : e.p \in j.plains}, n |-> j.n]}
         G == {m \in M1 : m.id \in g} IN
     /\ metas' = M1
     /\ IF g \subseteq Ids(M1)
          THEN jobs' = rest \cup {Job(UNION {PlainsOf(m) : m \in G}, SumN(G), g)} /\ todo' = todo \ {g}
          ELSE jobs' = rest /\ todo' = todo
  /\ nextId' = nextId + 1
  /\ UNCHANGED <<enc, heap, index, acked, recv, mode, tam, fents, ncrash, nfault>>

(* a lower-layer call that succeeded *)
LowerOk ==
  CASE Ev.act = "idxmiss" ->
         \/ RecvStart(Ev.p) /\ recv'.p = Ev.p           \* the duplicate check of a new blob
         \/ \E j \in jobs : Ev.p \in j.plains /\ JobAbandon(j)
    [] Ev.act = "blobput" -> Ev.id = nextId /\ RecvBlob
    [] Ev.act = "metaput" ->
         /\ Ev.id = nextId
         /\ \/ Ev.np <= 1 /\ RecvMeta
            \/ /\ Ev.np # 1
               /\ IF \E g \in todo : nextId \in g
                    \* (np = 0: the next start-up compaction had removed it again before it could be projected)
                    THEN \E j \in jobs, g \in todo : nextId \in g /\ Ev.np \in {0, j.n} /\ UploadIntoPending(j, g)
                    ELSE /\ Check("no running job packs as many lines as the uploaded packed meta blob has",
                                  \E j \in jobs : j.pc \in {"get", "upload"} /\ j.n = Ev.np)
                         /\ \E j \in jobs : j.n = Ev.np /\ JobUploadFrom(j, {"get", "upload"})
    [] Ev.act = "idxset" -> recv.p = Ev.p /\ recv.c = Ev.c /\ RecvIndex
    [] Ev.act = "metadel" -> \E j \in jobs : j.del = SeqToSet(Ev.ids) /\ JobDelete(j)
    [] OTHER -> FALSE

(* a lower-layer call that returned an injected error (family "fault": the process goes on; "injected" = without effect,
   "injected-after" = the call took effect all the same, "partial" = RemoveBlobs removed only Ev.ids of the meta blobs it
   was given - also how the crash family cuts a RemoveBlobs half way): the model's failing step of the same call.
   An upload that failed without effect carries no line count (np = 0: nothing is stored that could be decrypted). *)
LowerFailed ==
  LET eff == Ev.res = "injected-after" IN
  CASE Ev.act = "idxget" ->
         \/ RecvStartErr(Ev.p)                           \* the duplicate check: the blob is taken for a new one
         \/ \E j \in jobs : JobGetFail(j, Ev.p)           \* the job gives up
    [] Ev.act = "blobput" -> (eff => Ev.id = nextId) /\ RecvBlobFail(eff)
    [] Ev.act = "metaput" ->
         /\ eff => Ev.id = nextId
         /\ \/ Ev.np <= 1 /\ RecvMetaFail(eff)
            \/ Ev.np # 1 /\ \E j \in jobs : (eff => j.n = Ev.np) /\ JobUploadFailFrom(j, {"get", "upload"}, eff)
    [] Ev.act = "idxset" -> recv.p = Ev.p /\ (eff => recv.c = Ev.c) /\ RecvIndexFail(eff)
    [] Ev.act = "metadel" ->
         \E j \in jobs :
           CASE Ev.res = "partial" -> SeqToSet(Ev.ids) # j.del /\ JobDeleteFail(j, SeqToSet(Ev.ids))
             [] Ev.res = "injected" -> SeqToSet(Ev.ids) = j.del /\ JobDeleteFail(j, {})
             [] Ev.res = "injected-after" -> SeqToSet(Ev.ids) = j.del /\ JobDeleteFail(j, j.del)
             [] OTHER -> FALSE
    [] OTHER -> FALSE

TLower ==
  /\ IsEv("lower") /\ Live /\ UNCHANGED fvars
  /\ CASE Ev.res = "ok" -> LowerOk
       [] Ev.res \in {"injected", "injected-after", "partial"} -> LowerFailed
       [] OTHER -> FALSE
  /\ IF Ev.act = "metadel"
       THEN Check("an acknowledged blob is no longer listed in any stored meta blob (Recoverable)", StillListed(metas, metas', enc', acked'))
       ELSE TRUE
  /\ Mark

(* ------------------------------------------------------------------ public calls *)
Act(e) ==
  CASE e.op = "receive"  -> OkReceive(e.b)
    [] e.op = "fetch"    -> OkFetch(e.b)
    [] e.op = "stat"     -> OkStat(SeqToSet(e.bs))
    [] e.op = "enum"     -> OkEnumerate(e.after, e.limit)
    [] e.op = "remove"   -> OkRemove(SeqToSet(e.bs))
    [] OTHER             -> FALSE
Same(r, e) == r.res = e.res /\ r.size = e.size /\ r.list = e.list
FailClasses == {"frozen", "other", "failed"}

TReceiveOk ==
  /\ IsEv("op") /\ Live /\ Ev.op = "receive" /\ Ev.res = "ok"
  /\ Act(Ev) /\ Same(reply', Ev)
  /\ \/ recv = NoRecv /\ Ev.b \in Dom(index) /\ RecvStart(Ev.b)       \* duplicate: acknowledged without any write
     \/ recv.p = Ev.b /\ RecvAck
  /\ Check("acknowledged but not listed in a stored meta blob / ciphertext missing", ListedIn(metas', enc', Ev.b))
  /\ Mark

(* a receive cut by the crash (the process died: whatever it returned was never seen) *)
TReceiveCut ==
  /\ IsEv("op") /\ Live /\ Ev.op = "receive" /\ Ev.flt /\ Ev.res \in FailClasses
  /\ FailedReceive(Ev.b)
  /\ UNCHANGED evars
  /\ Mark

(* a receive that failed on an injected lower-layer error (family "fault"): the model's receive has given up at the
   failing step; the client saw an error, the blob may or may not be there (BlobStoreFault: limbo) *)
TReceiveFailed ==
  /\ IsEv("op") /\ Live /\ Ev.op = "receive" /\ Ev.flt /\ Ev.res = "injected"
  /\ recv = NoRecv
  /\ FailedReceive(Ev.b)
  /\ UNCHANGED evars
  /\ Mark

(* a run of complete receive cycles of new blobs, nothing interleaved: one RecvBatch step (see the header) *)
TRecvN ==
  /\ IsEv("recvn") /\ Live
  /\ LET k == Len(Ev.ps)
         S == SeqToSet(Ev.ps) IN
     /\ Len(Ev.cs) = k /\ Len(Ev.ms) = k /\ Len(Ev.szs) = k
     /\ \A i \in 1..k : Ev.cs[i] = nextId + 2 * (i - 1) /\ Ev.ms[i] = nextId + 2 * (i - 1) + 1
     /\ ~caps.readOnly /\ \A b \in S : b % 2 = 0 /\ b >= 2 /\ b <= 2 * NBlobs
     /\ RecvBatch(Ev.ps, k)
     /\ Check("a receive acknowledged a wrong size", \A i \in 1..k : Ev.szs[i] = size[Ev.ps[i]])
     /\ present' = present \cup S /\ limbo' = limbo \ S            \* k x OkReceive
     /\ reply' = ReceiveReply(Ev.ps[k]) /\ UNCHANGED <<size, caps>>
     /\ Check("acknowledged but not listed in a stored meta blob / ciphertext missing",
              /\ \A i \in 1..k : \E m \in metas' : m.id = Ev.ms[i] /\ m.ents = {[p |-> Ev.ps[i], c |-> Ev.cs[i]]}
              /\ Cardinality(enc') = Cardinality(enc) + k)
  /\ Mark

(* a run of fetches: each reply is the map's *)
TFetchN ==
  /\ IsEv("fetchn") /\ Live
  /\ Len(Ev.bs) >= 1 /\ Len(Ev.out) = Len(Ev.bs)
  /\ Check("a fetch result (class, size) is not the map's",
           \A i \in 1..Len(Ev.bs) : LET r == FetchReply(Ev.bs[i]) IN r.res = Ev.out[i][1] /\ r.size = Ev.out[i][2])
  /\ reply' = FetchReply(Ev.bs[Len(Ev.bs)])
  /\ UNCHANGED <<present, size, caps, limbo, evars>>
  /\ Mark

TRead ==
  /\ IsEv("op") /\ Live /\ Ev.op # "receive"
  /\ Act(Ev) /\ Same(reply', Ev)
  /\ UNCHANGED evars
  /\ Mark

(* ------------------------------------------------------------------ projections of the real stores *)
ProjMetas == {[id |-> Ev.metas[i][1], ents |-> Pairs(Ev.metas[i][2]), n |-> Ev.metas[i][3]] : i \in 1..Len(Ev.metas)}
ProjEnc == {[id |-> Ev.enc[i][1], p |-> Ev.enc[i][2]] : i \in 1..Len(Ev.enc)}
ProjIndex == Pairs(Ev.index)

TState ==
  /\ IsEv("state") /\ Live
  /\ Check("stored ciphertexts differ from the model's", ProjEnc = enc)
  /\ Check("stored meta blobs differ from the model's", ProjMetas = metas)
  /\ Check("index rows differ from the model's", ProjIndex = index)
  /\ Check("Recoverable", ListedAll(metas, enc, acked))
  /\ Check("IndexRight", acked \subseteq Dom(index) /\ Functional(index) /\ \A e \in index : [id |-> e.c, p |-> e.p] \in enc)
  /\ UNCHANGED <<fvars, evars>>
  /\ Mark

(* the process died; the line carries the projection of the durable state at that instant *)
TCrash ==
  /\ IsEv("crash") /\ Live
  /\ IF Ev.exact
       THEN /\ Check("crash state: stored ciphertexts differ from the model's", ProjEnc = enc)
            /\ Check("crash state: stored meta blobs differ from the model's", ProjMetas = metas)
       ELSE \* a restart was cut by a second crash: only legal changes
            /\ Check("a ciphertext disappeared", enc \subseteq ProjEnc)
            /\ Check("a meta blob disappeared whose entries are not covered", \A m \in metas \ ProjMetas : m.ents \subseteq AllEnts(ProjMetas))
            /\ Check("a new meta blob lists unknown entries", \A m \in ProjMetas \ metas : m.ents \subseteq AllEnts(metas))
  /\ enc' = ProjEnc /\ metas' = ProjMetas /\ index' = ProjIndex
  /\ Check("crash state is not Recoverable", ListedAll(ProjMetas, ProjEnc, acked))
  /\ mode' = "down" /\ heap' = {} /\ jobs' = {} /\ recv' = NoRecv /\ todo' = {} /\ ncrash' = ncrash + 1
  /\ Check("crash state: index rows differ from the model's", Ev.exact => ProjIndex = index)
  /\ nextId' = Ev.nextid
  /\ UNCHANGED <<acked, tam, fents, nfault, fvars>>
  /\ Mark

Groups == {SeqToSet(Ev.groups[i]) : i \in 1..Len(Ev.groups)}
MetaById(i) == CHOOSE m \in metas : m.id = i

(* a fresh instance: the start-up scan rebuilds the index from the meta blobs (wipe: the old rows are gone),
   records every meta blob of at most Full lines and starts one compaction per Limit+1 recorded (groups = what
   the jobs then removed; a gather that closed a group early - more than Full lines - leaves smaller groups; a group
   may hold the packed meta blob that an earlier compaction of the same start-up uploaded meanwhile) *)
Recordable == {m \in metas : m.n <= Full}
GroupMetas(g) == {m \in metas : m.id \in g}
Waiting(g) == ~(g \subseteq Ids(metas))        \* holds the packed meta blob another start-up compaction is about to upload (see UploadIntoPending)
TRestart ==
  /\ IsEv("restart") /\ Live /\ Ev.res = "ok" /\ ~Ev.frozen
  /\ mode \in {"up", "down"} /\ jobs = {} /\ recv = NoRecv
  /\ Check("conflicting entries in the meta blobs", Functional(AllEnts(metas)))
  /\ index' = Override(IF Ev.wipe THEN {} ELSE index, AllEnts(metas))
  /\ Check("start-up compaction of unknown or full meta blobs, or of a wrong number of them",
           \A g \in Groups : /\ (g \cap Ids(metas)) \subseteq Ids(Recordable)
                              /\ \A x \in g \ Ids(metas) : x >= nextId      \* the packed meta blob of another start-up compaction
                              /\ \/ Cardinality(g) = Limit + 1
                                 \/ SumN(GroupMetas(g)) > Full
                                 \/ Cardinality(g) \in 2..Limit /\ (Waiting(g) \/ \E h \in Groups : SumN(GroupMetas(h)) > Full))
  /\ Check("start-up compactions overlap", \A g, h \in Groups : g = h \/ g \cap h = {})
  /\ jobs' = {Job(UNION {PlainsOf(m) : m \in GroupMetas(g)}, SumN(GroupMetas(g)), g) : g \in {h \in Groups : ~Waiting(h)}}
  /\ heap' = {HeapEl(m.id, PlainsOf(m), m.n) : m \in {x \in Recordable : x.id \notin UNION Groups}}
  /\ Check("more than Limit small meta blobs tracked without compaction", Cardinality(heap') <= Limit)
  /\ mode' = "up" /\ recv' = NoRecv /\ todo' = {g \in Groups : Waiting(g)}
  /\ UNCHANGED <<enc, metas, acked, nextId, tam, fents, ncrash, nfault>>
  /\ Check("IndexRight: an acknowledged blob is not in the rebuilt index", acked \subseteq Dom(index'))
  /\ Check("IndexRight: an index row without stored ciphertext", \A e \in index' : [id |-> e.c, p |-> e.p] \in enc)
  \* client view: exactly the rebuilt index; nothing but the blobs of interrupted receives may differ
  /\ present' = Dom(index')
  /\ Check("acknowledged blob lost by the restart", (present \ limbo) \subseteq present')
  /\ Check("blob appeared from nowhere", present' \subseteq present \cup limbo)
  /\ reply' = FailedReply("recover") /\ UNCHANGED <<size, caps, limbo>>
  /\ Mark

(* a start-up cut by a (second) crash: the following crash line adopts the projection *)
TRestartCut ==
  /\ IsEv("restart") /\ Live /\ Ev.frozen
  /\ UNCHANGED <<fvars, evars>>
  /\ Mark

(* ------------------------------------------------------------------ leak, tamper *)
TLeak ==
  /\ IsEv("leak") /\ Live
  /\ Check("plaintext found underneath", Len(Ev.found) = 0)
  /\ UNCHANGED <<fvars, evars>>
  /\ Mark

TTamper ==
  /\ IsEv("tamper") /\ Live
  /\ Ev.target \in TamperTargets /\ Ev.kind \in TamperKinds
  \* (re-validation with the deviation the code is believed to have attributes a rejected line to it)
  \* "gone": the fetch answered does-not-exist.  In Encrypt.tla every acknowledged plain is in Dom(index) after a
  \* tampered restart that succeeded (a damaged meta blob makes the restart fail instead), so an acknowledged blob
  \* that has silently disappeared is tampering that was not detected.
  /\ Check("an acknowledged blob silently disappeared: the damage was not detected",
           \A i \in 1..Len(Ev.out) : Ev.out[i][2] # "gone" \/ (Ev.crafted /\ Has("MetaShapedBlobAccepted")))
  /\ Check("a fetch returned bytes that are not the original",
           \A i \in 1..Len(Ev.out) : Ev.out[i][2] \in SoundOutcomes \cup {"gone"} \/ (Ev.crafted /\ Has("MetaShapedBlobAccepted")))
  /\ UNCHANGED <<fvars, evars>>
  /\ Mark

(* ------------------------------------------------------------------ giving up on a segment *)
TGiveUp == ~dead /\ l <= Len(Trace) /\ Ev.ev # "reset" /\ l' = l + 1 /\ dead' = TRUE /\ CanonF /\ CanonE
TSkip == dead /\ l <= Len(Trace) /\ Ev.ev # "reset" /\ l' = l + 1 /\ UNCHANGED <<fvars, evars, dead>>

TNext == TReset \/ TLower \/ TReceiveOk \/ TReceiveCut \/ TReceiveFailed \/ TRecvN \/ TFetchN \/ TRead \/ TState \/ TCrash \/ TRestart \/ TRestartCut
         \/ TLeak \/ TTamper \/ TGiveUp \/ TSkip
TSpec == TInit /\ [][TNext]_tvars
(* TypeOK of BlobStore (present \subseteq Blobs) said so that TLC needs no search in a set of 10^4 elements per blob *)
TTypeOK == \A b \in present : b % 2 = 0 /\ b >= 2 /\ b <= 2 * NBlobs
TraceAccepted == TLCGet("stats").diameter - 1 = Len(Trace)
=============================================================================
