SPECIFICATION TSpec
CONSTANTS
  NK = 13
  NV = 5
  BigKeys = {10}
  BigVals = {5}
  MaxBatch = 0
INVARIANTS TypeOK NoOversizeStored
POSTCONDITION TraceAccepted
CHECK_DEADLOCK FALSE
