---------------------------- MODULE JsonSignGen ----------------------------
(* Case generator for C16.  A document SHAPE is a vector of features the driver turns into a real unsigned
   schema object (extra keys of every JSON type, raw and escaped unicode, nesting with decoy camliSigner
   keys, three white-space layouts, an embedded ,"camliSig":" look-alike as a real top-level key / inside a
   nested object / escaped inside a string, and four signature times).
   Mode "base": every shape x scenario, no mutation (sign, verify, fields exposed).
   Mode "mut":  sweep shapes (the default, every single non-default feature, every all-features-on variant)
                x scenario x region x kind; the driver concretises each at every byte position of the
                region (density "every"; scenario right) or at a few positions (density "sparse").
   Each case carries the class the model expects; the trace spec recomputes it from the logged offsets. *)
EXTENDS JsonSign, TLC, Json

CONSTANT Mode
VARIABLE c

Shapes == [extra : {0, 2}, unicode : BOOLEAN, nest : BOOLEAN, ws : {0, 1, 2},
           look : {"none", "top", "nested", "escaped", "signerfold"}, time : {0, 1, 2, 3}]
Default == [extra |-> 0, unicode |-> FALSE, nest |-> FALSE, ws |-> 0, look |-> "none", time |-> 2]
NonDefault(s) == {f \in DOMAIN s : s[f] # Default[f]}
AllOn(s) == s.extra = 2 /\ s.unicode /\ s.nest /\ s.ws # 0 /\ s.look # "none"
SweepShapes == {s \in Shapes : s.time = 2 /\ (Cardinality(NonDefault(s)) <= 1 \/ AllOn(s))}
                 \cup {s \in Shapes : s.time # 2 /\ NonDefault(s) = {"time"}}

Regions == {"payload", "sep", "sig", "tail"}
Kinds == {"sub", "ins", "del"}

BaseCases == {[shape |-> s, scen |-> sc, region |-> "-", kind |-> "none", density |-> "-",
               class |-> ExpectedClass(sc, "-", "none")] : s \in Shapes, sc \in Scenarios}
MutCases == {[shape |-> s, scen |-> sc, region |-> r, kind |-> k,
              density |-> IF sc = "right" THEN "every" ELSE "sparse",
              class |-> ExpectedClass(sc, r, k)] : s \in SweepShapes, sc \in Scenarios, r \in Regions, k \in Kinds}

GInit == /\ phase = "gen" /\ pay = <<>> /\ scen = "right" /\ mut = NoMut
         /\ c \in (IF Mode = "base" THEN BaseCases ELSE MutCases)
GNext == UNCHANGED <<vars, c>>
GSpec == GInit /\ [][GNext]_<<vars, c>>
Emit == PrintT(<<"CASE", ToJson(c)>>)
=============================================================================
