SPECIFICATION LemmaSpec
CONSTANTS
  NameChars = {50, 97, 115}
  HexChars = {48, 57, 97, 102}
  Dash = 45
  DigestLen = 2
  MaxName = 2
INVARIANTS Agree Trichotomy Cursor CursorBelow
CHECK_DEADLOCK FALSE
