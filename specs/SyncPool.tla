------------------------------ MODULE SyncPool ------------------------------
(* The pass structure of the copy loop of pkg/server/sync.go on top of Sync: syncLoop / runSync / copyWorker.

     pass    runSync: enumeratePendingBlobs takes a snapshot of needCopy (batch); the feeder sends the snapshot
             blob by blob into the work channel (capacity WorkCap: 1000 in the code); while the channel is full it
             COLLECTS RESULTS instead (a select over the send and the result channel), which makes room; it starts
             at most Pool copyWorkers; when the batch is fed it closes the work channel and drains the remaining
             results (result channel capacity ResCap: 8 in the code), one result per blob fed; the pass ends when
             all results are in.
             (Until fix "runSync collects results while the work channel is full" the send was NON-BLOCKING and a
             full channel ended the feed, "break FeedWork": deviation "NonBlockingFeedCutoff".  That model step was
             too kind to the code: the enumerator goroutine stayed blocked on its channel and runSync then waited
             for it for ever - found by the full-sync family of SyncValidate, D3.)
     worker  copyWorker: takes a blob from the work channel, copies it (Sync's CopyFetch / DestReceive /
             QueueDelete / MemDelete, unchanged), sends the result into the result channel (blocks while it is
             full) and only then takes the next blob.
     loop    syncLoop: pass after pass (woken by an enqueue or by its 5 s timer).

   Sync lets the copier start a copy of any pending blob at any time; here a copy starts only in the hands of
   a worker, so the behaviours are a subset of Sync's (checked: RefinesSync) and Sync's safety carries over, but
   Sync's liveness argument does not: a copy that is never handed to a worker is never made.  Delivered is
   therefore checked again here, under weak fairness of every step of the loop.

   Deviation "BlockingFeedSmallChannel" (sensitivity; a realistic change of runSync): the work channel has Pool
   slots and the feeder's send BLOCKS.  The feeder does not drain results while it feeds, so a pass absorbs at
   most WorkCap' + Pool + ResCap blobs (work channel, one per worker blocked on its result, result channel): with
   one more pending blob the feeder, the workers and so the whole loop are blocked for ever, also after a restart
   over as many rows.  Delivered must be violated. *)
EXTENDS Sync

CONSTANTS Pool, WorkCap, ResCap

VARIABLES pc,      \* "idle" | "feed" | "drain"
          batch,   \* snapshot of needCopy not yet fed
          work,    \* blobs in the work channel
          hand,    \* blobs held by a worker (being copied, or copied and waiting to report)
          done,    \* subset of hand: copy finished (either way), result not yet sent
          res,     \* results in the result channel
          fed      \* results the feeder still has to collect
pvars == <<pc, batch, work, hand, done, res, fed>>
allvars == <<vars, pvars>>

Blocking == "BlockingFeedSmallChannel" \in Deviations
Cutoff == "NonBlockingFeedCutoff" \in Deviations
Cap == IF Blocking THEN Pool ELSE WorkCap

PoolTypeOK == /\ pc \in {"idle", "feed", "drain"} /\ batch \subseteq Blobs /\ work \subseteq Blobs
              /\ hand \subseteq Blobs /\ done \subseteq hand /\ Cardinality(hand) <= Pool
              /\ Cardinality(work) <= Cap /\ res \in 0..ResCap /\ fed \in 0..Cardinality(Blobs)
              /\ fed = Cardinality(work) + Cardinality(hand) + res
              /\ \A b \in Blobs : cst[b] # "idle" => b \in hand \ done

NoPass == pc' = "idle" /\ batch' = {} /\ work' = {} /\ hand' = {} /\ done' = {} /\ res' = 0 /\ fed' = 0

PInit == Init /\ pc = "idle" /\ batch = {} /\ work = {} /\ hand = {} /\ done = {} /\ res = 0 /\ fed = 0

(* ---- the feeder (runSync) ---- *)
BeginPass == /\ Running /\ pc = "idle" /\ needCopy # {}
             /\ pc' = "feed" /\ batch' = needCopy
             /\ UNCHANGED <<vars, work, hand, done, res, fed>>

Feed(b) == /\ pc = "feed" /\ b \in batch
           /\ IF Cardinality(work) < Cap
              THEN work' = work \cup {b} /\ batch' = batch \ {b} /\ fed' = fed + 1
              ELSE Cutoff /\ batch' = {} /\ UNCHANGED <<work, fed>>   \* the old "break FeedWork"; a send just waits
           /\ UNCHANGED <<vars, pc, hand, done, res>>

EndFeed == /\ pc = "feed" /\ batch = {} /\ pc' = "drain"
           /\ UNCHANGED <<vars, batch, work, hand, done, res, fed>>

\* the feeder takes results in its drain phase, and (the select in the feed loop) while it is feeding - but not in the
\* deviation that blocks on the send alone
Collecting == pc = "drain" \/ (pc = "feed" /\ ~Blocking /\ ~Cutoff)
DrainBuffered == /\ Collecting /\ fed > 0 /\ res > 0 /\ res' = res - 1 /\ fed' = fed - 1
                 /\ UNCHANGED <<vars, pc, batch, work, hand, done>>

\* the feeder waits at the (empty) result channel and a worker hands its result over
DrainDirect(b) == /\ Collecting /\ fed > 0 /\ res = 0 /\ b \in done
                  /\ hand' = hand \ {b} /\ done' = done \ {b} /\ fed' = fed - 1
                  /\ UNCHANGED <<vars, pc, batch, work, res>>

EndPass == /\ pc = "drain" /\ fed = 0 /\ pc' = "idle"
           /\ UNCHANGED <<vars, batch, work, hand, done, res, fed>>

(* ---- the workers (copyWorker) ---- *)
Take(b) == /\ b \in work /\ Cardinality(hand) < Pool
           /\ work' = work \ {b} /\ hand' = hand \cup {b}
           /\ UNCHANGED <<vars, pc, batch, done, res, fed>>

Finished(b, ok) == /\ done' = (IF ok THEN done ELSE done \cup {b})
                   /\ UNCHANGED <<pc, batch, work, hand, res, fed>>

PCopyFetch(b, o)   == b \in hand \ done /\ CopyFetch(b, o) /\ Finished(b, o = "ok")
PDestReceive(b, o) == DestReceive(b, o) /\ Finished(b, o = "ok")
PQueueDelete(b)    == QueueDelete(b) /\ UNCHANGED pvars
PMemDelete(b)      == MemDelete(b) /\ Finished(b, FALSE)

SendResult(b) == /\ b \in done /\ res < ResCap
                 /\ res' = res + 1 /\ hand' = hand \ {b} /\ done' = done \ {b}
                 /\ UNCHANGED <<vars, pc, batch, work, fed>>

(* ---- uploads and environment: Sync's ---- *)
PNext == \/ (Heal \/ Start \/ Reload) /\ UNCHANGED pvars
         \/ Crash /\ NoPass
         \/ BeginPass \/ EndFeed \/ DrainBuffered \/ EndPass
         \/ \E b \in Blobs : \/ (SourceAccept(b) \/ EnqueueMem(b) \/ EnqueueRow(b)) /\ UNCHANGED pvars
                             \/ Feed(b) \/ Take(b) \/ SendResult(b) \/ DrainDirect(b)
                             \/ PQueueDelete(b) \/ PMemDelete(b)
                             \/ \E o \in FetchOutcomes : PCopyFetch(b, o)
                             \/ \E o \in DestOutcomes : PDestReceive(b, o)

PFairness == /\ WF_allvars(Heal /\ UNCHANGED pvars) /\ WF_allvars(Start /\ UNCHANGED pvars)
             /\ WF_allvars(Reload /\ UNCHANGED pvars)
             /\ WF_allvars(BeginPass) /\ WF_allvars(EndFeed) /\ WF_allvars(DrainBuffered) /\ WF_allvars(EndPass)
             /\ WF_allvars(\E b \in Blobs : Feed(b))
             \* the order in which a pass feeds its batch (Go map iteration) does not starve a blob for ever; matters
             \* only when the batch does not fit the work channel (more than 1000 pending blobs in the code)
             /\ \A b \in Blobs : SF_allvars(Feed(b) /\ b \in work')
             /\ \A b \in Blobs : /\ WF_allvars(Take(b)) /\ WF_allvars(SendResult(b)) /\ WF_allvars(DrainDirect(b))
                                 /\ WF_allvars(\E o \in FetchOutcomes : PCopyFetch(b, o))
                                 /\ WF_allvars(\E o \in DestOutcomes : PDestReceive(b, o))
                                 /\ WF_allvars(PQueueDelete(b)) /\ WF_allvars(PMemDelete(b))
PSpec == PInit /\ [][PNext]_allvars /\ PFairness

\* every step of the loop is a step of Sync (or leaves Sync's variables alone)
RefinesSync == Init /\ [][Next]_vars
=============================================================================
