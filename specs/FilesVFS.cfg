SPECIFICATION Spec
CONSTANTS
  Names = {"t", "d"}
  Tmp = "t"
  Dat = "d"
  Full = 3
  Deviations = {}
INVARIANTS Durability NoTornVisible DatOnlyWhenDurable
CHECK_DEADLOCK FALSE
