SPECIFICATION TSpec
CONSTANTS
  Blobs <- BlobsDef
  MaxCursor = 100
  MaxLimit = 50
  Clients = {1, 2, 3, 4, 5, 6, 7, 8, 9, 10, 11, 12, 13, 14, 15, 16}
  Weak = FALSE
INVARIANT TypeOK
POSTCONDITION Consumed
CHECK_DEADLOCK FALSE
