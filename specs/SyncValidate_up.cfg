SPECIFICATION Spec
CONSTANTS
  Blobs = {1, 2}
  Shards = {1, 2}
  ChanCap = 1
  WorkCap = 2
  Pool = 1
  MaxFaults = 0
  MaxEnv = 0
  MaxUploads = 1
  MaxRounds = 1
  Copier = FALSE
  Deviations = {}
INVARIANTS TypeOK Complete NoSpurious ErrShard UploadsDurable NoStuck CountersExact

CHECK_DEADLOCK FALSE
