SPECIFICATION Spec
CONSTANTS
  Blobs <- BlobsDef
  Deps <- DepsDef
  IdxDep <- IdxDepDef
  Never = {}
  Threads = {1, 2}
  NoBlob = 0
  AllowRestart = TRUE
  Deviations = {}
INVARIANT Confluent
CHECK_DEADLOCK FALSE
