SPECIFICATION GSpec
CONSTANTS
  NK = 13
  NV = 5
  BigKeys = {9}
  BigVals = {5}
  MaxBatch = 2
  Mode = "mut"
  Depth = 3
  GenKeys = {4, 5, 9}
  GenVals = {1, 2, 5}
  BatchKeys = {4, 5}
  BatchVals = {1, 2}
INVARIANT Emit
VIEW GView
CHECK_DEADLOCK FALSE
