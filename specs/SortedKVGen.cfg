SPECIFICATION GSpec
CONSTANTS
  NK = 13
  NV = 5
  BigKeys = {10}
  BigVals = {5}
  MaxBatch = 2
  Mode = "mut"
  Depth = 3
  GenKeys = {5, 6, 10}
  GenVals = {1, 2, 5}
  BatchKeys = {5, 6}
  BatchVals = {1, 2}
INVARIANT Emit
VIEW GView
CHECK_DEADLOCK FALSE
