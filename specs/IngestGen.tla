---------------------------- MODULE IngestGen ----------------------------
(* Enumerates the full consistent product of offers of Ingest (one JSON object per offer).  The replies are
   not emitted: Trace_Ingest recomputes them when the recorded execution of the real code is validated. *)
EXTENDS Ingest, Json

GNext == UNCHANGED ivars
GSpec == Init /\ [][GNext]_ivars
Emit == PrintT(<<"OFFER", ToJson(o)>>)
=============================================================================
