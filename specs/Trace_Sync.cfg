SPECIFICATION TSpec
CONSTANTS
  Blobs <- TraceBlobs
  MaxCrashes = 8
  Deviations = {}
INVARIANTS TypeOK DurablePending MemoryCoversQueue QueuedInSource
POSTCONDITION Consumed
CHECK_DEADLOCK FALSE
