SPECIFICATION SpecF
CONSTANTS
  Blobs = {2, 4, 6}
  MaxCursor = 7
  MaxLimit = 3
INVARIANTS TypeOK PagingTheorem LimboOnlyAfterFailure
PROPERTIES FailureIsLocal AckedSurviveRecovery
VIEW FView
CHECK_DEADLOCK FALSE
