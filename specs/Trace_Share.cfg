SPECIFICATION TSpec
CONSTANTS
  Deviations = {}
  MaxLen = 4
INVARIANT TMechanismRefines
POSTCONDITION TraceAccepted
CHECK_DEADLOCK FALSE
