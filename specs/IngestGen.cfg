SPECIFICATION GSpec
CONSTANTS
  Max = 16777216
  Small = 41
  Backends = {"memory", "localdisk", "diskpacked", "gate", "encrypt", "condgate"}
  BigBackends = {"memory", "gate", "condgate"}
  Deviations = {}
INVARIANT Emit
CHECK_DEADLOCK FALSE
