SPECIFICATION GSpec
CONSTANTS
  Max = 16777216
  Small = 41
  Backends = {"memory", "localdisk", "diskpacked", "gate", "encrypt", "condgate", "replicagate", "shardgate", "nsgate", "packedgate"}
  BigBackends = {"memory", "gate", "condgate", "replicagate", "shardgate"}
  Deviations = {}
INVARIANT Emit
CHECK_DEADLOCK FALSE
