SPECIFICATION FSSpec
CONSTANTS
  Blobs = {1, 2}
  Shards = {1}
  ChanCap = 1
  WorkCap = 3
  Pool = 1
  MaxFaults = 1
  MaxEnv = 0
  MaxUploads = 0
  MaxRounds = 1
  Copier = TRUE
  Deviations = {}
INVARIANTS TypeOK FullSyncComplete
PROPERTIES FSQueueOnlyAfterAck
CHECK_DEADLOCK FALSE
