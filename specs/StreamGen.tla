----------------------------- MODULE StreamGen -----------------------------
(* Scenario generator for the BlobStreamer family: TLC runs Stream's mutations on the model store and, because the
   model knows how many blobs every stream call yields, writes the stream scripts itself:

     prefix (a packed / loose start state)  ->  D0..D1 mutations (receive incl. duplicates, remove, restart)
       ->  SWEEP:  stream from ""; for EVERY k a stream from "" cut after k blobs (k = 0..n); a resume with the k-th
                   token of the call that was cut after k; chained consumers that cut every call after 2 (3) blobs and
                   resume with the last token until the stream ends
       ->  one more mutation (or none)
       ->  RESUME: every token handed out by the sweep's uncut stream (now stale: appended / removed / rolled / packed /
                   restarted store), a fresh stream from "", a chained consumer, and one call per foreign token class.

   A stream op names its token by (call, idx) = "the token sent with the idx-th blob of the call-th stream call of
   this scenario"; the driver keeps the real token strings.  The generator's blob numbers are abstract ids (the
   driver maps them to real blobs; the real ranks are in the trace).  Nothing here is an expectation: the recorded
   replies are judged by Trace_Stream. *)
EXTENDS Stream, Json

CONSTANTS GenKind,   \* "dp" | "bp"
          D0, D1,    \* between D0 and D1 mutations before the sweep
          Thorough   \* bp: a second file that shares a chunk with the first

VARIABLES hist, phase, nmut, ncalls, first
gvars == <<vars, hist, phase, nmut, ncalls, first>>

RSg == [b \in Blobs |-> 1]
(* abstract ids: 2, 4 loose blobs; 6, 8, 10 the chunks of file 12; (thorough) 14 a chunk of file 16 = <<6, 14, 8>> *)
F1(cs) == [f |-> 12, chunks |-> cs, packable |-> TRUE]
F2 == [f |-> 16, chunks |-> <<6, 14, 8>>, packable |-> TRUE]
GenConfigs ==
  IF GenKind = "dp"
  THEN {[kind |-> "dp", small |-> "-", max |-> 100, rs |-> RSg, files |-> <<>>, per |-> 0, zfirst |-> FALSE, shape |-> "-"]}
  ELSE {[kind |-> "bp", small |-> s, max |-> 100, rs |-> RSg, files |-> (IF Thorough THEN <<F1(sh[2]), F2>> ELSE <<F1(sh[2])>>),
         per |-> p, zfirst |-> FALSE, shape |-> sh[1]] :
           s \in {"sorted", "dp"}, p \in {0, 1, 2}, sh \in {<<"abc", <<6, 8, 10>> >>, <<"aba", <<6, 8, 6>> >>}}

Rcv(b) == [op |-> "receive", b |-> b]
Rm(bs) == [op |-> "remove", bs |-> bs]
StartHists == IF GenKind = "dp" THEN {<<>>}
            ELSE {<<>>, <<Rcv(6), Rcv(8), Rcv(10), Rcv(12)>>, <<Rcv(2), Rcv(6), Rcv(8), Rcv(10), Rcv(12), Rcv(4)>>,
                  <<Rcv(6), Rcv(12), Rcv(8), Rcv(10)>>}
                 \cup (IF Thorough THEN {<<Rcv(6), Rcv(8), Rcv(10), Rcv(12), Rcv(14), Rcv(16)>>} ELSE {})   \* two packed files sharing chunks

SOp(cls, call, idx, cut, a) == [op |-> "stream", cls |-> cls, call |-> call, idx |-> idx, cut |-> cut, a |-> a]
RECURSIVE ChainOps(_, _, _, _, _)
ChainOps(t, ref, c, step, fuel) ==          \* this op is stream call number c + 1
  LET s == StreamOf(t).items
      op == SOp(ref.cls, ref.call, ref.idx, step, 0)
  IN IF fuel = 0 \/ Len(s) <= step THEN <<op>>
     ELSE <<op>> \o ChainOps(s[step].t, [cls |-> "item", call |-> c + 1, idx |-> step], c + 1, step, fuel - 1)
StartRef == [cls |-> "start", call |-> 0, idx |-> 0]

SweepOps(c0) ==
  LET n == Len(Full)
      A == <<SOp("start", 0, 0, -1, 0)>>                                    \* call c0 + 1
      B == [k \in 1..(n + 1) |-> SOp("start", 0, 0, k - 1, 0)]              \* calls c0 + 2 .. c0 + n + 2: cut after 0..n
      C == [k \in 1..n |-> SOp("item", c0 + 2 + k, k, -1, 0)]               \* k-th token of the call cut after k
      c1 == c0 + 1 + (n + 1) + n
      E2 == ChainOps(Start, StartRef, c1, 2, n + 1)
      E3 == IF n >= 3 THEN ChainOps(Start, StartRef, c1 + Len(E2), 3, n + 1) ELSE <<>>
  IN A \o B \o C \o E2 \o E3

ForeignClasses == IF GenKind = "dp" THEN <<"garbage", "otherkind", "negative", "midrecord", "pastpack", "pastoff">>
                  ELSE <<"garbage", "otherkind", "badpart", "pgarbage", "lgarbage", "pastmember", "secstart", "pastoff", "pastpack">>
ResumeOps(c0) ==
  LET n == Len(Full)
      R == [k \in 1..first.n |-> SOp("item", first.call, k, -1, 0)]         \* every token of the sweep, after the mutation
      S == <<SOp("start", 0, 0, -1, 0)>>
      c1 == c0 + first.n + 1
      E2 == ChainOps(Start, StartRef, c1, 2, n + 1)
      X == [i \in 1..Len(ForeignClasses) |-> SOp(ForeignClasses[i], 0, 0, -1, 0)]
      X2 == IF GenKind = "bp" THEN <<SOp("secstart", 0, 0, -1, 1)>> ELSE <<>>
  IN R \o S \o E2 \o X \o X2

GInit == /\ Init
         /\ hist = <<>> /\ phase = "prefix" /\ nmut = 0 /\ ncalls = 0 /\ first = [call |-> 0, n |-> 0]

Mutation == \/ \E b \in Blobs : (b <= 12 \/ Thorough) /\ Receive(b) /\ hist' = Append(hist, Rcv(b))
            \/ \E b \in present : RemoveB({b}) /\ hist' = Append(hist, Rm(<<b>>))
            \/ Cardinality(present) >= 2 /\ RemoveB(present) /\ hist' = Append(hist, Rm(SetToSortSeq(present, <)))
            \/ /\ hist # <<>> /\ hist[Len(hist)].op # "restart"
               /\ Restart /\ hist' = Append(hist, [op |-> "restart"])
ApplyOp(o) == IF o.op = "receive" THEN Receive(o.b) ELSE RemoveB(SeqSet(o.bs))

(* the prefix is replayed one op per step (each step has a single successor) *)
PrefixStep == /\ phase = "prefix"
              /\ \E p \in StartHists : /\ Len(p) >= Len(hist) /\ SubSeq(p, 1, Len(hist)) = hist
                                     /\ IF Len(p) = Len(hist)
                                        THEN phase' = "mut1" /\ UNCHANGED <<vars, hist>>
                                        ELSE phase' = "prefix" /\ ApplyOp(p[Len(hist) + 1]) /\ hist' = Append(hist, p[Len(hist) + 1])
              /\ UNCHANGED <<nmut, ncalls, first>>
Mut1 == /\ phase = "mut1" /\ nmut < D1 /\ Mutation /\ nmut' = nmut + 1 /\ UNCHANGED <<phase, ncalls, first>>
Sweep == /\ phase = "mut1" /\ nmut >= D0
         /\ LET ops == SweepOps(ncalls) IN hist' = hist \o ops /\ ncalls' = ncalls + Len(ops)
         /\ first' = [call |-> ncalls + 1, n |-> Len(Full)]
         /\ phase' = "mut2" /\ UNCHANGED <<vars, nmut>>
Mut2 == /\ phase = "mut2" /\ phase' = "resume" /\ UNCHANGED <<nmut, ncalls, first>>
        /\ (Mutation \/ (UNCHANGED vars /\ hist' = hist))
ResumeStep == /\ phase = "resume"
              /\ LET ops == ResumeOps(ncalls) IN hist' = hist \o ops /\ ncalls' = ncalls + Len(ops)
              /\ phase' = "end" /\ UNCHANGED <<vars, nmut, first>>
End == phase = "end" /\ phase' = "done" /\ UNCHANGED <<vars, hist, nmut, ncalls, first>>

GNext == PrefixStep \/ Mut1 \/ Sweep \/ Mut2 \/ ResumeStep \/ End
GSpec == GInit /\ [][GNext]_gvars

Emit == phase = "done" =>
          PrintT(<<"SCN", ToJson([kind |-> cfg.kind, small |-> cfg.small, per |-> cfg.per, shape |-> cfg.shape,
                                  thorough |-> Thorough, ops |-> hist])>>)
GView == <<hist, phase, cfg>>
=============================================================================
