SPECIFICATION ESpec
CONSTANTS
  Plain = {p1, p2, p3, p4}
  Limit = 2
  MaxId = 12
  MaxJobs = 2
  MaxCrash = 1
  Forge = {}
  TamperOn = FALSE
  Deviations = {}
SYMMETRY PlainSym
INVARIANTS ETypeOK Recoverable IndexRight IndexBackedByMeta FetchSound AckedFetchable
PROPERTIES DeleteOnlyCovered
CHECK_DEADLOCK FALSE
