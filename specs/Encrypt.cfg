SPECIFICATION ESpec
CONSTANTS
  Plain = {1, 2, 3, 4}
  Limit = 2
  MaxId = 10
  MaxJobs = 2
  Forge = {}
  TamperOn = FALSE
  Deviations = {}
INVARIANTS ETypeOK Recoverable IndexRight IndexBackedByMeta FetchSound AckedFetchable
PROPERTIES DeleteOnlyCovered
CHECK_DEADLOCK FALSE
