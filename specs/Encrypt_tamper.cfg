SPECIFICATION ESpec
CONSTANTS
  Plain = {1, 2, 3}
  Limit = 2
  MaxId = 7
  MaxJobs = 1
  Forge = {3}
  TamperOn = TRUE
  Deviations = {}
INVARIANTS ETypeOK Recoverable IndexRight FetchSound AckedFetchable
CHECK_DEADLOCK FALSE
