SPECIFICATION ESpec
CONSTANTS
  Plain = {p1, p2, p3}
  Limit = 2
  Full = 4
  Macro = FALSE
  Witness = "none"
  MaxId = 7
  MaxJobs = 1
  MaxFault = 0
  MaxCrash = 0
  Forge = {p3}
  TamperOn = TRUE
  Deviations = {}
INVARIANTS ETypeOK Recoverable IndexRight FetchSound AckedFetchable
CHECK_DEADLOCK FALSE
