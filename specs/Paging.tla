------------------------------ MODULE Paging ------------------------------
(* pkg/search continuation tokens and `around` windows.

   A sorted permanode query lists the matching permanodes ordered by (time descending, blobref
   descending) (pkg/index/corpus.go byPermanodeTime, reversed).  A page that is full carries the token
   "pn:<unixnano>:<ref>" of its last item (setResultContinue); the next query drops everything that is
   not strictly after the token in that order (addContinueConstraint + PermanodeConstraint.Continue:
   older, or same time and smaller ref).  Blobrefs are integer ranks (order of the ref text), times are
   pairs <<seconds, nanoseconds>> that may be negative (pre-1970), may tie and may differ by 1 ns.

   Property (C09): following tokens returns the full ordered list exactly once for every limit >= 1 and
   every tie pattern; an `around` query returns a contiguous window of that list containing the pivot,
   or nothing if the pivot is not in the list.

   Operators take the matching set P and the sort key explicitly, so that Trace_Paging can evaluate
   them on the world of a recorded execution.  Deviations (believed or seeded departures of the code):
   "UnsignedToken"  (H5) a token whose unix-nano time is negative is rejected and ignored: page 1 again;
   "NoTieBreak"     the token filter drops every item with the token's time;
   "TieBreakLeq"    the token filter keeps the token's own item. *)
EXTENDS Integers, Sequences, FiniteSets, SequencesExt, TLC

TLess(a, b) == a[1] < b[1] \/ (a[1] = b[1] /\ a[2] < b[2])

Before(key, a, b) == TLess(key[b], key[a]) \/ (key[a] = key[b] /\ a > b)        \* a is listed before b
Full(P, key) == SetToSortSeq(P, LAMBDA a, b : Before(key, a, b))
Prefix(s, n) == SubSeq(s, 1, IF n < Len(s) THEN n ELSE Len(s))
SeqRange(s) == {s[i] : i \in 1..Len(s)}
RECURSIVE Concat(_)
Concat(ss) == IF ss = <<>> THEN <<>> ELSE Head(ss) \o Concat(Tail(ss))

NoTok == <<>>
TokOf(key, p) == <<key[p], p>>
Rejected(tok, unixZero, D) == "UnsignedToken" \in D /\ TLess(tok[1], unixZero)
AfterTok(P, key, tok, unixZero, D) ==
   IF tok = NoTok \/ Rejected(tok, unixZero, D) THEN P
   ELSE {p \in P : \/ TLess(key[p], tok[1])
                   \/ /\ key[p] = tok[1] /\ "NoTieBreak" \notin D
                      /\ (p < tok[2] \/ ("TieBreakLeq" \in D /\ p = tok[2]))}
Page(P, key, limit, tok, unixZero, D) == Prefix(Full(AfterTok(P, key, tok, unixZero, D), key), limit)

(* the page sequence a client sees when it follows tokens, at most `fuel` pages *)
RECURSIVE Pages(_, _, _, _, _, _, _)
Pages(P, key, limit, tok, unixZero, D, fuel) ==
   IF fuel = 0 THEN <<>>
   ELSE LET pg == Page(P, key, limit, tok, unixZero, D) IN
        IF Len(pg) < limit THEN <<pg>>                                   \* short page: no token
        ELSE <<pg>> \o Pages(P, key, limit, TokOf(key, pg[Len(pg)]), unixZero, D, fuel - 1)

(* the same page sequence computed on the already ordered list (a filter keeps the order): used by
   Trace_Paging on large worlds; PagesLEquiv checks the equivalence in leg S *)
AfterTokL(fl, key, tok, unixZero, D) ==
   IF tok = NoTok \/ Rejected(tok, unixZero, D) THEN fl
   ELSE SelectSeq(fl, LAMBDA p : \/ TLess(key[p], tok[1])
                                 \/ /\ key[p] = tok[1] /\ "NoTieBreak" \notin D
                                    /\ (p < tok[2] \/ ("TieBreakLeq" \in D /\ p = tok[2])))
RECURSIVE PagesL(_, _, _, _, _, _, _)
PagesL(fl, key, limit, tok, unixZero, D, fuel) ==
   IF fuel = 0 THEN <<>>
   ELSE LET pg == Prefix(AfterTokL(fl, key, tok, unixZero, D), limit) IN
        IF Len(pg) < limit THEN <<pg>>
        ELSE <<pg>> \o PagesL(fl, key, limit, TokOf(key, pg[Len(pg)]), unixZero, D, fuel - 1)

(* property level: what any correct paging must look like *)
GoodPaging(pages, more, P, key, limit) ==
   /\ ~more                                                              \* the token chain ended
   /\ Concat(pages) = Full(P, key)                                       \* everything, once, in order
   /\ \A i \in 1..Len(pages) : Len(pages[i]) <= limit
   /\ \A i \in 1..(Len(pages) - 1) : Len(pages[i]) = limit               \* only the last page may be short

IsWindow(out, P, key, pivot, limit) ==
   LET full == Full(P, key) IN
   IF pivot \notin P THEN out = <<>>
   ELSE /\ Len(out) >= 1 /\ Len(out) <= limit
        /\ pivot \in SeqRange(out)
        /\ \E a \in 1..Len(full) : a + Len(out) - 1 <= Len(full) /\ out = SubSeq(full, a, a + Len(out) - 1)

(* mechanism: the window bookkeeping of Handler.Query for a sorted candidate source (query.go, the
   callback of cands.send): results are appended in order; before the pivot is seen a full buffer is cut
   to its second half; when the pivot arrives the surplus in front of it is dropped; then the buffer is
   filled up to the limit. *)
Max0(x) == IF x < 0 THEN 0 ELSE x
Drop(s, n) == SubSeq(s, n + 1, Len(s))
RECURSIVE AroundStep(_, _, _, _, _, _)
AroundStep(full, i, res, found, pivot, limit) ==
   IF i > Len(full) THEN (IF found THEN res ELSE <<>>)
   ELSE LET r1 == Append(res, full[i]) IN
        IF found THEN (IF Len(r1) = limit THEN r1 ELSE AroundStep(full, i + 1, r1, TRUE, pivot, limit))
        ELSE IF full[i] = pivot
             THEN LET r2 == IF Len(r1) * 2 > limit THEN Drop(r1, Max0(Len(r1) - (limit \div 2) - 1)) ELSE r1 IN
                  IF Len(r2) = limit THEN r2 ELSE AroundStep(full, i + 1, r2, TRUE, pivot, limit)
             ELSE LET r2 == IF Len(r1) = limit THEN Drop(r1, Len(r1) \div 2) ELSE r1 IN
                  AroundStep(full, i + 1, r2, FALSE, pivot, limit)
AroundMech(P, key, pivot, limit) == AroundStep(Full(P, key), 1, <<>>, FALSE, pivot, limit)

(* ======================= leg S: every tie pattern, every limit, every pivot ======================= *)
CONSTANTS Pn,          \* permanode ranks
          TimeVals,    \* candidate times (pairs), must straddle UnixZero for the sensitivity run
          UnixZero, MaxLimit, Deviations
VARIABLES time,        \* [Pn -> TimeVals]: TLC enumerates every assignment (every tie pattern), one permanode per step
          match        \* the matching subset of Pn

TimeValsDef == {<<-5, 0>>, <<-1, 999999999>>, <<0, 1>>, <<7, 0>>}
UnixZeroDef == <<0, 0>>
Unset == <<0, -1>>
Complete == \A p \in Pn : time[p] # Unset
Init == time = [p \in Pn |-> Unset] /\ match \in {Pn, {p \in Pn : p % 4 # 0}}
Next == /\ ~Complete /\ UNCHANGED match
        /\ LET p == CHOOSE p \in Pn : time[p] = Unset /\ \A q \in Pn : time[q] = Unset => p <= q IN
           \E t \in TimeVals : time' = [time EXCEPT ![p] = t]
Spec == Init /\ [][Next]_<<time, match>>

Fuel == Cardinality(Pn) + 2
ExactlyOnce == Complete => \A limit \in 1..MaxLimit :
   LET ps == Pages(match, time, limit, NoTok, UnixZero, Deviations, Fuel) IN
   GoodPaging(ps, Len(ps) = Fuel /\ Len(ps[Len(ps)]) = limit, match, time, limit)
PagesLEquiv == Complete => \A limit \in 1..MaxLimit, D \in {{}, {"UnsignedToken"}, {"NoTieBreak"}} :
   PagesL(Full(match, time), time, limit, NoTok, UnixZero, D, Fuel) = Pages(match, time, limit, NoTok, UnixZero, D, Fuel)
PageIsNextChunk == Complete => \A limit \in 1..MaxLimit, p \in match :
   LET full == Full(match, time)
       i == CHOOSE i \in 1..Len(full) : full[i] = p
   IN Page(match, time, limit, TokOf(time, p), UnixZero, Deviations) = SubSeq(full, i + 1, IF i + limit < Len(full) THEN i + limit ELSE Len(full))
AroundOK == Complete => \A limit \in 1..MaxLimit, pivot \in Pn :
   IsWindow(AroundMech(match, time, pivot, limit), match, time, pivot, limit)
(* the code's window is as large as the list allows once the pivot is at least limit/2 from the front *)
AroundFull == Complete => \A limit \in 1..MaxLimit, pivot \in match :
   LET out == AroundMech(match, time, pivot, limit) IN
   Len(out) = limit \/ out[Len(out)] = Full(match, time)[Cardinality(match)]
=============================================================================
