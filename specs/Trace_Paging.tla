---------------------------- MODULE Trace_Paging ----------------------------
(* Validation of recorded search.Handler.Query page sequences and around windows against Paging.tla.
   The trace is a concatenation of worlds.  A "world" line carries the harness world file (items with
   their blobref ranks) and the table of times used as dateCreated values; from it this module derives,
   with the operators of Claims (documented claim semantics), which permanodes match each constraint and
   their two sort keys:   modtime = latest live attribute claim,   created = dateCreated if set, else modtime.
   Every other line is a reply of the real code:
     pages   the page sequence obtained by following Continue tokens (cut off, more = TRUE, when more pages
             came back than any correct paging needs)
     around  the result of an Around query for a pivot
   Collect mode: a reply that is not a GoodPaging / IsWindow of the recomputed ordered list is printed as
   <<"VIOL", line, ...>> with a class; for pages the class says whether the reply is exactly what the
   deviation "UnsignedToken" (H5) predicts.  <<"DRIFT", ..>> marks an accepted around window that
   differs from the transcribed bookkeeping (information only). *)
EXTENDS Paging, Json, IOUtils

VARIABLES l, world, cur, keyM, keyC, pAny, pTag,
          info,         \* per listed permanode: rank, sort keys, tag (computed once per world; TLC re-evaluates LET definitions at every use, primed variables are evaluated once)
          full          \* the four ordered lists (constraint class x sort), computed once per world
tvars == <<l, world, cur, keyM, keyC, pAny, pTag, info, full, time, match>>

C == INSTANCE Claims WITH Deviations <- {}, MaxClaims <- 0, MaxDeletes <- 0, SAttrs <- {}, SVals <- {}, SDates <- {},
                          ClaimSigners <- {}, DelDates <- {}, DelSigners <- {}, MixDeletes <- FALSE, world <- world

Trace == ndJsonDeserialize(IOEnv.TRACE_FILE)
Ev == Trace[l]
TraceUnixZero == <<-1322443957, 0>>           \* 1970-01-01 on the world's time axis (world.Epoch = 2011-11-28T01:32:37Z)
TraceTimeVals == {}
SeqToSet(s) == {s[i] : i \in 1..Len(s)}

(* ---- derived from a world W (set of items) and its value-time table vt.  The Claims operators are
   evaluated per permanode on the part of the world that can concern it (its claims and all delete
   claims), which is the same value and keeps 200-permanode worlds cheap. *)
PnItems(W) == {c \in W : c.kind = "permanode"}
About(W, p) == {c \in W : (c.kind = "claim" /\ c.pn = p.id) \/ c.kind = "delete"}
Info(W, vt, tagval, tagattr, p) ==
   LET Wp == About(W, p)
       mod == C!ModTime(Wp, p.id)
       dc == CHOOSE v \in C!AttrValues(Wp, p.id, "dateCreated", C!Zero, 0) : TRUE
   IN [rank |-> p.rank,
       listed |-> ~C!Deleted(Wp, p.id) /\ mod # C!Zero,            \* what a sorted source enumerates
       mod |-> mod,
       created |-> IF dc # <<>> THEN <<vt[dc[1]][1], vt[dc[1]][2]>> ELSE mod,
       tag |-> \E v \in C!AttrValues(Wp, p.id, tagattr, C!Zero, 1) : tagval \in SeqToSet(v)]

CC(cons) == IF cons = "any" THEN "any" ELSE "tag"          \* "tag" and "and"(any, tag) match the same permanodes
P(cons) == IF cons = "any" THEN pAny ELSE pTag
Key(sort) == IF sort = "mod" THEN keyM ELSE keyC
FullOf(e) == full[<<CC(e.cons), e.sort>>]

(* GoodPaging / IsWindow of Paging, evaluated against the cached ordered list (same definitions, Full(P, key) = FullOf) *)
GoodPagingC(pages, more, fl, limit) ==
   /\ ~more
   /\ Concat(pages) = fl
   /\ \A i \in 1..Len(pages) : Len(pages[i]) <= limit
   /\ \A i \in 1..(Len(pages) - 1) : Len(pages[i]) = limit
IsWindowC(out, fl, pivot, limit) ==
   IF pivot \notin SeqRange(fl) THEN out = <<>>
   ELSE /\ Len(out) >= 1 /\ Len(out) <= limit
        /\ pivot \in SeqRange(out)
        /\ \E a \in 1..Len(fl) : fl[a] = out[1] /\ a + Len(out) - 1 <= Len(fl) /\ out = SubSeq(fl, a, a + Len(out) - 1)

PagesOk(e) == e.err = "" /\ GoodPagingC(e.pages, e.more, FullOf(e), e.limit)
AroundOk(e) == e.err = "" /\ IsWindowC(e.out, FullOf(e), e.pivot, e.limit)

Dups(s) == \E i, j \in 1..Len(s) : i < j /\ s[i] = s[j]
PagesClass(e) ==
   LET all == Concat(e.pages) fl == FullOf(e) IN
   IF e.err # "" THEN "error"
   ELSE IF e.more /\ e.pages = PagesL(fl, Key(e.sort), e.limit, NoTok, TraceUnixZero, {"UnsignedToken"}, Len(e.pages))
        THEN "negative-token-ignored"
   ELSE IF e.more THEN "no-end"
   ELSE IF Dups(all) THEN "repeat"
   ELSE IF SeqToSet(all) \ SeqToSet(fl) # {} THEN "foreign"
   ELSE IF SeqToSet(fl) \ SeqToSet(all) # {} THEN "skip"
   ELSE IF all # fl THEN "order" ELSE "page-shape"
AroundClass(e) == IF e.err # "" THEN "error"
                  ELSE IF e.pivot \notin P(e.cons) THEN "absent-pivot-nonempty"
                  ELSE IF e.out = <<>> THEN "present-pivot-empty"
                  ELSE IF e.pivot \notin SeqToSet(e.out) THEN "pivot-missing"
                  ELSE IF Len(e.out) > e.limit THEN "over-limit" ELSE "not-contiguous"

TInit == /\ l = 1 /\ world = {} /\ cur = [cls |-> ""] /\ keyM = <<>> /\ keyC = <<>> /\ pAny = {} /\ pTag = {} /\ info = {} /\ full = <<>>
         /\ time = <<>> /\ match = {}

TWorld == /\ l <= Len(Trace) /\ Ev.ev = "world"
          /\ world' = SeqToSet(Ev.items)
          /\ info' = {i \in {Info(world', Ev.vtimes, Ev.tagval, Ev.tagattr, p) : p \in PnItems(world')} : i.listed}
          /\ pAny' = {i.rank : i \in info'}
          /\ pTag' = {i.rank : i \in {i \in info' : i.tag}}
          /\ keyM' = [r \in pAny' |-> (CHOOSE i \in info' : i.rank = r).mod]
          /\ keyC' = [r \in pAny' |-> (CHOOSE i \in info' : i.rank = r).created]
          /\ cur' = [cls |-> Ev.cls]
          /\ full' = [k \in {"any", "tag"} \X {"mod", "created"} |->
                         Full(IF k[1] = "any" THEN pAny' ELSE pTag', IF k[2] = "mod" THEN keyM' ELSE keyC')]
          /\ l' = l + 1 /\ UNCHANGED <<time, match>>

TLine == /\ l <= Len(Trace) /\ Ev.ev # "world"
         /\ l' = l + 1 /\ UNCHANGED <<world, cur, keyM, keyC, pAny, pTag, info, full, time, match>>
         /\ IF Ev.ev = "pages"
            THEN PagesOk(Ev) \/ PrintT(<<"VIOL", l, "pages", Ev.sort, PagesClass(Ev), cur.cls, FullOf(Ev)>>)
            ELSE /\ AroundOk(Ev) \/ PrintT(<<"VIOL", l, "around", Ev.sort, AroundClass(Ev), cur.cls, FullOf(Ev)>>)
                 /\ (AroundOk(Ev) /\ Ev.out # AroundStep(FullOf(Ev), 1, <<>>, FALSE, Ev.pivot, Ev.limit)) =>
                       PrintT(<<"DRIFT", l, AroundStep(FullOf(Ev), 1, <<>>, FALSE, Ev.pivot, Ev.limit)>>)

TNext == TWorld \/ TLine
TSpec == TInit /\ [][TNext]_tvars
TraceAccepted == TLCGet("stats").diameter - 1 = Len(Trace)
=============================================================================
