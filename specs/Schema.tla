------------------------------- MODULE Schema -------------------------------
(* Files, bytes trees and static sets as schema blobs (doc/schema/bytes.md, doc/schema/static-set.md;
   pkg/schema/filereader.go, filewriter.go, schema.go SetStaticSetMembers, dirreader.go).

   I.   READER.  A forest F maps blob ids to uniform node records
            [kind : "chunk" | "bytes" | "file", size, data, parts]
        a chunk carries data (a sequence of DISTINCT byte ids, 0 is reserved for hole bytes) and
        size = Len(data); a schema node carries parts, each a uniform record
            [kind : "blob" | "bytes" | "hole", ref, off, size].
        Denote(F, id) is what the tree denotes; ReadAt(F, id, off, n) what a read must return.
        MReadAt is the MECHANISM of FileReader.ReadAt / readerForOffset, transcribed, with the
        believed deviation "LimitIgnoresInPartOffset" (H13) as a switch; S checks that the
        mechanism refines ReadAt without the deviation and does not with it.
        A reader object (pos; Seek, Read) is a small state machine on top.
   II.  WRITER.  schema.WriteFileMap: rolling-checksum cuts (chosen nondeterministically - the
        property does not fix split points), the span tree (transcribed), addBytesParts /
        uploadBytes (transcribed), uploads completing in any order the code allows.
        Properties: no chunk above MaxChunk; when the file blob is stored everything it
        (transitively) references is stored, it is well formed, and it denotes the input; the
        file blob is the last upload.
   III. STATIC SETS.  Spread = Builder.SetStaticSetMembers, Members = dirreader.staticSet.

   One module, three specifications (RSpec, WSpec, SSpec) over disjoint variable groups. *)
EXTENDS Integers, Sequences, FiniteSets, TLC

CONSTANTS Deviations,     \* subset of {"LimitIgnoresInPartOffset" (H13, believed present), and the
                          \* anti-vacuity switches "FileBeforeParts", "NoHardCap", "SpreadDropsRest"}
          MaxChunk,       \* writer: hard cap on a chunk (code: maxBlobSize = 1 << 20)
          MaxN,           \* writer model: input lengths 0..MaxN
          BitsSet,        \* writer model: possible strengths of a split point
          Family,         \* reader model: which bounded family of trees Init chooses from
          SetMaxes,       \* static sets model: thresholds
          SetNMax,        \* static sets model: member counts 0..SetNMax
          ReaderSteps     \* reader model: also explore the reader object (Seek/Read)

VARIABLES rF, rRoot, rPos, rReply,             \* reader
          wF, wN, wM, wFile, wAfter, wPlan,    \* writer
          sMax, sN                             \* static sets

rvars == <<rF, rRoot, rPos, rReply>>
wvars == <<wF, wN, wM, wFile, wAfter, wPlan>>
svars == <<sMax, sN>>
vars == <<rvars, wvars, svars>>

Min2(a, b) == IF a < b THEN a ELSE b
Max2(a, b) == IF a > b THEN a ELSE b

-----------------------------------------------------------------------------
(* I. READER *)

Hole == 0       \* ref of a hole part, src of a hole segment
NoFile == <<>>  \* wFile is <<>> or <<id of the first "file" blob uploaded>>

Slice(s, off, n) == SubSeq(s, off + 1, Min2(off + n, Len(s)))
Zeros(n) == [i \in 1..n |-> 0]

Chunk(data) == [kind |-> "chunk", size |-> Len(data), data |-> data, parts |-> <<>>]
Node(kind, parts) == [kind |-> kind, size |-> 0, data |-> <<>>, parts |-> parts]
HolePart(n) == [kind |-> "hole", ref |-> Hole, off |-> 0, size |-> n]
BlobPart(ref, off, n) == [kind |-> "blob", ref |-> ref, off |-> off, size |-> n]
BytesPart(ref, off, n) == [kind |-> "bytes", ref |-> ref, off |-> off, size |-> n]

RECURSIVE SumSizes(_, _)
SumSizes(ps, i) == IF i > Len(ps) THEN 0 ELSE ps[i].size + SumSizes(ps, i + 1)
(* The length a schema node declares (superset.SumPartsSize); equals Len(Denote) when well formed. *)
SizeOf(F, id) == SumSizes(F[id].parts, 1)

RECURSIVE Denote(_, _), DenoteParts(_, _, _)
PartBytes(F, p) == CASE p.kind = "hole"  -> Zeros(p.size)
                     [] p.kind = "blob"  -> Slice(F[p.ref].data, p.off, p.size)
                     [] p.kind = "bytes" -> Slice(Denote(F, p.ref), p.off, p.size)
DenoteParts(F, ps, i) == IF i > Len(ps) THEN <<>> ELSE PartBytes(F, ps[i]) \o DenoteParts(F, ps, i + 1)
Denote(F, id) == DenoteParts(F, F[id].parts, 1)

(* io.ReaderAt: the bytes [off, off+n) of the denotation, cut at its end. *)
ReadAt(F, id, off, n) == Slice(Denote(F, id), off, n)

(* A part never claims more than its source has, sizes are positive, blobRef parts point at data
   blobs and bytesRef parts at well-formed "bytes" nodes. *)
RECURSIVE WellFormed(_, _)
WellFormed(F, id) ==
  \A i \in 1..Len(F[id].parts) :
     LET p == F[id].parts[i] IN
     /\ p.size >= 1
     /\ CASE p.kind = "hole"  -> TRUE
          [] p.kind = "blob"  -> /\ p.ref \in DOMAIN F /\ F[p.ref].kind = "chunk"
                                 /\ p.off + p.size <= F[p.ref].size
          [] p.kind = "bytes" -> /\ p.ref \in DOMAIN F /\ F[p.ref].kind = "bytes"
                                 /\ WellFormed(F, p.ref)
                                 /\ p.off + p.size <= SizeOf(F, p.ref)
          [] OTHER -> FALSE         \* e.g. a part with both a blobRef and a bytesRef

(* Everything a node (transitively) references is in the forest. *)
RECURSIVE Closed(_, _)
Closed(F, id) ==
  \A i \in 1..Len(F[id].parts) :
     LET p == F[id].parts[i] IN
     p.kind = "hole" \/ (p.ref \in DOMAIN F /\ (p.kind = "bytes" => Closed(F, p.ref)))

(* The same denotation as a sequence of segments [src, off, size] (src a chunk id; hole = TRUE for zeros): what
   is used when the bytes themselves are too many to enumerate (writer traces of 3 MiB inputs). *)
Seg(src, off, n) == [src |-> src, off |-> off, size |-> n, hole |-> FALSE]
HoleSeg(n) == [src |-> Hole, off |-> 0, size |-> n, hole |-> TRUE]   \* ids may be of any type: never compare src with Hole
RECURSIVE ClipSegs(_, _, _)
ClipSegs(ss, off, n) ==
  IF n = 0 \/ ss = <<>> THEN <<>>
  ELSE LET h == Head(ss) IN
       IF off >= h.size THEN ClipSegs(Tail(ss), off - h.size, n)
       ELSE LET take == Min2(h.size - off, n) IN
            <<IF h.hole THEN HoleSeg(take) ELSE Seg(h.src, h.off + off, take)>> \o ClipSegs(Tail(ss), 0, n - take)
RECURSIVE Segs(_, _), SegsParts(_, _, _)
PartSegs(F, p) == CASE p.kind = "hole"  -> <<HoleSeg(p.size)>>
                    [] p.kind = "blob"  -> ClipSegs(<<Seg(p.ref, 0, F[p.ref].size)>>, p.off, p.size)
                    [] p.kind = "bytes" -> ClipSegs(Segs(F, p.ref), p.off, p.size)
SegsParts(F, ps, i) == IF i > Len(ps) THEN <<>> ELSE PartSegs(F, ps[i]) \o SegsParts(F, ps, i + 1)
Segs(F, id) == SegsParts(F, F[id].parts, 1)
RECURSIVE SegBytes(_, _, _)
SegBytes(F, ss, i) ==
  IF i > Len(ss) THEN <<>>
  ELSE (IF ss[i].hole THEN Zeros(ss[i].size) ELSE Slice(F[ss[i].src].data, ss[i].off, ss[i].size))
       \o SegBytes(F, ss, i + 1)

(* ForeachChunk as documented: the leaf parts in order, bytesRef parts followed recursively
   (whole - the in-part window of a bytesRef part is not applied; for trees whose bytesRef parts
   are whole, as the writer makes them, the leaf parts concatenate to the file). *)
RECURSIVE ChunkWalk(_, _), ChunkWalkParts(_, _, _)
ChunkWalkParts(F, ps, i) ==
  IF i > Len(ps) THEN <<>>
  ELSE (IF ps[i].kind = "bytes" THEN ChunkWalk(F, ps[i].ref) ELSE <<ps[i]>>) \o ChunkWalkParts(F, ps, i + 1)
ChunkWalk(F, id) == ChunkWalkParts(F, F[id].parts, 1)
RECURSIVE Plain(_, _)
Plain(F, id) == \A i \in 1..Len(F[id].parts) :
                  LET p == F[id].parts[i] IN
                  p.kind = "bytes" => (p.off = 0 /\ p.size = SizeOf(F, p.ref) /\ Plain(F, p.ref))

(* Where a read at off starts: <<kind of the part, "mid" | "start", "short" | "whole">> - "short"
   when the part ends before its source does.  Only used to name discrepancies. *)
RECURSIVE PartAt(_, _, _)
PartAt(ps, i, off) == IF i > Len(ps) THEN <<0, 0>>
                      ELSE IF off < ps[i].size THEN <<i, off>> ELSE PartAt(ps, i + 1, off - ps[i].size)
StartClass(F, id, off) ==
  LET at == PartAt(F[id].parts, 1, off) IN
  IF at[1] = 0 THEN <<"eof", "start", "whole">>
  ELSE LET p == F[id].parts[at[1]]
           src == CASE p.kind = "hole" -> p.size
                    [] p.kind = "blob" -> F[p.ref].size
                    [] p.kind = "bytes" -> SizeOf(F, p.ref)
       IN <<p.kind, IF at[2] > 0 THEN "mid" ELSE "start", IF p.off + p.size < src THEN "short" ELSE "whole">>

(* ---- mechanism: FileReader.ReadAt over readerForOffset (filereader.go:174, :317) ---- *)
Dev(d) == d \in Deviations
RECURSIVE MReadAt(_, _, _, _)
(* one readerForOffset(off) + io.ReadFull into a buffer of n bytes *)
MRead1(F, id, off, n) ==
  LET at == PartAt(F[id].parts, 1, off) IN
  IF at[1] = 0 THEN <<>>                                       \* types.EmptyBody
  ELSE LET p0 == F[id].parts[at[1]]
           offRemain == at[2]
           start == offRemain + p0.off                         \* rsc.Seek(offRemain + p0.Offset)
           limit == IF Dev("LimitIgnoresInPartOffset") THEN p0.size ELSE p0.size - offRemain
       IN CASE p0.kind = "hole"  -> Zeros(Min2(n, p0.size - offRemain))
            [] p0.kind = "blob"  -> Slice(F[p0.ref].data, start, Min2(n, limit))
            [] p0.kind = "bytes" -> \* a sub FileReader as io.SectionReader over its own ReadAt
                 LET sub == SizeOf(F, p0.ref) IN
                 IF start >= sub THEN <<>> ELSE MReadAt(F, p0.ref, start, Min2(n, Min2(limit, sub - start)))
MReadAt(F, id, off, n) ==
  IF n = 0 \/ off >= SizeOf(F, id) THEN <<>>
  ELSE LET r == MRead1(F, id, off, n) IN
       IF Len(r) = 0 THEN <<>> ELSE r \o MReadAt(F, id, off + Len(r), n - Len(r))

(* ---- a reader object: io.SectionReader semantics over ReadAt ---- *)
RR(op, res, pos, bytes) == [op |-> op, res |-> res, pos |-> pos, bytes |-> bytes]
SeekTarget(F, id, pos, whence, off) ==
  (CASE whence = 0 -> 0 [] whence = 1 -> pos [] whence = 2 -> SizeOf(F, id)) + off
RSeekReply(whence, off) ==
  LET t == SeekTarget(rF, rRoot, rPos, whence, off) IN
  IF t < 0 THEN RR("seek", "err", rPos, <<>>) ELSE RR("seek", "ok", t, <<>>)
RSeek(whence, off) ==
  /\ rReply' = RSeekReply(whence, off)
  /\ rPos' = rReply'.pos
  /\ UNCHANGED <<rF, rRoot>>
(* Read(buffer of n): io.Reader allows any 1..n bytes while data remains; EOF with no bytes at the end *)
ReadRepliesAt(F, id, pos, n) ==
  LET size == SizeOf(F, id) IN
  IF n = 0 THEN {RR("read", "ok", pos, <<>>)} \cup (IF pos >= size THEN {RR("read", "eof", pos, <<>>)} ELSE {})
  ELSE IF pos >= size THEN {RR("read", "eof", pos, <<>>)}
  ELSE {RR("read", "ok", pos + k, ReadAt(F, id, pos, k)) : k \in 1..Min2(n, size - pos)}
       \cup (IF size - pos <= n THEN {RR("read", "eof", size, ReadAt(F, id, pos, size - pos))} ELSE {})
RReadReplies(n) == ReadRepliesAt(rF, rRoot, rPos, n)
RRead(n) ==
  /\ rReply' \in RReadReplies(n)
  /\ rPos' = rReply'.pos
  /\ UNCHANGED <<rF, rRoot>>

(* ---- bounded families of trees for the model check ---- *)
Root == 101
B1 == <<16, 17, 18>>
B2 == <<32, 33>>
LeafParts(F) == {HolePart(n) : n \in 1..2} \cup
                {BlobPart(b, o, n) : b \in {1, 2}, o \in 0..2, n \in 1..3}
BytesParts(F, id, offs, sizes) == {BytesPart(id, o, n) : o \in offs, n \in sizes}
SeqsUpTo(S, k) == UNION {[1..m -> S] : m \in 1..k}
BaseForest == (1 :> Chunk(B1)) @@ (2 :> Chunk(B2))
(* "obj": small trees for exploring the reader object.
   "d1": depth 1, up to 3 leaf parts, ill-formed ones included (off + size beyond the blob).
   "d2": root of <= 2 parts over {3 leaf parts} + windows into node 102 (<= 2 leaf parts).
   "d3": a chain 101 -> 102 -> 103 with one extra leaf part at each level ("d3q": fewer deepest nodes). *)
SomeLeaves == {HolePart(1), BlobPart(1, 0, 3), BlobPart(1, 1, 1), BlobPart(2, 1, 1), BlobPart(2, 0, 1)}
FamilyOf(fam) ==
  CASE fam = "obj" -> {BaseForest @@ (Root :> Node("file", ps)) : ps \in SeqsUpTo(SomeLeaves, 2) \cup {<<>>}}
    [] fam = "d1" -> {BaseForest @@ (Root :> Node("file", ps)) : ps \in SeqsUpTo(LeafParts(BaseForest), 3) \cup {<<>>}}
    [] fam = "d2" -> {BaseForest @@ (102 :> Node("bytes", p2)) @@ (Root :> Node("file", p1)) :
                         p2 \in SeqsUpTo(SomeLeaves, 2),
                         p1 \in SeqsUpTo(SomeLeaves \cup BytesParts(BaseForest, 102, 0..3, 1..4), 2)}
    [] fam = "d3q" -> {BaseForest @@ (103 :> Node("bytes", p3)) @@ (102 :> Node("bytes", p2)) @@ (Root :> Node("file", p1)) :
                         p3 \in {<<BlobPart(1, 0, 3)>>, <<BlobPart(1, 1, 2), BlobPart(2, 0, 1)>>, <<HolePart(1), BlobPart(1, 1, 2)>>},
                         p2 \in {<<x, y>> : x \in BytesParts(BaseForest, 103, 0..2, 1..3), y \in {BlobPart(2, 0, 2), BlobPart(1, 1, 1)}}
                                \cup {<<x>> : x \in BytesParts(BaseForest, 103, 0..2, 1..3)},
                         p1 \in {<<y, x>> : x \in BytesParts(BaseForest, 102, 0..2, 1..4), y \in {BlobPart(2, 1, 1), HolePart(2)}}
                                \cup {<<x>> : x \in BytesParts(BaseForest, 102, 0..2, 1..4)}
                                \cup {<<x, z>> : x \in BytesParts(BaseForest, 102, 0..2, 1..4), z \in BytesParts(BaseForest, 103, 0..1, 1..2)}}
    [] fam = "d3" -> {BaseForest @@ (103 :> Node("bytes", p3)) @@ (102 :> Node("bytes", p2)) @@ (Root :> Node("file", p1)) :
                         p3 \in SeqsUpTo({BlobPart(1, 0, 3), BlobPart(1, 1, 2), BlobPart(2, 0, 1), HolePart(1)}, 2),
                         p2 \in {<<x, y>> : x \in BytesParts(BaseForest, 103, 0..2, 1..4), y \in {BlobPart(2, 0, 2), BlobPart(1, 1, 1)}}
                                \cup {<<x>> : x \in BytesParts(BaseForest, 103, 0..2, 1..4)},
                         p1 \in {<<y, x>> : x \in BytesParts(BaseForest, 102, 0..2, 1..4), y \in {BlobPart(2, 1, 1), HolePart(2)}}
                                \cup {<<x>> : x \in BytesParts(BaseForest, 102, 0..2, 1..4)}
                                \cup {<<x, z>> : x \in BytesParts(BaseForest, 102, 0..2, 1..4), z \in BytesParts(BaseForest, 103, 0..1, 1..2)}}

NoReply == RR("init", "ok", 0, <<>>)
WIdle == /\ wF = <<>> /\ wN = 0 /\ wM = <<>> /\ wFile = NoFile /\ wAfter = 0 /\ wPlan = <<>>
SIdle == sMax = 0 /\ sN = 0
RIdle == rF = <<>> /\ rRoot = 0 /\ rPos = 0 /\ rReply = NoReply

RInit == /\ rF \in FamilyOf(Family) /\ rRoot = Root /\ rPos = 0 /\ rReply = NoReply
         /\ WIdle /\ SIdle
RNext == /\ ReaderSteps
         /\ UNCHANGED <<wvars, svars>>
         /\ \/ \E w \in 0..2, o \in -2..2 : RSeek(w, o)
            \/ \E n \in 0..3 : RRead(n)
         /\ rPos' <= SizeOf(rF, rRoot) + 2          \* bound for the model check only
RSpec == RInit /\ [][RNext]_vars

(* ---- what S checks on every tree of the family ---- *)
RSize == SizeOf(rF, rRoot)
LenIsSum == WellFormed(rF, rRoot) => Len(Denote(rF, rRoot)) = RSize
ReadAtShape == WellFormed(rF, rRoot) =>
  LET D == Denote(rF, rRoot) IN       \* ReadAt(F, id, off, n) = Slice(Denote(F, id), off, n) by definition
  \A off \in 0..(RSize + 1), n \in 0..(RSize + 2) :
     /\ Len(Slice(D, off, n)) = (IF off >= RSize THEN 0 ELSE Min2(n, RSize - off))
     /\ \A m \in 0..2 : Slice(D, off, n) \o Slice(D, off + n, m) = Slice(D, off, n + m)
SegsAgree == WellFormed(rF, rRoot) => SegBytes(rF, Segs(rF, rRoot), 1) = Denote(rF, rRoot)
WalkAgrees == (WellFormed(rF, rRoot) /\ Plain(rF, rRoot)) =>
                 DenoteParts(rF, ChunkWalk(rF, rRoot), 1) = Denote(rF, rRoot)
(* ill-formed trees exist in the family and are exactly those whose declared size is a lie *)
IllFormedDetected == (Family = "d1" /\ ~WellFormed(rF, rRoot)) => Len(Denote(rF, rRoot)) < RSize
(* the mechanism refines ReadAt (violated with Deviations = {"LimitIgnoresInPartOffset"}: H13) *)
MechRefines == WellFormed(rF, rRoot) =>
  LET D == Denote(rF, rRoot) IN
  \A off \in 0..(RSize + 1), n \in 0..(RSize + 2) : MReadAt(rF, rRoot, off, n) = Slice(D, off, n)
(* the same, looked at only after the reader object has taken a step (sensitivity runs: TLC reports a
   violation by an initial state differently) *)
MechRefinesStep == rReply.op # "init" => MechRefines
(* sequential reads tile the denotation: the reader's position is always the number of bytes delivered *)
ReaderTypeOK == rPos >= 0 /\ (rReply.op = "read" => Len(rReply.bytes) <= 3)
ReadTiles == [][rReply'.op = "read" => (rReply'.bytes = Slice(Denote(rF, rRoot), rPos, rPos' - rPos) /\ rPos' >= rPos)]_vars
RView == <<rF, rPos>>

-----------------------------------------------------------------------------
(* II. WRITER *)


(* ---- property level, evaluated on (forest of uploaded blobs, input length, match table, file id) ----
   wM[c] is a sequence of arithmetic progressions <<lo, hi, step>>: the input offsets at which the
   bytes of chunk c occur in the input (computed by byte comparison; in the model a chunk [from, to)
   of an input of distinct bytes occurs exactly at from). *)
MatchAt(ms, pos) == \E i \in 1..Len(ms) : pos >= ms[i][1] /\ pos <= ms[i][2] /\ (pos - ms[i][1]) % ms[i][3] = 0
RECURSIVE CoverFrom(_, _, _, _)
CoverFrom(M, ss, i, pos) ==
  IF i > Len(ss) THEN TRUE
  ELSE /\ ~ss[i].hole
       /\ ss[i].src \in DOMAIN M
       /\ pos >= ss[i].off /\ MatchAt(M[ss[i].src], pos - ss[i].off)
       /\ CoverFrom(M, ss, i + 1, pos + ss[i].size)
(* the file denotes the input: its segments, laid end to end, each lie where their chunk's bytes occur *)
DenotesInput(F, M, fid, n) == SizeOf(F, fid) = n /\ CoverFrom(M, Segs(F, fid), 1, 0)

ChunkCap(F) == \A id \in DOMAIN F : F[id].kind = "chunk" => (F[id].size >= 1 /\ F[id].size <= MaxChunk)
FileComplete(F, M, fs, n) == fs # NoFile => (Closed(F, fs[1]) /\ WellFormed(F, fs[1]) /\ DenotesInput(F, M, fs[1], n))
FileLast(after) == after = 0
WOk(F, M, fs, n, after) == ChunkCap(F) /\ FileComplete(F, M, fs, n) /\ FileLast(after)

(* the effect of one completed upload, shared by the model and by trace validation *)
Upload(id, node, match) ==
  /\ wF' = (id :> node) @@ wF
  /\ wM' = (IF node.kind = "chunk" THEN (id :> match) @@ wM ELSE wM)
  /\ wFile' = (IF node.kind = "file" /\ wFile = NoFile THEN <<id>> ELSE wFile)
  /\ wAfter' = (IF wFile # NoFile THEN wAfter + 1 ELSE wAfter)
  /\ UNCHANGED <<wN, wPlan>>

(* ---- mechanism: writeFileChunks / addBytesParts / uploadBytes (filewriter.go) ---- *)
Span(from, to, bits, ch) == [from |-> from, to |-> to, bits |-> bits, children |-> ch]
(* cuts: sequence of <<size, bits>>; bits = 0 marks the tail appended at EOF (no children).
   The loop at filewriter.go:371-385: trailing spans with a smaller score become children. *)
RECURSIVE TrailingSmaller(_, _)
TrailingSmaller(spans, bits) ==     \* childrenFrom, as the number of spans kept
  IF spans = <<>> \/ spans[Len(spans)].bits >= bits THEN Len(spans)
  ELSE TrailingSmaller(SubSeq(spans, 1, Len(spans) - 1), bits)
RECURSIVE BuildSpans(_, _, _, _)
BuildSpans(cuts, i, last, spans) ==
  IF i > Len(cuts) THEN spans
  ELSE LET to == last + cuts[i][1]
           bits == cuts[i][2] IN
       IF bits = 0 THEN BuildSpans(cuts, i + 1, to, Append(spans, Span(last, to, 0, <<>>)))
       ELSE LET keep == TrailingSmaller(spans, bits) IN
            BuildSpans(cuts, i + 1, to,
                       Append(SubSeq(spans, 1, keep), Span(last, to, bits, SubSeq(spans, keep + 1, Len(spans)))))

ChunkId(from, to) == <<"chunk", from, to>>
BytesId(from, to) == <<"bytes", from, to>>
FileId(n) == <<"file", 0, n>>
RECURSIVE SpanSize(_), SpansSize(_, _), SpanLo(_)
SpansSize(cs, i) == IF i > Len(cs) THEN 0 ELSE SpanSize(cs[i]) + SpansSize(cs, i + 1)
SpanSize(s) == (s.to - s.from) + SpansSize(s.children, 1)
SpanLo(s) == IF s.children = <<>> THEN s.from ELSE SpanLo(s.children[1])

(* addBytesParts: the parts a list of spans contributes *)
RECURSIVE PartsOfSpans(_, _)
PartsOfSpans(spans, i) ==
  IF i > Len(spans) THEN <<>>
  ELSE LET sp == spans[i]
           promoted == Len(sp.children) = 1 /\ sp.children[1].children = <<>>
           ch == IF promoted THEN <<>> ELSE sp.children IN
       (IF promoted THEN <<BlobPart(ChunkId(sp.children[1].from, sp.children[1].to), 0, SpanSize(sp.children[1]))>> ELSE <<>>)
       \o (IF Len(ch) > 0 THEN <<BytesPart(BytesId(SpanLo(ch[1]), ch[Len(ch)].to), 0, SpansSize(ch, 1))>> ELSE <<>>)
       \o <<BlobPart(ChunkId(sp.from, sp.to), 0, sp.to - sp.from)>>
       \o PartsOfSpans(spans, i + 1)
(* every blob the spans give rise to: id :> node, as a function *)
RECURSIVE BlobsOfSpans(_, _, _)
BlobsOfSpans(spans, i, input) ==
  IF i > Len(spans) THEN <<>>
  ELSE LET sp == spans[i]
           promoted == Len(sp.children) = 1 /\ sp.children[1].children = <<>>
           ch == IF promoted THEN <<>> ELSE sp.children IN
       (ChunkId(sp.from, sp.to) :> Chunk(SubSeq(input, sp.from + 1, sp.to)))
       @@ (IF promoted THEN (ChunkId(sp.children[1].from, sp.children[1].to) :> Chunk(SubSeq(input, sp.children[1].from + 1, sp.children[1].to))) ELSE <<>>)
       @@ (IF Len(ch) > 0 THEN (BytesId(SpanLo(ch[1]), ch[Len(ch)].to) :> Node("bytes", PartsOfSpans(ch, 1))) @@ BlobsOfSpans(ch, 1, input) ELSE <<>>)
       @@ BlobsOfSpans(spans, i + 1, input)

Input(n) == [i \in 1..n |-> i]
PlanOf(n, cuts) == LET spans == BuildSpans(cuts, 1, 0, <<>>) IN
                   (FileId(n) :> Node("file", PartsOfSpans(spans, 1))) @@ BlobsOfSpans(spans, 1, Input(n))

(* all ways the chunker may cut an input of n bytes: sizes 1..cap, a strength per cut, and - unless
   the last cut fell exactly at EOF - a tail of strength 0 *)
RECURSIVE CutSeqs(_, _)
CutSeqs(n, cap) ==
  IF n = 0 THEN {<<>>}
  ELSE (IF n <= cap THEN {<<<<n, 0>>>>} ELSE {})
       \cup UNION {{<<<<k, b>>>> \o t : b \in BitsSet, t \in CutSeqs(n - k, cap)} : k \in 1..Min2(n, cap)}
Cap == IF Dev("NoHardCap") THEN MaxChunk + 1 ELSE MaxChunk

WInit == /\ wN \in 0..MaxN
         /\ \E cuts \in CutSeqs(wN, Cap) : wPlan = PlanOf(wN, cuts)
         /\ wF = <<>> /\ wM = <<>> /\ wFile = NoFile /\ wAfter = 0
         /\ RIdle /\ SIdle

Planned(kind) == {id \in DOMAIN wPlan : wPlan[id].kind = kind}
Stored == DOMAIN wF
(* chunk uploads run concurrently (gate of 32) and complete in any order; writeFileChunks waits for all *)
MUploadChunk(id) == /\ id \in Planned("chunk") \ Stored
                    /\ Upload(id, wPlan[id], <<<<id[2], id[2], 1>>>>)
(* "bytes" blobs are uploaded by goroutines started while the tree is walked: any order, and not
   ordered with respect to the bytes blobs they reference *)
MUploadBytes(id) == /\ Planned("chunk") \subseteq Stored
                    /\ id \in Planned("bytes") \ Stored
                    /\ Upload(id, wPlan[id], <<>>)
(* the "file" blob waits for every future below it (filewriter.go:178-186) *)
MUploadFile(id) == /\ Planned("chunk") \subseteq Stored
                   /\ Dev("FileBeforeParts") \/ Planned("bytes") \subseteq Stored
                   /\ id \in Planned("file") \ Stored
                   /\ Upload(id, wPlan[id], <<>>)
WNext == /\ UNCHANGED <<rvars, svars>>
         /\ \E id \in DOMAIN wPlan : MUploadChunk(id) \/ MUploadBytes(id) \/ MUploadFile(id)
WSpec == WInit /\ [][WNext]_vars

(* ---- what S checks in every state of every upload order of every cut sequence ---- *)
WChunkCap == ChunkCap(wF)
WFileComplete == FileComplete(wF, wM, wFile, wN)
WFileLast == FileLast(wAfter)
(* the segment criterion used on real traces says the same as the bytes: *)
WDenoteBytes == (wFile # NoFile /\ Closed(wF, wFile[1])) => (Denote(wF, wFile[1]) = Input(wN) <=> DenotesInput(wF, wM, wFile[1], wN))
WDenoteIsInput == (wFile # NoFile /\ Closed(wF, wFile[1])) => Denote(wF, wFile[1]) = Input(wN)
(* the plan itself: a well-formed, plain tree *)
WPlanSane == LET f == FileId(wN) IN WellFormed(wPlan, f) /\ Plain(wPlan, f) /\ Closed(wPlan, f) /\ Denote(wPlan, f) = Input(wN)

-----------------------------------------------------------------------------
(* III. STATIC SETS *)

SNode(ms, subs) == [members |-> ms, subs |-> subs]
(* Builder.SetStaticSetMembers (schema.go:570-626), the tree of static-set blobs *)
RECURSIVE Spread(_, _)
Spread(ms, max) ==
  LET n == Len(ms) IN
  IF n <= max THEN SNode(ms, <<>>)
  ELSE LET sn0 == n \div max
           few == sn0 < max
           sn == IF few THEN sn0 ELSE max - 1
           per == IF few THEN max ELSE n \div sn
           full == [i \in 1..sn |-> Spread(SubSeq(ms, (i - 1) * per + 1, i * per), max)]
           rest == IF per * sn < n /\ ~Dev("SpreadDropsRest") THEN <<Spread(SubSeq(ms, per * sn + 1, n), max)>> ELSE <<>>
       IN SNode(<<>>, full \o rest)
(* the blobs SetStaticSetMembers RETURNS for upload (allSubsets): note that the sub-subsets of the
   "rest" subset are dropped by the code - harmless only because the rest is always small *)
RECURSIVE FlattenSeqs(_, _)
FlattenSeqs(ss, i) == IF i > Len(ss) THEN <<>> ELSE ss[i] \o FlattenSeqs(ss, i + 1)
RECURSIVE Returned(_, _)
Returned(ms, max) ==
  LET n == Len(ms) IN
  IF n <= max THEN <<>>
  ELSE LET sn0 == n \div max
           few == sn0 < max
           sn == IF few THEN sn0 ELSE max - 1
           per == IF few THEN max ELSE n \div sn
           sl(i) == SubSeq(ms, (i - 1) * per + 1, i * per)
           full == FlattenSeqs([i \in 1..sn |-> <<Spread(sl(i), max)>> \o Returned(sl(i), max)], 1)
           rest == IF per * sn < n THEN <<Spread(SubSeq(ms, per * sn + 1, n), max)>> ELSE <<>>
       IN full \o rest
(* dirreader.staticSet: members if any, else the merge of the subsets in order *)
RECURSIVE Members(_)
Members(node) ==
  IF Len(node.members) > 0 THEN node.members
  ELSE FlattenSeqs([i \in 1..Len(node.subs) |-> Members(node.subs[i])], 1)
RECURSIVE Descendants(_)
Descendants(node) == UNION {{node.subs[i]} \cup Descendants(node.subs[i]) : i \in 1..Len(node.subs)}
RECURSIVE NodesBounded(_, _)
NodesBounded(node, max) == /\ Len(node.members) <= max /\ Len(node.subs) <= max
                           /\ (Len(node.members) = 0 \/ Len(node.subs) = 0)
                           /\ \A i \in 1..Len(node.subs) : NodesBounded(node.subs[i], max)
SeqRange(s) == {s[i] : i \in 1..Len(s)}
SameBag(s, t) == Len(s) = Len(t) /\ SeqRange(s) = SeqRange(t) /\ Cardinality(SeqRange(s)) = Len(s)

Ids(n) == [i \in 1..n |-> i]
SInit == /\ sMax \in SetMaxes /\ sN = 0
         /\ RIdle /\ WIdle
SNext == /\ sN < SetNMax /\ sN' = sN + 1          \* one more member
         /\ UNCHANGED <<rvars, wvars, sMax>>
SSpec == SInit /\ [][SNext]_vars
SMembersExact == Members(Spread(Ids(sN), sMax)) = Ids(sN)
SNodesBounded == NodesBounded(Spread(Ids(sN), sMax), sMax)
SAllReturned == Descendants(Spread(Ids(sN), sMax)) = SeqRange(Returned(Ids(sN), sMax))
=============================================================================
