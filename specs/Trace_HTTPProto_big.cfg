SPECIFICATION TSpec
CONSTANTS
  Blobs <- BigBlobs
  MaxCursor = 17
  MaxLimit = 9
  MaxStat = 1000
  DefaultLimit = 100
  MaxEnum = 10000
  Deviations = {}
  MaxWireLimit = 9
INVARIANT TTypeOK
POSTCONDITION TraceAccepted
CHECK_DEADLOCK FALSE
