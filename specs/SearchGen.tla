----------------------------- MODULE SearchGen -----------------------------
(* Query generator for C08: the trees of Search.tla's grammar over the world's atom menu, with a sort
   and a limit.  Only INPUTS are emitted ((tree, sort, limit) as JSON); what the real handler answers
   is judged by Trace_Search.tla.
   GenMode "exh": every tree of depth <= 2 x GSorts x GLimits (breadth-first, exhaustive).
   GenMode "sim": with -simulate, random trees grown for Depth steps (left- and right-deep, depth up to
   Depth + 1); one deterministic End step so that each behaviour prints once. *)
EXTENDS Search

CONSTANTS GenMode, Depth, GSorts, GLimits
VARIABLES limit, n
gvars == <<tree, sort, limit, n>>

GInit == tree = <<>> /\ sort = "seed" /\ limit = 0 /\ n = 0

Exh == /\ GenMode = "exh" /\ n = 0 /\ n' = 1
       /\ tree' \in Trees2(Atoms) /\ sort' \in GSorts /\ limit' \in GLimits

Start == /\ GenMode = "sim" /\ n = 0 /\ n' = 1
         /\ tree' \in Atoms /\ sort' \in GSorts /\ limit' \in GLimits
Grow == /\ GenMode = "sim" /\ n >= 1 /\ n < Depth /\ n' = n + 1
        /\ UNCHANGED <<sort, limit>>
        /\ \/ tree' = tree
           \/ tree' = Neg(tree)
           \/ \E op \in Ops, x \in Atoms : tree' = Bin(op, tree, x) \/ tree' = Bin(op, x, tree)
End == /\ GenMode = "sim" /\ n = Depth /\ n' = Depth + 1 /\ UNCHANGED <<tree, sort, limit>>

GNext == Exh \/ Start \/ Grow \/ End
GSpec == GInit /\ [][GNext]_gvars

Emit == ((GenMode = "exh" /\ n = 1) \/ (GenMode = "sim" /\ n = Depth + 1))
          => PrintT(<<"Q", ToJson([tree |-> tree, sort |-> sort, limit |-> limit])>>)
=============================================================================
