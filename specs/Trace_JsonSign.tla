--------------------------- MODULE Trace_JsonSign ---------------------------
(* Validates what the real pkg/jsonsign did (driver harness/cmd/c16) against JsonSign.  Every line is
   independent (pure functions): collect mode, one step per line, differences printed as <<"VIOL", line, ..>>.
     base {shape, scen, verdict, psame, validjson, keys, keyid, lastsep, plen, siglen, total}
           a freshly signed document (scenario applied), unmutated
     mut  {sid, scen, kind, off, nb, ob, nx, plen, siglen, total, verdict, psame}
           one canonical single-byte mutation at byte offset `off` (0-based; ins = before that byte,
           off = total appends); nb = new byte, ob = byte at off (-1 past the end), nx = byte after it
   The region is computed HERE from the offset (RegionOf), the class by ExpectedClass, the judgement by
   Conforms - the operators whose soundness JsonSign.cfg model-checks on abstract documents. *)
EXTENDS JsonSign, TLC, Json, IOUtils

VARIABLE l
Trace == ndJsonDeserialize(IOEnv.TRACE_FILE)
Ev == Trace[l]
RealSepLen == 13

TInit == l = 1 /\ phase = "trace" /\ pay = <<>> /\ scen = "right" /\ mut = NoMut

CanonicalLine(e) == CASE e.kind = "sub" -> e.nb # e.ob /\ e.off < e.total
                      [] e.kind = "ins" -> e.nb # e.ob /\ e.off <= e.total
                      [] e.kind = "del" -> e.ob # e.nx /\ e.off < e.total
                      [] OTHER -> FALSE

MutRegion(e) == RegionOf(e.off, e.plen, RealSepLen, e.siglen)
MutClass(e)  == ExpectedClass(e.scen, MutRegion(e), e.kind)

Diffs(e) ==
  CASE e.ev = "mut" ->
         IF ~CanonicalLine(e) \/ e.total # e.plen + RealSepLen + e.siglen + e.tlen
         THEN <<"mut", e.scen, "noncanonical-or-bad-lengths", e.kind, "canonical", "noncanonical">>
         ELSE IF Conforms(MutClass(e), e.verdict, e.psame) THEN <<>>
         ELSE <<"mut", e.scen, MutRegion(e), e.kind, MutClass(e), e.verdict \o "/payload-same=" \o e.psame>>
    [] e.ev = "base" ->
         LET cl == ExpectedClass(e.scen, "-", "none")
             bad == {f \in {"validjson", "keys", "lastsep"} : e[f] # "t"}
                      \cup (IF Conforms(cl, e.verdict, e.psame) THEN {} ELSE {"verify"})
                      \cup (IF e.scen = "right" /\ e.verdict = "accept" /\ e.keyid # "t" THEN {"keyid"} ELSE {})
         IN IF bad = {} THEN <<>>
            ELSE <<"base", e.scen, "-", "none", cl, e.verdict \o "/payload-same=" \o e.psame, bad>>
    [] OTHER -> <<e.ev, "-", "unexpected-line", "-", "base|mut", e.ev>>

TLine == /\ l <= Len(Trace)
         /\ l' = l + 1
         /\ UNCHANGED vars
         /\ LET d == Diffs(Ev) IN d # <<>> => PrintT(<<"VIOL", l, d>>)
TSpec == TInit /\ [][TLine]_<<vars, l>>
TraceAccepted == TLCGet("stats").diameter - 1 = Len(Trace)
=============================================================================
