SPECIFICATION Spec
CONSTANTS
  Blobs = {1, 2}
  MaxCrashes = 2
  Deviations = {}
INVARIANTS TypeOK DurablePending MemoryCoversQueue QueuedInSource
PROPERTIES RowDeletedOnlyAfterDestAck Delivered
CHECK_DEADLOCK FALSE
