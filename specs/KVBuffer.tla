------------------------------ MODULE KVBuffer ------------------------------
(* The mechanism of pkg/sorted/buffer/buffer.go: a buffer KeyValue (memory) in front of a backing
   KeyValue, transcribed call by call:

     Get          buf.Get, on ErrNotFound back.Get                                   (buffer.go:88)
     Set          CheckSizes -> silently nil; buf.Set; buffered += cost; Flush when buffered > maxBuffer (:103)
     Delete       buf.Delete and, synchronously, back.Delete ("delete-through")      (:122)
     CommitBatch  sets (within the limits) and deletes go to one buf batch, deletes also to a lazily
                  begun back batch; buf batch committed first                        (:142)
     Flush        every buffered pair is set in one back batch and deleted in one buf batch (:59)
     Close        Flush, then back.Close  (the harness then reopens the backing store under a NEW buffer)
     Find         two sub-iterators (buf, back) over the same range merged by iter.Next/current (:223-283)

   The backing store is the most demanding one the interface allows:
     StrictBack     its iterator panics when Next is called again after it returned false (kvfile does);
     ExclusiveBack  a begun batch holds an exclusive gate until committed, and every other call on the
                    backing store waits for that gate (sqlite: syncutil.NewGate(1) + transaction).

   Deviations (confirmed differences of the code at the pinned commit from the intended mechanism):
     "IterTypo"   iter.Next's second start-up test reads `!it.buf.eof` instead of `!it.back.eof`: an
                  exhausted backing iterator is advanced again on every later Next          (H19)
     "FlushLeak"  Flush begins the back batch BEFORE looking at the buffer and commits it only when the
                  buffer was non-empty: flushing an empty buffer leaks an open batch        (H27)
   With Deviations = {} the module must refine SortedKV (buffer shadowing backing); with either
   deviation it must not (anti-vacuity): the reply becomes "panic" / "hang". *)
EXTENDS Naturals, Sequences, FiniteSets, SequencesExt

CONSTANTS NK, NV, BigKeys, BigVals, MaxBatch,
          MaxBufferSet,     \* flush thresholds explored, in units of one buffered Set
          StrictBack, ExclusiveBack,
          Deviations

VARIABLES buf,        \* [Keys -> Vals \cup {Absent}]  the buffer KeyValue
          back,       \* the backing KeyValue
          buffered,   \* kv.buffered, one unit per accepted Set
          maxBuffer,  \* kv.maxBuffer (chosen in Init)
          lock,       \* a batch begun on the backing store has not been committed
          reply

bvars == <<buf, back, buffered, maxBuffer, lock, reply>>

(* What a client of the buffer sees: the buffer shadows the backing store. *)
AbsMap == [k \in 1..NK |-> IF buf[k] # 0 THEN buf[k] ELSE back[k]]

Abs == INSTANCE SortedKV WITH m <- AbsMap

Keys    == Abs!Keys
Vals    == Abs!Vals
Cursors == Abs!Cursors
Absent  == Abs!Absent
Empty   == [k \in Keys |-> Absent]
R(o, res, v, list) == Abs!R(o, res, v, list)

-----------------------------------------------------------------------------
(* The merge iterator.  A sub-iterator is [seq, i, key, eof]: the sorted keys of its store in the
   range, how many were consumed, subIter.key (0 = "", nothing read yet) and subIter.eof. *)
Sub(seq) == [seq |-> seq, i |-> 0, key |-> 0, eof |-> FALSE]

(* subIter.next(): advancing an iterator that already returned false is a panic for a strict store. *)
SubNext(it, strict) ==
  IF it.eof THEN [it |-> it, ok |-> FALSE, panic |-> strict]
  ELSE IF it.i < Len(it.seq)
       THEN [it |-> [it EXCEPT !.i = it.i + 1, !.key = it.seq[it.i + 1]], ok |-> TRUE, panic |-> FALSE]
       ELSE [it |-> [it EXCEPT !.eof = TRUE], ok |-> FALSE, panic |-> FALSE]
NoStep(it) == [it |-> it, ok |-> FALSE, panic |-> FALSE]
B3(n) == IF n.panic THEN "panic" ELSE IF n.ok THEN "true" ELSE "false"

(* iter.Next(), line by line. *)
IterNext(st) ==
  LET n1    == IF st.buf.key = 0 /\ ~st.buf.eof THEN SubNext(st.buf, FALSE) ELSE NoStep(st.buf)
      b1    == n1.it
      cond2 == st.back.key = 0 /\ (IF "IterTypo" \in Deviations THEN ~b1.eof ELSE ~st.back.eof)
      n2    == IF cond2 THEN SubNext(st.back, StrictBack) ELSE NoStep(st.back)
      k1    == n2.it
      st1   == [buf |-> b1, back |-> k1]
  IN IF n2.panic THEN [st |-> st1, res |-> "panic"]
     ELSE IF n1.ok \/ n2.ok THEN [st |-> st1, res |-> "true"]           \* started with at least one value
     ELSE IF b1.eof /\ k1.eof THEN [st |-> st1, res |-> "false"]
     ELSE IF b1.eof THEN LET n == SubNext(k1, StrictBack) IN [st |-> [st1 EXCEPT !.back = n.it], res |-> B3(n)]
     ELSE IF k1.eof THEN LET n == SubNext(b1, FALSE) IN [st |-> [st1 EXCEPT !.buf = n.it], res |-> B3(n)]
     ELSE IF b1.key < k1.key THEN [st |-> [st1 EXCEPT !.buf = SubNext(b1, FALSE).it], res |-> "true"]
     ELSE IF b1.key > k1.key THEN [st |-> [st1 EXCEPT !.back = SubNext(k1, StrictBack).it], res |-> "true"]
     ELSE LET nb == SubNext(b1, FALSE)  nk == SubNext(k1, StrictBack) IN
          [st |-> [buf |-> nb.it, back |-> nk.it], res |-> IF ~nb.ok /\ ~nk.ok THEN "false" ELSE "true"]

(* iter.current(): which sub-iterator Key()/Value() read. *)
CurIsBuf(st) == IF st.back.eof THEN TRUE ELSE IF st.buf.eof THEN FALSE ELSE st.buf.key <= st.back.key
CurPair(st) == IF CurIsBuf(st) THEN <<st.buf.key, buf[st.buf.key]>> ELSE <<st.back.key, back[st.back.key]>>

(* The client scans to exhaustion. *)
RECURSIVE Scan(_, _)
Scan(st, out) == LET r == IterNext(st) IN
                 IF r.res = "true" THEN Scan(r.st, Append(out, CurPair(r.st)))
                 ELSE [list |-> out, res |-> IF r.res = "panic" THEN "panic" ELSE "ok"]

MergeScan(s, e) == Scan([buf |-> Sub(Abs!RangeKeys(buf, s, e)), back |-> Sub(Abs!RangeKeys(back, s, e))], <<>>)

-----------------------------------------------------------------------------
(* The public calls. *)
Blocked == ExclusiveBack /\ lock          \* the next call on the backing store waits forever
Hang(o) == reply' = R(o, "hang", 0, <<>>)
Ok(o)   == reply' = R(o, "ok", 0, <<>>)

(* The state after Flush() as a record; hang = it blocked in back.BeginBatch. *)
FlushOutcome(b, k, n, lk) ==
  LET leak  == "FlushLeak" \in Deviations
      empty == \A x \in Keys : b[x] = Absent
      moved == [x \in Keys |-> IF b[x] # Absent THEN b[x] ELSE k[x]]
  IN IF (leak \/ ~empty) /\ ExclusiveBack /\ lk
     THEN [hang |-> TRUE, buf |-> b, back |-> k, buffered |-> n, lock |-> lk]
     ELSE IF empty THEN [hang |-> FALSE, buf |-> b, back |-> k, buffered |-> n, lock |-> (lk \/ leak)]
     ELSE [hang |-> FALSE, buf |-> Empty, back |-> moved, buffered |-> 0, lock |-> FALSE]

Get(o) ==
  /\ UNCHANGED <<buf, back, buffered, maxBuffer, lock>>
  /\ IF buf[o.a] # Absent THEN reply' = R(o, "ok", buf[o.a], <<>>)
     ELSE IF Blocked THEN Hang(o)
     ELSE IF back[o.a] # Absent THEN reply' = R(o, "ok", back[o.a], <<>>)
     ELSE reply' = R(o, "notfound", 0, <<>>)

Set(o) ==
  /\ UNCHANGED maxBuffer
  /\ IF Abs!Oversize(o.a, o.b) THEN Ok(o) /\ UNCHANGED <<buf, back, buffered, lock>>
     ELSE LET b1 == [buf EXCEPT ![o.a] = o.b]
              n1 == buffered + 1
              f  == FlushOutcome(b1, back, n1, lock)
          IN IF n1 > maxBuffer
             THEN /\ buf' = f.buf /\ back' = f.back /\ buffered' = f.buffered /\ lock' = f.lock
                  /\ (IF f.hang THEN Hang(o) ELSE Ok(o))
             ELSE /\ buf' = b1 /\ buffered' = n1 /\ Ok(o) /\ UNCHANGED <<back, lock>>

Delete(o) ==
  /\ UNCHANGED <<buffered, maxBuffer, lock>>
  /\ buf' = [buf EXCEPT ![o.a] = Absent]
  /\ IF Blocked THEN Hang(o) /\ UNCHANGED back
     ELSE Ok(o) /\ back' = [back EXCEPT ![o.a] = Absent]

HasDelete(ms) == \E i \in 1..Len(ms) : ms[i][1] = 0
RECURSIVE DeletesOnly(_, _)
DeletesOnly(mm, ms) == IF ms = <<>> THEN mm
                       ELSE DeletesOnly(IF Head(ms)[1] = 0 THEN Abs!ApplyMut(mm, Head(ms)) ELSE mm, Tail(ms))
Batch(o) ==
  /\ UNCHANGED <<buffered, maxBuffer, lock>>
  /\ IF HasDelete(o.muts) /\ Blocked THEN Hang(o) /\ UNCHANGED <<buf, back>>      \* lazy back.BeginBatch blocks
     ELSE /\ buf' = Abs!ApplyAll(buf, o.muts)           \* CheckSizes skips oversize sets, as ApplyMut does
          /\ back' = DeletesOnly(back, o.muts)
          /\ Ok(o)

Flush(o) ==
  LET f == FlushOutcome(buf, back, buffered, lock) IN
  /\ buf' = f.buf /\ back' = f.back /\ buffered' = f.buffered /\ lock' = f.lock
  /\ UNCHANGED maxBuffer
  /\ (IF f.hang THEN Hang(o) ELSE Ok(o))

(* Close (Flush + back.Close) and a new buffer.New(fresh memory, reopened backing, maxBuffer):
   whatever was still in the old buffer is gone; a reopened backing store has a fresh gate. *)
Reopen(o) ==
  LET f == FlushOutcome(buf, back, buffered, lock) IN
  /\ UNCHANGED maxBuffer
  /\ IF f.hang THEN Hang(o) /\ UNCHANGED <<buf, back, buffered, lock>>
     ELSE /\ buf' = Empty /\ back' = f.back /\ buffered' = 0 /\ lock' = FALSE
          /\ Ok(o)

Find(o) ==
  /\ UNCHANGED <<buf, back, buffered, maxBuffer, lock>>
  /\ IF Blocked THEN Hang(o)
     ELSE LET r == MergeScan(o.a, o.b) IN reply' = R(o, r.res, 0, r.list)

BDo(o) == CASE o.op = "get"    -> Get(o)
            [] o.op = "set"    -> Set(o)
            [] o.op = "delete" -> Delete(o)
            [] o.op = "batch"  -> Batch(o)
            [] o.op = "flush"  -> Flush(o)
            [] o.op = "reopen" -> Reopen(o)
            [] o.op = "find"   -> Find(o)

BInit == /\ buf = Empty /\ back = Empty
         /\ buffered = 0 /\ maxBuffer \in MaxBufferSet
         /\ lock = FALSE
         /\ reply = R(Abs!NoCall, "ok", 0, <<>>)

BNext == \E o \in Abs!Ops : BDo(o)

BSpec == BInit /\ [][BNext]_bvars

-----------------------------------------------------------------------------
(* Refinement: every step of the mechanism is a step of the byte-ordered map with the same call and the
   same reply (or changes nothing a client can see). *)
Refines == Abs!Spec

(* The same statement with the witness named (the call is in the reply): cheap enough for MaxBatch = 3. *)
RefinesDirected == [][Abs!Do(reply'.call)]_<<AbsMap, reply>>

BTypeOK == /\ buf \in [Keys -> Vals \cup {Absent}] /\ back \in [Keys -> Vals \cup {Absent}]
           /\ buffered \in 0..maxBuffer
(* An action property, not an invariant: under VIEW BView a read leads to an already seen state, on which
   TLC evaluates no invariant, but action properties are evaluated on every transition. *)
NeverPanicsOrHangs == [][reply'.res \notin {"panic", "hang"}]_bvars
NoLeakedBatch == ~lock
(* (kv.buffered is NOT a bound on the buffer's size: CommitBatch never adds to it - transcribed as is,
   it is not observable through the interface.) *)
NoOversizeAnywhere == \A k \in Keys : /\ (buf[k] # Absent => ~Abs!Oversize(k, buf[k]))
                                      /\ (back[k] # Absent => ~Abs!Oversize(k, back[k]))

(* The two-way merge equals the sorted union with the buffer shadowing the backing store, in every
   reachable state and for every range - not only for the ranges some behaviour happens to scan. *)
MergeIsShadowedUnion == \A s \in Cursors, e \in Cursors :
                          LET r == MergeScan(s, e) IN r.res = "ok" => r.list = Abs!FindList(AbsMap, s, e)

BView == <<buf, back, buffered, maxBuffer, lock>>
=============================================================================
