SPECIFICATION Spec
CONSTANTS
  Chunks = {1, 2}
  F = 9
  NZips = 2
  ZipOf <- ZipOfDef
  Deviations = {}
  Concurrent = FALSE
INVARIANTS Invisible RemovedGone RowsPointIntoLarge WholeOnlyWhenComplete
CHECK_DEADLOCK FALSE
