------------------------- MODULE Trace_SyncValidate -------------------------
(* Validates recorded executions of the REAL sync handler's validation / full-sync machinery (pkg/server/sync.go:
   startFullValidation ... validateShardPrefix, fullSyncOnStart) and of blobserver.ListMissingDestinationBlobs against
   SyncValidate.  One line per lower-layer call that took effect (logged by the harness wrappers under one mutex, in
   the order of the effects) plus the driver's marks and observations.  Every line has ev, b, sg (run number).

     reset    fam in {val, fs, lm}; n, smap (shard of blob i), src, dst ([b, z] pairs), rows: the stores and the queue
              before the handler exists
     start    kind = "post": NewSyncHandler; "cfg": CreateHandler("sync", validateOnStart) = readQueueToMemory +
              startFullValidation; "fs": CreateHandler("sync", blockingFullSyncOnStart) = readQueueToMemory + full sync
     post     POST mode=validate answered                                      StartVal | StartValBusy
     enum     side, p, after (0 = the prefix, else blob), items ([b, z] with the prefix, as sent), beyond, res, cut
              one EnumerateBlobs call of a shard's enumerator                  EnumCall (+ the pipeline run to its fixed point)
     set / setfail  b   queue.Set stored the row / returned an injected error  EnqueueRow | EnqRow
     up b, ack b res    source ReceiveBlob stored b / blobserver.Receive returned        SourceAccept / observation
     rm side b, put b z another writer removed a blob / wrote the destination            RmSrc, SetDst
     fetch b res, recv b res, del b   the copier                               CopyFetch, DestReceive, QueueDelete
     enumall  after, items, res, cut: EnumerateBlobs of the full sync          FSEnum
     fsdone   CreateHandler returned (blocking) / the copy loop is asleep      FSDoneStep
     fshang   neither happened and nothing moves any more                      only after a cut-off (deviation)
     vdone / vsrc / vdst / vmiss / verrs    the status page once "Shards processed" = total   observations
     hang     the validation did not complete within the horizon               only if a shard is Blocked
     row b present     queue dump after the validation (copier held)           observation
     release  the destination lets the copier's writes through                 mark
     final b res row   after the copy loop went idle: destination compared byte for byte, queue row   observation
     lm       s, d, out, mism, res: one direct call of ListMissingDestinationBlobs              Run(Pipe)

   Silent steps (no line): the memory halves of the two enqueue paths, the copier's memory delete.
   Segments are independent; dead chain as in Trace_Sync, every explained line is reported (see Mark). *)
EXTENDS SyncValidate, Json, IOUtils

VARIABLES l, dead, segno
Trace == ndJsonDeserialize(IOEnv.TRACE_FILE)
Ev == Trace[l]
tvars == <<vars, l, dead, segno>>

PairB(q) == {q[i][1] : i \in 1..Len(q)}
ToItems(q) == [i \in 1..Len(q) |-> [b |-> q[i][1], z |-> q[i][2]]]
ItemPairs(q) == [i \in 1..Len(q) |-> <<q[i].b, q[i].z>>]

FreshRest == /\ needCopy' = {} /\ vrun' = FALSE /\ round' = 0 /\ sh' = [p \in Shards |-> NewShard]
             /\ ust' = [b \in Blobs |-> "idle"] /\ acked' = {} /\ nup' = 0
             /\ cst' = [b \in Blobs |-> "idle"] /\ fs' = NewFS
             /\ src0' = {} /\ d0' = [b \in Blobs |-> 0] /\ touched' = {} /\ venq' = {} /\ efault' = {}
             /\ nfaults' = 0 /\ nenv' = 0
Fresh == /\ src' = {} /\ dsz' = [b \in Blobs |-> 0] /\ queue' = {} /\ smap' = [b \in Blobs |-> 1] /\ FreshRest

TInit == /\ l = 1 /\ dead = TRUE /\ segno = 0
         /\ src = {} /\ dsz = [b \in Blobs |-> 0] /\ queue = {} /\ smap = [b \in Blobs |-> 1]
         /\ needCopy = {} /\ vrun = FALSE /\ round = 0 /\ sh = [p \in Shards |-> NewShard]
         /\ ust = [b \in Blobs |-> "idle"] /\ acked = {} /\ nup = 0
         /\ cst = [b \in Blobs |-> "idle"] /\ fs = NewFS
         /\ src0 = {} /\ d0 = [b \in Blobs |-> 0] /\ touched = {} /\ venq = {} /\ efault = {}
         /\ nfaults = 0 /\ nenv = 0

\* Every line a live candidate state explains is printed (the orchestrator takes the set).  No high-water registers
\* shared between segments: a segment with many silent steps lags behind the dead front-runner by as many BFS
\* levels, so states of segments far apart coexist and a register indexed by (segment number mod 8) was overwritten by a
\* later segment - lines of the earlier one then went unreported and a good run looked rejected.
Mark == PrintT(<<"HW", l>>)
IsEv(e) == l <= Len(Trace) /\ Ev.ev = e /\ l' = l + 1

\* the copier's memory delete of b is carried across a line only while an upload hook of b can still see the blob
\* pending (as in Trace_Sync)
UpAhead(b) == \E j \in l..(IF l + 200 < Len(Trace) THEN l + 200 ELSE Len(Trace)) :
                  Trace[j].ev = "up" /\ Trace[j].b = b /\ Trace[j].sg = Ev.sg
NoLinger == \A b \in Blobs : cst[b] = "deleted" => (ust[b] = "stored" \/ UpAhead(b))
\* the properties of SyncValidate hold in the state the line is matched in (a candidate explanation that violates them is
\* not an explanation: TLC searches, so they are guards here, not INVARIANTS of the configuration)
PropsHold == Complete /\ NoSpurious /\ ErrShard /\ UploadsDurable /\ (~Dev("NoDrainAfterMerge") => NoStuck) /\ FullSyncComplete
\* ("= TRUE": evaluated as a value.  As a plain conjunct of an action TLC would enumerate every way of satisfying the
\* disjunctions inside - k^n identical successors)
Live == ~dead /\ (NoLinger = TRUE) /\ (PropsHold = TRUE) /\ UNCHANGED <<dead, segno>>
\* Mark must be the LAST conjunct of an action.

TReset == /\ IsEv("reset")
          /\ src' = {Ev.src[i] : i \in 1..Len(Ev.src)}
          /\ dsz' = [b \in Blobs |-> IF \E i \in 1..Len(Ev.dst) : Ev.dst[i][1] = b
                                     THEN Ev.dst[CHOOSE i \in 1..Len(Ev.dst) : Ev.dst[i][1] = b][2] ELSE 0]
          /\ queue' = {Ev.rows[i] : i \in 1..Len(Ev.rows)}
          /\ smap' = [b \in Blobs |-> IF b <= Len(Ev.smap) THEN Ev.smap[b] ELSE 1]
          /\ FreshRest /\ dead' = FALSE
          /\ segno' = (segno + 1) % 8

UnchangedVal == UNCHANGED <<src, dsz, queue, smap, vrun, sh, round, ust, acked, nup, cst, fs,
                            src0, d0, touched, venq, efault, nfaults, nenv>>
TStart == /\ IsEv("start") /\ Live
          /\ CASE Ev.kind = "post" -> UNCHANGED vars
               [] Ev.kind = "cfg"  -> StartValR(TRUE)
               [] Ev.kind = "fs"   -> FSStart
          /\ Mark
\* (a POST that finds a validation running does nothing; the pipeline of a shard is run to its end as soon as its last
\* EnumerateBlobs call is logged, so "running" cannot be told from the state: both readings are tried)
TPost == IsEv("post") /\ Live /\ (StartVal \/ (vrun /\ UNCHANGED vars)) /\ Mark

EnumCallT(p, x, all) ==
  /\ ItemPairs(all) = Ev.items /\ Ev.beyond = Beyond(x, p)
  /\ IF Ev.res = "ok" THEN EnumCallB(p, x, all, Beyond(x, p), FALSE, FALSE)
     ELSE /\ Ev.cut <= Len(all)
          /\ \E k \in 0..Ev.cut : EnumCallB(p, x, SubSeq(all, 1, k), FALSE, TRUE, FALSE)
\* one EnumerateBlobs call: the gate's answer is what the specification's store holds, and the enumerator was due
TEnum == /\ IsEv("enum") /\ Live /\ Ev.p \in Shards /\ Ev.side \in Sides
         /\ LET r == sh[Ev.p] IN
            \/ /\ r.pc = "run" /\ r[Ev.side].st = "call" /\ Ev.after = r[Ev.side].cur
               /\ EnumCallT(Ev.p, Ev.side, Items(Ev.side, Ev.p, Ev.after))
            \* an enumerator nobody waits for any more (its shard ended on the other side's error, or the context was cancelled)
            \/ /\ r.pc = "fin" /\ r.eerr /\ UNCHANGED vars
         /\ Mark

HeadIs(p, b) == sh[p].pc = "enq" /\ sh[p].out # <<>> /\ Head(sh[p].out) = b
TSet == /\ IsEv("set") /\ Live /\ Ev.b \in Blobs
        /\ \/ EnqueueRow(Ev.b)
           \/ HeadIs(smap[Ev.b], Ev.b) /\ EnqRow(smap[Ev.b], TRUE)
        /\ Mark
TSetFail == /\ IsEv("setfail") /\ Live /\ Ev.b \in Blobs
            /\ \/ EnqueueRowFail(Ev.b)
               \/ HeadIs(smap[Ev.b], Ev.b) /\ EnqRow(smap[Ev.b], FALSE)
            /\ Mark
TUp == IsEv("up") /\ Live /\ Ev.b \in Blobs /\ SourceAccept(Ev.b) /\ Mark
TAck == /\ IsEv("ack") /\ Live /\ Ev.b \in Blobs
        /\ ust[Ev.b] = "idle" /\ Ev.res \in {"ok", "err"} /\ ((Ev.res = "ok" => (Ev.b \in acked \/ Voided(Ev.b) \in acked)) = TRUE)
        /\ UNCHANGED vars /\ Mark
TRm == /\ IsEv("rm") /\ Live /\ Ev.b \in Blobs
       /\ IF Ev.side = "s" THEN RmSrc(Ev.b) ELSE SetDst(Ev.b, 0)
       /\ Mark
TPut == IsEv("put") /\ Live /\ Ev.b \in Blobs /\ Ev.z \in 1..2 /\ SetDst(Ev.b, Ev.z) /\ Mark
TFetch == IsEv("fetch") /\ Live /\ Ev.b \in Blobs /\ CopyFetch(Ev.b, Ev.res) /\ Mark
TRecv == IsEv("recv") /\ Live /\ Ev.b \in Blobs /\ DestReceive(Ev.b, Ev.res) /\ Mark
TDel == IsEv("del") /\ Live /\ Ev.b \in Blobs /\ QueueDelete(Ev.b) /\ Mark

EnumAllT(all) == /\ all = Ev.items
                 /\ IF Ev.res = "ok" THEN FSEnumB(all, FALSE, all = <<>>)
                    ELSE /\ Ev.cut <= Len(all)
                         /\ \E k \in 0..Ev.cut : FSEnumB(SubSeq(all, 1, k), TRUE, FALSE)
TEnumAll == /\ IsEv("enumall") /\ Live /\ Ev.after = fs.cur
            /\ EnumAllT(FirstBatch(SetToSeqAsc({b \in src : b > fs.cur})))
            /\ Mark
TFsDone == IsEv("fsdone") /\ Live /\ FSDoneStep /\ Mark
\* the full sync did not come to an end: only after a cut-off (deviation FullSyncBatchCutoff)
TFsHang == IsEv("fshang") /\ Live /\ fs.pc = "full" /\ fs.cutoff /\ UNCHANGED vars /\ Mark

\* ---- observations (the state does not change)
Seen(e) == IsEv(e) /\ Live /\ UNCHANGED vars
SErrShards == {p \in Shards : sh[p].s.err}
DstLo == SumOver(Shards \ SErrShards, [p \in Shards |-> sh[p].d.cnt])
TVDone == /\ Seen("vdone") /\ ValDone
          /\ Ev.done = Ev.total /\ Ev.total = Cardinality(Shards) + Ev.quiet /\ Ev.quietd = Ev.quiet
          /\ Mark
TVSrc  == Seen("vsrc") /\ ValDone /\ Ev.n = vsrcCount /\ Mark
\* (the destination enumerator of a shard that ended on a source error is not waited for: it may have counted any
\* number of its blobs)
TVDst  == /\ Seen("vdst") /\ ValDone
          /\ Ev.n >= DstLo
          /\ Ev.n <= DstLo + Cardinality({b \in Blobs : (dsz[b] # 0 \/ d0[b] # 0 \/ b \in touched) /\ smap[b] \in SErrShards})
          /\ Mark
TVMiss == Seen("vmiss") /\ ValDone /\ Ev.n = vmissing /\ Mark
TVErrs == Seen("verrs") /\ ValDone /\ {Ev.errs[i] : i \in 1..Len(Ev.errs)} = vshardErrs /\ Len(Ev.errs) = Cardinality(vshardErrs) /\ Mark
THang  == Seen("hang") /\ vrun /\ (\E p \in Shards : Blocked(sh[p])) /\ Mark
TRow   == Seen("row") /\ Ev.b \in Blobs /\ (Ev.present <=> Ev.b \in queue) /\ Mark
TRelease == Seen("release") /\ Mark
\* after the copy loop went idle: nothing copyable is pending any more, the destination holds what the model says
TFinal == /\ Seen("final") /\ Ev.b \in Blobs
          /\ cst[Ev.b] = "idle"
          /\ ((Ev.b \in needCopy \/ Ev.b \in fs.work) => Ev.b \notin src) = TRUE
          /\ Ev.res = (CASE dsz[Ev.b] = 1 -> "delivered" [] dsz[Ev.b] = 2 -> "wrongsize" [] OTHER -> "absent")
          /\ Ev.row <=> (Ev.b \in queue)
          /\ Mark

\* one direct call of ListMissingDestinationBlobs: the streams as fed (a [0, 0] pair is the zero-value sentinel)
CutAt(q) == IF \E i \in 1..Len(q) : q[i][1] = 0 THEN (CHOOSE i \in 1..Len(q) : q[i][1] = 0 /\ \A j \in 1..(i - 1) : q[j][1] # 0) - 1
            ELSE Len(q) + 1
Before(q) == IF CutAt(q) <= Len(q) THEN SubSeq(q, 1, CutAt(q)) ELSE q
LmT(r) == /\ r.pc # "run" /\ r.out = Ev.out
          /\ {Ev.mism[i] : i \in 1..Len(Ev.mism)} = r.mism /\ Len(Ev.mism) = Cardinality(r.mism)
TLm == /\ Seen("lm") /\ Ev.res = "closed"
       /\ LmT(Run(Pipe(ToItems(Before(Ev.s)), ToItems(Before(Ev.d)), CutAt(Ev.s), CutAt(Ev.d))))
       /\ Mark

\* ---- silent steps
TSilent == /\ ~dead /\ l <= Len(Trace)
           /\ \/ \E b \in Blobs : \/ MemDelete(b)
                                  \/ (Ev.b = b \/ HeadIs(smap[b], b)) /\ EnqueueMem(b)
              \/ \E p \in Shards : /\ sh[p].pc = "enq" /\ sh[p].stage = "mem"
                                   /\ (Head(sh[p].out) \in needCopy \/ Ev.b = Head(sh[p].out))
                                   /\ EnqMem(p)
           /\ UNCHANGED <<l, dead, segno>>

TGiveUp == ~dead /\ l <= Len(Trace) /\ Ev.ev # "reset" /\ l' = l + 1 /\ dead' = TRUE /\ Fresh /\ UNCHANGED segno
TSkip == dead /\ l <= Len(Trace) /\ Ev.ev # "reset" /\ l' = l + 1 /\ UNCHANGED <<vars, dead, segno>>

TNext == TReset \/ TStart \/ TPost \/ TEnum \/ TSet \/ TSetFail \/ TUp \/ TAck \/ TRm \/ TPut \/ TFetch \/ TRecv \/ TDel
         \/ TEnumAll \/ TFsDone \/ TFsHang \/ TVDone \/ TVSrc \/ TVDst \/ TVMiss \/ TVErrs \/ THang \/ TRow \/ TRelease \/ TFinal
         \/ TLm \/ TSilent \/ TGiveUp \/ TSkip
TSpec == TInit /\ [][TNext]_tvars
Consumed == TLCGet("stats").diameter >= Len(Trace)
=============================================================================
