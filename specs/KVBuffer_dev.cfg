SPECIFICATION BSpec
CONSTANTS
  NK = 3
  NV = 2
  BigKeys = {}
  BigVals = {}
  MaxBatch = 1
  MaxBufferSet = {0, 2}
  StrictBack = TRUE
  ExclusiveBack = TRUE
  Deviations = {}
PROPERTIES NeverPanicsOrHangs
VIEW BView
CHECK_DEADLOCK FALSE
