SPECIFICATION SSpec
CONSTANTS
  Deviations = {}
  MaxChunk = 2
  MaxN = 5
  BitsSet = {1, 2, 3}
  Family = "d1"
  SetMaxes = {3, 4, 5}
  SetNMax = 140
  ReaderSteps = FALSE
INVARIANT SMembersExact
INVARIANT SNodesBounded
INVARIANT SAllReturned
CHECK_DEADLOCK FALSE
