----------------------- MODULE Trace_BlobStoreFault -----------------------
(* Strict validation of fault-injection / crash runs of real storage configurations against BlobStoreFault.
   Lines: reset (as Trace_BlobStore), op (with "flt": the injected fault fired during this call),
   recover (the store was rebuilt by its own recovery procedure; "res":"ok" or "failed").
   TLC searches over the outcomes of failed mutators (BFS over all branches).  Segments (reset to reset) are
   independent; so that ONE linear TLC run examines all of them, every live branch may also give up: the
   `dead` chain (one canonical state per line) skips to the next reset.  Live steps report the highest line
   they explained (<<"HW", line>>, monotone register, -workers 1); a segment is accepted iff its last line was
   explained by a live branch, otherwise the first unexplained line is HW+1.  The orchestrator reads the HW lines. *)
EXTENDS BlobStoreFault, TLC, Json, IOUtils

VARIABLES l, dead,
          wholeSeen   \* files (ranks) whose whole-file fast path (OpenWholeRef) has been seen to work since the last removal
Trace == ndJsonDeserialize(IOEnv.TRACE_FILE)
Ev == Trace[l]
tvars == <<fvars, l, dead, wholeSeen>>

SeqToSet(s) == {s[i] : i \in 1..Len(s)}

TInit == /\ l = 1
         /\ present = {}
         /\ size = [b \in Blobs |-> 0]
         /\ caps = [canRemove |-> TRUE, readOnly |-> FALSE, subfetch |-> "yes"]
         /\ reply = [op |-> "init", res |-> "ok", size |-> 0, list |-> <<>>]
         /\ limbo = {}
         /\ dead = TRUE /\ wholeSeen = {}

ASSUME TLCSet(1, 0)
Mark == IF l > TLCGet(1) THEN TLCSet(1, l) /\ PrintT(<<"HW", l>>) ELSE TRUE
IsEv(e) == l <= Len(Trace) /\ Ev.ev = e /\ l' = l + 1
Live == ~dead /\ dead' = FALSE
\* Mark must be the LAST conjunct of an action: TLC evaluates conjuncts in order, and the line counts as
\* explained only if everything before it held.

TReset == /\ IsEv("reset")
          /\ present' = SeqToSet(Ev.pre)
          /\ size' = [b \in Blobs |-> IF b \div 2 <= Len(Ev.sizes) THEN Ev.sizes[b \div 2] ELSE 0]
          /\ caps' = [canRemove |-> Ev.canRemove, readOnly |-> Ev.readOnly, subfetch |-> Ev.subfetch]
          /\ reply' = [op |-> "init", res |-> "ok", size |-> 0, list |-> <<>>]
          /\ limbo' = {}
          /\ dead' = FALSE /\ wholeSeen' = {}

Act(e) ==
  CASE e.op = "receive"  -> OkReceive(e.b)
    [] e.op = "fetch"    -> OkFetch(e.b)
    [] e.op = "subfetch" -> OkSubFetch(e.b, e.off, e.len)
    [] e.op = "stat"     -> OkStat(SeqToSet(e.bs))
    [] e.op = "enum"     -> OkEnumerate(e.after, e.limit)
    [] e.op = "remove"   -> OkRemove(SeqToSet(e.bs))
    [] e.op = "stream"   -> OkStream
    [] OTHER             -> FALSE
Same(r, e) == r.res = e.res /\ r.size = e.size /\ r.list = e.list

FailClasses == {"injected", "other", "failed", "corrupt", "readerr"}
\* a faulted fetch through a composite may be answered by a healthy sub-store that does not hold the blob
ReadFailClasses == FailClasses \cup {"notexist"}

\* a call not hit by the fault, or hit but completed: exactly the reference behaviour
AfterOp == wholeSeen' = IF Ev.op = "remove" THEN {} ELSE wholeSeen
TNormal == IsEv("op") /\ Live /\ Act(Ev) /\ Same(reply', Ev) /\ AfterOp /\ Mark

\* a call hit by the fault that returned an error
TFailed == /\ IsEv("op") /\ Live /\ Ev.flt
           /\ Ev.res \in (IF Ev.op \in {"fetch", "subfetch"} THEN ReadFailClasses ELSE FailClasses)
           /\ CASE Ev.op = "receive" -> FailedReceive(Ev.b)
                [] Ev.op = "remove"  -> FailedRemove(SeqToSet(Ev.bs))
                [] OTHER             -> FailedRead(Ev.op)
           /\ AfterOp /\ Mark

TRecover == IsEv("recover") /\ Live /\ Ev.res = "ok" /\ Recover /\ UNCHANGED wholeSeen /\ Mark

(* reading a whole file back through its schema (C04): succeeds exactly when every blob it needs is present; and the
   whole-file fast path (wholeref = OpenWholeRef served the file at every offset tried), once available, stays
   available until something is removed - in particular across restarts and rebuilds of the metadata from the zips
   ("after which all packed blobs and whole-file reads are served identically") *)
TWhole == /\ IsEv("op") /\ Live /\ Ev.op = "whole"
          /\ (Ev.res = "ok") <=> (SeqToSet(Ev.needs) \subseteq present)
          /\ Ev.res \in {"ok", "notexist", "other", "readerr"}
          /\ (Ev.res = "ok" /\ Ev.b \in wholeSeen) => Ev.wholeref
          /\ wholeSeen' = IF Ev.res = "ok" /\ Ev.wholeref THEN wholeSeen \cup {Ev.b} ELSE wholeSeen
          /\ UNCHANGED fvars /\ Mark
(* every zip in the large store is a valid blob within the size limit whose first entry is contiguous file content *)
TZips == IsEv("zips") /\ Live /\ Ev.res = "ok" /\ UNCHANGED <<fvars, wholeSeen>> /\ Mark

(* giving up on a segment: one canonical dead state per line *)
Canon == /\ present' = {} /\ size' = [b \in Blobs |-> 0]
         /\ caps' = [canRemove |-> TRUE, readOnly |-> FALSE, subfetch |-> "yes"]
         /\ reply' = [op |-> "init", res |-> "ok", size |-> 0, list |-> <<>>] /\ limbo' = {} /\ wholeSeen' = {}
TGiveUp == ~dead /\ l <= Len(Trace) /\ Ev.ev # "reset" /\ l' = l + 1 /\ dead' = TRUE /\ Canon
TSkip == dead /\ l <= Len(Trace) /\ Ev.ev # "reset" /\ l' = l + 1 /\ UNCHANGED <<fvars, dead, wholeSeen>>

TNext == TReset \/ TNormal \/ TFailed \/ TRecover \/ TWhole \/ TZips \/ TGiveUp \/ TSkip
TSpec == TInit /\ [][TNext]_tvars
TraceAccepted == TLCGet("stats").diameter - 1 = Len(Trace)
=============================================================================
