----------------------- MODULE Trace_BlobStoreFault -----------------------
(* Strict validation of fault-injection runs of real storage configurations against BlobStoreFault.
   Lines: reset (as Trace_BlobStore), op (with "flt": the injected fault fired during this call),
   recover (the store was rebuilt by its own recovery procedure; "res":"ok" or "failed").
   TLC searches over the outcomes of failed mutators; a line no branch can explain rejects the segment. *)
EXTENDS BlobStoreFault, TLC, Json, IOUtils

VARIABLE l
Trace == ndJsonDeserialize(IOEnv.TRACE_FILE)
Ev == Trace[l]
tvars == <<fvars, l>>

SeqToSet(s) == {s[i] : i \in 1..Len(s)}

TInit == /\ l = 1
         /\ present = {}
         /\ size = [b \in Blobs |-> 0]
         /\ caps = [canRemove |-> TRUE, readOnly |-> FALSE, subfetch |-> "yes"]
         /\ reply = [op |-> "init", res |-> "ok", size |-> 0, list |-> <<>>]
         /\ limbo = {}

IsEv(e) == l <= Len(Trace) /\ Ev.ev = e /\ l' = l + 1

TReset == /\ IsEv("reset")
          /\ present' = SeqToSet(Ev.pre)
          /\ size' = [b \in Blobs |-> IF b \div 2 <= Len(Ev.sizes) THEN Ev.sizes[b \div 2] ELSE 0]
          /\ caps' = [canRemove |-> Ev.canRemove, readOnly |-> Ev.readOnly, subfetch |-> Ev.subfetch]
          /\ reply' = [op |-> "init", res |-> "ok", size |-> 0, list |-> <<>>]
          /\ limbo' = {}

Act(e) ==
  CASE e.op = "receive"  -> OkReceive(e.b)
    [] e.op = "fetch"    -> OkFetch(e.b)
    [] e.op = "subfetch" -> OkSubFetch(e.b, e.off, e.len)
    [] e.op = "stat"     -> OkStat(SeqToSet(e.bs))
    [] e.op = "enum"     -> OkEnumerate(e.after, e.limit)
    [] e.op = "remove"   -> OkRemove(SeqToSet(e.bs))
Same(r, e) == r.res = e.res /\ r.size = e.size /\ r.list = e.list

FailClasses == {"injected", "other", "failed", "corrupt", "readerr"}
\* a faulted fetch through a composite may be answered by a healthy sub-store that does not hold the blob
ReadFailClasses == FailClasses \cup {"notexist"}

\* a call not hit by the fault, or hit but completed: exactly the reference behaviour
TNormal == IsEv("op") /\ Act(Ev) /\ Same(reply', Ev)

\* a call hit by the fault that returned an error
TFailed == /\ IsEv("op") /\ Ev.flt
           /\ Ev.res \in (IF Ev.op \in {"fetch", "subfetch"} THEN ReadFailClasses ELSE FailClasses)
           /\ CASE Ev.op = "receive" -> FailedReceive(Ev.b)
                [] Ev.op = "remove"  -> FailedRemove(SeqToSet(Ev.bs))
                [] OTHER             -> FailedRead(Ev.op)

TRecover == IsEv("recover") /\ Ev.res = "ok" /\ Recover

TNext == TReset \/ TNormal \/ TFailed \/ TRecover
TSpec == TInit /\ [][TNext]_tvars
TraceAccepted == TLCGet("stats").diameter - 1 = Len(Trace)
=============================================================================
