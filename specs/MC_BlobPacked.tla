---------------------------- MODULE MC_BlobPacked ----------------------------
EXTENDS BlobPacked
ZipOfDef == [c \in Chunks |-> IF c = 1 THEN 1 ELSE NZips]
=============================================================================
