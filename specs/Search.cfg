SPECIFICATION Spec
CONSTANTS
  WorldFile = "c08_ws.json"
  Deviations = {}
  MenuSize = 8
  Part = 0
  Parts = 1
INVARIANTS SourceCoversMatchesX TypedSourceOnceX MatcherAgreesX OrderLimitValid
CHECK_DEADLOCK FALSE
