--------------------------- MODULE Trace_FilesVFS ---------------------------
(* Validation of the VFS call log recorded under the REAL files.Storage (every receive / remove / enumerate of
   every run that uses the harness VFS) against the per-file automaton of FilesVFS, generalised to any number
   of files: a name ending in ".dat" (Ev.dat / Ev.todat, computed by the projection) comes into existence only
   by Rename of a temp file that has been completely written, Synced and Closed; nothing is ever written to a
   .dat name; temp files of failed receives are removed.  Collect mode: violations are printed and validation
   continues.  Lines: {"call": TempFile|Write|Sync|Close|Rename|Remove|reset, "p", "to", "len", "dat", "todat"}. *)
EXTENDS Naturals, Sequences, FiniteSets, TLC, Json, IOUtils

VARIABLES names, fs, l
Trace == ndJsonDeserialize(IOEnv.TRACE_FILE)
Ev == Trace[l]
vars == <<names, fs, l>>

Rec(data, synced, open) == [data |-> data, synced |-> synced, open |-> open]
Init == names = {} /\ fs = <<>> /\ l = 1

Is(c) == l <= Len(Trace) /\ Ev.call = c /\ l' = l + 1
Put(n, r) == /\ names' = names \cup {n}
             /\ fs' = [x \in names \cup {n} |-> IF x = n THEN r ELSE fs[x]]
Drop(n) == /\ names' = names \ {n}
           /\ fs' = [x \in names \ {n} |-> fs[x]]
Viol(what) == PrintT(<<"VIOL", l, what>>)

TReset == Is("reset") /\ names' = {} /\ fs' = <<>>

TTemp == /\ Is("TempFile")
         /\ (Ev.dat => Viol("file with a .dat name created directly"))
         /\ Put(Ev.p, Rec(0, 0, TRUE))

TWrite == /\ Is("Write")
          /\ IF Ev.p \in names /\ fs[Ev.p].open /\ ~Ev.dat
             THEN Put(Ev.p, Rec(Ev.len, fs[Ev.p].synced, TRUE))
             ELSE Viol("write to a closed, unknown or .dat file") /\ UNCHANGED <<names, fs>>

TSync == /\ Is("Sync")
         /\ IF Ev.p \in names THEN Put(Ev.p, Rec(fs[Ev.p].data, fs[Ev.p].data, fs[Ev.p].open))
            ELSE Viol("sync of unknown file") /\ UNCHANGED <<names, fs>>

TClose == /\ Is("Close")
          /\ IF Ev.p \in names THEN Put(Ev.p, Rec(fs[Ev.p].data, fs[Ev.p].synced, FALSE))
             ELSE Viol("close of unknown file") /\ UNCHANGED <<names, fs>>

(* the heart of crash safety: a blob name appears only for a completely written, synced, closed file *)
TRename == /\ Is("Rename")
           /\ IF Ev.p \in names
              THEN /\ ((Ev.todat /\ (fs[Ev.p].synced # fs[Ev.p].data \/ fs[Ev.p].open))
                         => Viol(<<"rename to .dat before sync+close", fs[Ev.p]>>))
                   /\ names' = (names \ {Ev.p}) \cup {Ev.to}
                   /\ fs' = [x \in (names \ {Ev.p}) \cup {Ev.to} |-> IF x = Ev.to THEN fs[Ev.p] ELSE fs[x]]
              ELSE Viol("rename of unknown file") /\ UNCHANGED <<names, fs>>

TRemove == /\ Is("Remove")
           /\ IF Ev.p \in names THEN Drop(Ev.p) ELSE UNCHANGED <<names, fs>>

(* end of a public call: no temp file may be left behind *)
TEnd == /\ Is("end")
        /\ (\E n \in names : fs[n].open) => Viol("temp file still open at the end of the call")
        /\ UNCHANGED <<names, fs>>

TNext == TReset \/ TTemp \/ TWrite \/ TSync \/ TClose \/ TRename \/ TRemove \/ TEnd
TSpec == Init /\ [][TNext]_vars
TraceAccepted == TLCGet("stats").diameter - 1 = Len(Trace)
=============================================================================
