SPECIFICATION Spec
CONSTANTS
  Blobs = {2, 4, 6, 8}
  MaxRecs = 4
  Deviations = {}
  KeepChoices = {TRUE, FALSE}
  Family = "bp"
  Configs <- MCConfigs
VIEW View
PROPERTIES AppendVisibleAny
CHECK_DEADLOCK FALSE
