SPECIFICATION Spec
CONSTANTS
  NK = 4
  NV = 3
  BigKeys = {3}
  BigVals = {3}
  MaxBatch = 2
INVARIANTS TypeOK NoOversizeStored ScanShape ScanSplit
PROPERTIES ReadsDontWrite SetIsReadBack DeleteRemoves BatchLastWriteWins
VIEW View
CHECK_DEADLOCK FALSE
