----------------------------- MODULE MC_IndexLin -----------------------------
(* Constants for the model check of IndexLin: K = public key, P = permanode, C = attribute claim on P, D = delete
   claim targeting P (fetch dependency K, index dependency P's meta row) - the shapes of MC_IndexOOO. *)
EXTENDS IndexLin
K == 1  P == 2  C == 3  D == 4
BlobsDef == {K, P, C, D}
DepsDef == [b \in BlobsDef |-> IF b = K THEN {} ELSE {K}]
IdxDepDef == [b \in BlobsDef |-> IF b = D THEN P ELSE 0]
Blobs3Def == {K, P, D}
=============================================================================
