---------------------------- MODULE SyncIndRef ----------------------------
(* Anti-drift for SyncInd (the typed copy of Sync used for the Apalache leg): both modules are instantiated over
   the SAME constants and variables and TLC checks on the bounded model that their safety specifications coincide
     SyncIndRef_A.cfg   SPECIFICATION SyncSpec, PROPERTY IndSpec: every behaviour of the REAL Sync.tla is a behaviour of
                        SyncInd (what Apalache proves about SyncInd transfers); INVARIANT IndInv on Sync's states
     SyncIndRef_B.cfg   SPECIFICATION IndSpec, PROPERTY SyncSpec: SyncInd allows nothing that Sync.tla forbids;
                        INVARIANT IndInv on SyncInd's states (plain invariant run of the copy)                  *)
EXTENDS Naturals, FiniteSets
CONSTANTS Blobs, MaxCrashes, Deviations
VARIABLES src, dst, queue, needCopy, ust, cst, acked, up, loaded, faulty, crashes
S == INSTANCE Sync
I == INSTANCE SyncInd
SyncSpec == S!Init /\ [][S!Next]_(S!vars)
IndSpec == I!Init /\ [][I!Next]_(I!vars)
IndInv == I!IndInv
SyncProps == S!TypeOK /\ S!DurablePending /\ S!MemoryCoversQueue /\ S!QueuedInSource
(* the properties are stated identically in both modules (checked in every reachable state) *)
SameProps == /\ (S!DurablePending <=> I!DurablePending) /\ (S!MemoryCoversQueue <=> I!MemoryCoversQueue)
             /\ (S!QueuedInSource <=> I!QueuedInSource) /\ (S!TypeOK <=> I!TypeOK)
=============================================================================
