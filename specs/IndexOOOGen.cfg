SPECIFICATION Spec
CONSTANTS
  Shape = 1
  N = 4
  Restarts = {0}
  Dups = {0}
  DupPos = "end"
INVARIANT Emit
CHECK_DEADLOCK FALSE
