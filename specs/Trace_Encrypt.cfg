SPECIFICATION TSpec
CONSTANTS
  Blobs <- BlobsDef
  Plain <- BlobsDef
  NBlobs = 345
  Orders <- TOrders
  AllEnts <- TAllEnts
  MaxCursor = 800
  MaxLimit = 400
  Limit = 100
  Full = 10000
  Macro = FALSE
  Witness = "none"
  MaxId = 1000000
  MaxJobs = 8
  MaxFault = 1000
  MaxCrash = 1000
  Forge = {}
  TamperOn = FALSE
  Deviations = {}
INVARIANT TTypeOK
POSTCONDITION TraceAccepted
CHECK_DEADLOCK FALSE
