SPECIFICATION Spec
CONSTANTS
  N = 3
  RdMode = "few"
INVARIANT Emit
CHECK_DEADLOCK FALSE
