SPECIFICATION LSpec
CONSTANTS
  Blobs <- Blobs3Def
  Deps <- DepsDef
  IdxDep <- IdxDepDef
  Never = {}
  Threads = {1, 2}
  NoBlob = 0
  AllowRestart = FALSE
  Deviations = {}
  LinDev = {}
  MaxReads = 1
  MaxFaults = 0
INVARIANT ReadsExplained
INVARIANT StillConfluent
CHECK_DEADLOCK FALSE
