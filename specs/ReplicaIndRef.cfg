SPECIFICATION Spec
CONSTANTS
  N = 3
  Blobs = {2, 4}
  Deviations = {}
  FullConfig = FALSE
INVARIANTS IndInvOnReplica
PROPERTIES IndSpec
VIEW View
CHECK_DEADLOCK FALSE
