SPECIFICATION Spec
CONSTANTS
  Blobs = {2, 4, 6, 8}
  MaxCursor = 9
  MaxLimit = 5
INVARIANTS TypeOK PagingTheorem PageShape
PROPERTIES OnlyReceiveAdds OnlyRemoveDeletes ReadOnlyNeverChanges
VIEW View
CHECK_DEADLOCK FALSE
