\* sensitivity (anti-vacuity) of the reader refinement: with the believed deviation MechRefinesStep must be violated
SPECIFICATION RSpec
CONSTANTS
  Deviations = {"LimitIgnoresInPartOffset"}
  MaxChunk = 2
  MaxN = 5
  BitsSet = {1, 2, 3}
  Family = "obj"
  SetMaxes = {3}
  SetNMax = 0
  ReaderSteps = TRUE
INVARIANT MechRefinesStep
CHECK_DEADLOCK FALSE
