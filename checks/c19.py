"""C19 - asynchronous sync delivers every blob eventually and its queue is durable.

S: Sync.tla - the mechanism of pkg/server/sync.go, one action per lower-layer call / critical section
   (SourceAccept, EnqueueMem, EnqueueRow, CopyFetch(outcome), DestReceive(outcome), QueueDelete, MemDelete,
   Crash, Start, Reload, Heal).  Safety in every state: DurablePending, MemoryCoversQueue, QueuedInSource; the
   action property RowDeletedOnlyAfterDestAck; liveness under weak fairness, no state constraint:
   acked(b) ~> b in dst.  Sensitivity: each of the deviations DeleteRowBeforeWrite, NoQueueReload,
   EnqueueBeforeSourceAccept must violate (invariant, action property and liveness variants).
G: SyncGen.tla enumerates scenarios (upload history up to renaming, cuts into handler incarnations, outcome of
   the k-th destination write / source read per incarnation, pool size, concurrent uploads); the driver creates
   the real handler through blobserver.CreateHandler("sync") over a gate source (uploads through
   blobserver.Receive), a gate destination (memory gate store; a real index.Index over a gate KV in the second
   configuration) and a shared gate queue KV, and expands every "sweep" incarnation into one run per
   lower-layer call k with the process dying at call k (FreezeAt), restarting over the same queue.
T: Trace_Sync.tla validates the recorded lower-layer events of every run against Sync's actions (silent steps
   for the memory-only actions, TLC searches), including the bounded-horizon observation that every acknowledged
   blob is at the destination byte for byte after healing; seeded random scenarios go through the same
   validator; corrupted copies of real traces must be rejected (binding self-test).
U: unbounded-LENGTH leg (unbounded_jobs, run inside leg S): SyncInd.tla, a typed copy of Sync.tla, with an inductive
   invariant IndInv => DurablePending /\\ MemoryCoversQueue /\\ QueuedInSource discharged by Apalache (base, step,
   implication, and the step condition of RowDeletedOnlyAfterDestAck as an action invariant) for 3 blobs and ANY
   number of crashes; four must-fail runs (each deviation; IndInv without A5); TLC keeps the copy bound to Sync.tla
   in both directions (SyncIndRef_A/_B) and checks IndInv on the bounded model."""
import json
import os
import random
import re
from concurrent.futures import ThreadPoolExecutor

import vlib

LEVEL = "model_checking"
os.environ.setdefault("JAVA_TOOL_OPTIONS", "-XX:TieredStopAtLevel=1 -XX:ParallelGCThreads=2")
SECRING = os.path.join(vlib.REPO, "pkg", "jsonsign", "testdata", "test-secring.gpg")
CHUNK = 18000          # TLC handles behaviours of at most 65535 states; silent steps and safety margin
DEVIATIONS = [("DeleteRowBeforeWrite", "DurablePending"), ("NoQueueReload", "MemoryCoversQueue"),
              ("EnqueueBeforeSourceAccept", "QueuedInSource")]


def is_reset(e):
    return e.get("ev") == "reset"


def segments(evs):
    starts = [i for i, e in enumerate(evs) if is_reset(e)]
    return [evs[a:b] for a, b in zip(starts, starts[1:] + [len(evs)])]


def classify(ctx, seg, idx, reason, leg):
    scn = seg[0].get("scn", {})
    cfg = seg[0].get("res")
    ev = seg[idx]
    b = ev.get("b")
    prev = [e for e in seg[1:idx] if e.get("b") == b and e.get("ev") in ("up", "set", "fetch", "recv", "del")] if b else []
    pv = "%s:%s" % (prev[-1]["ev"], prev[-1]["res"]) if prev else "none"
    restarts = sum(1 for e in seg[1:idx] if e.get("ev") == "crash")
    ctxt = "restarts>0" if restarts else "restarts=0"
    if ev.get("ev") == "final":
        acked = any(e.get("ev") == "ack" and e.get("b") == b and e.get("res") == "ok" for e in seg[1:idx])
        sig = "C19/%s/final/%s,%s,prev=%s/delivered,row-as-queued->%s,row=%s" % (
            cfg, "acked" if acked else "unacked", ctxt, pv, ev.get("res"), str(ev.get("row")).lower())
    else:
        sig = "C19/%s/%s:%s/prev=%s,%s/behaviour-of-Sync->not-a-behaviour" % (cfg, ev.get("ev"), ev.get("res"), pv, ctxt)
    lines = [{k: v for k, v in e.items() if k not in ("seq", "sg", "scn")} for e in seg[1:idx + 1]][-25:]
    what = "%s: line %d of the run %s | scenario %s | preceding lines %s" % (
        reason, idx, json.dumps({k: v for k, v in ev.items() if k not in ("seq", "sg")}), json.dumps(scn), json.dumps(lines))
    ctx.discrepancy(sig, what[:900], {"property": "C19", "leg": leg, "scn": scn, "segment": seg[:idx + 1][-80:], "line": idx, "reason": reason})


def validate(ctx, evs, leg, pool=None):
    """Chunk the trace at segment boundaries and validate the chunks in parallel (one linear TLC pass each)."""
    segs = segments(evs)
    chunks, cur = [], []
    for s in segs:
        if cur and len(cur) + len(s) > CHUNK:
            chunks.append(cur)
            cur = []
        cur = cur + s
    if cur:
        chunks.append(cur)

    def one(ch):
        return ctx.tlc_trace_segments("MC_TraceSync", "Trace_Sync.cfg", ch, is_reset, timeout=900)
    if pool is None:
        with ThreadPoolExecutor(max_workers=8) as ex:
            res = list(ex.map(one, chunks))
    else:
        res = list(pool.map(one, chunks))
    nfail = 0
    for fails in res:
        for seg, idx, why in fails:
            classify(ctx, seg, idx, why, leg)
            nfail += 1
    return len(segs), nfail


def drive(ctx, drv, args, tag, seed=None):
    out = ctx.path("c19_%s.ndjson" % tag)
    rc, so, se = ctx.run([drv, "-out", out, "-seed", str(seed or ctx.seed), "-secring", SECRING] + args, timeout=600, ok_codes=None)
    if rc != 0:
        pm = re.search(r"panic: (.*)", se) or re.search(r"fatal error: (.*)", se)
        fr = re.search(r"(perkeep\.org/[^\s(]+)", se[pm.end():]) if pm else None
        if pm and fr:
            ctx.discrepancy("C19/%s/driver/panic@%s" % (tag, fr.group(1)), "process died: %s" % pm.group(1)[:300],
                            {"property": "C19", "args": args, "panic": se[pm.start():pm.start() + 2000]})
            return [], {}
        raise vlib.MachineryError("c19 driver failed (%s) rc=%s: %s" % (tag, rc, se[-2500:]))
    m = re.search(r"scenarios=(\d+) runs=(\d+) events=(\d+) wakes=(\d+) expired=(\d+)", so)
    if not m:
        raise vlib.MachineryError("c19 driver printed no summary: %s" % so[-500:])
    evs = vlib.read_ndjson(out)
    os.remove(out)
    return evs, {"scenarios": int(m.group(1)), "runs": int(m.group(2)), "events": int(m.group(3)), "wakes": int(m.group(4)),
                 "expired": int(m.group(5))}


def measure(ctx, evs):
    """Distinct non-trivial cases actually exercised, measured on the recorded traces."""
    for seg in segments(evs):
        cfg = seg[0].get("res")
        for i, e in enumerate(seg):
            if e.get("ev") == "crash":
                p = seg[i - 1]
                inflight = sorted(set("%s" % x["ev"] for x in seg[max(1, i - 6):i] if x.get("ev") in ("up", "set", "fetch", "recv", "del")))
                ctx.distinct("%s|crash-after:%s:%s|recent=%s" % (cfg, p.get("ev"), p.get("res"), ",".join(inflight)))
            elif e.get("ev") in ("recv", "fetch") and e.get("res") != "ok":
                nxt = [x for x in seg[i + 1:] if x.get("b") == e.get("b")]
                ctx.distinct("%s|%s:%s|then=%s" % (cfg, e["ev"], e["res"], nxt[0]["ev"] if nxt else "-"))
            elif e.get("ev") == "set":
                bl = [x["ev"] for x in seg[1:i] if x.get("b") == e.get("b")]
                if "del" in bl[-3:] or "recv" in bl[-3:] or "fetch" in bl[-3:]:
                    ctx.distinct("%s|row-written-after-copier-started:%s" % (cfg, bl[-1]))
            elif e.get("ev") == "ack" and e.get("res") == "ok":
                bl = [x["ev"] for x in seg[1:i] if x.get("b") == e.get("b")]
                if bl and bl[-1] == "up":
                    ctx.distinct("%s|duplicate-upload-acked-without-row" % cfg)
            elif e.get("ev") == "final":
                ctx.distinct("%s|final:%s:row=%s" % (cfg, e.get("res"), e.get("row")))


def negative_samples(ctx, evs):
    """Corrupt real accepted runs in four ways; every corrupted copy must be rejected."""
    bad = []
    want = {"del-before-recv", "final-flipped", "ack-without-row", "del-after-wrongsize", "set-before-up"}
    for seg in segments(evs):
        if not want:
            break
        if any(e.get("ev") in ("crash",) for e in seg) or seg[0].get("res") != "mem":
            continue
        kinds = [e.get("ev") for e in seg]
        if "del-before-recv" in want and "recv" in kinds and "del" in kinds:
            s = [dict(e) for e in seg]
            r = next(i for i, e in enumerate(s) if e["ev"] == "recv" and e["res"] == "ok")
            d = next((i for i, e in enumerate(s) if e["ev"] == "del" and e["b"] == s[r]["b"] and i > r), None)
            if d is not None:
                x = s.pop(d)
                s.insert(r, x)
                s[0] = dict(s[0], neg="del-before-recv")
                bad.append(s)
                want.discard("del-before-recv")
                continue
        if "final-flipped" in want and any(e.get("ev") == "final" and e.get("res") == "delivered" for e in seg):
            s = [dict(e) for e in seg]
            acked = set(e["b"] for e in s if e["ev"] == "ack" and e["res"] == "ok")
            f = next((i for i, e in enumerate(s) if e["ev"] == "final" and e["b"] in acked), None)
            if f is not None:
                s[f]["res"] = "undelivered"
                s[0] = dict(s[0], neg="final-flipped")
                bad.append(s)
                want.discard("final-flipped")
                continue
        if "ack-without-row" in want:
            s = [dict(e) for e in seg]
            k = next((i for i, e in enumerate(s) if e["ev"] == "set"), None)
            if k is not None and sum(1 for e in s if e["ev"] == "up" and e["b"] == s[k]["b"]) == 1:
                s.pop(k)
                s[0] = dict(s[0], neg="ack-without-row")
                bad.append(s)
                want.discard("ack-without-row")
                continue
        if "set-before-up" in want:
            s = [dict(e) for e in seg]
            k = next((i for i, e in enumerate(s) if e["ev"] == "set"), None)
            u = next((i for i, e in enumerate(s) if e["ev"] == "up" and k is not None and e["b"] == s[k]["b"]), None)
            if k is not None and u is not None and u < k:
                x = s.pop(k)
                s.insert(u, x)
                s[0] = dict(s[0], neg="set-before-up")
                bad.append(s)
                want.discard("set-before-up")
                continue
        if "del-after-wrongsize" in want:
            s = [dict(e) for e in seg]
            r = next((i for i, e in enumerate(s) if e["ev"] == "recv" and e["res"] == "ok"), None)
            if r is not None and any(e["ev"] == "heal" for e in s[r:]):      # the recv is before the heal mark: a fault is allowed there
                s[r]["res"] = "wrongsize"
                s[0] = dict(s[0], neg="del-after-wrongsize")
                bad.append(s)
                want.discard("del-after-wrongsize")
                continue
    if want:
        raise vlib.MachineryError("negative samples: no suitable real run found for %s" % sorted(want))
    flat = [e for s in bad for e in s]
    fails = ctx.tlc_trace_segments("MC_TraceSync", "Trace_Sync.cfg", flat, is_reset)
    rejected = set(f[0][0].get("neg") for f in fails)
    missing = set(s[0]["neg"] for s in bad) - rejected
    if missing:
        raise vlib.MachineryError("negative samples accepted by Trace_Sync (the trace spec does not bind): %s" % sorted(missing))
    ctx.count("T", negative_samples_rejected=len(bad))


# (init, inv, length, cinit, expected): proof obligations of the inductive argument on MC_SyncInd, then must-fail runs
APALACHE = [("Init", "IndInv", 0, "ConstInit", "ok"),                 # base:  Init => IndInv
            ("IndInit", "IndInv", 1, "ConstInit", "ok"),              # step:  IndInv /\ Next => IndInv'
            ("IndInit", "Props", 0, "ConstInit", "ok"),               # IndInv => DurablePending /\ MemoryCoversQueue /\ QueuedInSource
            ("IndInit", "RowDelStep", 1, "ConstInit", "ok"),          # IndInv /\ Next => step condition of RowDeletedOnlyAfterDestAck
            ("IndInit", "IndInv", 1, "ConstInitDelRow", "violated"),      # sensitivity: DeleteRowBeforeWrite
            ("IndInit", "IndInv", 1, "ConstInitNoReload", "violated"),    # sensitivity: NoQueueReload
            ("IndInit", "IndInv", 1, "ConstInitEarlyEnq", "violated"),    # sensitivity: EnqueueBeforeSourceAccept
            ("WeakInit", "WeakInv", 1, "ConstInit", "violated")]          # sensitivity: IndInv without A5 is not inductive


def unbounded_jobs(ctx, quick):
    """Unbounded-length safety (Apalache) + anti-drift of the typed copy SyncInd against Sync.tla (TLC, both directions).
    Returns zero-argument jobs for leg S's thread pool; call before the threads start (derives cfg files)."""
    drift = [("SyncIndRef_A.cfg", None), ("SyncIndRef_B.cfg", None)]
    if not quick:
        drift += [(c, {"Blobs": "{1, 2, 3}", "MaxCrashes": 1}) for c, _ in drift]
    for c, ov in drift:
        ctx._cfg(c, ov)

    def apa(i, v, n, ci, exp):
        ctx.apalache_ind("MC_SyncInd", i, v, n, cinit=ci, expect=exp)

    def tlc(c, ov):
        ctx.tlc_check("SyncIndRef", c, overrides=ov, workers=4, timeout=1500)
    jobs = [(lambda a=a: apa(*a)) for a in APALACHE] + [(lambda d=d: tlc(*d)) for d in drift]
    ctx.count("S", unbounded_length_obligations_proved=4, unbounded_length_must_fail=4)
    ctx.assumptions.append("unbounded-length leg: the inductive invariant is discharged for a FIXED blob universe (3 blobs), Deviations = {}, "
                           "ANY MaxCrashes and behaviours of ANY length; safety only (no fairness, no liveness); SyncInd is a typed copy "
                           "of Sync.tla bound to it by TLC refinement checks in both directions on the bounded model")
    return jobs


def leg_s(ctx, quick):
    jobs = [("Sync", "Sync.cfg", None, None, 6),
            ("Sync", "Sync_safety.cfg", None, None, 6)]
    for dev, inv in DEVIATIONS:
        jobs.append(("Sync", "Sync_inv.cfg", {"Deviations": '{"%s"}' % dev}, inv, 2))
    jobs.append(("Sync", "Sync_act.cfg", {"Deviations": '{"DeleteRowBeforeWrite"}'}, "RowDeletedOnlyAfterDestAck", 2))
    if not quick:
        jobs.append(("Sync", "Sync.cfg", {"Blobs": "{1, 2, 3}", "MaxCrashes": 2}, None, 8))
        jobs.append(("Sync", "Sync_safety.cfg", {"Blobs": "{1, 2, 3, 4}"}, None, 8))
    for _, cfg, ov, _, _ in jobs:
        ctx._cfg(cfg, ov)          # derive the cfg files before the threads start

    def one(j):
        mod, cfg, ov, exp, w = j
        return ctx.tlc_check(mod, cfg, overrides=ov, workers=w, expect_violation=exp, timeout=1500, coverage=(not quick and exp is None))

    def live(dev):
        # vlib does not recognise TLC's wording of a liveness violation: run it directly
        c = ctx._cfg("Sync_live.cfg", {"Deviations": '{"%s"}' % dev})
        r = ctx._tlc("Sync", c, ["-workers", "2"], 600)
        if "Temporal property Delivered was violated" not in r["out"]:
            raise vlib.MachineryError("sensitivity: Sync_live.cfg with %s did not violate Delivered:\n%s" % (dev, r["out"][-1500:]))
        ctx.count("S", runs=1, liveness_sensitivity=1)
        ctx.log("S Sync/Sync_live.cfg {%s}: Delivered violated as expected (%.1fs)" % (dev, r["wall"]))
    for dev in ("NoQueueReload", "DeleteRowBeforeWrite"):
        ctx._cfg("Sync_live.cfg", {"Deviations": '{"%s"}' % dev})
    ujobs = unbounded_jobs(ctx, quick)
    with ThreadPoolExecutor(max_workers=7) as ex:
        fs = [ex.submit(one, j) for j in jobs] + [ex.submit(live, d) for d in ("NoQueueReload", "DeleteRowBeforeWrite")]
        fs += [ex.submit(u) for u in ujobs]
        rs = [f.result() for f in fs]
    for r in rs:
        if r and r.get("zero_actions"):
            raise vlib.MachineryError("coverage: actions never taken in %s: %s" % (r["cfg"], r["zero_actions"]))


def run(ctx, replay):
    drv = ctx.build("c19")
    quick = ctx.quick()
    if replay:
        rp = json.load(open(replay))
        scn = rp["scn"]
        # The interleaving of the copier (and of the index's own goroutines) with the uploads is not controlled, so the
        # lower-layer call a crash point denotes shifts by a few calls between runs: re-run the scenario several times,
        # also with every other crash point of the same incarnation.
        variants = [scn] * 3
        for pi, ph in enumerate(scn.get("phases", [])):
            if ph.get("crash") == "at" and ph.get("freeze", 0) > 0:
                v = json.loads(json.dumps(scn))
                v["phases"][pi]["crash"] = "sweep"
                v["phases"][pi]["freeze"] = 0
                variants += [v] * 6
        sf = ctx.path("replay.jsonl")
        vlib.write_jsonl(sf, variants)
        evs, st = drive(ctx, drv, ["-scn", sf, "-cfgs", "asis", "-par", "4"], "replay", seed=scn.get("seed"))
        n, nf = validate(ctx, evs, "replay")
        ctx.cov["traces_validated_against_impl"] += n
        ctx.cov["evaluations"] += len(evs)
        return
    # ---- G: scenario families (TLC), generated first (short JVM runs)
    core = ctx.tlc_gen("SyncGen", "SyncGen.cfg", tag="SCN")
    cuts = ctx.tlc_gen("SyncGen", "SyncGen.cfg", tag="SCN", overrides={
        "MaxLen": 3 if quick else 4, "MaxRestarts": 2, "MaxFaults": 0})
    big = ctx.tlc_gen("SyncGen", "SyncGen.cfg", tag="SCN", overrides={
        "MaxLen": 3, "MaxRestarts": 1, "MaxFaults": 2, "Pools": "{1, 5}", "Pars": "{FALSE, TRUE}"})
    rng = random.Random(ctx.seed)
    sample = rng.sample(big, 160 if quick else 1500)
    fams = [("core", core, "both"), ("cuts", cuts, "mem"), ("sample", sample, "mem"),
            ("sample-ix", rng.sample(big, 50 if quick else 400), "index")]
    if not quick:
        wide = ctx.tlc_gen("SyncGen", "SyncGen.cfg", tag="SCN", overrides={
            "MaxLen": 3, "MaxRestarts": 2, "MaxFaults": 1, "CrashKinds": '{"sweep", "quiet"}'})
        fams.append(("wide", rng.sample(wide, 1500), "mem"))
    # scripted: the index receives dependants before what they depend on (permanode before its key, claims before
    # permanode and key), every crash point, then the rest of the world after the restart
    ooo = [{"n": len(u), "pool": pl, "noperm": True, "phases": [
               {"ups": u, "par": False, "dst": [], "src": [], "crash": "sweep", "freeze": 0},
               {"ups": [], "par": False, "dst": d, "src": [], "crash": "none", "freeze": 0}]}
           for u in ([2, 1], [3, 1, 2], [4, 2, 1], [3, 4, 2, 1]) for pl in (1, 2) for d in ([], ["after"])]
    fams.append(("ooo-ix", ooo, "index"))
    ctx.sample({"scenario": core[len(core) // 2]})
    ctx.sample({"scenario": sample[0]})
    nr = 300 if quick else 4000
    fams.append(("random", None, "random"))
    runs = events = wakes = nseg = nfail = 0
    first = None
    with ThreadPoolExecutor(max_workers=3) as spool, ThreadPoolExecutor(max_workers=8) as vpool:
        s_future = spool.submit(leg_s, ctx, quick)
        pending = []
        for name, scns, cfgs in fams:
            if cfgs == "random":
                # ---- T: seeded random scenarios through the same validator
                evs, st = drive(ctx, drv, ["-random", str(nr), "-par", "10"], name)
            else:
                sf = ctx.path("scn_%s.jsonl" % name)
                vlib.write_jsonl(sf, scns)
                evs, st = drive(ctx, drv, ["-scn", sf, "-cfgs", cfgs, "-par", "10"], name)
            runs += st.get("runs", 0)
            events += len(evs)
            wakes += st.get("wakes", 0)
            ctx.count("G" if scns is not None else "T", **{"scenarios:" + name: len(scns) if scns is not None else nr,
                                                          "runs:" + name: st.get("runs", 0), "expired_waits:" + name: st.get("expired", 0)})
            ctx.log("%s %s: %d scenarios -> %d runs, %d lines, %d wake-ups, %d bounded waits expired" % (
                "T" if scns is None else "G", name, len(scns) if scns is not None else nr, st.get("runs", 0), len(evs),
                st.get("wakes", 0), st.get("expired", 0)))
            if not evs:
                continue
            if first is None:
                first = evs
            # ---- validation (TLC is the oracle); the next family is driven while this one is validated
            pending.append(spool.submit(validate, ctx, evs, "T" if scns is None else "G", vpool))
            measure(ctx, evs)
        for f in pending:
            n, nf = f.result()
            nseg += n
            nfail += nf
        if first:
            negative_samples(ctx, first)
        s_future.result()
    some = segments(first or [])
    if some:
        mid = some[len(some) // 2]
        ctx.sample({"recorded_run": [{k: v for k, v in e.items() if k not in ("seq", "sg", "scn")} for e in mid[:40]]})
    ctx.cov["traces_validated_against_impl"] = nseg
    ctx.cov["evaluations"] = events
    ctx.cov["exhaustive"] = True
    ctx.count("T", runs=nseg, lines=events, rejected=nfail, wakeups=wakes)
    ctx.cov["rule"] = ("run = (configuration mem|index, upload history up to renaming incl. duplicates, cut into incarnations, outcome of the k-th "
                       "destination write in ok/error/wrongsize/after and of the k-th source read in ok/corrupt/missing/error/sizemis per "
                       "incarnation, pool size, concurrent uploads, crash point = every lower-layer call k of a swept incarnation); the core "
                       "family (<= 2 uploads, <= 1 restart, <= 1 fault) and the no-fault family (all cuts, <= 2 restarts) are enumerated by TLC "
                       "and run exhaustively with every crash point, the larger families are sampled with the seed, plus seeded random "
                       "scenarios; distinct = measured (configuration, crash position / fault outcome and what followed / race observed)")
    ctx.assumptions += [
        "gate stores / KVs are correct lower layers; a crash freezes every gate of the incarnation at one lower-layer call (a prefix of "
        "lower-layer calls is durable) and the restarted handler sees the same queue, source and destination backing",
        "the queue KV itself never fails transiently (the property quantifies over destination/source failures and crashes); destination "
        "failures are failures of the destination as a blob receiver, injected by the recording wrapper around the gate store / the index: "
        "'error' = nothing stored, 'wrongsize' = stored and size+1 reported, 'after' = stored and an error reported",
        "the copy loop is woken by enqueueing an unseen blob (the only wake-up the handler offers besides its 5 s timer); 'eventually' is "
        "observed at a bounded horizon: 3 s of effective waiting after the heal mark and at least 6 consecutive wake-ups the copier did not "
        "answer (a poll of a CPU-starved driver counts for at most 1 ms)",
        "index configuration: the destination is a real index.Index behind the recording wrapper, so the handler's toIndex flag (used for "
        "discovery only) is false; delivered = its have-row says '<size>|indexed' after the out-of-order indexing drained; the rest of the "
        "four-blob world (key, permanode, two claims) is uploaded in the last incarnation so that every dependency can be resolved",
        "a row written after its blob was already delivered (the copier may overtake queue.Set) stays until the next restart: Sync.tla "
        "models this and the property does not forbid it; fullSyncOnStart / validateOnStart / hourlyCompare are not exercised",
    ]
