"""C19 - asynchronous sync delivers every blob eventually and its queue is durable.

S: Sync.tla - the mechanism of pkg/server/sync.go, one action per lower-layer call / critical section
   (SourceAccept, EnqueueMem, EnqueueRow, CopyFetch(outcome), DestReceive(outcome), QueueDelete, MemDelete,
   Crash, Start, Reload, Heal).  Safety in every state: DurablePending, MemoryCoversQueue, QueuedInSource; the
   action property RowDeletedOnlyAfterDestAck; liveness under weak fairness, no state constraint:
   acked(b) ~> b in dst.  Sensitivity: each of the deviations DeleteRowBeforeWrite, NoQueueReload,
   EnqueueBeforeSourceAccept must violate (invariant, action property and liveness variants).
   SyncPool.tla - the pass structure of the copy loop on top of Sync (runSync's snapshot, non-blocking feed into the
   bounded work channel, at most Pool workers, bounded result channel drained only after the feed): a refinement of
   Sync (RefinesSync), same invariants, and Delivered checked again because a copy starts only in a worker's
   hands.  Sensitivity BlockingFeedSmallChannel (work channel of Pool slots + blocking feed) must violate Delivered
   with the loop stuck in the feed.
G: SyncGen.tla enumerates scenarios (upload history up to renaming, cuts into handler incarnations, outcome of
   the k-th destination write / source read per incarnation, pool size, concurrent uploads); the driver creates
   the real handler through blobserver.CreateHandler("sync") over a gate source (uploads through
   blobserver.Receive), a gate destination (memory gate store; a real index.Index over a gate KV in the second
   configuration) and a shared gate queue KV, and expands every "sweep" incarnation into one run per
   lower-layer call k with the process dying at call k (FreezeAt), restarting over the same queue.
   Burst family (SyncGen BInit / SyncGenBurst.cfg): 19, 20, 30, 60, 100 distinct blobs become pending at once - uploaded
   while every destination write fails, or while the first destination write of the pass in progress is stalled,
   or left as queue rows by a killed incarnation (restart over that many rows, with a healthy / failing
   destination), or half and half - for copier pools 1, 2, 5, uploads sequential or concurrent; then the
   destination heals and every acknowledged blob must be delivered at the same bounded horizon.  These runs (and
   seeded random members of the family: other sizes, cuts, hold outcomes, crash points) are validated by the same
   Trace_Sync with Blobs = 1..120 (MC_TraceSyncBurst).
T: Trace_Sync.tla validates the recorded lower-layer events of every run against Sync's actions (silent steps
   for the memory-only actions, TLC searches), including the bounded-horizon observation that every acknowledged
   blob is at the destination byte for byte after healing; seeded random scenarios go through the same
   validator; corrupted copies of real traces must be rejected (binding self-test).
U: unbounded-LENGTH leg (unbounded_jobs, run inside leg S): SyncInd.tla, a typed copy of Sync.tla, with an inductive
   invariant IndInv => DurablePending /\\ MemoryCoversQueue /\\ QueuedInSource discharged by Apalache (base, step,
   implication, and the step condition of RowDeletedOnlyAfterDestAck as an action invariant) for 3 blobs and ANY
   number of crashes; four must-fail runs (each deviation; IndInv without A5); TLC keeps the copy bound to Sync.tla
   in both directions (SyncIndRef_A/_B) and checks IndInv on the bounded model."""
import json
import os
import random
import re
from concurrent.futures import ThreadPoolExecutor

import sys

import vlib

sys.path.insert(0, os.path.dirname(os.path.abspath(__file__)))
import _c19v  # noqa: E402  (family "validate": full validation / full sync / ListMissingDestinationBlobs)

LEVEL = "model_checking"
os.environ.setdefault("JAVA_TOOL_OPTIONS", "-XX:TieredStopAtLevel=1 -XX:ParallelGCThreads=2")
SECRING = os.path.join(vlib.REPO, "pkg", "jsonsign", "testdata", "test-secring.gpg")
CHUNK = 18000          # TLC handles behaviours of at most 65535 states; silent steps and safety margin
DEVIATIONS = [("DeleteRowBeforeWrite", "DurablePending"), ("NoQueueReload", "MemoryCoversQueue"),
              ("EnqueueBeforeSourceAccept", "QueuedInSource")]


def is_reset(e):
    return e.get("ev") == "reset"


def segments(evs):
    starts = [i for i, e in enumerate(evs) if is_reset(e)]
    return [evs[a:b] for a, b in zip(starts, starts[1:] + [len(evs)])]


def classify(ctx, seg, idx, reason, leg):
    scn = seg[0].get("scn", {})
    cfg = seg[0].get("res")
    ev = seg[idx]
    b = ev.get("b")
    prev = [e for e in seg[1:idx] if e.get("b") == b and e.get("ev") in ("up", "set", "fetch", "recv", "del")] if b else []
    pv = "%s:%s" % (prev[-1]["ev"], prev[-1]["res"]) if prev else "none"
    restarts = sum(1 for e in seg[1:idx] if e.get("ev") == "crash")
    ctxt = "restarts>0" if restarts else "restarts=0"
    if ev.get("ev") == "final":
        acked = any(e.get("ev") == "ack" and e.get("b") == b and e.get("res") == "ok" for e in seg[1:idx])
        sig = "C19/%s/final/%s,%s,prev=%s/delivered,row-as-queued->%s,row=%s" % (
            cfg, "acked" if acked else "unacked", ctxt, pv, ev.get("res"), str(ev.get("row")).lower())
    else:
        sig = "C19/%s/%s:%s/prev=%s,%s/behaviour-of-Sync->not-a-behaviour" % (cfg, ev.get("ev"), ev.get("res"), pv, ctxt)
    lines = [{k: v for k, v in e.items() if k not in ("seq", "sg", "scn")} for e in seg[1:idx + 1]][-25:]
    what = "%s: line %d of the run %s | scenario %s | preceding lines %s" % (
        reason, idx, json.dumps({k: v for k, v in ev.items() if k not in ("seq", "sg")}), json.dumps(scn), json.dumps(lines))
    ctx.discrepancy(sig, what[:900], {"property": "C19", "leg": leg, "scn": scn, "segment": seg[:idx + 1][-80:], "line": idx, "reason": reason})


BURST_MODULE, BURST_CHUNK, STD_BLOBS = "MC_TraceSyncBurst", 9000, 40


def module_for(evs):
    """Trace_Sync with Blobs = 1..40, or 1..120 for runs of the burst family (a state is three times as big)."""
    return BURST_MODULE if any(isinstance(e.get("b"), int) and e["b"] > STD_BLOBS for e in evs) else "MC_TraceSync"


def validate(ctx, evs, leg, pool=None, module="MC_TraceSync", chunk=CHUNK):
    """Chunk the trace at segment boundaries and validate the chunks in parallel (one linear TLC pass each)."""
    segs = segments(evs)
    chunks, cur = [], []
    for s in segs:
        if cur and len(cur) + len(s) > chunk:
            chunks.append(cur)
            cur = []
        cur = cur + s
    if cur:
        chunks.append(cur)

    def one(ch):
        return ctx.tlc_trace_segments(module, "Trace_Sync.cfg", ch, is_reset, timeout=900)
    if pool is None:
        with ThreadPoolExecutor(max_workers=8) as ex:
            res = list(ex.map(one, chunks))
    else:
        res = list(pool.map(one, chunks))
    nfail = 0
    for fails in res:
        for seg, idx, why in fails:
            classify(ctx, seg, idx, why, leg)
            nfail += 1
    return len(segs), nfail


def drive(ctx, drv, args, tag, seed=None):
    out = ctx.path("c19_%s.ndjson" % tag)
    rc, so, se = ctx.run([drv, "-out", out, "-seed", str(seed or ctx.seed), "-secring", SECRING] + args, timeout=600, ok_codes=None)
    if rc != 0:
        pm = re.search(r"panic: (.*)", se) or re.search(r"fatal error: (.*)", se)
        fr = re.search(r"(perkeep\.org/[^\s(]+)", se[pm.end():]) if pm else None
        if pm and fr:
            ctx.discrepancy("C19/%s/driver/panic@%s" % (tag, fr.group(1)), "process died: %s" % pm.group(1)[:300],
                            {"property": "C19", "args": args, "panic": se[pm.start():pm.start() + 2000]})
            return [], {}
        raise vlib.MachineryError("c19 driver failed (%s) rc=%s: %s" % (tag, rc, se[-2500:]))
    m = re.search(r"scenarios=(\d+) runs=(\d+) events=(\d+) wakes=(\d+) expired=(\d+)", so)
    if not m:
        raise vlib.MachineryError("c19 driver printed no summary: %s" % so[-500:])
    evs = vlib.read_ndjson(out)
    os.remove(out)
    return evs, {"scenarios": int(m.group(1)), "runs": int(m.group(2)), "events": int(m.group(3)), "wakes": int(m.group(4)),
                 "expired": int(m.group(5))}


def measure(ctx, evs, burst=False):
    """Distinct non-trivial cases actually exercised, measured on the recorded traces."""
    for seg in segments(evs):
        cfg = seg[0].get("res")
        if burst:
            # largest number of blobs pending (acknowledged, not yet written to the destination) at a heal / start mark
            pend, most = set(), 0
            for e in seg:
                if e.get("ev") == "ack" and e.get("res") == "ok":
                    pend.add(e["b"])
                elif e.get("ev") == "recv" and e.get("res") in ("ok", "after", "wrongsize"):
                    pend.discard(e["b"])
                elif e.get("ev") in ("heal", "find"):
                    most = max(most, len(pend))
            ctx.distinct("%s|burst|pool=%s|pending-at-heal-or-restart=%d" % (cfg, seg[0].get("scn", {}).get("pool"), most))
            continue
        for i, e in enumerate(seg):
            if e.get("ev") == "crash":
                p = seg[i - 1]
                inflight = sorted(set("%s" % x["ev"] for x in seg[max(1, i - 6):i] if x.get("ev") in ("up", "set", "fetch", "recv", "del")))
                ctx.distinct("%s|crash-after:%s:%s|recent=%s" % (cfg, p.get("ev"), p.get("res"), ",".join(inflight)))
            elif e.get("ev") in ("recv", "fetch") and e.get("res") != "ok":
                nxt = [x for x in seg[i + 1:] if x.get("b") == e.get("b")]
                ctx.distinct("%s|%s:%s|then=%s" % (cfg, e["ev"], e["res"], nxt[0]["ev"] if nxt else "-"))
            elif e.get("ev") == "set":
                bl = [x["ev"] for x in seg[1:i] if x.get("b") == e.get("b")]
                if "del" in bl[-3:] or "recv" in bl[-3:] or "fetch" in bl[-3:]:
                    ctx.distinct("%s|row-written-after-copier-started:%s" % (cfg, bl[-1]))
            elif e.get("ev") == "ack" and e.get("res") == "ok":
                bl = [x["ev"] for x in seg[1:i] if x.get("b") == e.get("b")]
                if bl and bl[-1] == "up":
                    ctx.distinct("%s|duplicate-upload-acked-without-row" % cfg)
            elif e.get("ev") == "final":
                ctx.distinct("%s|final:%s:row=%s" % (cfg, e.get("res"), e.get("row")))


def negative_samples(ctx, evs):
    """Corrupt real accepted runs in four ways; every corrupted copy must be rejected."""
    bad = []
    want = {"del-before-recv", "final-flipped", "ack-without-row", "del-after-wrongsize", "set-before-up"}
    for seg in segments(evs):
        if not want:
            break
        if any(e.get("ev") in ("crash",) for e in seg) or seg[0].get("res") != "mem":
            continue
        kinds = [e.get("ev") for e in seg]
        if "del-before-recv" in want and "recv" in kinds and "del" in kinds:
            s = [dict(e) for e in seg]
            r = next(i for i, e in enumerate(s) if e["ev"] == "recv" and e["res"] == "ok")
            d = next((i for i, e in enumerate(s) if e["ev"] == "del" and e["b"] == s[r]["b"] and i > r), None)
            if d is not None:
                x = s.pop(d)
                s.insert(r, x)
                s[0] = dict(s[0], neg="del-before-recv")
                bad.append(s)
                want.discard("del-before-recv")
                continue
        if "final-flipped" in want and any(e.get("ev") == "final" and e.get("res") == "delivered" for e in seg):
            s = [dict(e) for e in seg]
            acked = set(e["b"] for e in s if e["ev"] == "ack" and e["res"] == "ok")
            f = next((i for i, e in enumerate(s) if e["ev"] == "final" and e["b"] in acked), None)
            if f is not None:
                s[f]["res"] = "undelivered"
                s[0] = dict(s[0], neg="final-flipped")
                bad.append(s)
                want.discard("final-flipped")
                continue
        if "ack-without-row" in want:
            s = [dict(e) for e in seg]
            k = next((i for i, e in enumerate(s) if e["ev"] == "set"), None)
            if k is not None and sum(1 for e in s if e["ev"] == "up" and e["b"] == s[k]["b"]) == 1:
                s.pop(k)
                s[0] = dict(s[0], neg="ack-without-row")
                bad.append(s)
                want.discard("ack-without-row")
                continue
        if "set-before-up" in want:
            s = [dict(e) for e in seg]
            k = next((i for i, e in enumerate(s) if e["ev"] == "set"), None)
            u = next((i for i, e in enumerate(s) if e["ev"] == "up" and k is not None and e["b"] == s[k]["b"]), None)
            if k is not None and u is not None and u < k:
                x = s.pop(k)
                s.insert(u, x)
                s[0] = dict(s[0], neg="set-before-up")
                bad.append(s)
                want.discard("set-before-up")
                continue
        if "del-after-wrongsize" in want:
            s = [dict(e) for e in seg]
            r = next((i for i, e in enumerate(s) if e["ev"] == "recv" and e["res"] == "ok"), None)
            if r is not None and any(e["ev"] == "heal" for e in s[r:]):      # the recv is before the heal mark: a fault is allowed there
                s[r]["res"] = "wrongsize"
                s[0] = dict(s[0], neg="del-after-wrongsize")
                bad.append(s)
                want.discard("del-after-wrongsize")
                continue
    if want:
        raise vlib.MachineryError("negative samples: no suitable real run found for %s" % sorted(want))
    flat = [e for s in bad for e in s]
    fails = ctx.tlc_trace_segments("MC_TraceSync", "Trace_Sync.cfg", flat, is_reset)
    rejected = set(f[0][0].get("neg") for f in fails)
    missing = set(s[0]["neg"] for s in bad) - rejected
    if missing:
        raise vlib.MachineryError("negative samples accepted by Trace_Sync (the trace spec does not bind): %s" % sorted(missing))
    ctx.count("T", negative_samples_rejected=len(bad))


def negative_burst(ctx, evs):
    """Corrupted copies of real burst runs must be rejected by the 120-blob instance as well: the observation at the
    horizon binds for the blobs beyond one pass of the copier, and a row may not go before its destination write."""
    bad = []
    for seg in segments(evs):
        if any(e.get("ev") == "crash" for e in seg) or seg[0].get("scn", {}).get("n", 0) < 19:
            continue
        acked = [e["b"] for e in seg if e["ev"] == "ack" and e["res"] == "ok"]
        s = [dict(e) for e in seg]
        f = next((i for i, e in enumerate(s) if e["ev"] == "final" and acked and e["b"] == acked[-1]), None)
        if f is None:
            continue
        s[f]["res"] = "undelivered"
        s[0] = dict(s[0], neg="burst-final-flipped")
        bad.append(s)
        s = [dict(e) for e in seg]
        r = max((i for i, e in enumerate(s) if e["ev"] == "recv" and e["res"] == "ok"), default=None)
        if r is not None:
            s.pop(r)
            s[0] = dict(s[0], neg="burst-del-without-recv")
            bad.append(s)
        s = [dict(e) for e in seg]
        hl = next((i for i, e in enumerate(s) if e["ev"] == "heal"), None)
        r = next((i for i, e in enumerate(s) if hl is not None and i > hl and e["ev"] == "recv" and e["res"] == "ok"), None)
        if r is not None:
            s[r]["res"] = "error"          # a destination failure after the heal mark, and the row goes all the same
            s[0] = dict(s[0], neg="burst-fault-after-heal")
            bad.append(s)
        break
    if len(bad) < 3:
        raise vlib.MachineryError("negative burst samples: no suitable real run found (%d)" % len(bad))
    for k, sgm in enumerate(bad):          # copies of one run: each is a run of its own (the look-ahead stays inside a run)
        for e in sgm:
            e["sg"] = -1 - k
    fails = ctx.tlc_trace_segments(BURST_MODULE, "Trace_Sync.cfg", [e for s in bad for e in s], is_reset)
    missing = set(s[0]["neg"] for s in bad) - set(f[0][0].get("neg") for f in fails)
    if missing:
        raise vlib.MachineryError("negative burst samples accepted by Trace_Sync (the trace spec does not bind): %s" % sorted(missing))
    ctx.count("T", negative_samples_rejected=len(bad))


# (init, inv, length, cinit, expected): proof obligations of the inductive argument on MC_SyncInd, then must-fail runs
APALACHE = [("Init", "IndInv", 0, "ConstInit", "ok"),                 # base:  Init => IndInv
            ("IndInit", "IndInv", 1, "ConstInit", "ok"),              # step:  IndInv /\ Next => IndInv'
            ("IndInit", "Props", 0, "ConstInit", "ok"),               # IndInv => DurablePending /\ MemoryCoversQueue /\ QueuedInSource
            ("IndInit", "RowDelStep", 1, "ConstInit", "ok"),          # IndInv /\ Next => step condition of RowDeletedOnlyAfterDestAck
            ("IndInit", "IndInv", 1, "ConstInitDelRow", "violated"),      # sensitivity: DeleteRowBeforeWrite
            ("IndInit", "IndInv", 1, "ConstInitNoReload", "violated"),    # sensitivity: NoQueueReload
            ("IndInit", "IndInv", 1, "ConstInitEarlyEnq", "violated"),    # sensitivity: EnqueueBeforeSourceAccept
            ("WeakInit", "WeakInv", 1, "ConstInit", "violated")]          # sensitivity: IndInv without A5 is not inductive


def unbounded_jobs(ctx, quick):
    """Unbounded-length safety (Apalache) + anti-drift of the typed copy SyncInd against Sync.tla (TLC, both directions).
    Returns zero-argument jobs for leg S's thread pool; call before the threads start (derives cfg files)."""
    drift = [("SyncIndRef_A.cfg", None), ("SyncIndRef_B.cfg", None)]
    if not quick:
        drift += [(c, {"Blobs": "{1, 2, 3}", "MaxCrashes": 1}) for c, _ in drift]
    for c, ov in drift:
        ctx._cfg(c, ov)

    def apa(i, v, n, ci, exp):
        ctx.apalache_ind("MC_SyncInd", i, v, n, cinit=ci, expect=exp)

    def tlc(c, ov):
        ctx.tlc_check("SyncIndRef", c, overrides=ov, workers=4, timeout=1500)
    jobs = [(lambda a=a: apa(*a)) for a in APALACHE] + [(lambda d=d: tlc(*d)) for d in drift]
    ctx.count("S", unbounded_length_obligations_proved=4, unbounded_length_must_fail=4)
    ctx.assumptions.append("unbounded-length leg: the inductive invariant is discharged for a FIXED blob universe (3 blobs), Deviations = {}, "
                           "ANY MaxCrashes and behaviours of ANY length; safety only (no fairness, no liveness); SyncInd is a typed copy "
                           "of Sync.tla bound to it by TLC refinement checks in both directions on the bounded model")
    return jobs


def leg_s(ctx, quick):
    jobs = [("Sync", "Sync.cfg", None, None, 6),
            ("Sync", "Sync_safety.cfg", None, None, 6)]
    for dev, inv in DEVIATIONS:
        jobs.append(("Sync", "Sync_inv.cfg", {"Deviations": '{"%s"}' % dev}, inv, 2))
    jobs.append(("Sync", "Sync_act.cfg", {"Deviations": '{"DeleteRowBeforeWrite"}'}, "RowDeletedOnlyAfterDestAck", 2))
    # the pass / pool structure of the copy loop: refinement of Sync, invariants, liveness (WorkCap < |Blobs|: the
    # non-blocking feed leaves part of the batch for the next pass)
    jobs.append(("SyncPool", "SyncPool.cfg", None, None, 4))
    if not quick:
        jobs.append(("Sync", "Sync.cfg", {"Blobs": "{1, 2, 3}", "MaxCrashes": 2}, None, 8))
        jobs.append(("Sync", "Sync_safety.cfg", {"Blobs": "{1, 2, 3, 4}"}, None, 8))
        jobs.append(("SyncPool", "SyncPool.cfg", {"Pool": 2, "WorkCap": 2, "ResCap": 1, "MaxCrashes": 2}, None, 8))
        # the constants of the sensitivity run without the deviation (3 blobs, 1 worker, unbuffered results): Delivered holds
        jobs.append(("SyncPool", "SyncPool_live.cfg", {"Deviations": "{}"}, None, 8))
    for _, cfg, ov, _, _ in jobs:
        ctx._cfg(cfg, ov)          # derive the cfg files before the threads start

    def one(j):
        mod, cfg, ov, exp, w = j
        # SyncPool_live.cfg has an unbuffered result channel (ResCap = 0): its buffered-send actions are never enabled by design
        cov = not quick and exp is None and cfg != "SyncPool_live.cfg"
        return ctx.tlc_check(mod, cfg, overrides=ov, workers=w, expect_violation=exp, timeout=1500, coverage=cov)

    def live(dev):
        # vlib does not recognise TLC's wording of a liveness violation: run it directly
        c = ctx._cfg("Sync_live.cfg", {"Deviations": '{"%s"}' % dev})
        r = ctx._tlc("Sync", c, ["-workers", "2"], 600)
        if "Temporal property Delivered was violated" not in r["out"]:
            raise vlib.MachineryError("sensitivity: Sync_live.cfg with %s did not violate Delivered:\n%s" % (dev, r["out"][-1500:]))
        ctx.count("S", runs=1, liveness_sensitivity=1)
        ctx.log("S Sync/Sync_live.cfg {%s}: Delivered violated as expected (%.1fs)" % (dev, r["wall"]))
    def live_pool():
        # The violation lies ~20 steps deep in a large state space; TLC checks liveness on the partial state graph at
        # its progress interval (60 s by default): make that 3 s instead of exploring the whole graph first.
        r = ctx._tlc("SyncPool", "SyncPool_live.cfg", ["-workers", "2"], 900,
                     env={"JAVA_TOOL_OPTIONS": "-Dtlc2.TLC.progressInterval=3 -XX:ParallelGCThreads=2"})
        out = r["out"]
        if "Temporal property Delivered was violated" not in out:
            raise vlib.MachineryError("sensitivity: SyncPool_live.cfg (BlockingFeedSmallChannel) did not violate Delivered:\n%s" % out[-1500:])
        end = max(out.rfind("Stuttering"), out.rfind("Back to state"))    # "State n: <action> ... State n+1: Stuttering"
        j = out.rfind("State ", 0, end) if end >= 0 else -1
        i = out.rfind("State ", 0, j) if j > 0 else -1
        st = out[i:j] if i >= 0 else ""
        if 'pc = "feed"' not in st or "batch = {}" in st:
            raise vlib.MachineryError("sensitivity: BlockingFeedSmallChannel violated Delivered, but not by a blocked feed:\n%s" % out[-2500:])
        ctx.count("S", runs=1, liveness_sensitivity=1)
        ctx.log("S SyncPool/SyncPool_live.cfg {BlockingFeedSmallChannel}: Delivered violated as expected, loop stuck in the feed (%.1fs)" % r["wall"])
    for dev in ("NoQueueReload", "DeleteRowBeforeWrite"):
        ctx._cfg("Sync_live.cfg", {"Deviations": '{"%s"}' % dev})
    ujobs = unbounded_jobs(ctx, quick)
    with ThreadPoolExecutor(max_workers=7) as ex:
        fs = [ex.submit(one, j) for j in jobs] + [ex.submit(live, d) for d in ("NoQueueReload", "DeleteRowBeforeWrite")]
        fs.append(ex.submit(live_pool))
        fs += [ex.submit(u) for u in ujobs]
        rs = [f.result() for f in fs]
    for r in rs:
        if r and r.get("zero_actions"):
            raise vlib.MachineryError("coverage: actions never taken in %s: %s" % (r["cfg"], r["zero_actions"]))


def run(ctx, replay):
    drv = ctx.build("c19")
    quick = ctx.quick()
    if replay:
        rp = json.load(open(replay))
        if rp.get("family") == _c19v.FAMILY:
            return _c19v.replay(ctx, rp)
        scn = rp["scn"]
        # The interleaving of the copier (and of the index's own goroutines) with the uploads is not controlled, so the
        # lower-layer call a crash point denotes shifts by a few calls between runs: re-run the scenario several times,
        # also with every other crash point of the same incarnation.
        variants = [scn] * 3
        for pi, ph in enumerate(scn.get("phases", [])):
            if ph.get("crash") == "at" and ph.get("freeze", 0) > 0:
                v = json.loads(json.dumps(scn))
                v["phases"][pi]["crash"] = "sweep"
                v["phases"][pi]["freeze"] = 0
                variants += [v] * 6
        sf = ctx.path("replay.jsonl")
        vlib.write_jsonl(sf, variants)
        evs, st = drive(ctx, drv, ["-scn", sf, "-cfgs", "asis", "-par", "4"], "replay", seed=scn.get("seed"))
        n, nf = validate(ctx, evs, "replay", module=module_for(evs))
        ctx.cov["traces_validated_against_impl"] += n
        ctx.cov["evaluations"] += len(evs)
        return
    vex = ThreadPoolExecutor(max_workers=1)
    vfut = vex.submit(_c19v.run_leg, ctx, quick)      # family "validate", alongside everything below
    # ---- G: scenario families (TLC), generated first (short JVM runs)
    core = ctx.tlc_gen("SyncGen", "SyncGen.cfg", tag="SCN")
    cuts = ctx.tlc_gen("SyncGen", "SyncGen.cfg", tag="SCN", overrides={
        "MaxLen": 3 if quick else 4, "MaxRestarts": 2, "MaxFaults": 0})
    big = ctx.tlc_gen("SyncGen", "SyncGen.cfg", tag="SCN", overrides={
        "MaxLen": 3, "MaxRestarts": 1, "MaxFaults": 2, "Pools": "{1, 5}", "Pars": "{FALSE, TRUE}"})
    # burst family: far more blobs pending at once than one pass of the copy loop holds in flight
    bov = None if quick else {"BurstHolds": '{"error", "after", "wrongsize"}'}
    burst = ctx.tlc_gen("SyncGen", "SyncGenBurst.cfg", tag="SCN", overrides=bov)
    bsweep = [] if quick else ctx.tlc_gen("SyncGen", "SyncGenBurst.cfg", tag="SCN", overrides={
        "BurstSizes": "{19, 20}", "CrashKinds": '{"sweep"}', "Pars": "{FALSE}", "BurstForms": '{"restart", "restart-stall", "split"}'})
    # the source already holds the first / every blob of the history when the handler is attached (no hook ran for
    # them, no row, not at the destination): uploading one of them is a receive like any other
    pre = ctx.tlc_gen("SyncGen", "SyncGen.cfg", tag="SCN", overrides={"PreKinds": '{"first", "all"}'})
    rng = random.Random(ctx.seed)
    sample = rng.sample(big, 160 if quick else 1500)
    fams = [("core", core, "both"), ("pre", pre, "both"), ("cuts", cuts, "mem"), ("sample", sample, "mem"),
            ("sample-ix", rng.sample(big, 50 if quick else 400), "index")]
    if not quick:
        wide = ctx.tlc_gen("SyncGen", "SyncGen.cfg", tag="SCN", overrides={
            "MaxLen": 3, "MaxRestarts": 2, "MaxFaults": 1, "CrashKinds": '{"sweep", "quiet"}'})
        fams.append(("wide", rng.sample(wide, 1500), "mem"))
    # scripted: the index receives dependants before what they depend on (permanode before its key, claims before
    # permanode and key), every crash point, then the rest of the world after the restart
    ooo = [{"n": len(u), "pool": pl, "noperm": True, "phases": [
               {"ups": u, "par": False, "dst": [], "src": [], "crash": "sweep", "freeze": 0},
               {"ups": [], "par": False, "dst": d, "src": [], "crash": "none", "freeze": 0}]}
           for u in ([2, 1], [3, 1, 2], [4, 2, 1], [3, 4, 2, 1]) for pl in (1, 2) for d in ([], ["after"])]
    fams.append(("ooo-ix", ooo, "index"))
    # quick: every (size, form) of the burst family with a seeded choice of (pool, concurrency) each, plus a sample
    bkey = lambda x: (x["n"], len(x["phases"]), tuple((p["hold"], p["stall"], len(p["ups"])) for p in x["phases"]))
    groups = {}
    for x in burst:
        groups.setdefault(bkey(x), []).append(x)
    bpick = [x for k in sorted(groups) for x in rng.sample(groups[k], 2 if quick else len(groups[k]))]
    for x in bpick:
        ctx.distinct("burst|n=%d|pool=%d|par=%s|%s" % (x["n"], x["pool"], x["phases"][0]["par"], "/".join(
            "%s%s" % (p["hold"] or "-", "+stall" if p["stall"] else "") for p in x["phases"])))
    fams.append(("burst", bpick, "mem"))
    if bsweep:
        fams.append(("burst-sweep", bsweep, "mem"))
    ctx.sample({"scenario": dict(bpick[0], phases=[dict(p, ups="1..%d" % len(p["ups"]) if len(p["ups"]) > 4 else p["ups"]) for p in bpick[0]["phases"]])})
    ctx.sample({"scenario": core[len(core) // 2]})
    ctx.sample({"scenario": sample[0]})
    nr = 300 if quick else 4000
    nrb = 60 if quick else 1200
    fams.append(("random", None, "random"))
    fams.append(("random-burst", None, "random"))
    runs = events = wakes = nseg = nfail = 0
    first = firstb = None
    with ThreadPoolExecutor(max_workers=3) as spool, ThreadPoolExecutor(max_workers=8) as vpool:
        s_future = spool.submit(leg_s, ctx, quick)
        pending = []
        for name, scns, cfgs in fams:
            isburst = name in ("burst", "burst-sweep", "random-burst")
            if name == "random-burst":
                evs, st = drive(ctx, drv, ["-random", str(nrb), "-burst", "-par", "10"], name)
            elif cfgs == "random":
                # ---- T: seeded random scenarios through the same validator
                evs, st = drive(ctx, drv, ["-random", str(nr), "-par", "10"], name)
            else:
                sf = ctx.path("scn_%s.jsonl" % name)
                vlib.write_jsonl(sf, scns)
                evs, st = drive(ctx, drv, ["-scn", sf, "-cfgs", cfgs, "-par", "10"], name)
            runs += st.get("runs", 0)
            events += len(evs)
            wakes += st.get("wakes", 0)
            nsc = len(scns) if scns is not None else (nrb if isburst else nr)
            ctx.count("G" if scns is not None else "T", **{"scenarios:" + name: nsc,
                                                          "runs:" + name: st.get("runs", 0), "expired_waits:" + name: st.get("expired", 0)})
            ctx.log("%s %s: %d scenarios -> %d runs, %d lines, %d wake-ups, %d bounded waits expired" % (
                "T" if scns is None else "G", name, nsc, st.get("runs", 0), len(evs),
                st.get("wakes", 0), st.get("expired", 0)))
            if not evs:
                continue
            if first is None:
                first = evs
            # ---- validation (TLC is the oracle); the next family is driven while this one is validated
            if isburst:
                pending.append(spool.submit(validate, ctx, evs, "T" if scns is None else "G", vpool, BURST_MODULE, BURST_CHUNK))
                if name == "burst":
                    firstb = evs
            else:
                pending.append(spool.submit(validate, ctx, evs, "T" if scns is None else "G", vpool))
            measure(ctx, evs, burst=isburst)
        for f in pending:
            n, nf = f.result()
            nseg += n
            nfail += nf
        if first:
            negative_samples(ctx, first)
        if firstb:
            negative_burst(ctx, firstb)
        s_future.result()
    some = segments(first or [])
    if some:
        mid = some[len(some) // 2]
        ctx.sample({"recorded_run": [{k: v for k, v in e.items() if k not in ("seq", "sg", "scn")} for e in mid[:40]]})
    vseg, vlines = vfut.result()
    vex.shutdown()
    ctx.cov["traces_validated_against_impl"] = nseg + vseg
    ctx.cov["evaluations"] = events + vlines
    ctx.cov["exhaustive"] = True
    ctx.count("T", runs=nseg, lines=events, rejected=nfail, wakeups=wakes)
    ctx.cov["rule"] = ("run = (configuration mem|index, upload history up to renaming incl. duplicates, cut into incarnations, outcome of the k-th "
                       "destination write in ok/error/wrongsize/after and of the k-th source read in ok/corrupt/missing/error/sizemis per "
                       "incarnation, pool size, concurrent uploads, crash point = every lower-layer call k of a swept incarnation); the core "
                       "family (<= 2 uploads, <= 1 restart, <= 1 fault) and the no-fault family (all cuts, <= 2 restarts) are enumerated by TLC "
                       "and run exhaustively with every crash point, the larger families are sampled with the seed, plus seeded random "
                       "scenarios; burst family = (n in 19/20/30/60/100 distinct blobs pending at once, form in failing / stalled pass / "
                       "restart over n rows / restart with failing destination / restart of the stalled incarnation / half rows half "
                       "uploads, pool 1/2/5, sequential or concurrent uploads), enumerated by TLC; quick runs every (n, form) with a "
                       "seeded choice of two (pool, concurrency) each, thorough all of them with three hold outcomes and every crash "
                       "point for n = 19, 20; plus seeded random members (n in 5..100, shuffled, cuts, crash points); distinct = "
                       "measured (configuration, crash position / fault outcome and what followed / race observed / blobs pending "
                       "at the heal or restart mark)")
    ctx.assumptions += [
        "gate stores / KVs are correct lower layers; a crash freezes every gate of the incarnation at one lower-layer call (a prefix of "
        "lower-layer calls is durable) and the restarted handler sees the same queue, source and destination backing",
        "the queue KV itself never fails transiently (the property quantifies over destination/source failures and crashes); destination "
        "failures are failures of the destination as a blob receiver, injected by the recording wrapper around the gate store / the index: "
        "'error' = nothing stored, 'wrongsize' = stored and size+1 reported, 'after' = stored and an error reported",
        "the copy loop is woken by enqueueing an unseen blob (the only wake-up the handler offers besides its 5 s timer); 'eventually' is "
        "observed at a bounded horizon: 3 s of effective waiting after the heal mark and at least 6 consecutive wake-ups the copier did not "
        "answer (a poll of a CPU-starved driver counts for at most 1 ms)",
        "index configuration: the destination is a real index.Index behind the recording wrapper, so the handler's toIndex flag (used for "
        "discovery only) is false; delivered = its have-row says '<size>|indexed' after the out-of-order indexing drained; the rest of the "
        "four-blob world (key, permanode, two claims) is uploaded in the last incarnation so that every dependency can be resolved",
        "burst family: 'pending at once' is arranged by the recording wrapper of the destination (every write fails until the heal "
        "mark, or the first write of the incarnation does not return before the uploads have); an incarnation whose destination is down "
        "or stalled and which is not the last one is killed as soon as its uploads returned; memory destination only; the largest burst "
        "(100) is far below the handler's own batch limit of 1000, so the 'buffer full, will get it later' branch of runSync is covered "
        "only by SyncPool.tla, not on the real code",
        "SyncPool.tla: the order in which a pass feeds its batch does not starve a blob for ever (strong fairness of feeding b; Go map "
        "iteration order), needed only when a batch exceeds the work channel",
        "a row written after its blob was already delivered (the copier may overtake queue.Set) stays until the next restart: Sync.tla "
        "models this and the property does not forbid it; hourlyCompare is not exercised",
    ]
