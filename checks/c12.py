"""C12 - replicated writes are acknowledged only at quorum; reads survive replica loss.

S: Replica.tla, all configurations/outcome vectors/orders for N=3 (quick) and N=4 (thorough): QuorumAtAck,
   ErrOnlyBelowQuorum, Decided, ReadsSurvive, ReadsSurviveLoss (fetch under every subset of lost read replicas), ListsSurviveLoss (stat/enumerate likewise: the map's answer or a failure), ExactlyOnce (+ NoResurrection/AckedReadable with Deviations={});
   sensitivity: each deviation the code is believed to have must violate NoResurrection.
G: ReplicaGen.tla enumerates every scenario; the real replica store is stepped through each by the gate
   scheduler (uploads released in TLC's order, outcomes injected by the gates).
T: Trace_Replica.tla validates the recorded events strictly (TLC infers the outcome vector), all C12
   invariants evaluated in every state; plus seeded free-running random scenarios.
U: unbounded-LENGTH leg (leg_unbounded): ReplicaInd.tla, a typed copy of Replica's write and remove paths, with an
   inductive invariant IndInv => QuorumAtAck /\\ ErrOnlyBelowQuorum /\\ Decided discharged by Apalache (base, step,
   implication) for N = 4 stores, 2 blobs, every deviation subset and configuration mode; two must-fail runs
   (weakened invariant, acknowledgement one success early); TLC keeps the copy bound to Replica.tla in both
   directions (ReplicaIndRef, ReplicaIndRefB) and checks IndInv on the bounded model."""
import json
import os
from concurrent.futures import ThreadPoolExecutor

import vlib

LEVEL = "model_checking"


def classify(ctx, seg, idx, reason, leg):
    cfg = seg[0]
    ev = seg[idx]
    sig = "C12/replica/%s/%s" % (ev.get("ev") if ev.get("ev") != "op" else ev.get("op"),
                                 "ret=%s" % ev.get("res") if ev.get("ev") in ("ret", "op") else ev.get("outcome", "-"))
    # events of the receive in progress (since the last start)
    st = max([k for k in range(idx) if seg[k].get("ev") == "start"] or [0])
    done = [(e["i"], e["outcome"]) for e in seg[st:idx] if e.get("ev") == "done"]
    if ev.get("ev") == "ret":
        nok = sum(1 for _, o in done if o == "ok")
        sig += "/%s/%s" % ("ok>=min" if nok >= cfg.get("min") else "ok<min", "all-done" if len(done) == len(cfg.get("w", [])) else "some-pending")
    replay = {"property": "C12", "leg": leg, "segment": seg, "line_in_segment": idx, "reason": reason}
    ctx.discrepancy(sig, ("%s: %s | scenario %s | uploads tallied before: %s" % (reason, json.dumps(ev), json.dumps(cfg), done))[:500], replay)


# (init, inv, length, cinit, expected): proof obligations of the inductive argument on MC_ReplicaInd, then must-fail runs
APALACHE = [("Init", "IndInv", 0, "ConstInit", "ok"),               # base:  Init => IndInv
            ("IndInit", "IndInv", 1, "ConstInit", "ok"),            # step:  IndInv /\ Next => IndInv'
            ("IndInit", "Props", 0, "ConstInit", "ok"),             # IndInv => QuorumAtAck /\ ErrOnlyBelowQuorum /\ Decided
            ("WeakInit", "WeakInv", 1, "ConstInit", "violated"),    # sensitivity: IndInv without PendingBelow is not inductive
            ("IndInit", "IndInv", 1, "ConstInitAckEarly", "violated")]   # sensitivity: ack at MinW-1 successes


def leg_unbounded(ctx, quick):
    """Unbounded-length safety of the write/remove path (Apalache) + anti-drift of the typed copy (TLC)."""
    small = {"N": 2, "FullConfig": "TRUE"}
    drift = [("ReplicaInd", "ReplicaInd.cfg", small), ("ReplicaIndRef", "ReplicaIndRef.cfg", small),
             ("ReplicaIndRefB", "ReplicaIndRefB.cfg", small)]
    if not quick:
        drift += [(m, c, None) for m, c, _ in drift]      # N = 3 as in the cfg files
    for _, c, ov in drift:
        ctx._cfg(c, ov)                                     # derive the cfg files before the threads start
    with ThreadPoolExecutor(max_workers=5) as ex:
        fs = [ex.submit(ctx.apalache_ind, "MC_ReplicaInd", i, v, n, cinit=ci, expect=exp) for i, v, n, ci, exp in APALACHE]
        fs += [ex.submit(ctx.tlc_check, m, c, overrides=ov, workers=4, timeout=1200) for m, c, ov in drift]
        for f in fs:
            f.result()
    ctx.count("S", unbounded_length_obligations_proved=3, unbounded_length_must_fail=2)
    ctx.assumptions.append("unbounded-length leg: the inductive invariant is discharged for a FIXED universe (N = 4 stores, blobs {2,4}; "
                           "all subsets of {StragglersAfterAck, RemoveBestEffort}, both configuration modes) and behaviours of ANY length; "
                           "it covers Replica.tla's write and remove paths (reads are stuttering steps), bound to Replica.tla by TLC "
                           "refinement checks in both directions on the bounded model")


def run(ctx, replay):
    drv = ctx.build("c12")
    quick = ctx.quick()
    is_reset = lambda e: e.get("ev") == "cfg"
    if replay:
        rp = json.load(open(replay))
        seg = rp["segment"]
        scn = {"n": seg[0]["n"], "w": seg[0]["w"], "rd": seg[0]["rd"], "min": seg[0]["min"], "pre": seg[0]["pre"]}
        # re-run the scenario from its recorded inputs
        start = [e for e in seg if e.get("ev") == "start"][0]
        order = [e["i"] for e in seg if e.get("ev") in ("done", "bg")]
        outc = ["none"] * scn["n"]
        for e in seg:
            if e.get("ev") in ("done", "bg"):
                outc[e["i"] - 1] = e["outcome"]
        scn.update({"b": start["b"], "order": order, "outcome": outc})
        sf = ctx.path("scn.jsonl")
        vlib.write_jsonl(sf, [scn])
        out = ctx.path("tr.ndjson")
        ctx.run([drv, "-scn", sf, "-out", out])
        for s, i, why in ctx.tlc_trace_strict("Trace_Replica", "Trace_Replica.cfg", vlib.read_ndjson(out), is_reset):
            classify(ctx, s, i, why, "replay")
        ctx.cov["traces_validated_against_impl"] += 1
        ctx.cov["evaluations"] += 1
        return
    # ---- U (runs beside S)
    ctx.specs()
    upool = ThreadPoolExecutor(max_workers=1)
    ufut = upool.submit(leg_unbounded, ctx, quick)
    # ---- S
    ctx.tlc_check("Replica", "Replica.cfg", workers=12)
    ctx.tlc_check("Replica", "Replica.cfg", overrides={"N": 2, "FullConfig": "TRUE"}, workers=8)
    # (Replica_nores.cfg = Replica.cfg with NoResurrection as the only invariant: the counterexample lies deep, and
    # evaluating the read invariants on 2 M states on the way cost two minutes)
    for dev in ('{"StragglersAfterAck"}', '{"RemoveBestEffort"}'):
        ctx.tlc_check("Replica", "Replica_nores.cfg", overrides={"Deviations": dev}, workers=12, expect_violation="NoResurrection")
    ctx.tlc_check("Replica", "Replica.cfg", overrides={"Deviations": '{"FetchStopsAtError"}', "N": 2, "FullConfig": "TRUE"}, workers=8,
                  expect_violation="ReadsSurviveLoss")
    ctx.tlc_check("Replica", "Replica.cfg", overrides={"Deviations": '{"StatSkipsFailedReplica"}', "N": 2, "FullConfig": "TRUE"}, workers=8,
                  expect_violation="ListsSurviveLoss")
    if not quick:
        ctx.tlc_check("Replica", "Replica.cfg", overrides={"FullConfig": "TRUE", "Blobs": "{2}"}, workers=14, timeout=1800, coverage=True)
    ufut.result()
    upool.shutdown()
    # ---- G
    gens = [("3", '"few"')] if quick else [("3", '"all"'), ("4", '"few"'), ("2", '"all"')]
    total_s = total_e = 0
    for n, rdm in gens:
        scns = ctx.tlc_gen("ReplicaGen", "ReplicaGen.cfg", overrides={"N": n, "RdMode": rdm}, tag="SCN")
        ctx.sample({"scenario": scns[len(scns) // 3]})
        sf = ctx.path("scn_%s.jsonl" % n)
        vlib.write_jsonl(sf, scns)
        out = ctx.path("tr_%s.ndjson" % n)
        rc, so, se = ctx.run([drv, "-scn", sf, "-out", out, "-seed", str(ctx.seed)], timeout=1200)
        evs = vlib.read_ndjson(out)
        fails = ctx.tlc_trace_strict("Trace_Replica", "Trace_Replica.cfg", evs, is_reset, timeout=1800)
        for s, i, why in fails:
            classify(ctx, s, i, why, "G")
        total_s += len(scns)
        total_e += len(evs)
        for sc in scns:
            ctx.distinct("%s/%s/%s/%s/%s" % (sc["n"], sc["w"], sc["min"], sc["outcome"], sc["order"]))
        if n == "3":
            # binding self-test: one flipped reply must be rejected
            bad = [dict(e) for e in evs[:400]]
            k = next(i for i, e in enumerate(bad) if e.get("ev") == "ret")
            bad[k]["res"] = "ok" if bad[k]["res"] == "err" else "err"
            if not ctx.tlc_trace_strict("Trace_Replica", "Trace_Replica.cfg", bad, is_reset):
                raise vlib.MachineryError("negative sample (flipped ret) was accepted: the trace spec does not bind")
            ctx.count("T", negative_samples_rejected=1)
    # ---- T: free-running random scenarios
    out = ctx.path("rnd.ndjson")
    nr = 300 if quick else 3000
    ctx.run([drv, "-random", str(nr), "-out", out, "-seed", str(ctx.seed)], timeout=1200)
    evs = vlib.read_ndjson(out)
    for s, i, why in ctx.tlc_trace_strict("Trace_Replica", "Trace_Replica.cfg", evs, is_reset, timeout=1800):
        classify(ctx, s, i, why, "T")
    total_s += nr
    total_e += len(evs)
    ctx.cov["traces_validated_against_impl"] = total_s
    ctx.cov["evaluations"] = total_e
    ctx.cov["exhaustive"] = True
    ctx.cov["rule"] = ("scenario = (n, write set, read set, minWrites, outcome vector in {ok,err,wrongsize}^|W|, completion order, "
                       "pre-existing contents), all enumerated by TLC for the stated n; distinct = distinct scenario tuples; "
                       "plus %d random free-running scenarios of 6 receives each" % nr)
    ctx.assumptions += ["gate stores are correct lower layers; 'wrong size' is a replica reporting size+1 while storing the bytes",
                        "an early acknowledgement is looked for during 0.6 ms after each released upload",
                        "stragglers after the acknowledgement and best-effort removal (H26, H24) are allowed in this trace spec: C12 does not forbid them; they are reported under C01/C13"]
