"""Shared by C05 and C06: TLC enumerates arrival orders (IndexOOOGen), cmd/c05 replays them on the real index and
writes both traces."""
import json
import os
import random

import vlib


def generate(ctx, sizes, quick):
    """All permutations per shape (TLC); restarts and duplicates; large shapes are subsampled in the quick tier."""
    rng = random.Random(ctx.seed)
    allr = []
    for si, n in enumerate(sizes, start=1):
        restarts = "{%s}" % ", ".join(str(i) for i in sorted({0, n // 2, n - 1})) if quick else "{%s}" % ", ".join(str(i) for i in range(n))
        # a second delivery of any blob at any later position (also while it still waits for a dependency)
        dups = "{%s}" % ", ".join(str(i) for i in range(n + 1))
        r = ctx.tlc_gen("IndexOOOGen", "IndexOOOGen.cfg", overrides={"Shape": si, "N": n, "Restarts": restarts, "Dups": dups, "DupPos": '"any"'}, tag="RPL")
        # the plain arrival orders (no duplicate) stay in every sample; the duplicated ones fill the rest
        plain = [x for x in r if len(x["order"]) == n]
        duped = [x for x in r if len(x["order"]) != n]
        if quick and len(plain) > 160:
            plain = rng.sample(plain, 160)
        r = plain + duped
        cap = 260 if quick else 1500
        if len(r) > cap:
            r = plain[:cap] + rng.sample(duped, max(0, cap - len(plain)))
        allr += r
    return allr


def run_driver(ctx, replays, kv="memory", tag="", which="both", race=False, extra=(), stderr_sink=None, shards=1):
    """shards > 1: the replays are dealt to that many driver processes running in parallel (each replay is an
    independent history starting from an empty index); the traces are concatenated."""
    if shards > 1 and len(replays) > 4 * shards:
        from concurrent.futures import ThreadPoolExecutor
        ctx.build("c05", race=race)
        parts = [replays[k::shards] for k in range(shards)]
        with ThreadPoolExecutor(max_workers=shards) as ex:
            outs = list(ex.map(lambda kp: _run_driver1(ctx, kp[1], kv, "%s_s%d" % (tag, kp[0]), which, race, extra, stderr_sink), enumerate(parts)))
        o5, o6 = ctx.path("c05%s.ndjson" % tag), ctx.path("c06%s.ndjson" % tag)
        for dst, k in ((o5, 0), (o6, 1)):
            with open(dst, "w") as f:
                for o in outs:
                    f.write(open(o[k]).read())
                    os.remove(o[k])
        return o5, o6
    return _run_driver1(ctx, replays, kv, tag, which, race, extra, stderr_sink)


def _run_driver1(ctx, replays, kv="memory", tag="", which="both", race=False, extra=(), stderr_sink=None):
    """Runs cmd/c05 over the replays. A death of the driver inside perkeep code (panic / fatal error) is an
    observation: it is reported as a discrepancy and the remaining replays are run by a fresh process."""
    import re
    drv = ctx.build("c05", race=race)
    o5, o6 = ctx.path("c05%s.ndjson" % tag), ctx.path("c06%s.ndjson" % tag)
    for f in (o5, o6):
        open(f, "w").close()
    start, part = 0, 0
    while start < len(replays):
        part += 1
        rf = ctx.path("replays%s_%d.jsonl" % (tag, part))
        vlib.write_jsonl(rf, replays[start:])
        p5, p6 = ctx.path("p5%s_%d.ndjson" % (tag, part)), ctx.path("p6%s_%d.ndjson" % (tag, part))
        rc, so, se = ctx.run([drv, "-replays", rf, "-out05", p5, "-out06", p6, "-kv", kv,
                              "-do05=%s" % ("true" if which in ("both", "05") else "false"), "-do06=%s" % ("true" if which in ("both", "06") else "false"),
                              "-secring", os.path.join(vlib.REPO, "pkg/jsonsign/testdata/test-secring.gpg")] + list(extra), timeout=2400, ok_codes=None,
                             env=({"GORACE": "exitcode=0"} if race else None))
        if stderr_sink is not None:
            stderr_sink.append(se)
        done = 0
        for src, dst in ((p5, o5), (p6, o6)):
            if os.path.exists(src):
                lines = open(src).read().splitlines()
                # keep complete replays only (a dying driver may leave a partial last one)
                idxs = [i for i, ln in enumerate(lines) if '"ev":"reset"' in ln]
                if rc != 0 and idxs:
                    lines = lines[:idxs[-1]]
                    idxs = idxs[:-1]
                done = max(done, len(idxs))
                with open(dst, "a") as f:
                    f.write("".join(ln + "\n" for ln in lines))
        if rc == 0:
            break
        pm = re.search(r"^(panic|fatal error): (.*)", se, re.M)
        fr = re.search(r"(perkeep\.org/\S+?)\(", se[pm.end():]) if pm else None
        if not pm or not fr:
            raise vlib.MachineryError("c05 driver failed rc=%s: %s" % (rc, se[-2000:]))
        bad = replays[start + done] if start + done < len(replays) else None
        ctx.discrepancy("%s/driver/%s@%s" % (ctx.prop, "fatal" if pm.group(1) == "fatal error" else "panic", fr.group(1)),
                        "the process died inside perkeep while replaying %s: %s: %s" % (json.dumps(bad), pm.group(1), pm.group(2)[:200]),
                        {"property": ctx.prop, "replay_input": bad, "stderr": se[pm.start():pm.start() + 3000]})
        start += done + 1
        if part > 50:
            raise vlib.MachineryError("c05 driver died more than 50 times")
    return o5, o6


def shape_names(ctx):
    drv = ctx.build("c05")
    rc, so, se = ctx.run([drv, "-shapenames"])
    return json.loads(so.strip().splitlines()[-1])


def shapes(ctx):
    drv = ctx.build("c05")
    rc, so, se = ctx.run([drv, "-shapes"])
    return json.loads(so.strip().splitlines()[-1])
