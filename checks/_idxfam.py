"""Shared by C05 and C06: TLC enumerates arrival orders (IndexOOOGen), cmd/c05 replays them on the real index and
writes both traces."""
import json
import os
import random

import vlib


def generate(ctx, sizes, quick):
    """All permutations per shape (TLC); restarts and duplicates; large shapes are subsampled in the quick tier."""
    rng = random.Random(ctx.seed)
    allr = []
    for si, n in enumerate(sizes, start=1):
        restarts = "{0, %d}" % (n // 2) if quick else "0..%d" % (n - 1)
        dups = "{0}" if quick else "{0, 1, %d}" % n
        r = ctx.tlc_gen("IndexOOOGen", "IndexOOOGen.cfg", overrides={"Shape": si, "N": n, "Restarts": restarts, "Dups": dups}, tag="RPL")
        cap = 260 if quick else 6000
        if len(r) > cap:
            r = rng.sample(r, cap)
        allr += r
    return allr


def run_driver(ctx, replays, kv="memory", tag="", which="both"):
    drv = ctx.build("c05")
    rf = ctx.path("replays%s.jsonl" % tag)
    vlib.write_jsonl(rf, replays)
    o5, o6 = ctx.path("c05%s.ndjson" % tag), ctx.path("c06%s.ndjson" % tag)
    ctx.run([drv, "-replays", rf, "-out05", o5, "-out06", o6, "-kv", kv,
             "-do05=%s" % ("true" if which in ("both", "05") else "false"), "-do06=%s" % ("true" if which in ("both", "06") else "false"),
             "-secring", os.path.join(vlib.REPO, "pkg/jsonsign/testdata/test-secring.gpg")], timeout=2400)
    return o5, o6


def shapes(ctx):
    drv = ctx.build("c05")
    rc, so, se = ctx.run([drv, "-shapes"])
    return json.loads(so.strip().splitlines()[-1])
