"""C18 - the HTTP blob protocol gives clients the same map semantics end to end.

S: HTTPProto.tla (BlobStore + wire actions): wire paging theorem (following continueAfter concatenates to the
   sorted present set for every limit incl. absent / above the cap), continueAfter iff the page is full,
   long-poll returns at once when there is something to return, stat batches of <= MaxStat concatenate to
   StatOf, GET/HEAD lengths, every 2xx step is a step of the reference map.  Sensitivity: the deviation the
   code is believed to have (LongPollGuardInverted, H15) must violate LongPollImmediate.
G: BlobStoreGen.tla histories exactly as C01 (all mutator sequences by BFS, replayed with a full observation
   after every step; simulated histories over the full alphabet), executed against an in-process server
   (serverinit.Load of a high-level configuration -> InstallHandlers on an httptest server) for every
   offline-constructible configuration {memory, localdisk, diskpacked, blobpacked} x {memory, leveldb, kv,
   sqlite index}, through pkg/client and through a raw net/http protocol client.
T: every reply (ranks, classes, status codes, continueAfter, Content-Length, promptness) is validated line by
   line by Trace_HTTPProto.tla (TLC is the only oracle); seeded random Go histories with the wire-level
   extras (multi-part uploads, HEAD, Range, padded stat batches, limit/maxwaitsec combinations), a fixed
   wire-level script (stat batches of 1/999/1000/1001, sizes around the 32 KiB slurp threshold) and a
   universe large enough to fill default-sized pages go through the same validator."""
import json
import os
import re
from concurrent.futures import ThreadPoolExecutor

import vlib

LEVEL = "model_checking"

STORES = ["memory", "localdisk", "diskpacked", "blobpacked"]
INDEXES = ["memory", "leveldb", "kv", "sqlite"]
CFGS = [(s, i) for s in STORES for i in INDEXES]


def cfgname(c):
    return "%s+%s" % c


def list_len_class(n):
    return "none" if n == 0 else "some"


def input_class(ev):
    op = ev.get("op")
    if ev.get("ev") != "op":
        return ev.get("ev")
    if op == "enum" and ev.get("via") == "raw":
        lim = ev.get("limit", 0)
        lc = "absent" if lim == 0 else ">max" if lim > 10000 else "n"
        if ev.get("wait", 0) == 2:
            return "longpoll+after" if ev.get("after") else "longpoll"
        return "limit=%s,%s" % (lc, "after" if ev.get("after") else "start")
    if op == "stat" and ev.get("via") == "raw":
        n = ev.get("n", 0)
        return "n%s1000,%s%s" % ("<=" if n <= 1000 else ">", ev.get("method"), "" if ev.get("ver", True) else ",nover")
    if op == "range":
        return "range"
    return "-"


def signature(prop, cfg, ev, text):
    """<Cxx>/<configuration>/<via>/<action>/<input class>/<expected>-><observed>"""
    exp_res = sorted(set(re.findall(r'res \|-> "(\w+)"', text)))
    exp_st = sorted(set(re.findall(r'status \|-> (\d+)', text)))
    exp_lists = re.findall(r'list \|-> (<<.*?>>)(?=,| \]|\])', text)
    exp_n = sorted(set(list_len_class(len(re.findall(r'<<\d+, \d+>>', x))) for x in exp_lists)) or ["none"]
    op = ev.get("op") or ev.get("ev")
    got_list = ev.get("list") or []
    obs = "%s:%s:%s" % (ev.get("res"), ev.get("status", 0), list_len_class(len(got_list)))
    exp = "%s:%s:%s" % ("|".join(exp_res), "|".join(exp_st), "|".join(exp_n))
    sfx = ""
    if obs == exp:
        ranks = [x[0] for x in got_list]
        if len(set(ranks)) != len(ranks):
            sfx = "+dup"
        elif ev.get("cont") is not None and re.search(r'cont \|-> (\d+)', text) and \
                str(ev.get("cont")) not in re.findall(r'cont \|-> (\d+)', text):
            sfx = "+cont"
        elif ev.get("fast") is False:
            sfx = "+slow"
        elif op in ("stat", "enum", "enumall", "enumwait", "upload"):
            sfx = "+list"
        else:
            sfx = "+size"
    return "%s/%s/%s/%s/%s/%s->%s%s" % (prop, cfg, ev.get("via", "-"), op, input_class(ev), exp, obs, sfx)


class Run:
    def __init__(self, ctx, drv, hists):
        self.ctx = ctx
        self.drv = drv
        self.hists = hists        # leg -> list of histories
        self.total_h = 0
        self.total_e = 0
        self.neg_done = False

    def classify(self, cfg, tracefile, r, seed, jobs):
        ctx = self.ctx
        if not r["viols"]:
            return
        evs = vlib.read_ndjson(tracefile)
        for line, text in r["viols"]:
            ev = evs[line - 1]
            i = line - 1
            while evs[i]["ev"] != "reset":
                i -= 1
            reset = evs[i]
            sig = signature(ctx.prop, cfgname(cfg), dict(ev, via=reset.get("cl") or ev.get("via", reset.get("via"))), text)
            leg = reset.get("leg")
            hist = None
            if leg in self.hists and self.hists[leg] is not None:
                hist = self.hists[leg][reset["h"]]
            job = dict(jobs.get(leg, {}))
            what = "line %d: %s ; protocol allows %s" % (
                line, json.dumps({k: v for k, v in ev.items() if k not in ("seq", "detail", "cursor")})[:300], text[:300])
            replay = {"property": ctx.prop, "store": cfg[0], "index": cfg[1], "via": reset.get("cl") or reset.get("via"), "root": reset.get("root"),
                      "leg": leg, "h": reset.get("h"), "history": hist, "seed": seed, "job": job, "signature": sig,
                      "event": {k: v for k, v in ev.items() if k != "detail"}}
            ctx.discrepancy(sig, what[:700], replay)

    def panic_or_fail(self, cfg, rc, se):
        m = re.search(r"panic: (.*)", se)
        if m:
            fr = re.search(r"(perkeep\.org/[^\s(]+)", se[m.end():])
            self.ctx.discrepancy("%s/%s/driver/panic@%s" % (self.ctx.prop, cfgname(cfg), fr.group(1) if fr else "?"),
                                 "driver died: panic: %s" % m.group(1))
            return
        raise vlib.MachineryError("c18 driver failed on %s (rc=%s): %s" % (cfgname(cfg), rc, se[-2000:]))

    def run_cfg(self, cfg, jobs, seed, tag, bign=None):
        """jobs: leg -> job dict. Runs one server process, validates its trace file(s)."""
        ctx = self.ctx
        name = cfgname(cfg).replace("+", "_")
        out = ctx.path("tr_%s_%s.ndjson" % (tag, name))
        bigout = ctx.path("big_%s_%s.ndjson" % (tag, name))
        plan = {"jobs": []}
        for leg, j in jobs.items():
            j = dict(j, leg=j.get("leg", leg), tag=leg)
            if j["leg"] == "big":
                j["out"] = bigout
            plan["jobs"].append(j)
        pf = ctx.path("plan_%s_%s.json" % (tag, name))
        json.dump(plan, open(pf, "w"))
        rc, so, se = ctx.run([self.drv, "-store", cfg[0], "-index", cfg[1], "-plan", pf, "-out", out, "-seed", str(seed)],
                             timeout=900, ok_codes=None)
        if rc != 0:
            self.panic_or_fail(cfg, rc, se)
            return 0, 0
        m = re.search(r"histories=(\d+) events=(\d+)", so)
        if os.path.exists(out):
            r = ctx.tlc_trace("Trace_HTTPProto", "Trace_HTTPProto.cfg", out, env={"VERIF_BIGN": "8"})
            if not r["accepted"]:
                raise vlib.MachineryError("trace %s not fully consumed (%s): %s" % (out, cfgname(cfg), r["out"][-1500:]))
            self.classify(cfg, out, r, seed, jobs)
            self.account(out)
            if not self.neg_done and tag == "main":
                self.neg_done = True
                self.negative_sample(out)
            os.remove(out)
        if os.path.exists(bigout):
            n = str(bign or jobs.get("big", {}).get("n", 260))
            r = ctx.tlc_trace("Trace_HTTPProto", "Trace_HTTPProto_big.cfg", bigout, env={"VERIF_BIGN": n}, timeout=1800)
            if not r["accepted"]:
                raise vlib.MachineryError("big trace %s not fully consumed (%s): %s" % (bigout, cfgname(cfg), r["out"][-1500:]))
            self.classify(cfg, bigout, r, seed, jobs)
            self.account(bigout)
            os.remove(bigout)
        return int(m.group(1)), int(m.group(2))

    def account(self, tracefile):
        """distinct non-trivial cases, measured on the recorded events."""
        ctx = self.ctx
        cfg = via = leg = None
        with open(tracefile) as f:
            for line in f:
                e = json.loads(line)
                if e["ev"] == "reset":
                    cfg, via, leg = e["cfg"], e["via"], e["leg"]
                    continue
                if e["ev"] != "op":
                    ctx.distinct("%s/%s/%s" % (cfg, via, e["ev"]))
                    continue
                n = len(e.get("list") or [])
                ctx.distinct("%s/%s/%s/%s/%s/%s/%s/%s" % (cfg, via, e["op"], input_class(e), e.get("res"), e.get("status"),
                                                        "0" if n == 0 else "1" if n == 1 else "n", "c" if e.get("cont") else "-"))

    def negative_sample(self, tracefile):
        """Binding self-test: corrupt one field of real, accepted lines; each must be reported."""
        ctx = self.ctx
        evs = vlib.read_ndjson(tracefile)[:3000]
        # the discrepancies the file already has are not candidates
        base = ctx.tlc_trace("Trace_HTTPProto", "Trace_HTTPProto.cfg", self._write(evs, "neg0"), env={"VERIF_BIGN": "8"})
        known = set(v[0] for v in base["viols"])
        muts = []
        for k, e in enumerate(evs):
            if e.get("ev") != "op" or (k + 1) in known:
                continue
            if e.get("op") == "enum" and e.get("via") == "raw" and e.get("cont") and not any(m[0] == "cont" for m in muts):
                muts.append(("cont", k, dict(e, cont=0)))
            if e.get("op") == "fetch" and e.get("res") == "ok" and e.get("via") == "raw" and not any(m[0] == "clen" for m in muts):
                muts.append(("clen", k, dict(e, clen=e["clen"] + 1)))
            if e.get("op") == "enum" and e.get("via") == "client" and e.get("list") and not any(m[0] == "page" for m in muts):
                muts.append(("page", k, dict(e, list=e["list"][:-1])))
            if e.get("op") == "head" and e.get("res") == "ok" and not any(m[0] == "status" for m in muts):
                muts.append(("status", k, dict(e, status=204)))
            if e.get("op") == "stat" and e.get("via") == "raw" and e.get("list") and not any(m[0] == "stat" for m in muts):
                muts.append(("stat", k, dict(e, list=e["list"] + [e["list"][-1]])))
        if len(muts) < 4:
            raise vlib.MachineryError("negative sample: the trace has no suitable lines to corrupt (%s)" % [m[0] for m in muts])
        bad = list(evs)
        for _, k, e in muts:
            bad[k] = e
        r = ctx.tlc_trace("Trace_HTTPProto", "Trace_HTTPProto.cfg", self._write(bad, "neg1"), env={"VERIF_BIGN": "8"})
        got = set(v[0] for v in r["viols"])
        for what, k, _ in muts:
            if (k + 1) not in got or (k + 1) in known:
                raise vlib.MachineryError("negative sample (%s corrupted at line %d) was accepted: the trace spec does not bind" % (what, k + 1))
        ctx.count("T", negative_samples_rejected=len(muts))

    def _write(self, evs, name):
        p = self.ctx.path(name + ".ndjson")
        vlib.write_jsonl(p, evs)
        return p


def run(ctx, replay):
    drv = ctx.build("c18")
    if replay:
        rp = json.load(open(replay))
        cfg = (rp["store"], rp["index"])
        R = Run(ctx, drv, {})
        job = dict(rp.get("job") or {})
        leg = rp["leg"]
        job.update({"vias": [rp["via"]], "root": rp.get("root") or ""})
        if rp.get("history") is not None:
            hf = ctx.path("replay.jsonl")
            vlib.write_jsonl(hf, [rp["history"]])
            job.update({"leg": "replay", "hist": hf, "stride": 1, "offset": 0})
            R.hists["replay"] = [rp["history"]]
            jobs = {"replay": job}
        else:
            job["leg"] = leg
            jobs = {leg: job}
        R.run_cfg(cfg, jobs, rp["seed"], "replay")
        ctx.cov["traces_validated_against_impl"] += 1
        ctx.cov["evaluations"] += 1
        return
    quick = ctx.quick()
    depth = 3
    # ---- S and G-generation are independent TLC runs: run them side by side
    ctx.specs()         # (the lazy copy is not thread-safe)
    pre = ThreadPoolExecutor(max_workers=6)
    f_s1 = pre.submit(ctx.tlc_check, "HTTPProto", "HTTPProto.cfg", None, 4, 900, None, not quick)
    f_s2 = pre.submit(ctx.tlc_check, "HTTPProto", "HTTPProto.cfg", {"Deviations": '{"LongPollGuardInverted"}'}, 2, 900,
                      "LongPollImmediate")
    f_mut = pre.submit(ctx.tlc_gen, "BlobStoreGen", "BlobStoreGen.cfg", {"Depth": depth})
    f_sim = pre.submit(ctx.tlc_gen, "BlobStoreGen", "BlobStoreGen.cfg", {"Mode": '"all"', "Depth": 40},
                       (150 if quick else 1500), 42, ctx.seed)
    f_s3 = f_mut4 = None
    if not quick:
        f_s3 = pre.submit(ctx.tlc_check, "HTTPProto", "HTTPProto.cfg", {"Blobs": "{2, 4, 6, 8}", "MaxCursor": 9, "MaxStat": 3}, 8, 1800)
        f_mut4 = pre.submit(ctx.tlc_gen, "BlobStoreGen", "BlobStoreGen.cfg", {"Depth": 4})
    mut, sim = f_mut.result(), f_sim.result()
    r1 = f_s1.result()
    if r1.get("zero_actions"):
        raise vlib.MachineryError("HTTPProto: actions never taken in the exhaustive run (vacuous model): %s" % r1["zero_actions"])
    f_s2.result()
    mutf, simf = ctx.path("mut.jsonl"), ctx.path("sim.jsonl")
    vlib.write_jsonl(mutf, mut)
    vlib.write_jsonl(simf, sim)
    hists = {"mut": mut, "sim": sim, "rnd": None, "extra": None, "big": None}
    if not quick:
        f_s3.result()
        mut4 = f_mut4.result()
        mut4f = ctx.path("mut4.jsonl")
        vlib.write_jsonl(mut4f, mut4)
        hists["mut4"] = mut4
    pre.shutdown()
    ctx.sample({"mutator_history": mut[len(mut) // 2]})
    ctx.sample({"simulated_history_prefix": sim[0][:6]})
    R = Run(ctx, drv, hists)

    def jobs_for(k, cfg):
        slow = cfg == ("diskpacked", "sqlite")      # one server per history there (no side-door removal)
        if quick:
            ms, ss, rn = (128, 24, 5) if slow else (32, 6, 16)
        else:
            ms, ss, rn = (32, 32, 30) if slow else (2, 8, 150)
        jobs = {
            "mut": {"hist": mutf, "observe": True, "stride": ms, "offset": k % ms, "n": 4},
            # "clienthc": a fresh pkg/client with a have-cache (as pk-put's) per history
            "sim": {"hist": simf, "observe": False, "stride": ss, "offset": k % ss, "n": 4, "vias": ["client", "raw", "clienthc"]},
            "rnd": {"random": rn, "rlen": 40, "n": 8, "univ": "std", "vias": ["client", "raw", "clienthc"]},
            "extra": {"univ": "thr", "n": 8},
            "big": {"univ": "tiny", "n": 260},
        }
        if not quick:
            jobs["mut4"] = {"leg": "mut", "hist": mut4f, "observe": True, "stride": 64 * (4 if slow else 1), "offset": k, "n": 4}
        return jobs

    # a universe larger than pkg/client's page size (1000) and, in the thorough tier, than the server's enumerate
    # cap (10000): blobs injected behind the server's back, read through both clients
    hn = 10050

    def work(kc):
        k, cfg = kc
        if k < 0:
            return cfg, R.run_cfg(cfg, {"big": {"univ": "tiny", "n": hn, "direct": 1}}, ctx.seed, "huge", bign=hn)
        return cfg, R.run_cfg(cfg, jobs_for(k, cfg), ctx.seed, "main")
    with ThreadPoolExecutor(max_workers=12) as ex:
        for cfg, (h, e) in ex.map(work, list(enumerate(CFGS)) + [(-1, ("memory", "memory"))]):
            R.total_h += h
            R.total_e += e
    ctx.count("G", replayed_histories=R.total_h, events=R.total_e, configurations=len(CFGS))
    ctx.cov["traces_validated_against_impl"] = R.total_h
    ctx.cov["evaluations"] = R.total_e
    ctx.cov["exhaustive"] = False
    ms0 = jobs_for(0, CFGS[0])["mut"]["stride"]
    covered = len([h for h in range(len(mut)) if any(h % ms0 == k % ms0 for k in range(len(CFGS)))])
    ctx.cov["rule"] = ("histories: the %d mutator sequences of length %d over 4 blobs enumerated by TLC (BFS) are spread over the 16 "
                       "configurations with stride %d (%d of them replayed in this tier, each through both clients, with a full observation "
                       "after every step), %d simulated histories of length 40 (strided likewise), seeded random Go histories with wire "
                       "extras, a fixed wire-level script (stat 1/999/1000/1001, threshold sizes, limit x maxwaitsec x after), a 260-blob "
                       "universe per configuration and a %d-blob universe on memory+memory; 16 high-level configurations x {pkg/client, raw "
                       "net/http}; distinct = configuration x client x op x input class x reply class actually observed"
                       % (len(mut), depth, ms0, covered, len(sim), hn))
    ctx.assumptions += [
        "the server is the one serverinit.Load builds from the high-level configuration; one extra prefix (/verif-sidedoor/) is added to "
        "the generated prefix table before InstallHandlers so that the harness can reach the storage behind /bs/ (cleanup between "
        "histories, removals as environment moves); the HTTP remove handler itself is not deletable in this configuration (403, modelled)",
        "diskpacked + sqlite index: no side-door removal (diskpacked.RemoveBlobs deadlocks over sqlkv's gate of 1); a new server per history",
        "byte equality is decided by the Go projection (res=wrongbytes), lengths and Content-Length by TLC",
        "fast = the reply arrived within 700 ms; a long poll that wrongly waits takes at least 1 s",
        "blobs are abstracted to ranks of their ref text; sizes are real (0, 1, 32767, 32768, 32769, 70000, 1 MiB+)",
        "Range is HTTP's, not perkeep's: the server may ignore it (200 full body) - modelled as allowed",
    ]
