"""C15 - files and directories written as schema blobs read back exactly.

S: Schema.tla - (reader) on bounded families of part trees of depth <= 3 (ill-formed ones included):
   Len(Denote) = declared size, ReadAt shape and composition, segment denotation = byte denotation,
   ForeachChunk walk, and the MECHANISM of FileReader.ReadAt (readerForOffset transcribed) refines ReadAt;
   with Deviations = {"LimitIgnoresInPartOffset"} (H13, believed present) it must not (sensitivity).
   (writer) every cut sequence x strength assignment x upload completion order the code allows: chunk cap,
   file blob complete / last, Denote(file) = input; anti-vacuity switches must violate.
   (static sets) Members(Spread(ms, max)) = ms, node bounds, every subset returned for upload.
G: SchemaGen.tla enumerates well-formed part trees of depth 1..3, the writer case matrix and the static-set
   member counts; harness/cmd/c15 runs each on the REAL pkg/schema code.
T: every result the real code returned (ReadAt for EVERY (offset, length), sequential Read with five buffer
   sizes, a Seek/Read script, ForeachChunk; every upload of WriteFileFromReader in completion order, the
   file read back; StaticSet / Readdir listings) is validated by Trace_Schema.tla in collect mode; seeded
   random trees / writer inputs / directories go through the same validator.  TLC is the only oracle."""
import json
import os
import re
import threading
from collections import Counter
from concurrent.futures import ThreadPoolExecutor

import vlib

LEVEL = "model_checking"
LOCK = threading.Lock()
# many short TLC runs side by side: C1-only JIT and two GC threads per JVM halve the CPU each run costs
os.environ.setdefault("JAVA_TOOL_OPTIONS", "-XX:TieredStopAtLevel=1 -XX:ParallelGCThreads=2")


# ----------------------------------------------------------------------------------------------- helpers
def drift_lines(out):
    return [" ".join(m.split()) for m in re.findall(r'<<\s*"DRIFT",(.*?)>>\n(?=\S|$)', out, re.S)]


def run_driver(ctx, drv, mode, out, infile=None, random=0, seed=1, base=0, timeout=600):
    argv = [drv, "-mode", mode, "-out", out, "-seed", str(seed), "-base", str(base)]
    if random:
        argv += ["-random", str(random)]
    else:
        argv += ["-in", infile]
    rc, so, se = ctx.run(argv, timeout=timeout, ok_codes=None)
    if rc != 0:
        m = re.search(r"panic: (.*)", se) or re.search(r"fatal error: (.*)", se)
        if m:
            fr = re.search(r"(perkeep\.org/[^\s(]+)", se[m.end():])
            at = re.search(r"\(at ([^)]*)\)", se)
            ctx.discrepancy("C15/%s/driver/panic@%s" % (mode, fr.group(1) if fr else "?"),
                            "driver died: %s %s" % (m.group(0)[:200], at.group(1) if at else ""),
                            {"property": "C15", "mode": mode, "infile_lines": open(infile).read().splitlines()[:50] if infile else None,
                             "random": random, "seed": seed, "base": base})
            return None
        raise vlib.MachineryError("c15 driver failed (%s): %s" % (mode, se[-2000:]))
    rec = [ln for ln in se.splitlines() if "recovered panic" in ln]
    if rec:
        ctx.notes.append("recovered perkeep panics (logged as res=panic): %s" % rec[:3])
    m = re.search(r"cases=(\d+) events=(\d+)", so)
    return int(m.group(1)), int(m.group(2))


def segment_start(evs, i, kinds):
    while evs[i]["ev"] not in kinds:
        i -= 1
    return i


def n_class(n, mx):
    return "n<=max" if n <= mx else ("max<n<max^2" if n < mx * mx else "n>=max^2")


def classify(ctx, mode, evs, line, text, seed, leg, stats, replay_path=None):
    """One VIOL line of Trace_Schema -> one discrepancy with a canonical signature and a replay."""
    ev = evs[line - 1]
    op = re.match(r'\s*"(\w+)"', text).group(1)
    if mode == "reader":
        i = segment_start(evs, line - 1, ("tree",))
        tree = evs[i]
        if op == "tree":
            raise vlib.MachineryError("generated tree is not well formed: %s" % json.dumps(tree)[:500])
        fm = re.match(r'\s*"(\w+)",\s*<<"(\w+)", "(\w+)", "(\w+)">>,\s*"(\w+)",\s*"([\w-]+)"', text)
        if not fm:
            raise vlib.MachineryError("unparsable VIOL line: %s" % text[:300])
        cls = "-".join(fm.group(2, 3, 4))
        kind, attr = fm.group(5), fm.group(6)
        outcome = {"bytes": "denoted-bytes->other-bytes", "res": "error-iff-short->wrong-result", "size": "size-of-parts->other",
                   "parts": "documented-walk->other-parts"}.get(kind, "expected->" + kind)
        # a rejected read that is exactly what the mechanism with the believed deviation returns is attributed to it;
        # anything else is named after the part the read started in
        state = "mech:LimitIgnoresInPartOffset" if attr == "as-deviation" else "start:" + cls
        stats["reader_lines_rejected"] += 1
        stats["reader_lines_rejected_as_deviation"] += attr == "as-deviation"
        sig = "C15/filereader/%s/%s/%s" % (op, state, outcome)
        nm = re.search(r"\],\s*(\d+),\s*(\d+),\s*(\d+),", text)
        if nm and op == "readat":
            stats["readat_calls_rejected"] += int(nm.group(1))
            stats["readat_calls_rejected_equal_to_deviating_mechanism"] += int(nm.group(3))
        replay = {"property": "C15", "mode": "reader", "leg": leg, "seed": seed, "base": tree["t"],
                  "case": {"blobs": tree["blobs"], "nodes": tree["nodes"], "root": tree["root"]}, "signature": sig}
    elif mode == "writer":
        i = segment_start(evs, line - 1, ("wstart",))
        ws = evs[i]
        fm = re.match(r'\s*"(\w+)",\s*"([\w-]+)",\s*"([^"]+)"', text)
        reason = fm.group(3) if fm else "?"
        sig = "C15/filewriter/%s/%s/%s" % (op if op == "wdone" else "upload-" + str(ev.get("kind")), ws["class"], reason)
        replay = {"property": "C15", "mode": "writer", "leg": leg, "seed": seed, "base": ws["case"],
                  "case": {"len": ws["len"], "class": ws["class"], "frag": ws["frag"]}, "signature": sig}
    else:
        i = segment_start(evs, line - 1, ("dir",))
        d = evs[i]
        via = {"members": "members-" + str(ev.get("via")), "readdir": "readdir-paged", "dir": "build"}[op]
        what = re.search(r'"(list|pages|spread)"', text)
        res = ev.get("res")
        sig = "C15/dirreader/%s/%s/exact-%s->%s" % (via, n_class(d["n"], d["max"]), what.group(1) if what else "list",
                                                   res if res != "ok" else "other")
        replay = {"property": "C15", "mode": "dirs", "leg": leg, "seed": seed, "base": d["case"],
                  "case": {"max": 0 if d["max"] == 10000 else d["max"], "n": d["n"]}, "signature": sig}
    ctx.discrepancy(sig, ("line %d: %s" % (line, text))[:600], replay_path or replay)


def validate(ctx, mode, tracefile, seed, leg, stats, replay_path=None):
    r = ctx.tlc_trace("Trace_Schema", "Trace_Schema.cfg", tracefile, timeout=1500)
    if not r["accepted"]:
        raise vlib.MachineryError("trace %s (%s) not fully consumed: %s" % (tracefile, mode, r["out"][-1500:]))
    for d in drift_lines(r["out"]):
        stats["drift"] += 1
        if stats["drift"] <= 3:
            ctx.notes.append("conformance: the static-set blobs the real code built differ from Spread(): %s" % d[:200])
    evs = None
    if r["viols"]:
        evs = vlib.read_ndjson(tracefile)
        with LOCK:
            for line, text in r["viols"]:
                classify(ctx, mode, evs, line, text, seed, leg, stats, replay_path)
    return r


def shard(items, k):
    k = max(1, min(k, len(items)))
    return [items[i::k] for i in range(k)], k


def reader_key(t):
    return json.dumps([t["blobs"], t["nodes"]], sort_keys=True)


# ----------------------------------------------------------------------------------------------- negative samples
def negative_samples(ctx, traces):
    """Corrupt one field of real, accepted trace segments; every corruption must be rejected and the
    untouched control copy accepted (proves that the trace spec binds)."""
    evs_r, evs_w, evs_d = traces
    out, expect = [], []

    def add(seg, bad_at=None):
        for k, e in enumerate(seg):
            out.append(e)
            if bad_at is not None and k == bad_at:
                expect.append(len(out))
    skipped = []
    # reader: a tree with a non-empty read; flip one byte id / one result class / drop a byte of a sequential read
    def reader_seg():
        for i, e in enumerate(evs_r):
            if e["ev"] == "tree" and e["size"] >= 3 and i + 2 < len(evs_r) and evs_r[i + 1]["ev"] == "readat" and evs_r[i + 2]["ev"] == "seqread":
                return [e, evs_r[i + 1], evs_r[i + 2]]
        return None
    seg = reader_seg()
    if seg:
        add(json.loads(json.dumps(seg)))
        b = json.loads(json.dumps(seg))
        k = next(j for j, r in enumerate(b[1]["rs"]) if len(r[3]) >= 2)
        b[1]["rs"][k][3][1] += 1
        add(b, 1)
        b = json.loads(json.dumps(seg))
        k = next(j for j, r in enumerate(b[1]["rs"]) if r[2] == "ok" and r[1] > 0)
        b[1]["rs"][k][2] = "eof"
        add(b, 1)
        b = json.loads(json.dumps(seg))
        ch = b[2]["runs"][-1][1][0]          # the first Read of the run with the largest buffer
        ch[1] = ch[1][:-1] if len(ch[1]) > 1 else [7]
        add(b, 2)
    else:
        skipped.append("reader")
    # writer: a case whose file references a chunk that occurs exactly once in the input
    def writer_seg():
        i, best = 0, None
        while i < len(evs_w):
            j = i + 1
            while j < len(evs_w) and evs_w[j]["ev"] != "wstart":
                j += 1
            seg = evs_w[i:j]
            idc = Counter(e.get("id") for e in seg if e.get("kind") == "chunk")
            nchunk = [k for k, e in enumerate(seg) if e.get("kind") == "chunk" and idc[e["id"]] == 1
                      and len(e["match"]) == 1 and e["match"][0][0] == e["match"][0][1]]
            if nchunk and seg[-1]["ev"] == "wdone" and any(e.get("kind") == "file" for e in seg):
                if any(e.get("kind") == "bytes" for e in seg):
                    return seg, nchunk[0]
                best = best or (seg, nchunk[0])
            i = j
        return best
    ws = writer_seg()
    if ws:
        seg, nchunk = ws
        add(json.loads(json.dumps(seg)))
        nfile = next(k for k, e in enumerate(seg) if e.get("kind") == "file")
        first = min([k for k, e in enumerate(seg) if e.get("kind") == "bytes"] or [nchunk])
        b = json.loads(json.dumps(seg))            # the file blob uploaded before a blob it references
        f = b.pop(nfile)
        b.insert(first, f)
        add(b, first)
        b = json.loads(json.dumps(seg))            # a chunk above the cap
        b[nchunk]["size"] = (1 << 20) + 1
        add(b, nchunk)
        b = json.loads(json.dumps(seg))            # a chunk whose bytes occur elsewhere in the input
        b[nchunk]["match"] = [[m[0] + 1, m[1] + 1, m[2]] for m in b[nchunk]["match"]]
        add(b, nfile)
        b = json.loads(json.dumps(seg))            # the call returned something else than the file blob
        b[-1]["file"] = b[nchunk]["id"]
        add(b, len(b) - 1)
    else:
        skipped.append("writer")
    # static sets: drop / duplicate a member
    def dir_seg():
        for i, e in enumerate(evs_d):
            if e["ev"] == "dir" and e["n"] > e["max"] and i + 2 < len(evs_d) and evs_d[i + 1]["ev"] == "members" and evs_d[i + 2]["ev"] == "members":
                return [e, evs_d[i + 1], evs_d[i + 2]]
        return None
    seg = dir_seg()
    if seg:
        add(json.loads(json.dumps(seg)))
        b = json.loads(json.dumps(seg))
        b[1]["ids"] = b[1]["ids"][1:]
        add(b, 1)
        b = json.loads(json.dumps(seg))
        b[2]["ids"][0] = b[2]["ids"][1]
        add(b, 2)
    else:
        skipped.append("dirs")
    if skipped:
        # every segment of that kind was itself rejected (reported above): nothing clean to corrupt
        if not ctx.violations and not ctx.known_seen:
            raise vlib.MachineryError("no clean %s segment for the negative samples although nothing was rejected" % skipped)
        ctx.notes.append("negative samples skipped for %s: every recorded segment of that kind was itself rejected" % skipped)
    if not out:
        return
    tf = ctx.path("negative.ndjson")
    vlib.write_jsonl(tf, out)
    r = ctx.tlc_trace("Trace_Schema", "Trace_Schema.cfg", tf)
    got = sorted(v[0] for v in r["viols"])
    if not r["accepted"] or got != sorted(expect):
        raise vlib.MachineryError("negative samples: expected rejections exactly at lines %s, got %s - the trace spec does not bind\n%s"
                                  % (sorted(expect), got, r["out"][-1500:]))
    ctx.count("T", negative_samples_rejected=len(expect), negative_controls_accepted=3 - len(skipped))


# ----------------------------------------------------------------------------------------------- main
def run(ctx, replay):
    drv = ctx.build("c15")
    ctx.specs()
    stats = Counter()
    if replay:
        rp = json.load(open(replay))
        inf = ctx.path("replay.jsonl")
        vlib.write_jsonl(inf, [rp["case"]])
        out = ctx.path("replay.ndjson")
        res = run_driver(ctx, drv, rp["mode"], out, infile=inf, seed=rp.get("seed", 1), base=rp.get("base", 0))
        if res:
            validate(ctx, rp["mode"], out, rp.get("seed", 1), "replay", stats, os.path.abspath(replay))
            ctx.cov["traces_validated_against_impl"] += 1
            ctx.cov["evaluations"] += res[1]
        return
    quick = ctx.quick()
    pool = ThreadPoolExecutor(max_workers=14)
    wide = "FALSE" if quick else "TRUE"
    seed = ctx.seed
    keep = {}
    tot = Counter()

    def work(j):
        mode, leg, name, items, rnd = j
        out = ctx.path(name + ".ndjson")
        if items is not None:
            # the per-case choices of the driver (builder vs raw JSON, root kind, script and content seeds) depend on
            # the case's index in ITS file; that index is logged, and a replay re-creates it with -base
            inf = ctx.path(name + ".jsonl")
            vlib.write_jsonl(inf, items)
            jseed = seed
            res = run_driver(ctx, drv, mode, out, infile=inf, seed=jseed, timeout=1200)
        else:
            jseed, n = rnd
            res = run_driver(ctx, drv, mode, out, random=n, seed=jseed, timeout=1200)
        if res is None:
            return mode, leg, 0, 0
        r = validate(ctx, mode, out, jseed, leg, stats)
        evs = None
        if name in ("tr_reader_g1_0", "tr_writer_0", "tr_dirs"):
            evs = vlib.read_ndjson(out)
            keep[mode] = (evs, set(v[0] for v in r["viols"]))
        if mode in ("writer", "dirs") or items is None:      # measured cases
            with LOCK:
                for e in evs or vlib.read_ndjson(out):
                    if e["ev"] == "wdone":
                        stats["w_chunk_uploads"] += e["chunks"]
                        stats["w_bytes_blob_uploads"] += e["bytesblobs"]
                        stats["w_max_bytes_blobs_in_one_file"] = max(stats["w_max_bytes_blobs_in_one_file"], e["bytesblobs"])
                    elif e["ev"] == "wstart":
                        ctx.distinct("W%s/%s/%s" % (e["len"], e["class"], e["frag"]))
                    elif e["ev"] == "dir":
                        ctx.distinct("D%s/%s" % (e["max"], e["n"]))
                    elif e["ev"] == "tree":
                        ctx.distinct("T" + reader_key(e))
        os.remove(out)
        ctx.log("%s %s %s: %d cases, %d events, %d lines rejected, TLC %.1fs" % (leg, mode, name, res[0], res[1], len(r["viols"]), r["wall"]))
        return mode, leg, res[0], res[1]

    # ---- G: TLC enumerates the inputs (fast ones first; the drivers start as soon as a family is there)
    g_futs = {k: pool.submit(ctx.tlc_gen, "SchemaGen", "SchemaGen.cfg", {"GMode": '"%s"' % k, "GWide": wide}, tag=tag, timeout=1500)
              for k, tag in (("dcases", "DCASE"), ("wcases", "WCASE"), ("g1", "TREE"), ("g2", "TREE"), ("g3", "TREE"))}
    futs = []
    # ---- T: seeded random inputs through the same validator
    nrt, nrw, nrd = (600, 30, 20) if quick else (8000, 400, 150)
    rsh = 2 if quick else 8
    for si in range(rsh):
        futs.append(pool.submit(work, ("writer", "T", "rnd_writer_%d" % si, None, (seed * 100 + si, nrw // rsh))))
    for si in range(rsh):
        futs.append(pool.submit(work, ("reader", "T", "rnd_reader_%d" % si, None, (seed * 100 + si, nrt // rsh))))
    futs.append(pool.submit(work, ("dirs", "T", "rnd_dirs", None, (seed, nrd))))

    wcases = g_futs["wcases"].result()
    wshards, _ = shard(wcases, 6)
    for si, sh in enumerate(wshards):
        futs.append(pool.submit(work, ("writer", "G", "tr_writer_%d" % si, sh, None)))
    dcases = g_futs["dcases"].result()
    if not quick:   # the real threshold, member counts around it and its multiples
        dcases += [{"max": 0, "n": n} for n in (0, 1, 9999, 10000, 10001, 20000, 20001, 35000)]
    futs.append(pool.submit(work, ("dirs", "G", "tr_dirs", dcases, None)))
    trees = []
    fam = {}
    for k in ("g1", "g2", "g3"):
        ts = g_futs[k].result()
        fam[k] = len(ts)
        trees += ts
        tshards, _ = shard(ts, {"g1": 2, "g2": 3, "g3": 3}[k] if quick else 5)
        for si, sh in enumerate(tshards):
            futs.append(pool.submit(work, ("reader", "G", "tr_reader_%s_%d" % (k, si), sh, None)))
        for t in ts:
            ctx.distinct("T" + reader_key(t))

    # ---- S (fills the remaining cores while G/T proceed)
    H13 = '{"LimitIgnoresInPartOffset"}'
    d3 = '"d3q"' if quick else '"d3"'
    s_jobs = [("Schema", "Schema.cfg", {"Family": '"d1"'}, None),
              ("Schema", "Schema.cfg", {"Family": '"d2"'}, None),
              ("Schema", "Schema.cfg", {"Family": d3}, None),
              ("Schema", "Schema.cfg", {"Family": '"obj"', "ReaderSteps": "TRUE"}, None),
              ("Schema", "SchemaSens.cfg", {"Family": '"d1"', "Deviations": H13}, "MechRefinesStep"),
              ("Schema", "SchemaSens.cfg", {"Family": d3, "Deviations": H13}, "MechRefinesStep"),
              ("Schema", "SchemaSens.cfg", {"Family": '"obj"', "Deviations": "{}"}, None),
              ("Schema", "SchemaWriter.cfg", {"MaxN": 6 if quick else 7, "MaxChunk": 2 if quick else 3}, None),
              ("Schema", "SchemaWriter.cfg", {"Deviations": '{"FileBeforeParts"}'}, "WFileComplete"),
              ("Schema", "SchemaWriter.cfg", {"Deviations": '{"NoHardCap"}'}, "WChunkCap"),
              ("Schema", "SchemaSets.cfg", {"SetNMax": 140 if quick else 400}, None),
              ("Schema", "SchemaSets.cfg", {"Deviations": '{"SpreadDropsRest"}'}, "SMembersExact")]
    s_futs = [pool.submit(ctx.tlc_check, m, c, overrides=o, workers=2, expect_violation=x, timeout=1500,
                          coverage=(not quick and x is None and c != "Schema.cfg")) for m, c, o, x in s_jobs]

    ctx.sample({"tree": trees[len(trees) // 2]})
    ctx.sample({"tree_depth3": trees[-1]})
    ctx.sample({"writer_case": wcases[0], "dir_case": dcases[-1]})
    for f in futs:
        mode, leg, ncases, nev = f.result()
        tot[mode + "_cases_" + leg] += ncases
        tot["events"] += nev
        tot["cases"] += ncases

    # ---- negative samples from real traces (segments that validated cleanly)
    def clean(mode, starts, upto=()):
        """Segments of the kept trace none of whose lines was rejected (cut at the first `upto` event)."""
        evs, bad = keep[mode]
        out, i = [], 0
        while i < len(evs):
            j = i + 1
            while j < len(evs) and evs[j]["ev"] not in starts:
                j += 1
            e = i + 1
            while e < j and evs[e]["ev"] not in upto:
                e += 1
            if not any((k + 1) in bad for k in range(i, e)):
                out += evs[i:e]
            i = j
        return out
    for m in ("reader", "writer", "dirs"):
        keep.setdefault(m, ([], set()))       # the driver of that shard died inside perkeep (reported above)
    negative_samples(ctx, (clean("reader", ("tree",)), clean("writer", ("wstart",)), clean("dirs", ("dir",), ("readdir",))))

    # ---- S results
    for f in s_futs:
        r = f.result()
        if r.get("zero_actions"):       # thorough tier: an action of the writer / static-set model that never fired
            raise vlib.MachineryError("vacuity: actions never taken in %s/%s: %s" % (r["module"], r["cfg"], r["zero_actions"]))
    pool.shutdown()

    ctx.count("G", trees=len(trees), trees_depth1=fam["g1"], trees_depth2=fam["g2"], trees_depth3=fam["g3"],
              writer_cases=len(wcases), dir_cases=len(dcases))
    ctx.count("T", **{k: v for k, v in tot.items()})
    ctx.count("T", **{k: v for k, v in stats.items()})
    ctx.cov["traces_validated_against_impl"] = tot["cases"]
    ctx.cov["evaluations"] = tot["events"]
    ctx.cov["exhaustive"] = True
    ctx.cov["rule"] = ("reader: every well-formed part tree of the TLC families g1 (depth 1, <=3 parts over every window of two blobs "
                       "and holes: %d), g2 (depth 2: %d), g3 (depth 3: %d), each read with ReadAt at EVERY (offset, length) incl. past "
                       "the end, Read with 5 buffer sizes, a 7-step Seek/Read script and ForeachChunk, plus %d seeded random trees "
                       "(<=4 blobs of <=16 bytes, <=3 nodes of <=4 parts); writer: %d lengths x 5 content classes x 4 fragmentations "
                       "(=%d) + %d random; static sets: %d (threshold, count) cases + %d random; distinct = distinct trees + "
                       "distinct (len, class, frag) + distinct (max, n)" %
                       (fam["g1"], fam["g2"], fam["g3"], nrt, len(wcases) // 20, len(wcases), nrw, len(dcases), nrd))
    ctx.assumptions += [
        "byte equality is decided by the Go projection: byte values are ids (blob k, position j -> 16k+j; 0 = hole byte); the writer's "
        "chunks are located in the input by a 61-bit rolling hash whose hits are confirmed by comparing the bytes (all hits when <= 64, "
        "else 64 spread over them)",
        "the in-memory blob store (perkeep's memory.Storage wrapped by a recorder) is a correct lower layer",
        "the rolling checksum itself is outside: any split sequence satisfying the constraints is accepted",
        "member order of a directory listing is not part of the property (doc/schema/static-set.md): listings are compared as bags",
        "ill-formed trees (a part claiming more than its source has) are outside the property: only S looks at them",
        "ForeachChunk is validated against its documented walk (leaf parts in order, bytesRef parts followed whole), not as a byte reader"]
