"""C06 - live index and corpus always equal what a restart would load.

S: the refinement statement corpus = Load(rows) /\ deletes = LoadDeletes(rows) is instantiated at every step of
   every history (Trace_CorpusRefine.tla); IndexOOO.tla supplies the histories' mechanism (incl. re-index of an
   already-known blob after a satisfied dependency).
G: the C05 arrival orders (every permutation of six dependency shapes, restarts, duplicates) are delivered to a real
   index + corpus; after EVERY step - prefixes included, blobs still pending - a fresh index.New + KeepInMemory over
   the same rows is asked the same battery of exported queries as the live objects.
T: Trace_CorpusRefine.tla requires the refinement mapping at every recorded step."""
import json
import os
import sys

import vlib

sys.path.insert(0, os.path.dirname(os.path.abspath(__file__)))
import _idxfam  # noqa: E402

LEVEL = "model_checking"


def validate(ctx, o6):
    r = ctx.tlc_trace("Trace_CorpusRefine", "Trace_CorpusRefine.cfg", o6, timeout=1800)
    if not r["accepted"]:
        raise vlib.MachineryError("C06 trace not consumed: %s" % r["out"][-1500:])
    evs = vlib.read_ndjson(o6)
    for line, text in r["viols"]:
        i = line - 1
        ev = evs[i]
        a = i
        while evs[a]["ev"] != "reset":
            a -= 1
        reset = evs[a]
        sig = "C06/%s/after-%s/%s" % (reset["shape"], ev.get("kind"), "+".join(ev.get("classes", [])[:8]))
        ctx.discrepancy(sig, ("line %d: live != reloaded after delivering #%s (%s) in order %s restart %s: %s" %
                              (line, ev.get("b"), ev.get("kind"), reset["order"], reset["restart"], json.dumps(ev.get("diff"))[:500])),
                        {"property": "C06", "replay": {"shape_name": reset["shape"], "order": reset["order"], "restart": reset["restart"]}, "kv": reset.get("kv")})
    return evs


def run(ctx, replay):
    quick = ctx.quick()
    sizes = _idxfam.shapes(ctx)
    names = _idxfam.shape_names(ctx)
    if replay:
        rp = json.load(open(replay))["replay"]
        rpl = [{"shape": names.index(rp["shape_name"]) + 1, "order": rp["order"], "restart": rp["restart"]}]
        o5, o6 = _idxfam.run_driver(ctx, rpl)
        validate(ctx, o6)
        ctx.cov["traces_validated_against_impl"] += 1
        ctx.cov["evaluations"] += 1
        return
    ctx.tlc_check("MC_IndexOOO", "IndexOOO.cfg", workers=8)
    replays = _idxfam.generate(ctx, sizes, quick)
    ctx.sample({"replay": replays[len(replays) // 3]})
    o5, o6 = _idxfam.run_driver(ctx, replays, which="06", shards=6)
    evs = validate(ctx, o6)
    n = sum(1 for e in evs if e["ev"] == "reset")
    q = sum(e.get("queries", 0) for e in evs if e["ev"] == "step")
    for e in evs:
        if e["ev"] == "reset":
            ctx.distinct("%s|%s|%s" % (e["shape"], e["order"], e["restart"]))
    kvs = ("leveldb",) if quick else ("leveldb", "kv", "sqlite")
    for kv in kvs:
        sub = replays[::max(1, len(replays) // (60 if quick else 400))]
        _, o6b = _idxfam.run_driver(ctx, sub, kv=kv, tag="_" + kv, which="06")
        e2 = validate(ctx, o6b)
        n += len(sub)
        q += sum(e.get("queries", 0) for e in e2 if e["ev"] == "step")
    # negative sample
    bad = [dict(e) for e in evs[:30]]
    k = next(i for i, e in enumerate(bad) if e["ev"] == "step")
    bad[k]["equal"] = False
    bad[k]["ndiff"] = 1
    bf = ctx.path("bad06.ndjson")
    vlib.write_jsonl(bf, bad)
    if not ctx.tlc_trace("Trace_CorpusRefine", "Trace_CorpusRefine.cfg", bf)["viols"]:
        raise vlib.MachineryError("negative sample not reported by Trace_CorpusRefine")
    ctx.sample({"step": next(e for e in evs if e["ev"] == "step")})
    ctx.cov["traces_validated_against_impl"] = n
    ctx.cov["evaluations"] = q
    ctx.cov["exhaustive"] = not quick
    ctx.cov["rule"] = ("history = C05 replay (shape, permutation, restart, duplicate); after every step a fresh index+corpus over the same "
                       "rows answers the same query battery; evaluations = queries compared; distinct = distinct replays; sorted-KV types: memory + %s" % ", ".join(kvs))
    ctx.assumptions += ["equality of the two real outputs is computed by the harness; TLC checks that the refinement holds at every recorded step",
                        "query battery: GetBlobMeta, IsDeleted (index and corpus), AppendClaims, PermanodeAttrValue(s) at 3 times, PermanodeModtime/AnyTime, GetFileInfo, GetDirChildren, GetParentDirs, KeyId, EnumeratePermanodesCreated/LastModified, EnumerateBlobMeta"]
