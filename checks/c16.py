"""C16 - signed schema blobs verify, and only untampered ones do.

A pure-function property: the specification (JsonSign.tla) is an oracle plus a small-scope enumerator.

S: JsonSign.tla - abstract documents payload . separator . signature . tail with IDEAL signatures; for every
   abstract payload (incl. embedded separator look-alikes), scenario and canonical single-symbol mutation the
   ideal verifier's verdict on the RE-SPLIT mutated sequence equals what the region rule predicts
   (RejectRuleSound, MayAcceptKeepsPayload, RuleComplete, BaseVerdict).  Sensitivity: splitting at the FIRST
   separator, trusting the key that made the signature, and non-canonical mutations each MUST violate.
G: JsonSignGen.tla enumerates every shape x scenario (base) and sweep shapes x scenario x region x kind with
   the expected class.  The driver (harness/cmd/c16, child processes) builds the real documents, signs them
   with jsonsign.SignRequest and the repository's test key rings (+ one freshly generated identity), applies
   the scenario and concretises each mutation class at every byte position of its region (stride in quick).
T: Trace_JsonSign.tla recomputes region (from the logged offset), class and judgement for every logged
   verification; seeded random documents with random mutations go through the same validator."""
import json
import os
import re
from concurrent.futures import ThreadPoolExecutor

import vlib

LEVEL = "other"

TRACE = ("Trace_JsonSign", "Trace_JsonSign.cfg")
JVM = {"JAVA_TOOL_OPTIONS": "-XX:ParallelGCThreads=2 -XX:TieredStopAtLevel=1"}


def drive(ctx, drv, args, out):
    rc, so, se = ctx.run([drv, "-repo", vlib.REPO] + args + ["-out", out], timeout=900, ok_codes=None)
    if rc != 0:
        m = re.search(r"panic: (.*)", se)
        if m:
            fr = re.search(r"(perkeep\.org/[^\s(]+)", se[m.end():])
            if fr:
                ctx.discrepancy("C16/driver/panic@%s" % fr.group(1), "driver died: panic: %s" % m.group(1))
                return []
        raise vlib.MachineryError("c16 driver failed rc=%d: %s" % (rc, se[-2000:]))
    evs = vlib.read_ndjson(out)
    os.remove(out)
    return evs


def region_name(e):
    """Only for naming in messages; the judgement is TLC's."""
    return "off=%d of payload %d + 13 + signature %d + tail %d" % (e["off"], e["plen"], e["siglen"], e["tlen"])


def classify(ctx, ev, text, source, shapes):
    q = re.findall(r'"([^"]*)"', text)
    if len(q) < 6:
        raise vlib.MachineryError("unparsable VIOL text: %s" % text[:400])
    kind, scen, region, mkind, exp, obs = q[:6]
    bad = q[6:]
    if region == "noncanonical-or-bad-lengths" or region == "unexpected-line":
        raise vlib.MachineryError("driver logged a line the trace spec cannot judge: %s %s" % (text[:300], json.dumps(ev)[:300]))
    site = ""
    if ev.get("panic"):
        site = "@" + ev["panic"].split("@")[-1]
        obs = "panic"
    shape = shapes.get(ev.get("sid"))
    if kind == "base":
        for b in bad:
            sig = "C16/%s/sign+verify/%s/%s->%s%s" % (scen, b, exp if b == "verify" else "t", obs if b == "verify" else ev.get(b, "f"), site if b == "verify" else "")
            what = "freshly signed document, scenario %s: %s: expected %s, observed %s (%s) shape=%s" % (
                scen, b, exp, obs, ev.get("err", ""), json.dumps(shape))
            ctx.discrepancy(sig, what[:500], {"property": "C16", "kind": "base", "shape": shape, "scen": scen, "signature": sig,
                                              "source": source, "event": ev})
        return
    sig = "C16/%s/%s/%s/%s->%s%s" % (scen, mkind, region, exp, obs, site)
    what = "scenario %s, %s at %s (new byte %s, old %s): expected %s, observed %s; shape=%s" % (
        scen, mkind, region_name(ev), ev.get("nb"), ev.get("ob"), exp, obs, json.dumps(shape))
    ctx.discrepancy(sig, what[:500], {"property": "C16", "kind": "mut", "shape": shape, "scen": scen, "mkind": mkind, "off": ev["off"],
                                      "nb": ev["nb"], "signature": sig, "source": source, "event": ev})


def validate_all(ctx, streams, shapes, workers=8):
    """streams = [(events, tag, nchunks, source)]."""
    ctx.specs()
    jobs = []
    for evs, tag, nchunks, source in streams:
        if not evs:
            continue
        k = max(1, (len(evs) + nchunks - 1) // nchunks)
        for off in range(0, len(evs), k):
            jobs.append((evs, tag, source, off, evs[off:off + k]))

    def work(j):
        evs, tag, source, off, part = j
        tf = ctx.path("tr_%s_%d.ndjson" % (tag, off))
        vlib.write_jsonl(tf, part)
        r = ctx.tlc_trace(TRACE[0], TRACE[1], tf, timeout=900, env=JVM)
        os.remove(tf)
        if not r["accepted"]:
            raise vlib.MachineryError("trace %s@%d not fully consumed: %s" % (tag, off, r["out"][-1500:]))
        return j, r["viols"]
    nv = 0
    with ThreadPoolExecutor(max_workers=workers) as ex:
        for (evs, tag, source, off, part), viols in ex.map(work, jobs):
            for line, text in viols:
                nv += 1
                classify(ctx, evs[off + line - 1], text, source, shapes)
    return nv


def negative_samples(ctx, evs):
    bad = []

    def mod(pred, **kw):
        e = json.loads(json.dumps(next(x for x in evs if pred(x))))
        e.update(kw)
        bad.append(e)
    mod(lambda x: x["ev"] == "mut" and x["scen"] == "right" and x["off"] < x["plen"], verdict="accept", psame="t")      # payload mutation accepted
    mod(lambda x: x["ev"] == "mut" and x["scen"] == "right" and x["plen"] <= x["off"] < x["plen"] + 13, verdict="accept", psame="t")
    mod(lambda x: x["ev"] == "mut" and x["verdict"] == "accept", psame="f")                                           # accepted but exposes another payload
    mod(lambda x: x["ev"] == "base" and x["scen"] == "right", verdict="reject", psame="na")                           # fresh signature refused
    mod(lambda x: x["ev"] == "base" and x["scen"] == "resigned", verdict="accept", psame="t")                         # other key's signature accepted
    mod(lambda x: x["ev"] == "base" and x["scen"] == "right", keys="f")                                               # a field lost
    tf = ctx.path("neg.ndjson")
    vlib.write_jsonl(tf, bad)
    r = ctx.tlc_trace(TRACE[0], TRACE[1], tf, env=JVM)
    os.remove(tf)
    got = sorted(set(v[0] for v in r["viols"]))
    if not r["accepted"] or got != list(range(1, len(bad) + 1)):
        raise vlib.MachineryError("negative samples: corrupted lines were not all rejected (rejected %s of %d): the trace spec does not bind" % (got, len(bad)))
    ctx.count("T", negative_samples_rejected=len(bad))


def shape_table(evs):
    return {e["sid"]: e.get("shape") for e in evs if e.get("ev") == "base"}


def run(ctx, replay):
    drv = ctx.build("c16")
    ctx.cov["explanation"] = (
        "C16 is a statement about pure functions (sign, verify) over all documents and all single-byte mutations; there is no "
        "transition system. The TLA+ module is used as (1) a lemma checked exhaustively by TLC on abstract documents: with ideal "
        "signatures and splitting at the LAST separator, judging a canonical single-symbol mutation by the region of its offset "
        "(payload/separator: reject; signature/tail: may accept but the exposed payload is the original) is sound and complete "
        "w.r.t. re-splitting the mutated sequence, incl. embedded look-alikes; three counterfactual variants fail; (2) an oracle: "
        "RegionOf / ExpectedClass / Conforms are evaluated by TLC on every logged verification of the real code; (3) an enumerator "
        "of document shapes x key scenarios x regions x kinds. OpenPGP itself is assumed ideal; JSON equality of the exposed payload "
        "is decided by the Go projection.")
    if replay:
        rp = json.load(open(replay))
        out = ctx.path("replay.ndjson")
        if rp.get("source", {}).get("leg") == "T-random" or rp.get("shape") is None or "random" in (rp.get("shape") or {}):
            s = rp["source"]
            evs = drive(ctx, drv, ["-random", str(s["random"]), "-rmut", str(s["rmut"]), "-seed", str(s["seed"])], out)
        else:
            f = ctx.path("one.jsonl")
            one = {"shape": rp["shape"], "scen": rp["scen"], "kind": rp.get("mkind", "none"), "off": rp.get("off", 0), "nb": rp.get("nb", 0)}
            vlib.write_jsonl(f, [dict(one, kind="none"), one] if one["kind"] != "none" else [one])
            evs = drive(ctx, drv, ["-one", f], out)
        validate_all(ctx, [(evs, "replay", 1, rp.get("source", {}))], shape_table(evs))
        ctx.cov["traces_validated_against_impl"] = len(evs)
        ctx.cov["evaluations"] = len(evs)
        return
    quick = ctx.quick()
    ctx.specs()
    # ---- S and G (TLC)
    with ThreadPoolExecutor(max_workers=6) as ex:
        fs = [ex.submit(lambda: ctx.tlc_check("JsonSign", "JsonSign.cfg", overrides={"MaxFree": 3 if quick else 4}, workers=6, timeout=1800))]
        for dev, inv in (('{"FirstSep"}', "BaseVerdict"), ('{"TrustSigner"}', "BaseVerdict"), ('{"NonCanonical"}', "RejectRuleSound")):
            fs.append(ex.submit(lambda dev=dev, inv=inv: ctx.tlc_check("JsonSign", "JsonSign.cfg", overrides={"Deviations": dev},
                                                                       workers=2, expect_violation=inv)))
        gb = ex.submit(lambda: ctx.tlc_gen("JsonSignGen", "JsonSignGen.cfg", tag="CASE"))
        gm = ex.submit(lambda: ctx.tlc_gen("JsonSignGen", "JsonSignGen.cfg", overrides={"Mode": '"mut"'}, tag="CASE"))
        for f in fs:
            f.result()
        base_cases, mut_cases = gb.result(), gm.result()
    ctx.count("G", base_cases=len(base_cases), mutation_classes=len(mut_cases),
              sweep_shapes=len(set(json.dumps(c["shape"], sort_keys=True) for c in mut_cases)))
    # ---- drivers (sharded: signing costs ~4 ms a document)
    nshard = 6
    jobs = []
    for i in range(nshard):
        f = ctx.path("base_%d.jsonl" % i)
        vlib.write_jsonl(f, base_cases[i::nshard])
        jobs.append((["-cases", f], ctx.path("o_base_%d.ndjson" % i)))
    # mutation classes grouped by (shape, scenario) so that one process signs each subject once
    groups = {}
    for c in mut_cases:
        groups.setdefault(json.dumps([c["shape"], c["scen"]], sort_keys=True), []).append(c)
    keys = sorted(groups)
    stride, nvals = (3, 1) if quick else (1, 0)
    for i in range(nshard):
        f = ctx.path("mut_%d.jsonl" % i)
        vlib.write_jsonl(f, [c for k in keys[i::nshard] for c in groups[k]])
        jobs.append((["-cases", f, "-stride", str(stride), "-nvals", str(nvals), "-seed", str(ctx.seed * 1000 + i)], ctx.path("o_mut_%d.ndjson" % i)))
    nrand, rmut = (60, 60) if quick else (1500, 120)
    jobs.append((["-random", str(nrand), "-rmut", str(rmut), "-seed", str(ctx.seed)], ctx.path("o_rand.ndjson")))
    with ThreadPoolExecutor(max_workers=8) as ex:
        outs = list(ex.map(lambda j: drive(ctx, drv, j[0], j[1]), jobs))
    e_base = [e for o in outs[:nshard] for e in o]
    e_mut = [e for o in outs[nshard:2 * nshard] for e in o]
    e_rand = outs[-1]
    if len(e_base) != len(base_cases):
        raise vlib.MachineryError("driver dropped base cases: %d of %d" % (len(e_base), len(base_cases)))
    ctx.log("driver: %d base lines, %d mutation lines, %d lines from %d random documents" % (len(e_base), len(e_mut), len(e_rand), nrand))
    # shapes of the subjects, for messages and replays (sid is per driver process: re-key)
    shapes = {}
    for n, o in enumerate(outs):
        for e in o:
            e["sid"] = "%d.%s" % (n, e.get("sid"))
    for e in e_base + e_mut + e_rand:
        if e["ev"] == "base":
            shapes[e["sid"]] = {k.lower(): v for k, v in e["shape"].items()}
    acc = [e for e in e_mut + e_rand if e["ev"] == "mut" and e["verdict"] == "accept"]
    e_mutonly = [e for e in e_mut if e["ev"] == "mut"]
    ctx.sample({"base": {k: v for k, v in e_base[0].items() if k != "sid"}})
    if acc:
        ctx.sample({"accepted_mutation": {k: v for k, v in acc[len(acc) // 2].items() if k != "sid"}, "shape": shapes.get(acc[len(acc) // 2]["sid"])})
    rej = [e for e in e_mutonly if e["scen"] == "right" and e["off"] < e["plen"]]
    ctx.sample({"rejected_payload_mutation": {k: v for k, v in rej[len(rej) // 2].items() if k != "sid"}, "shape": shapes.get(rej[len(rej) // 2]["sid"])})
    # ---- T
    src = {"tier": ctx.tier, "seed": ctx.seed, "random": nrand, "rmut": rmut}
    nv = validate_all(ctx, [(e_base, "base", 1, dict(src, leg="G-base")),
                            (e_mut, "mut", 4 if quick else 12, dict(src, leg="G-mut")),
                            (e_rand, "rand", 1 if quick else 6, dict(src, leg="T-random"))], shapes)
    total = len(e_base) + len(e_mut) + len(e_rand)
    ctx.log("T: %d lines validated by Trace_JsonSign, %d with differences" % (total, nv))
    negative_samples(ctx, e_base + e_mut)
    ctx.count("T", lines=total, lines_with_differences=nv, random_lines=len(e_rand), mutations_accepted_with_same_payload=len(acc),
              panics_recovered=sum(1 for e in e_base + e_mut + e_rand if e.get("panic")))
    for e in e_base + e_mut + e_rand:     # distinct inputs given to Verify: (document, scenario, mutation)
        ctx.distinct("%s/%s/%s/%s/%s/%s" % (json.dumps(shapes.get(e["sid"]), sort_keys=True), e["scen"], e["kind"], e.get("off"), e.get("nb"),
                                            e["sid"] if "random" in (shapes.get(e["sid"]) or {}) else ""))
    ctx.cov["traces_validated_against_impl"] = total
    ctx.cov["evaluations"] = total
    ctx.cov["exhaustive"] = not quick
    ctx.cov["rule"] = ("%d base cases = every shape (2 key sets x unicode x nesting x 3 white-space layouts x 4 look-alike placements x 4 "
                       "signature times) x 5 key scenarios: sign, verify, valid JSON, fields exposed; %d mutation classes = %d sweep shapes x 5 "
                       "scenarios x 4 regions x {substitute, insert, delete}, concretised %s; %d random documents with %d random canonical "
                       "mutations each; distinct = distinct (document, scenario, mutation) inputs given to Verify" % (
                           len(base_cases), len(mut_cases), len(set(json.dumps(c["shape"], sort_keys=True) for c in mut_cases)),
                           "at every byte of the region with every replacement value (scenario right) / at 5 positions (other scenarios)" if not quick else
                           "at every byte of separator and tail, every 3rd byte (random phase) of payload and signature, bit flip + 1 random value "
                           "(scenario right) / at 5 positions (other scenarios)", nrand, rmut))
    ctx.assumptions += [
        "OpenPGP signatures are ideal (a key's signature verifies for exactly the signed byte string); RSA/armor internals are not modelled",
        "mutations are canonical (substitution changes the byte; an inserted byte differs from the byte it precedes; a deleted byte differs "
        "from its successor) - the lemma is false without this (sensitivity run), and every document is still reached",
        "equality of the exposed payload map and signer with the original is decided by the Go projection (reflect.DeepEqual)",
        "a raw ,\"camliSig\":\" look-alike can occur in a payload only as a real key (top level or nested); inside JSON strings the quotes are escaped",
        "scenario notakey is produced by a fetcher that returns a non-key blob for the named ref"]
