"""C20 - blobref text, encodings and ordering are mutually consistent.

A pure-function property: the specification (BlobRef.tla) is an oracle plus an exhaustive small-scope
enumerator; there is no state machine.

S: BlobRef.tla - the lemma RefLess <=> TextLess, trichotomy and the StringMinusOne cursor lemma over all
   36 864 pairs of a small universe (names of length <= 2 incl. prefixes of each other, 2-digit digests);
   counterfactual run with the separator 'c' instead of '-' MUST violate Agree (the lemma holds exactly
   because '-' sorts below every name character).  Model-level round trip format(parse(s)) = s on every
   enumerated string.
G: BlobRefGen.tla enumerates (a) ALL strings of length <= 6 (thorough: 7) over {a,g,z,0,9,-,A} with their
   parse class, (b) abstract pairs of supported-hash refs (hashes, position class of the first differing
   digit, digit values, fill, tail) which the driver turns into real 40/56/64-digit refs.
T: the driver (harness/cmd/c20, child process, recover() per call) logs what blob.Parse / ParseKnown /
   ParseBytes / ParseOrZero / ValidRefString / String / JSON / binary round trips / EqualString / HasPrefix /
   Less / StringMinusOne / RefFromString / RefFromHash answered; Trace_BlobRef.tla recomputes every
   answer with the operators of BlobRef.tla (TLC is the only oracle).  Seeded fuzzing (near-miss refs,
   unknown hash names, 255..259 digits, test names, non-ASCII) goes through the same validator."""
import json
import os
import re
from concurrent.futures import ThreadPoolExecutor

import vlib

LEVEL = "other"

TRACE = ("Trace_BlobRef", "Trace_BlobRef.cfg")
OBS_FIELDS = 15


def chunks(evs, n):
    k = max(1, (len(evs) + n - 1) // n)
    return [(i, evs[i:i + k]) for i in range(0, len(evs), k)]


JVM = {"JAVA_TOOL_OPTIONS": "-XX:ParallelGCThreads=2 -XX:TieredStopAtLevel=1"}     # short runs: C1 only, few GC threads


def validate_all(ctx, streams, workers=10):
    """streams = [(events, tag, nchunks, source)].  Validates every chunk through Trace_BlobRef (one pool for
    all streams); returns [(event, VIOL text, source)] for every line with differences."""
    ctx.specs()
    jobs = []
    for evs, tag, nchunks, source in streams:
        for off, part in (chunks(evs, nchunks) if evs else []):
            jobs.append((evs, tag, source, off, part))

    def work(j):
        evs, tag, source, off, part = j
        tf = ctx.path("tr_%s_%d.ndjson" % (tag, off))
        vlib.write_jsonl(tf, part)
        r = ctx.tlc_trace(TRACE[0], TRACE[1], tf, timeout=900, env=JVM)
        os.remove(tf)
        if not r["accepted"]:
            raise vlib.MachineryError("trace %s@%d not fully consumed: %s" % (tag, off, r["out"][-1500:]))
        return j, r["viols"]
    found = []
    with ThreadPoolExecutor(max_workers=workers) as ex:
        for (evs, tag, source, off, part), viols in ex.map(work, jobs):
            for line, text in viols:
                found.append((evs[off + line - 1], text, source))
    return found


def validate(ctx, evs, tag, nchunks, source):
    found = validate_all(ctx, [(evs, tag, nchunks, source)])
    for ev, text, src in found:
        classify(ctx, ev, text, src)
    return len(found)


def text_of(a):
    return bytes(a).decode("latin-1")


def classify(ctx, ev, text, source):
    m = re.match(r'\s*"(\w+)",\s*(<<.*?>>|"[^"]*"),\s*\{(.*)\}\s*$', text, re.S)
    if not m:
        raise vlib.MachineryError("unparsable VIOL text: %s" % text[:400])
    kind, tag, body = m.group(1), m.group(2), m.group(3)
    tag = re.sub(r'[<>"\s]', "", tag)
    diffs = re.findall(r'<<"([\w./=-]+)",\s*"([\w|+-]+)",\s*"([\w|+-]+)"(?:,\s*"([\w|+-]+)")?>>', body)
    if not diffs:
        raise vlib.MachineryError("VIOL without differences: %s" % text[:400])
    site = ""
    if ev.get("panic"):
        site = "@" + ev["panic"].split("@")[-1]
    # one event can differ in several answers for one reason (a string wrongly accepted changes every entry
    # point): when the parse entry points disagree, the dependent "na" answers are dropped, and answers that
    # differ in the same way are reported together under one signature
    # C20/<class of the ref or string>/<functions>/<input class>/<expected>-><observed>
    primary = {"parse", "bytes", "orzero", "valid", "ujson"}
    if any(d[0] in primary and not d[3] for d in diffs):
        diffs = [d for d in diffs if d[3] or (d[0] != "probes" and "na" not in (d[1], d[2]))]
        diffs = [d for d in diffs if not (d[0] == "probes")]
    groups = {}
    for d in diffs:
        if d[3]:     # probe difference: function, probe class, expected, observed
            field, icls, exp, obs = d[0], d[1], d[2], d[3]
            cls = tag.split(",")[0].replace("+odd", "")     # the receiver of HasPrefix / EqualString
        else:
            field, icls, exp, obs = d[0], {"str": "text", "pair": "pair", "hash": "content"}.get(kind, kind), d[1], d[2]
            cls = tag
        groups.setdefault((cls, icls, exp, obs), []).append(field)
    if kind == "str":
        inp = {"s": ev["s"]}
        shown = repr(text_of(ev["s"]))
    elif kind == "pair":
        inp = {"ta": ev["ta"], "tb": ev["tb"]}
        shown = "%r vs %r" % (text_of(ev["ta"]), text_of(ev["tb"]))
    else:
        inp = {"fuzz": source.get("fuzz"), "seed": source.get("seed")}
        shown = "content of %s bytes" % ev.get("n")
    for (cls, icls, exp, obs), fields in sorted(groups.items()):
        field = "+".join(sorted(set(fields)))
        sig = "C20/%s/%s/%s/%s->%s%s" % (cls, field, icls, exp, obs, site if obs == "p" else "")
        what = "%s: %s (%s) expected %s, observed %s%s" % (shown[:200], field, icls, exp, obs,
                                                           (" (" + ev["panic"] + ")") if obs == "p" and ev.get("panic") else "")
        ctx.discrepancy(sig, what[:500], {"property": "C20", "kind": kind, "input": inp, "signature": sig,
                                          "source": source, "event": {k: v for k, v in ev.items() if k not in ("probes",)}})


def answers(ev):
    if ev["ev"] == "str":
        return OBS_FIELDS + 2 * len(ev["probes"])
    if ev["ev"] == "pair":
        return 13 + len(ev["probes"])
    return 8


def run_driver(ctx, drv, args, out):
    rc, so, se = ctx.run([drv] + args + ["-out", out], timeout=600, ok_codes=None)
    if rc != 0:
        m = re.search(r"panic: (.*)", se)
        if m:     # a panic that escaped the per-call recover (e.g. in another goroutine)
            fr = re.search(r"(perkeep\.org/[^\s(]+)", se[m.end():])
            if fr:
                ctx.discrepancy("C20/driver/panic@%s" % fr.group(1), "driver died: panic: %s" % m.group(1))
                return None
        raise vlib.MachineryError("c20 driver failed rc=%d: %s" % (rc, se[-2000:]))
    m = re.search(r"events=(\d+) panics=(\d+) answers=(\d+)", so)
    if not m:
        raise vlib.MachineryError("c20 driver printed no statistics: %s" % so[-500:])
    return {"events": int(m.group(1)), "panics": int(m.group(2)), "answers": int(m.group(3))}


def drive(ctx, drv, args, out):
    if run_driver(ctx, drv, args, out) is None:
        return []
    evs = vlib.read_ndjson(out)
    os.remove(out)
    return evs


def drive_split(ctx, drv, args, out, n, source, workers):
    """Large runs: the driver writes n chunk files itself (line i -> chunk i mod n), TLC validates each, and a
    chunk is only read back here when Trace_BlobRef reported differences in it.  Returns (stats, events of
    chunk 0, [(event, VIOL text, source)])."""
    st = run_driver(ctx, drv, args + ["-split", str(n)], out)
    if st is None:
        return {"events": 0, "panics": 0, "answers": 0}, [], []
    files = ["%s.%d" % (out, k) for k in range(n)]

    def work(tf):
        r = ctx.tlc_trace(TRACE[0], TRACE[1], tf, timeout=900, env=JVM)
        if not r["accepted"]:
            raise vlib.MachineryError("trace %s not fully consumed: %s" % (tf, r["out"][-1500:]))
        return tf, r["viols"]
    found = []
    first = vlib.read_ndjson(files[0])
    with ThreadPoolExecutor(max_workers=workers) as ex:
        for tf, viols in ex.map(work, files):
            if viols:
                evs = first if tf == files[0] else vlib.read_ndjson(tf)
                for line, text in viols:
                    found.append((evs[line - 1], text, source))
            os.remove(tf)
    return st, first, found


def negative_samples(ctx, strs, pairs, hashes):
    """Corrupt one field of real trace lines; the trace spec must reject each (proves it binds)."""
    bad = []
    e = json.loads(json.dumps(next(x for x in strs if x["obs"]["parse"] == "t" and x["obs"]["known"] == "f")))
    e["obs"]["known"] = "t"
    bad.append(e)
    e = json.loads(json.dumps(next(x for x in strs if x["obs"]["parse"] == "f")))
    e["obs"]["valid"] = "t"
    bad.append(e)
    e = json.loads(json.dumps(next(x for x in pairs if x["ev"] == "pair" and x["less"] == "t")))
    e["less"] = "f"
    bad.append(e)
    e = json.loads(json.dumps(next(x for x in pairs if x["ev"] == "pair" and "t" in x["hp"])))
    k = e["hp"].index("t")
    e["hp"][k] = "f"
    bad.append(e)
    e = json.loads(json.dumps(hashes[0]))
    e["fromstring"][-1] = 48 if e["fromstring"][-1] != 48 else 49
    bad.append(e)
    tf = ctx.path("neg.ndjson")
    vlib.write_jsonl(tf, bad)
    r = ctx.tlc_trace(TRACE[0], TRACE[1], tf, env=JVM)
    os.remove(tf)
    got = sorted(set(v[0] for v in r["viols"]))
    if not r["accepted"] or got != list(range(1, len(bad) + 1)):
        raise vlib.MachineryError("negative samples: corrupted lines %s were not all rejected (rejected %s): the trace spec does not bind" % (
            list(range(1, len(bad) + 1)), got))
    ctx.count("T", negative_samples_rejected=len(bad))


def run(ctx, replay):
    drv = ctx.build("c20")
    ctx.cov["explanation"] = (
        "C20 is a statement about pure functions, so there is no transition system to model-check; the TLA+ module is used as "
        "(1) a lemma checked exhaustively by TLC over a small universe (Ref.Less order = byte order of the text form, the "
        "StringMinusOne cursor; with a counterfactual separator the lemma fails), (2) an oracle: well-formedness, parse class, "
        "canonical text, prefix/equality tests and ordering are operators of BlobRef.tla, and every answer of the real package "
        "is recomputed by TLC from the logged bytes, and (3) an exhaustive small-scope enumerator: all strings up to a length "
        "over a 7-character alphabet and all abstract classes of pairs of supported refs. Beyond those scopes the evidence is "
        "seeded fuzzing through the same oracle.")
    if replay:
        rp = json.load(open(replay))
        inp = rp["input"]
        out = ctx.path("replay.ndjson")
        if rp["kind"] == "str":
            f = ctx.path("replay_in.jsonl")
            vlib.write_jsonl(f, [{"s": inp["s"]}])
            evs = drive(ctx, drv, ["-strings", f], out)
        elif rp["kind"] == "pair":
            f = ctx.path("replay_in.jsonl")
            vlib.write_jsonl(f, [{"ta": inp["ta"], "tb": inp["tb"]}])
            evs = drive(ctx, drv, ["-pairtexts", f], out)
        else:
            evs = drive(ctx, drv, ["-fuzz", str(inp["fuzz"]), "-seed", str(inp["seed"])], out)
        validate(ctx, evs, "replay", 1, rp.get("source", {}))
        ctx.cov["traces_validated_against_impl"] = len(evs)
        ctx.cov["evaluations"] = sum(answers(e) for e in evs)
        return
    quick = ctx.quick()
    maxlen = 6 if quick else 7
    ctx.specs()
    # ---- three pipelines (gen -> driver -> validation) and leg S, concurrently
    nf = 3000 if quick else 40000
    src = {"tier": ctx.tier, "seed": ctx.seed, "fuzz": nf}

    def pipe_strings():
        strs_in = ctx.tlc_gen("BlobRefGen", "BlobRefGen.cfg", overrides={"MaxLen": maxlen}, tag="STR", timeout=1800, workers=1 if quick else 4)
        want = sum(7 ** k for k in range(maxlen + 1))
        if len(strs_in) != want or len(set(tuple(x["s"]) for x in strs_in)) != want:
            raise vlib.MachineryError("string enumeration incomplete: %d of %d" % (len(strs_in), want))
        sf = ctx.path("strs.jsonl")
        with open(sf, "w") as f:
            f.write("".join('{"s":%s}\n' % json.dumps(x["s"], separators=(",", ":")) for x in strs_in))
        st, first, found = drive_split(ctx, drv, ["-strings", sf], ctx.path("o_str.ndjson"), 6 if quick else 16,
                                       dict(src, leg="G-strings"), 6 if quick else 10)
        if st["events"] != len(strs_in):
            raise vlib.MachineryError("driver dropped strings: %d/%d" % (st["events"], len(strs_in)))
        return strs_in, st, first, found

    def pipe_pairs():
        pairs_in = ctx.tlc_gen("BlobRefGen", "BlobRefGen.cfg", overrides={"Mode": '"pair"'}, tag="PAIR")
        pf = ctx.path("pairs.jsonl")
        vlib.write_jsonl(pf, pairs_in)
        evs = drive(ctx, drv, ["-pairs", pf], ctx.path("o_pair.ndjson"))
        if len(evs) != len(pairs_in):
            raise vlib.MachineryError("driver dropped pairs: %d/%d" % (len(evs), len(pairs_in)))
        good = [e for e in evs if e["ev"] == "pair"]
        return pairs_in, evs, validate_all(ctx, [(good, "pair", 5, dict(src, leg="G-pairs"))], workers=5)

    def pipe_fuzz():
        evs = drive(ctx, drv, ["-fuzz", str(nf), "-seed", str(ctx.seed)], ctx.path("o_fuzz.ndjson"))
        good = [e for e in evs if e["ev"] != "pairfail"]     # a fuzz pair with a malformed side is not a case
        return evs, good, validate_all(ctx, [(good, "fuzz", 3 if quick else 12, dict(src, leg="T-fuzz"))], workers=3 if quick else 6)

    with ThreadPoolExecutor(max_workers=5) as ex:
        f_s = ex.submit(ctx.tlc_check, "BlobRef", "BlobRef.cfg", None, 4)
        f_sens = ex.submit(lambda: ctx.tlc_check("BlobRef", "BlobRef.cfg", overrides={"Dash": 99}, workers=2, expect_violation="Agree"))
        f_a, f_b, f_c = ex.submit(pipe_strings), ex.submit(pipe_pairs), ex.submit(pipe_fuzz)
        f_s.result()
        f_sens.result()
        strs_in, st_str, e_str, v_str = f_a.result()     # e_str: the strings of chunk 0 only (every 6th / 16th string)
        pairs_in, e_pair, v_pair = f_b.result()
        fuzz_all, e_fuzz, v_fuzz = f_c.result()
    classes = {}
    for x in strs_in:
        k = x["class"] + ("+odd" if x["odd"] else "")
        classes[k] = classes.get(k, 0) + 1
        if x["class"] != "malformed":
            ctx.distinct("s:" + text_of(x["s"]))
        else:
            ctx.distinct("m:%d:%d" % (len(x["s"]), x["s"].count(45)))
    ctx.count("G", strings=len(strs_in), pair_cases=len(pairs_in), **{"class_" + k.replace("+", "_"): v for k, v in classes.items()})
    for c in pairs_in:
        ctx.distinct("p:" + json.dumps(c, sort_keys=True))
    ctx.log("driver: %d string lines, %d pair lines, %d fuzz lines" % (st_str["events"], len(e_pair), len(e_fuzz)))
    if any(e["ev"] == "pairfail" for e in e_pair):
        bad = next(e for e in e_pair if e["ev"] == "pairfail")
        ctx.discrepancy("C20/pair/supported/parse/t->f", "a concretised supported ref does not parse: %r / %r" % (text_of(bad["ta"]), text_of(bad["tb"])),
                        {"property": "C20", "kind": "pair", "input": {"ta": bad["ta"], "tb": bad["tb"]}})
        e_pair = [e for e in e_pair if e["ev"] == "pair"]
    f_hash = [e for e in e_fuzz if e["ev"] == "hash"]
    f_pairs = [e for e in e_fuzz if e["ev"] == "pair"]
    ctx.sample({"string": text_of(e_str[len(e_str) // 3]["s"]), "obs": e_str[len(e_str) // 3]["obs"]})
    wf = [e for e in e_str if e["obs"]["parse"] == "t"]
    ctx.sample({"string": text_of(wf[len(wf) // 2]["s"]), "obs": wf[len(wf) // 2]["obs"],
                "probes": [text_of(p) for p in wf[len(wf) // 2]["probes"]], "HasPrefix": wf[len(wf) // 2]["hp"]})
    ctx.sample({"pair": [text_of(e_pair[len(e_pair) // 2]["ta"]), text_of(e_pair[len(e_pair) // 2]["tb"])],
                "less": e_pair[len(e_pair) // 2]["less"], "case": e_pair[len(e_pair) // 2]["case"]})
    ctx.sample({"fuzz_string": text_of(e_fuzz[7]["s"]), "obs": e_fuzz[7]["obs"]})
    # ---- classification of every line Trace_BlobRef found differences in
    found = v_str + v_pair + v_fuzz
    for ev, text, s in found:
        classify(ctx, ev, text, s)
    nv = len(found)
    total = st_str["events"] + len(e_pair) + len(e_fuzz)
    ctx.log("T: %d lines validated by Trace_BlobRef, %d with differences" % (total, nv))
    negative_samples(ctx, e_str, e_pair + f_pairs, f_hash)
    ctx.count("T", lines=total, lines_with_differences=nv, fuzz_lines=len(e_fuzz),
              panics_recovered=st_str["panics"] + sum(1 for e in e_pair + e_fuzz if e.get("panic")))
    for e in e_fuzz:
        if e["ev"] == "str" and e["obs"]["parse"] == "t":
            ctx.distinct("s:" + text_of(e["s"]))
    ctx.cov["traces_validated_against_impl"] = total
    ctx.cov["evaluations"] = st_str["answers"] + sum(answers(e) for e in e_pair + e_fuzz)
    ctx.cov["exhaustive"] = True
    ctx.cov["rule"] = ("all %d strings of length <= %d over {a,g,z,0,9,-,A} (TLC BFS; %s), each through 15 entry-point/round-trip "
                       "answers and, when well-formed, HasPrefix/EqualString on every prefix, altered prefix and extension; all %d "
                       "abstract pair classes (3x3 hashes x 8 position classes x digit values {0,9,a,f}^2 x 3 fills x 3 tails) as real "
                       "refs; %d seeded fuzz lines; distinct = well-formed strings + malformed (length, dashes) buckets + pair classes" % (
                           len(strs_in), maxlen, ", ".join("%s=%d" % kv for kv in sorted(classes.items())), len(pairs_in), len(e_fuzz)))
    ctx.assumptions += [
        "well-formedness follows the code's rules (validDigestName: names may start with a digit although blob.Pattern says [a-z] first; "
        "an odd number of digits is allowed for unknown hash names; at most 256 digits)",
        "ParseKnown's deliberate exemption of the unknown names fakeref/testref/perma (testRefType) is part of the specification",
        "ordering agreement is demanded only for refs of supported hash functions, as the property states",
        "crypto/sha1 and crypto/sha256 digests are computed by the Go projection and compared by TLC",
        "Go's string comparison is logged and checked against the model's byte order rather than assumed"]
