"""C17 - without credentials, blobs are reachable only through a valid share chain.

Share half
  S: Share.tla - the handler loop (mechanism) refines ValidChain/Served (property) for every chain of
     length <= MaxLen over the worlds of ShareWorlds, Served <=> "exact", chain predicate = chain-free
     reachability (sound and complete); sensitivity: each believed deviation of the code
     (MergeSetsNotFollowed, ReopenForgetsDeletes) must violate MechanismRefines.
  G: ShareGen.tla enumerates ALL chains (x methods x assemble) -> harness/cmd/c17 builds every world
     into real signed blobs + store + real index, creates the handler through
     blobserver.CreateHandler("share"), requests every chain through httptest on the live index and
     on an index re-opened over the same rows.
  T: Trace_Share.tla recomputes Allowed()/Served() from the world JSON of the trace for every
     recorded request (collect mode); seeded random Go worlds/chains go through the same validator.
Matrix half
  S: AuthMatrix.tla (the expected matrix and its sanity invariants).
  G: AuthMatrixGen.tla enumerates the abstract cells; the driver instantiates them below every pattern
     an in-process perkeepd (serverinit.Load + InstallHandlers) installed, with / without credentials.
  T: Trace_AuthMatrix.tla validates the recorded classes (TLC is the only oracle)."""
import json
import os
import re
from concurrent.futures import ThreadPoolExecutor

import vlib

LEVEL = "model_checking"
SECRING = os.path.join(vlib.REPO, "pkg", "jsonsign", "testdata", "test-secring.gpg")

QUICK_SERVERS = [("mem", "userpass:u:p"), ("mem", "token:tok"), ("mem", "userpass:u:p:vivify=v"),
                 ("disk", "devauth:pw"), ("noindex", "basic:u:p")]
ALL_AUTH = ["userpass:u:p", "userpass:u:p:vivify=v", "userpass:u:p:+localhost", "token:tok", "basic:u:p", "devauth:pw"]

SERVED = {"exact": "served", "head-ok": "served", "asm-exact": "served", "empty": "empty", "head-empty": "empty"}
VIOL_SHARE = re.compile(r'^"([^"]*)", "([^"]*)", (TRUE|FALSE), "([^"]*)", "([^"]*)", "([^"]*)", "([^"]*)", \{(.*)\}$')
VIOL_MATRIX = re.compile(r'^"([^"]*)", "([^"]*)", "([^"]*)", "([^"]*)", "([^"]*)", "([^"]*)", "([^"]*)", "([^"]*)"$')


def drive(ctx, argv, what):
    """Run the driver as a child; a panic inside perkeep is an observation, anything else machinery."""
    rc, so, se = ctx.run(argv, timeout=600, ok_codes=None)
    if rc == 0:
        return True
    m = re.search(r"panic: (.*)", se)
    if m:
        fr = re.search(r"(perkeep\.org/[^\s(]+)", se[m.end():])
        ctx.discrepancy("%s/%s/driver/panic@%s" % (ctx.prop, what, fr.group(1) if fr else "?"),
                        "driver died: panic: %s" % m.group(1)[:300])
        return False
    raise vlib.MachineryError("driver failed (%s) rc=%d: %s" % (what, rc, (se or so)[-2000:]))


def other_tags(out, tags):
    return [" ".join(m.group(0).split())[:400] for t in tags for m in re.finditer(r'<<\s*"%s".*?>>\n(?=\S|$)' % t, out, re.S)]


# ------------------------------------------------------------------------------------------ share
def share_sig(prop, f):
    state, method, asm, sstate, pclass, expect, observed, _ = f
    action = ("read" if method in ("GET", "HEAD") else "write") + ("+asm" if asm == "TRUE" else "")
    obs = SERVED.get(observed, observed)
    if expect.startswith("refused") and obs != "served":
        obs = "answered"      # the chain was accepted (404 / 5xx / empty file) although nothing was disclosed
    if sstate in ("undeleted", "unexpired"):
        sstate = "live"       # valid shares; the detailed state is in the description (keeps signatures stable across seeds)
    return "%s/share-%s/%s/%s:%s/%s->%s" % (prop, state, action, sstate, pclass, expect, obs)


def validate_share(ctx, tracefile, leg):
    """Returns (discrepancies, sections, lines, events). TLC recomputes every expectation."""
    r = ctx.tlc_trace("Trace_Share", "Trace_Share.cfg", tracefile)
    if not r["accepted"]:
        raise vlib.MachineryError("share trace %s not fully consumed / invariant: %s" % (tracefile, r["out"][-1500:]))
    bad = other_tags(r["out"], ["GENMISMATCH"])
    if bad:
        raise vlib.MachineryError("generator and validator disagree on Served(): %s" % bad[:3])
    evs = vlib.read_ndjson(tracefile)
    found = []
    for line, text in r["viols"]:
        m = VIOL_SHARE.match(text)
        if not m:
            raise vlib.MachineryError("unparsable VIOL line: %r" % text)
        f = m.groups()
        ev = evs[line - 1]
        i = line - 1
        while evs[i]["ev"] != "world":
            i -= 1
        wl = evs[i]
        sig = share_sig(ctx.prop, f)
        grown = wl.get("phase") is not None
        if grown:
            # the store grew under one running handler (delete claims arriving after the handler had answered)
            sig = sig.replace("/share-live/", "/share-regrown/" if wl.get("regrown") else "/share-grown/", 1)
        devs = re.findall(r'"(\w+)"', f[7])
        what = ("world %s (%s index): %s chain %s%s -> %s ; the property demands '%s' (share is %s, path is %s)%s" % (
            wl["name"], wl["state"], ev["method"], ev["chain"], " assemble=1" if ev["asm"] else "", ev["cls"], f[5], f[3], f[4],
            " ; explained by deviation %s" % ",".join(devs) if devs else ""))
        full = wl["items"]
        if grown:   # the replay needs the complete world: the last phase of this world's section
            j = i
            while j + 1 < len(evs) and not (evs[j + 1]["ev"] == "world" and evs[j + 1].get("phase") in (None, 0)):
                j += 1
                if evs[j]["ev"] == "world":
                    full = evs[j]["items"]
        replay = {"property": ctx.prop, "kind": "share", "signature": sig, "leg": leg, "states": [("regrown" if wl.get("regrown") else "grown") if grown else wl["state"]],
                  "world": {"name": wl["name"], "items": full},
                  "reqs": [{"w": 1, "chain": ev["chain"], "method": ev["method"], "asm": ev["asm"], "served": ev["gserved"], "gen": ev["gen"]}]}
        found.append((sig, what, replay))
    nsec = sum(1 for e in evs if e["ev"] == "world")
    return found, nsec, len(evs) - nsec, evs


def share_job(ctx, drv, tag, inp=None, random=None, states="live,reopened,grown,regrown"):
    out = ctx.path("share_%s.ndjson" % tag)
    argv = [drv, "-mode", "share", "-secring", SECRING, "-out", out, "-states", states]
    if inp is not None:
        f = ctx.path("share_%s.in.json" % tag)
        json.dump(inp, open(f, "w"))
        argv += ["-in", f]
    else:
        n, rreq, seed = random
        argv += ["-random", str(n), "-rreq", str(rreq), "-seed", str(seed)]
    if not drive(ctx, argv, "share"):
        return [], 0, 0, []
    return validate_share(ctx, out, tag)


def negative_share(ctx, evs):
    """Corrupt one field of a real trace: a refused request reported as 'exact', and a served one as 401."""
    for frm, to in (("401", "exact"), ("exact", "401")):
        k = next((i for i, e in enumerate(evs) if e["ev"] == "req" and e["method"] == "GET" and not e["asm"] and e["cls"] == frm), None)
        if k is None:
            raise vlib.MachineryError("negative sample: no %s line in the trace" % frm)
        cut = [dict(e) for e in evs[:k + 1]]
        cut[k]["cls"] = to
        f = ctx.path("neg_share_%s.ndjson" % frm)
        vlib.write_jsonl(f, cut)
        r = ctx.tlc_trace("Trace_Share", "Trace_Share.cfg", f)
        if (k + 1) not in [ln for ln, _ in r["viols"]]:
            raise vlib.MachineryError("negative sample (%s reported as %s at line %d) was not rejected: viols=%s" % (frm, to, k + 1, r["viols"][:3]))
    ctx.count("T", negative_samples_rejected=2)


# ------------------------------------------------------------------------------------------ matrix
def matrix_sig(prop, f):
    hl, auth, method, htype, sub, creds, expect, observed = f
    action = ("auth" if creds == "good" else "unauth") + "-" + ("read" if method in ("GET", "HEAD") else "write")
    return "%s/matrix/%s/%s:%s/%s->%s" % (prop, action, htype, sub, expect, observed)


def validate_matrix(ctx, tracefile, hl, auth, whole=True):
    r = ctx.tlc_trace("Trace_AuthMatrix", "Trace_AuthMatrix.cfg", tracefile)
    if not r["accepted"]:
        raise vlib.MachineryError("matrix trace %s not fully consumed: %s" % (tracefile, r["out"][-1500:]))
    # a replay asks single cells: the per-server anti-vacuity condition applies to whole matrices only
    bad = other_tags(r["out"], ["UNKNOWN", "VACUOUS"] if whole else ["UNKNOWN"])
    if bad:
        raise vlib.MachineryError("matrix %s/%s: %s" % (hl, auth, bad[:3]))
    evs = vlib.read_ndjson(tracefile)
    found = []
    for line, text in r["viols"]:
        m = VIOL_MATRIX.match(text)
        if not m:
            raise vlib.MachineryError("unparsable VIOL line: %r" % text)
        f = m.groups()
        ev = evs[line - 1]
        sig = matrix_sig(ctx.prop, f)
        what = "server %s auth %s: %s %s (pattern %s, handler type %s) with credentials=%s -> HTTP %s (%s); the matrix demands '%s'" % (
            hl, f[1], ev["method"], ev["sub"], ev["routed"], ev["htype"], ev["creds"], ev["status"], ev["cls"], f[6])
        replay = {"property": ctx.prop, "kind": "matrix", "signature": sig, "hl": hl, "auth": auth,
                  "cells": [{"sub": ev["csub"], "method": ev["method"], "creds": ev["creds"]}]}
        found.append((sig, what, replay))
    return found, evs


def matrix_job(ctx, drv, hl, auth, cellsfile, tag, whole=True):
    out = ctx.path("matrix_%s.ndjson" % tag)
    if not drive(ctx, [drv, "-mode", "matrix", "-secring", SECRING, "-out", out, "-hl", hl, "-auth", auth, "-cells", cellsfile],
                 "matrix"):
        return [], []
    return validate_matrix(ctx, out, hl, auth, whole)


def negative_matrix(ctx, evs):
    k = next((i for i, e in enumerate(evs) if e["ev"] == "req" and e["creds"] == "none" and e["htype"] == "storage" and e["cls"] == "refused"), None)
    if k is None:
        raise vlib.MachineryError("negative sample: no refused storage line in the matrix trace")
    cut = [dict(e) for e in evs[:k + 1]]
    cut[k]["cls"] = "content"
    f = ctx.path("neg_matrix.ndjson")
    vlib.write_jsonl(f, cut)
    r = ctx.tlc_trace("Trace_AuthMatrix", "Trace_AuthMatrix.cfg", f)
    if (k + 1) not in [ln for ln, _ in r["viols"]]:
        raise vlib.MachineryError("negative sample (unauthenticated content at line %d) was not rejected" % (k + 1))
    ctx.count("T", negative_samples_rejected=1)


# ------------------------------------------------------------------------------------------ run
def report(ctx, found):
    for sig, what, replay in found:
        ctx.discrepancy(sig, what[:700], replay)


def run(ctx, replay):
    drv = ctx.build("c17")
    ctx.specs()
    if replay:
        rp = json.load(open(replay))
        if rp.get("kind") == "share":
            found, nsec, nreq, _ = share_job(ctx, drv, "replay", inp={"worlds": [rp["world"]], "reqs": rp["reqs"]},
                                             states=",".join(rp["states"]))
            ctx.cov["traces_validated_against_impl"] += nsec
            ctx.cov["evaluations"] += nreq
        elif rp.get("kind") == "matrix":
            cf = ctx.path("cells_replay.json")
            json.dump(rp["cells"], open(cf, "w"))
            found, evs = matrix_job(ctx, drv, rp["hl"], rp["auth"], cf, "replay", whole=False)
            ctx.cov["traces_validated_against_impl"] += 1
            ctx.cov["evaluations"] += len(evs)
        else:
            raise vlib.MachineryError("replay file %s has no kind share|matrix" % replay)
        report(ctx, found)
        return
    quick = ctx.quick()
    maxlen = 3 if quick else 4

    # ---- S (independent TLC runs in parallel)
    def s_share():
        return ctx.tlc_check("Share", "Share.cfg", overrides={"MaxLen": maxlen}, coverage=not quick)

    def s_dev(d):
        return ctx.tlc_check("Share", "Share.cfg", overrides={"MaxLen": maxlen, "Deviations": '{"%s"}' % d},
                             expect_violation="MechanismRefines")

    def s_matrix():
        return ctx.tlc_check("AuthMatrix", "AuthMatrix.cfg", workers=2)

    def g_worlds():
        return ctx.tlc_gen("ShareGen", "ShareGen.cfg", overrides={"What": '"worlds"'}, tag="WORLD")

    def g_reqs():
        return ctx.tlc_gen("ShareGen", "ShareGen.cfg", overrides={"MaxLen": maxlen, "MethLen": 3}, tag="REQ")

    def g_cells():
        return ctx.tlc_gen("AuthMatrixGen", "AuthMatrixGen.cfg", tag="CELL")

    with ThreadPoolExecutor(max_workers=8) as ex:
        fs = [ex.submit(s_share), ex.submit(s_dev, "MergeSetsNotFollowed"), ex.submit(s_dev, "ReopenForgetsDeletes"),
              ex.submit(s_matrix), ex.submit(g_worlds), ex.submit(g_reqs), ex.submit(g_cells)]
        res = [f.result() for f in fs]
    worlds, chains, cells = res[4], res[5], res[6]
    worlds.sort(key=lambda w: w["w"])
    if res[0].get("zero_actions"):
        raise vlib.MachineryError("Share: actions never taken: %s" % res[0]["zero_actions"])

    # ---- G + T, share: one job per world (both index states)
    per_world = {w["w"]: [] for w in worlds}
    klass = {}
    for c in chains:
        for v in c["variants"]:
            per_world[c["w"]].append({"w": 1, "chain": c["chain"], "method": v["method"], "asm": v["asm"], "served": c["served"], "gen": True})
        klass[(c["w"], tuple(c["chain"]))] = (c["sstate"], c["pclass"])
    cellsfile = ctx.path("cells.json")
    json.dump(cells, open(cellsfile, "w"))
    servers = QUICK_SERVERS if quick else [(hl, a) for hl in ("mem", "disk", "noindex") for a in ALL_AUTH]
    rnd = [(40, 150, ctx.seed)] if quick else [(100, 300, ctx.seed * 1000 + j) for j in range(4)]

    jobs = []
    for w in worlds:
        jobs.append(("share", w["w"], lambda w=w: share_job(ctx, drv, "w%d" % w["w"], inp={
            "worlds": [{"name": w["name"], "items": w["items"]}], "reqs": per_world[w["w"]]})))
    for j, r in enumerate(rnd):
        jobs.append(("rnd", j, lambda r=r, j=j: share_job(ctx, drv, "rnd%d" % j, random=r)))
    for j, (hl, a) in enumerate(servers):
        jobs.append(("matrix", (hl, a), lambda hl=hl, a=a, j=j: matrix_job(ctx, drv, hl, a, cellsfile, "m%d" % j)))
    with ThreadPoolExecutor(max_workers=8) as ex:
        outs = list(ex.map(lambda j: j[2](), jobs))

    nsec = nreq = nmat = nsrv = 0
    first_share = first_matrix = None
    for (kind, key, _), o in zip(jobs, outs):
        if kind in ("share", "rnd"):
            found, s, n, evs = o
            nsec += s
            nreq += n
            report(ctx, found)
            wname = state = None
            for e in evs:
                if e["ev"] == "world":
                    wname, state = e["name"] if kind == "share" else "random", e["state"]
                    continue
                k = klass.get((key, tuple(e["chain"])), ("-", "len%d" % len(e["chain"]))) if kind == "share" else ("-", "len%d" % len(e["chain"]))
                ctx.distinct((wname, state, k[0], k[1], e["method"], e["asm"], e["cls"]))
            if kind == "share" and first_share is None and evs:
                first_share = evs
            if kind == "share" and evs:
                srv = next((e for e in evs if e["ev"] == "req" and e["cls"] == "exact" and len(e["chain"]) == 3), None)
                if srv:
                    ctx.sample({"world": evs[0]["name"], "served_chain": srv["chain"], "refs": [evs[0]["refs"][i - 1][:20] for i in srv["chain"]]})
        else:
            found, evs = o
            report(ctx, found)
            if evs:
                nsrv += 1
                nmat += len(evs) - 2
                for e in evs[1:-1]:
                    ctx.distinct((key[0], evs[0]["auth"], e["htype"], e["sub"], e["method"], e["creds"], e["cls"]))
                if first_matrix is None:
                    first_matrix = evs
                    ctx.sample({"server": key, "patterns": evs[0]["patterns"]})
    # ---- negative samples: the trace specs bind
    if first_share:
        negative_share(ctx, first_share)
    if first_matrix:
        negative_matrix(ctx, first_matrix)

    ctx.count("G", chains=len(chains), share_requests=sum(len(v) for v in per_world.values()) * 2, matrix_cells=len(cells), servers=nsrv)
    ctx.count("T", share_sections=nsec, share_requests=nreq, matrix_requests=nmat, random_worlds=sum(r[0] for r in rnd))
    ctx.cov["traces_validated_against_impl"] = nsec + nsrv
    ctx.cov["evaluations"] = nreq + nmat
    ctx.cov["exhaustive"] = True
    ctx.cov["rule"] = ("share: ALL %d via-chains of length <= %d over %d worlds of 11 blobs (TLC), each with 5 methods and assemble=1 "
                       "(length-4 chains: GET and GET+assemble), on the live index and on an index re-opened over the same rows; plus %d "
                       "seeded random worlds; matrix: %d abstract cells (18 sub-path classes x 5 methods x 3 credentials) below every "
                       "installed pattern of %d servers (high-level configuration x auth mode); distinct = (world, index state, share "
                       "state, path class, method, assemble, reply class) and (server, auth, handler type, sub-path, method, credentials, reply class)"
                       % (len(chains), maxlen, len(worlds), sum(r[0] for r in rnd), len(cells), nsrv))
    ctx.assumptions += [
        "byte equality of replies (exact / asm-exact / content leak) is decided by the Go projection, which knows every blob's true bytes",
        "a share claim counts as such when the handler can parse it; signatures of share claims are not checked by the handler nor demanded by the property",
        "expiry is compared with the wall clock logged by the driver; worlds use expiry times decades away from it",
        "matrix requests are made through the server's own ServeMux with a non-loopback RemoteAddr (auth modes never see 'localhost')",
        "publisher / scanning-cabinet app handlers are not constructible offline and are not in the matrix",
    ]
