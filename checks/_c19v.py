"""C19, family "validate": the source-minus-destination machinery of the sync handler (pkg/server/sync.go
startFullValidation / runFullValidation / validateShardPrefix / startValidatePrefix / shardPrefixes, fullSyncOnStart =
runSync("full"), and pkg/blobserver/sync.go ListMissingDestinationBlobs).  Called from checks/c19.py (run_leg).

S: SyncValidate.tla.  (a) MergeSpec - one shard's pipeline (two enumerators pushing into bounded channels, the
   two-cursor merge with Peek / Take, the zero-value sentinel, the collector waiting for both enumerators) with every
   pair of sorted streams over a small universe (every subset at the source, every subset with right / wrong sizes at
   the destination, every error position on either side), every interleaving of its local steps: the merge emits
   exactly src \\ dst (in order, size mismatches reported, nothing emitted that the destination has), an enumeration
   error ends the shard with an error, nobody is left blocked (QuiescentDone), every local step decreases a variant
   (termination), and the network is confluent (Run(r) is schedule-independent) - which justifies running a shard's
   pipeline to its fixed point in one step everywhere else.  (b) Spec - the validation as a whole over 2-3 blobs, every
   shard layout, every initial content of source / destination (absent, right, wrong size) / queue: EnumerateBlobs
   calls (with the follow-up call, faults after k blobs), enqueue (memory, then row; duplicates; a failing
   queue.Set), racing uploads through the receive hook, other writers, the copier, a second validation round:
   Complete, NoSpurious (a copy of the wrong size counts as present - what the code does), ErrShard, UploadsDurable,
   NoStuck, CountersExact.  (c) FineSpec - the same with every local step interleaved, tiny.  (d) FSSpec -
   fullSyncOnStart: queue reload, passes over the pending blobs, the enumeration of the whole source fed to the copy
   workers: FullSyncComplete, rows deleted only after the destination's acknowledgement.
   Sensitivity (each MUST violate): AdvanceBothOnLess, NoDrainAfterMerge, IgnoreDstError, PrefixOffByOne,
   EnqueueWrongSized, FullSyncBatchCutoff.
G: SyncValidateGen.tla enumerates scenarios (per-blob state over a seven-blob universe of three hash functions and
   seven shards - first and last shard of all, two blobs in one shard, adjacent shards, empty shards -; handler
   created by NewSyncHandler + POST mode=validate, by CreateHandler with validateOnStart, with (blocking)FullSyncOnStart;
   faults: first EnumerateBlobs call of one enumerator fails after cut blobs, queue.Set fails; racing writers at a
   chosen enumeration: upload, removal at either side, foreign write, second POST; a second clean round; 60-70 more
   blobs in one shard; > 1000 source blobs with a stalled destination).  harness/cmd/c19v runs each on the REAL
   handler over gate stores behind a recording wrapper.
T: Trace_SyncValidate.tla validates the recorded lower-layer calls, the status page's counters, the queue rows after
   the validation and the destination contents after the copy loop went idle against SyncValidate (Complete,
   NoSpurious, ErrShard, UploadsDurable, NoStuck, FullSyncComplete evaluated in every state); seeded random scenarios
   and direct calls of blobserver.ListMissingDestinationBlobs (every pair of streams incl. sentinels) go through the
   same validator; corrupted copies of real traces must be rejected."""
import json
import os
import random
import re
from concurrent.futures import ThreadPoolExecutor

import vlib

FAMILY = "validate"
CHUNK = 5000
# (deviation, cfg, invariant that MUST be violated)
SENS = [("AdvanceBothOnLess", "SyncValidate_s_merge.cfg", "MergeCorrect"),
        ("AdvanceBothOnLess", "SyncValidate_s_spurious.cfg", "NoSpurious"),
        ("NoDrainAfterMerge", "SyncValidate_s_stuck.cfg", "NoStuck"),
        ("IgnoreDstError", "SyncValidate_s_err.cfg", "ErrShard"),
        ("IgnoreDstError", "SyncValidate_s_complete.cfg", "Complete"),
        ("PrefixOffByOne", "SyncValidate_s_complete.cfg", "Complete"),
        ("EnqueueWrongSized", "SyncValidate_s_spurious.cfg", "NoSpurious"),
        ("FullSyncBatchCutoff", "SyncValidate_s_fs.cfg", "FullSyncFeedsAll")]


def is_reset(e):
    return e.get("ev") == "reset"


def segments(evs):
    starts = [i for i, e in enumerate(evs) if is_reset(e)]
    return [evs[a:b] for a, b in zip(starts, starts[1:] + [len(evs)])]


# ---------------------------------------------------------------- S
def s_jobs(ctx, quick):
    jobs = [("SyncValidate_merge.cfg", None, None, 2),
            ("SyncValidate.cfg", None, None, 2),
            ("SyncValidate_env.cfg", None, None, 2),
            ("SyncValidate_up.cfg", None, None, 2),
            ("SyncValidate_rounds.cfg", None, None, 2),
            ("SyncValidate_fs.cfg", None, None, 2)]
    for dev, cfg, inv in SENS:
        jobs.append((cfg, {"Deviations": '{"%s"}' % dev}, inv, 1))
    if not quick:
        jobs += [("SyncValidate_fine.cfg", None, None, 4),
                 ("SyncValidate_merge.cfg", {"Blobs": "{1, 2, 3, 4}", "ChanCap": 2}, None, 6),
                 ("SyncValidate.cfg", {"Blobs": "{1, 2, 3}"}, None, 6),
                 ("SyncValidate.cfg", {"MaxUploads": 1}, None, 6),
                 ("SyncValidate_env.cfg", {"MaxUploads": 1}, None, 6),
                 ("SyncValidate_rounds.cfg", {"MaxEnv": 1}, None, 6),
                 ("SyncValidate_fs.cfg", {"Blobs": "{1, 2, 3}", "MaxEnv": 1}, None, 6)]
    for cfg, ov, _, _ in jobs:
        ctx._cfg(cfg, ov)          # derive the cfg files before the threads start

    def one(j):
        cfg, ov, exp, w = j
        return ctx.tlc_check("SyncValidate", cfg, overrides=ov, workers=w, expect_violation=exp, timeout=1500)
    return [(lambda j=j: one(j)) for j in jobs]


# ---------------------------------------------------------------- driver + validation
def drive(ctx, drv, args, tag, timeout=900):
    out = ctx.path("c19v_%s.ndjson" % tag)
    rc, so, se = ctx.run([drv, "-out", out, "-seed", str(ctx.seed)] + args, timeout=timeout, ok_codes=None)
    if rc != 0:
        pm = re.search(r"panic: (.*)", se) or re.search(r"fatal error: (.*)", se)
        fr = re.search(r"(perkeep\.org/[^\s(]+)", se[pm.end():]) if pm else None
        if pm and fr:
            ctx.discrepancy("C19/validate/%s/driver/panic@%s" % (tag, fr.group(1)), "process died: %s" % pm.group(1)[:300],
                            {"property": "C19", "family": FAMILY, "args": args, "panic": se[pm.start():pm.start() + 2000]})
            return []
        raise vlib.MachineryError("c19v driver failed (%s) rc=%s: %s" % (tag, rc, se[-2500:]))
    if not re.search(r"scenarios=(\d+) lm=(\d+) runs=(\d+) events=(\d+)", so):
        raise vlib.MachineryError("c19v driver printed no summary: %s" % so[-500:])
    evs = vlib.read_ndjson(out)
    os.remove(out)
    return evs


def scn_class(scn):
    """Coarse class of a scenario, for signatures."""
    if not scn:
        return "lm"
    if scn.get("fam") == "fs":
        fs = scn.get("fs") or {}
        c = ["noblock" if fs.get("noblock") else "blocking"]
        c.append("src>1000,dst-stalled" if fs.get("big") else "src<=1000")
        if fs.get("enumcut", -1) >= 0:
            c.append("enum-fault")
        if fs.get("fetchfail") or fs.get("recvfail"):
            c.append("copy-fault")
        return ",".join(c)
    c = [scn.get("mode", "?"), "held" if scn.get("held") else "free"]
    rds = scn.get("rounds") or []
    kinds = set()
    for rd in rds:
        for f in rd.get("faults") or []:
            kinds.add("fault:" + f["side"])
        if rd.get("setfail"):
            kinds.add("setfail")
        for rc in rd.get("races") or []:
            kinds.add("race:" + rc["act"])
    c.append("+".join(sorted(kinds)) or "quiet")
    if scn.get("bulk"):
        c.append("bulk%s:%s" % (">64" if scn["bulk"] > 64 else "<=64", scn.get("bulkwhere")))
    return ",".join(c)


def blob_class(seg, b):
    """Where blob b was when the run began (from the reset line) and what happened to it since."""
    r = seg[0]
    if not isinstance(b, int) or b <= 0:
        return "-"
    c = ["src" if b in r.get("src", []) else "nosrc"]
    z = dict((x[0], x[1]) for x in r.get("dst", []))
    c.append({1: "dst", 2: "dst-wrongsize"}.get(z.get(b), "nodst"))
    if b in r.get("rows", []):
        c.append("row")
    if any(e.get("ev") in ("up", "rm", "put") and e.get("b") == b for e in seg[1:]):
        c.append("touched")
    sm = r.get("smap", [])
    if b <= len(sm):
        p = sm[b - 1]
        if any(e.get("ev") == "enum" and e.get("p") == p and e.get("res") == "err" for e in seg[1:]):
            c.append("shard-fault")
    return ",".join(c)


_attributed = {}


def classify(ctx, seg, idx, reason, leg):
    scn = seg[0].get("scn") or {}
    fam = seg[0].get("fam")
    ev = seg[idx]
    name = {"val": "validate", "fs": "fullsync", "lm": "listmissing"}.get(fam, "validate")
    kind = ev.get("ev")
    obs = {k: v for k, v in ev.items() if k not in ("seq", "sg", "scn", "ev", "b", "items")}
    if kind in ("vsrc", "vdst", "vmiss"):
        obs = "n-as-counted"
    elif kind == "vdone":
        obs = "done=%s-total,quiet-consistent=%s" % ("" if ev.get("done") == ev.get("total") else "not", ev.get("quiet") == ev.get("quietd"))
    elif kind == "verrs":
        obs = "errs=%d" % len(ev.get("errs", []))
    elif kind == "hang":
        obs = "hang"
    elif kind == "fshang":
        obs = "hang"
    elif kind == "lm":
        obs = "out=%d,mism=%d,%s" % (len(ev.get("out", [])), len(ev.get("mism", [])), ev.get("res"))
    elif kind == "enum":
        obs = "%s:%s" % (ev.get("side"), ev.get("res"))
    elif kind == "enumall":
        obs = ev.get("res")
    else:
        obs = ",".join("%s=%s" % (k, str(v).lower()) for k, v in sorted(obs.items())) or "seen"
    if fam == "lm":
        cls = "src=%d,dst=%d,sentinel=%s" % (len(ev.get("s", [])), len(ev.get("d", [])),
                                             any(x[0] == 0 for x in ev.get("s", []) + ev.get("d", [])))
    else:
        cls = scn_class(scn)
        if isinstance(ev.get("b"), int) and ev.get("b") > 0:
            cls += "|" + blob_class(seg, ev["b"])
    # one defect, one signature: coarse classes for the observations that a whole family of scenarios shares
    if kind == "hang":
        # a validation hangs when an enumerator has more to send than its channel holds after the merge stopped reading
        cls = "shard>64-blobs" if scn.get("bulk", 0) >= 64 else cls
    elif fam == "fs" and kind in ("fshang", "fsdone"):
        fs = scn.get("fs") or {}
        cls = ("noblock" if fs.get("noblock") else "blocking") + (",src>1000,dst-stalled" if fs.get("big") else ",src<=1000")
    elif fam == "fs" and kind == "final":
        fs = scn.get("fs") or {}
        b = ev.get("b")
        how = "uploaded-after-full-sync" if any(e.get("ev") == "up" and e.get("b") == b for e in seg[1:idx]) else \
            ("queued" if b in seg[0].get("rows", []) else "unqueued")
        cls = ("noblock" if fs.get("noblock") else "blocking") + "|" + how
    sig = "C19/%s/%s/%s/allowed-by-SyncValidate->%s" % (name, kind, cls, obs)
    if kind in ("hang", "fshang") and fam in ("val", "fs") and sig not in _attributed:
        # attribution (once per signature): is the run a behaviour of the specification with the believed deviations on?
        _attributed[sig] = None
        try:
            ok = not ctx.tlc_trace_segments(module_for(seg), "Trace_SyncValidate_dev.cfg", seg, is_reset)
        except vlib.MachineryError:
            ok = False
        _attributed[sig] = " [%s by the deviations NoDrainAfterMerge / FullSyncBatchCutoff of SyncValidate]" % ("explained" if ok else "NOT explained")
    reason += _attributed.get(sig) or ""
    lines = [{k: v for k, v in e.items() if k not in ("seq", "sg", "scn")} for e in seg[1:idx + 1]][-14:]
    what = "%s: line %d of the run %s | scenario %s | preceding lines %s" % (
        reason, idx, json.dumps({k: v for k, v in ev.items() if k not in ("seq", "sg")})[:300], json.dumps(scn)[:400], json.dumps(lines)[:900])
    ctx.discrepancy(sig, what[:1500], {"property": "C19", "family": FAMILY, "leg": leg, "fam": fam, "scn": scn,
                                      "lm": ev if fam == "lm" else None, "line": idx, "reason": reason,
                                      # the whole run as recorded (reset line first), so that --replay can re-validate exactly what was seen
                                      "segment": seg if len(seg) <= 8000 else seg[:idx + 1]})


def module_for(evs):
    return "MC_TraceSyncValidateBig" if any(e.get("n", 0) > 90 for e in evs if is_reset(e)) else "MC_TraceSyncValidate"


def validate(ctx, evs, leg, vpool):
    """Chunk at segment boundaries, validate the chunks in parallel (one linear TLC pass each)."""
    segs = segments(evs)
    big = [s for s in segs if s[0].get("n", 0) > 90]
    chunks, cur = [], []
    for s in segs:
        if s[0].get("n", 0) > 90:
            continue
        if cur and len(cur) + len(s) > CHUNK:
            chunks.append(cur)
            cur = []
        cur = cur + s
    if cur:
        chunks.append(cur)

    def one(ch):
        return ctx.tlc_trace_segments(module_for(ch), "Trace_SyncValidate.cfg", ch, is_reset, timeout=900)
    res = list(vpool.map(one, chunks + big))
    nfail = 0
    for fails in res:
        for seg, idx, why in fails:
            classify(ctx, seg, idx, why, leg)
            nfail += 1
    return len(segs), nfail


def measure(ctx, evs):
    for seg in segments(evs):
        fam = seg[0].get("fam")
        if fam == "lm":
            e = seg[1]
            ctx.distinct("lm|src=%d|dst=%d|mism=%d|out=%d|sent=%s" % (len(e["s"]), len(e["d"]), len(e["mism"]), len(e["out"]),
                                                                     "s" * any(x[0] == 0 for x in e["s"]) + "d" * any(x[0] == 0 for x in e["d"])))
            continue
        scn = seg[0].get("scn") or {}
        for e in seg[1:]:
            k = e.get("ev")
            if k == "enum" and (e["items"] or e["res"] != "ok"):
                ctx.distinct("%s|enum:%s|items=%d|z2=%d|beyond=%s|after=%s|%s:cut=%s" % (
                    fam, e["side"], min(len(e["items"]), 9), sum(1 for x in e["items"] if x[1] == 2), e["beyond"], e["after"] > 0, e["res"], e["cut"]))
            elif k in ("rm", "put", "up"):
                ctx.distinct("%s|%s|%s|%s" % (fam, k, e.get("side", e.get("z", "")), blob_class(seg, e["b"])))
            elif k == "setfail":
                ctx.distinct("%s|setfail|%s" % (fam, blob_class(seg, e["b"])))
            elif k == "verrs" and e["errs"]:
                ctx.distinct("%s|errs=%d" % (fam, len(e["errs"])))
            elif k == "final":
                ctx.distinct("%s|final|%s|%s|row=%s" % (scn_class(scn), blob_class(seg, e["b"]), e["res"], e["row"]))
            elif k in ("hang", "fshang", "fsdone"):
                ctx.distinct("%s|%s|%s" % (fam, k, scn_class(scn)))
            elif k == "enumall":
                ctx.distinct("fs|enumall|n=%d|%s:%s" % (min(len(e["items"]), 9), e["res"], e["cut"]))


def negative_samples(ctx, evs):
    """Corrupt real accepted runs; every corrupted copy must be rejected (the trace spec binds)."""
    want = {"row-flipped", "vmiss+1", "set-dropped", "final-flipped", "lm-out-dropped", "verrs-dropped", "set-of-present"}
    bad = []
    k = 0
    for seg in segments(evs):
        if not want:
            break
        fam = seg[0].get("fam")
        s = [dict(e) for e in seg]

        def add(name):
            nonlocal k
            s[0] = dict(s[0], neg=name)
            k += 1
            for e in s:
                e["sg"] = -k
            bad.append(s)
            want.discard(name)
        kinds = [e.get("ev") for e in s]
        if fam == "lm":
            if "lm-out-dropped" in want and s[1]["out"]:
                s[1] = dict(s[1], out=s[1]["out"][:-1])
                add("lm-out-dropped")
            continue
        if fam != "val" or "hang" in kinds or "vdone" not in kinds:
            continue
        if "row-flipped" in want and "row" in kinds:
            i = kinds.index("row")
            s[i]["present"] = not s[i]["present"]
            add("row-flipped")
        elif "vmiss+1" in want:
            i = kinds.index("vmiss")
            s[i]["n"] += 1
            add("vmiss+1")
        elif "set-dropped" in want and "set" in kinds and "row" in kinds and not any(x in kinds for x in ("up", "setfail")):
            s.pop(kinds.index("set"))
            add("set-dropped")
        elif "final-flipped" in want and any(e.get("ev") == "final" and e.get("res") == "delivered" for e in s):
            i = next(j for j, e in enumerate(s) if e.get("ev") == "final" and e.get("res") == "delivered")
            s[i]["res"] = "absent"
            add("final-flipped")
        elif "verrs-dropped" in want and any(e.get("ev") == "verrs" and e["errs"] for e in s):
            i = next(j for j, e in enumerate(s) if e.get("ev") == "verrs" and e["errs"])
            s[i]["errs"] = s[i]["errs"][1:]
            add("verrs-dropped")
        elif "set-of-present" in want and "set" in kinds and s[0].get("scn", {}).get("held"):
            # a row for a blob the destination holds with the right size, inserted next to a real one
            z = dict((x[0], x[1]) for x in s[0]["dst"])
            b = next((x for x in s[0]["src"] if z.get(x) == 1), None)
            if b is not None and not any(e.get("b") == b and e.get("ev") in ("up", "rm", "put") for e in s):
                i = kinds.index("set")
                s.insert(i, dict(s[i], b=b))
                add("set-of-present")
    if want:
        raise vlib.MachineryError("c19v negative samples: no suitable real run found for %s" % sorted(want))
    fails = ctx.tlc_trace_segments("MC_TraceSyncValidate", "Trace_SyncValidate.cfg", [e for s in bad for e in s], is_reset)
    missing = set(s[0]["neg"] for s in bad) - set(f[0][0].get("neg") for f in fails)
    if missing:
        raise vlib.MachineryError("c19v negative samples accepted by Trace_SyncValidate (the trace spec does not bind): %s" % sorted(missing))
    ctx.count("T", negative_samples_rejected=len(bad))


def pick(rng, scns, n, key):
    """A seeded sample that keeps at least one member of every class `key`."""
    if n >= len(scns):
        return list(scns)
    groups = {}
    for s in scns:
        groups.setdefault(key(s), []).append(s)
    out = [rng.choice(g) for _, g in sorted(groups.items())]
    rest = [s for s in scns if s not in out]
    if len(out) < n:
        out += rng.sample(rest, min(n - len(out), len(rest)))
    return out


def run_leg(ctx, quick):
    """S + G + driver + T of the family; returns (segments validated, trace lines)."""
    os.environ.setdefault("JAVA_TOOL_OPTIONS", "-XX:TieredStopAtLevel=1 -XX:ParallelGCThreads=2")
    drv = ctx.build("c19v")
    rng = random.Random(ctx.seed * 7919 + 19)
    fams = {f: [] for f in ("states", "faults", "races", "bulk", "fs", "fsfaults", "fsbig")}
    for s in ctx.tlc_gen("SyncValidateGen", "SyncValidateGen.cfg", tag="SCN"):
        fams[s["g"]].append(s)
    jobs = s_jobs(ctx, quick)
    cls = lambda s: scn_class(s)
    if quick:
        sel = {"states": pick(rng, fams["states"], 150, lambda s: (s["mode"], len(s["src"]) % 3)),
               "faults": pick(rng, fams["faults"], 60, cls),
               "races": pick(rng, fams["races"], 110, cls),
               "bulk": pick(rng, fams["bulk"], 14, lambda s: (s["bulk"] > 64, s["bulkwhere"], len(s["rounds"][0]["faults"]))),
               "fs": pick(rng, fams["fs"], 70, cls),
               "fsfaults": pick(rng, fams["fsfaults"], 40, cls),
               "fsbig": fams["fsbig"]}
    else:
        sel = fams
    scns = [s for f in ("states", "faults", "races", "bulk", "fs", "fsfaults", "fsbig") for s in sel[f]]
    for f, v in sel.items():
        ctx.count("G", **{"scenarios:validate-" + f: len(v)})
    ctx.sample({"validate_scenario": sel["races"][0]})
    sf = ctx.path("c19v_scn.jsonl")
    vlib.write_jsonl(sf, scns)
    nseg = nfail = lines = 0
    with ThreadPoolExecutor(max_workers=9) as spool, ThreadPoolExecutor(max_workers=6) as vpool:
        runs = [("gen", ["-scn", sf, "-par", "80"]),
                ("random", ["-random", str(240 if quick else 2000), "-par", "40" if quick else "64"]),
                ("lm", ["-lm", "5,0,%d" % (1500 if quick else 0)]),
                ("lm-sent", ["-lm", "4,1,%d" % (1500 if quick else 0)])]
        if not quick:
            runs.append(("lm6", ["-lm", "6,0,12000"]))
        first = None
        pend = []
        dfut = [(tag, spool.submit(drive, ctx, drv, args, tag)) for tag, args in runs]      # the driver runs are independent processes
        sfut = [spool.submit(j) for j in jobs]          # S while the drivers run (they mostly wait)
        for tag, fu in dfut:
            evs = fu.result()
            lines += len(evs)
            ctx.log("%s validate/%s: %d runs, %d lines" % ("G" if tag == "gen" else "T", tag, len(segments(evs)), len(evs)))
            ctx.count("G" if tag == "gen" else "T", **{"runs:validate-" + tag: len(segments(evs))})
            if not evs:
                continue
            pend.append(spool.submit(validate, ctx, evs, "G" if tag == "gen" else "T", vpool))
            measure(ctx, evs)
            if tag in ("gen", "lm"):
                first = (first or []) + evs
        for f in pend:
            n, nf = f.result()
            nseg += n
            nfail += nf
        if first:
            negative_samples(ctx, first)
            some = [s for s in segments(first) if s[0].get("fam") == "val"]
            if some:
                ctx.sample({"validate_run": [{k: v for k, v in e.items() if k not in ("seq", "sg", "scn")} for e in some[len(some) // 2][:30]]})
        for f in sfut:
            f.result()
    ctx.count("T", validate_runs=nseg, validate_lines=lines, validate_rejected=nfail)
    ctx.assumptions += [
        "validate family: stores are gate memory stores behind a recording wrapper that serialises [effect + log line]; enumeration "
        "faults are injected into the first EnumerateBlobs call of one enumerator of one shard (it fails after handing over cut blobs with "
        "the prefix); racing writers run in the enumerating goroutine right before / after the snapshot of that call, so they are atomic "
        "with respect to that shard's pipeline and concurrent with every other shard's; in the 'held' scenarios the copier's destination "
        "writes wait until the validation has been observed (queue rows after the validation are then exact), in the 'free' ones the copier "
        "runs during the validation; no crash is injected in this family (validation state is memory only; rows are covered by the core family)",
        "validate family: the 761 shards that hold no blob of the universe are counted, not traced (each enumerates both sides and ends); "
        "the status page (GET on the handler) is the only source of vshardDone / vsrcCount / vdestCount / vmissing / vshardErrs; the "
        "destination count of a shard that ended on a source error is checked as a range (its enumerator is not waited for); a validation "
        "is recorded as hanging when no shard completes and no lower-layer call happens for 3 s of effective time (a poll of a CPU-starved driver counts for at most 1 ms)",
        "validate family: what the code does with a destination copy of the WRONG SIZE is specified as such: the merge reports it through "
        "the size-mismatch callback, validateShardPrefix passes an empty callback, so the blob is neither enqueued nor counted as missing "
        "(NoSpurious / Complete treat it as present); the full sync overwrites it (every source blob is copied)",
        "validate family: 'after the copy loop went idle' = the status page shows no blob left to copy, or the handler's IdleWait returned "
        "(a full 5 s sleep of the loop after a pass that copied nothing); fullSyncOnStart is driven through blockingFullSyncOnStart (completion = "
        "CreateHandler returns) and fullSyncOnStart (completion = the status page shows the copy loop asleep); a full sync is recorded as "
        "hanging when neither happens and nothing moves at the wrappers for 2 s of effective time; hourlyCompare is not exercised (it starts at a random ref "
        "drawn from crypto/rand and then sleeps for an hour)",
        "a receive hook that finds the blob already pending acknowledges at once; the row is then still owed by whoever put the blob in "
        "memory (the validation's enqueue or another upload) until that party's queue.Set - UploadsDurable is stated with that window",
    ]
    return nseg, lines


def replay(ctx, rp):
    """Re-run a saved discrepancy of this family: the scenario again (three times: the interleaving of the shard
    workers is not controlled), or the direct ListMissingDestinationBlobs family."""
    drv = ctx.build("c19v")
    rec = rp.get("segment") or []
    if rec and is_reset(rec[0]):
        # first the run as it was recorded: it is a behaviour of the real code, whatever a re-run does
        fails = ctx.tlc_trace_segments(module_for(rec), "Trace_SyncValidate.cfg", rec, is_reset)
        ctx.cov["traces_validated_against_impl"] += 1
        ctx.cov["evaluations"] += len(rec)
        if fails:
            for seg, idx, why in fails:
                ctx.log("replay: the recorded run (%d lines) is rejected again at line %d" % (len(rec), idx))
                classify(ctx, seg, idx, why + " (run as recorded)", "replay-recorded")
        else:
            ctx.log("replay: the recorded run (%d lines, saved as rejected at line %s) is accepted by the specification as it is now" % (
                len(rec), rp.get("line")))
    if rp.get("fam") == "lm":
        args = ["-lm", "5,0,0"] if not any(x[0] == 0 for x in (rp.get("lm") or {}).get("s", []) + (rp.get("lm") or {}).get("d", [])) else ["-lm", "4,1,0"]
    else:
        sf = ctx.path("c19v_replay.jsonl")
        vlib.write_jsonl(sf, [rp["scn"]] * 3)
        args = ["-scn", sf, "-par", "3"]
    saved = ctx.seed
    ctx.seed = (rp.get("scn") or {}).get("seed", ctx.seed)
    evs = drive(ctx, drv, args, "replay")
    ctx.seed = saved
    with ThreadPoolExecutor(max_workers=6) as vpool:
        n, nf = validate(ctx, evs, "replay", vpool)
    ctx.cov["traces_validated_against_impl"] += n
    ctx.cov["evaluations"] += len(evs)
