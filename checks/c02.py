"""C02 - only bytes matching their blobref, within the size cap, are ever accepted.

S: Ingest.tla - the decision table (Accepted / MayAccept / ErrClasses / Notifies) and the order of effects of
   one offer (store, then notify, then acknowledge; a rejection leaves no trace), checked over the full
   consistent product of offers; sensitivity: the deviation the code is believed to have (LimitTruncates, H14)
   must violate OnlyAcceptableStored.
G: IngestGen.tla enumerates the full consistent product path x backend x refKind x sizeKind x bytesKind x
   readerKind; the Go driver makes every offer on the real code (blobserver.Receive, the PUT and multipart
   upload handlers via httptest, the self-verifying stores' own ReceiveBlob, cond -> Receive; over memory,
   localdisk, diskpacked, a harness gate store, encrypt) on a fresh backend, then observes the backing store
   (fetch / stat / enumerate), the response's received list, a blob-hub receive hook and listener, and - on
   gate backends - the lower-layer receive.
T: Trace_Ingest.tla validates every offer's lines with Ingest's own operators and actions (TLC is the only
   oracle): outcome class, after-state, "hub notification only after the store accepted"; seeded random offers
   with other small sizes and contents go through the same validator."""
import json
import os
import random
import re
from concurrent.futures import ThreadPoolExecutor

import vlib

LEVEL = "model_checking"

ALL_BACKENDS = '{"memory", "localdisk", "diskpacked", "gate", "encrypt", "condgate", "replicagate", "shardgate", "nsgate", "packedgate"}'


def refclass(b):
    return "unknownhash" if b["refKind"] == "unknown" else "sha"


def signature(prop, begin, ev, what, text):
    """C02/<path>/<backend>/<step>/<input class>/<expected>-><observed>"""
    acc = re.search(r"accepted \|-> (\w+)", text)
    may = re.search(r"mayAccept \|-> (\w+)", text)
    classes = re.findall(r'"(\w+)"', (re.search(r"classes \|-> \{([^}]*)\}", text) or [None, ""])[1])
    if acc and acc.group(1) == "TRUE":
        exp = "accept"
    elif may and may.group(1) == "TRUE":
        exp = "open"
    else:
        exp = "reject:" + "|".join(sorted(classes))
    if begin["refKind"] == "unknown":
        cls = "unknownhash"         # sizes and mutations do not matter when the hash cannot be computed
        exp = "reject:unsupported"
    else:
        cls = "sha,%s,%s%s" % (begin["sizeKind"], begin["bytesKind"], ",srcerror" if begin["readerKind"] == "error" else "")
    if ev["ev"] == "lower":
        obs = "stored"
    elif ev["ev"] == "hub":
        obs = "notified"
    elif ev["ev"] == "begin":
        obs = "harness"
    else:
        vis = ev.get("fetch") != "notexist" or ev.get("listed") or ev.get("statn", 0) != 0 or ev.get("others", 0) != 0
        obs = "%s%s%s%s" % (ev.get("res"), ":visible" if vis else "", ":hub" if ev.get("hook", 0) or ev.get("listen", 0) else "",
                            ":listed-as-received" if ev.get("received") and ev.get("res") != "ok" else "")
        if ev.get("res") == "ok" and exp == "accept":
            obs += ":after-state"      # accepted as required, but the after-state / sizes / hub count differ
    return "%s/%s/%s/%s/%s/%s->%s" % (prop, begin["path"], begin["backend"], what.strip('"'), cls, exp, obs)


class Run:
    def __init__(self, ctx, drv):
        self.ctx = ctx
        self.drv = drv
        self.offers = 0
        self.events = 0
        self.neg_done = False

    def validate(self, tracefile, seed, small, leg):
        ctx = self.ctx
        r = ctx.tlc_trace("Trace_Ingest", "Trace_Ingest.cfg", tracefile, overrides={"Small": small})
        if not r["accepted"]:
            raise vlib.MachineryError("trace %s not fully consumed: %s" % (tracefile, r["out"][-1500:]))
        evs = vlib.read_ndjson(tracefile)
        for e in evs:
            if e["ev"] == "begin":
                ctx.distinct("%s/%s/%s/%s/%s/%s/%d" % (e["path"], e["backend"], e["refKind"], e["sizeKind"], e["bytesKind"], e["readerKind"], e["n"]))
        for line, text in r["viols"]:
            ev = evs[line - 1]
            i = line - 1
            while evs[i]["ev"] != "begin":
                i -= 1
            b = evs[i]
            m = re.match(r'\s*"?([\w-]+)"?\s*,(.*)', text, re.S)
            what, rest = (m.group(1), m.group(2)) if m else ("?", text)
            if what == "harness-offer":
                raise vlib.MachineryError("harness built an offer Ingest does not describe: %s" % json.dumps(b))
            sig = signature(ctx.prop, b, ev, what, rest)
            offer = {k: b[k] for k in ("path", "backend", "refKind", "sizeKind", "bytesKind", "readerKind")}
            desc = "offer %s (%d bytes): line %d %s ; Ingest expects %s" % (
                json.dumps(offer), b["n"], line,
                json.dumps({k: v for k, v in ev.items() if k not in ("seq", "stack", "id")})[:400], " ".join(rest.split())[:200])
            ctx.discrepancy(sig, desc[:900], {"property": ctx.prop, "offer": offer, "seed": seed, "small": small, "leg": leg,
                                             "signature": sig, "lines": evs[i:line]})
        return evs

    def run_offers(self, offers_file, seed, small, shards, leg):
        ctx = self.ctx

        def work(k):
            out = ctx.path("tr_%s_%d.ndjson" % (leg, k))
            rc, so, se = ctx.run([self.drv, "-offers", offers_file, "-out", out, "-seed", str(seed), "-small", str(small),
                                  "-shard", str(k), "-shards", str(shards)], timeout=1500, ok_codes=None)
            if rc != 0:
                self.died(rc, se)
                return 0, 0
            m = re.search(r"offers=(\d+) events=(\d+)", so)
            evs = self.validate(out, seed, small, leg)
            if k == 0 and leg == "gen" and not self.neg_done:
                self.neg_done = True
                self.negative_sample(evs, small)
            os.remove(out)
            return int(m.group(1)), int(m.group(2))
        with ThreadPoolExecutor(max_workers=min(shards, 12)) as ex:
            for o, e in ex.map(work, range(shards)):
                self.offers += o
                self.events += e

    def died(self, rc, se):
        m = re.search(r"panic: (.*)", se)
        if m:
            fr = re.search(r"(perkeep\.org/[^\s(]+)", se[m.end():])
            self.ctx.discrepancy("%s/driver/panic@%s" % (self.ctx.prop, fr.group(1) if fr else "?"), "driver died: panic: %s" % m.group(1))
            return
        raise vlib.MachineryError("c02 driver failed (rc=%s): %s" % (rc, se[-2000:]))

    def negative_sample(self, evs, small):
        """Binding self-test: corrupt single fields of real, accepted lines; each must be reported."""
        ctx = self.ctx
        evs = evs[:1500]
        base = ctx.tlc_trace("Trace_Ingest", "Trace_Ingest.cfg", self._write(evs, "neg0"), overrides={"Small": small})
        known = set(v[0] for v in base["viols"])
        # lines of offers that already have a discrepancy are not candidates
        badoffers = set()
        cur = None
        for k, e in enumerate(evs):
            if e["ev"] == "begin":
                cur = k
            if (k + 1) in known:
                badoffers.add(cur)
        muts = []
        cur = None
        for k, e in enumerate(evs):
            if e["ev"] == "begin":
                cur = k
            if cur in badoffers or e["ev"] != "end":
                continue
            have = set(m[0] for m in muts)
            if e["res"] == "corrupt" and "res" not in have:
                muts.append(("res", k, dict(e, res="ok", received=True)))
            elif e["res"] == "corrupt" and "hook" not in have:
                muts.append(("hook", k, dict(e, hook=1)))
            elif e["res"] == "corrupt" and "listed" not in have:
                muts.append(("listed", k, dict(e, listed=True)))
            elif e["res"] == "ok" and e["fsize"] > 0 and "fsize" not in have:
                muts.append(("fsize", k, dict(e, fsize=e["fsize"] - 1)))
            elif e["res"] == "unsupported" and "class" not in have:
                muts.append(("class", k, dict(e, res="corrupt")))
        if len(muts) < 4:
            raise vlib.MachineryError("negative sample: no suitable lines to corrupt (%s)" % [m[0] for m in muts])
        bad = list(evs)
        for _, k, e in muts:
            bad[k] = e
        r = ctx.tlc_trace("Trace_Ingest", "Trace_Ingest.cfg", self._write(bad, "neg1"), overrides={"Small": small})
        got = set(v[0] for v in r["viols"])
        for what, k, _ in muts:
            if (k + 1) not in got:
                raise vlib.MachineryError("negative sample (%s corrupted at line %d) was accepted: the trace spec does not bind" % (what, k + 1))
        ctx.count("T", negative_samples_rejected=len(muts))

    def _write(self, evs, name):
        p = self.ctx.path(name + ".ndjson")
        vlib.write_jsonl(p, evs)
        return p


def run(ctx, replay):
    drv = ctx.build("c02")
    R = Run(ctx, drv)
    if replay:
        rp = json.load(open(replay))
        of = ctx.path("replay.jsonl")
        vlib.write_jsonl(of, [rp["offer"]])
        R.run_offers(of, rp["seed"], rp["small"], 1, "replay")
        ctx.cov["traces_validated_against_impl"] += 1
        ctx.cov["evaluations"] += 1
        return
    quick = ctx.quick()
    ctx.specs()
    small = 41
    big = '{"memory", "gate", "condgate", "replicagate"}' if quick else ALL_BACKENDS
    pre = ThreadPoolExecutor(max_workers=3)
    f_s1 = pre.submit(ctx.tlc_check, "Ingest", "Ingest.cfg", None, 4, 900, None, not quick)
    f_s2 = pre.submit(ctx.tlc_check, "Ingest", "Ingest.cfg", {"Deviations": '{"LimitTruncates"}'}, 2, 900, "OnlyAcceptableStored")
    f_g = pre.submit(ctx.tlc_gen, "IngestGen", "IngestGen.cfg", {"BigBackends": big, "Small": small}, None, None, None, 900, "OFFER")
    offers = f_g.result()
    r1 = f_s1.result()
    if r1.get("zero_actions"):
        raise vlib.MachineryError("Ingest: actions never taken in the exhaustive run (vacuous model): %s" % r1["zero_actions"])
    f_s2.result()
    pre.shutdown()
    # big offers are spread evenly over the shards
    offers.sort(key=lambda o: (o["sizeKind"] in ("maxm1", "max", "maxp1", "maxp1prefix"), o["backend"], o["path"], o["refKind"], o["sizeKind"], o["bytesKind"], o["readerKind"]))
    of = ctx.path("offers.jsonl")
    vlib.write_jsonl(of, offers)
    ctx.sample({"offer": offers[len(offers) // 3]})
    ctx.sample({"offer": offers[-1]})
    R.run_offers(of, ctx.seed, small, 14 if quick else 16, "gen")
    ctx.count("G", offers=R.offers, events=R.events)
    # ---- T: seeded random offers, other contents and other "small" sizes
    rng = random.Random(ctx.seed)
    smalls = [2, rng.choice([3, 5, 17, 64]), rng.choice([4095, 4096, 4097]), rng.choice([65535, 65537, 1 << 20])]
    nr = 120 if quick else 1200

    def rwork(k):
        sm = smalls[k]
        out = ctx.path("rnd_%d.ndjson" % k)
        rc, so, se = ctx.run([drv, "-random", str(nr), "-out", out, "-seed", str(ctx.seed * 101 + k), "-small", str(sm),
                              "-bigevery", "40" if quick else "15"], timeout=1500, ok_codes=None)
        if rc != 0:
            R.died(rc, se)
            return 0, 0
        m = re.search(r"offers=(\d+) events=(\d+)", so)
        R.validate(out, ctx.seed * 101 + k, sm, "rnd")
        os.remove(out)
        return int(m.group(1)), int(m.group(2))
    with ThreadPoolExecutor(max_workers=4) as ex:
        for o, e in ex.map(rwork, range(len(smalls))):
            R.offers += o
            R.events += e
    ctx.cov["traces_validated_against_impl"] = R.offers
    ctx.cov["evaluations"] = R.events
    ctx.cov["exhaustive"] = True
    ctx.cov["rule"] = ("offer = (path, backend, refKind, sizeKind, bytesKind, readerKind): the full consistent product enumerated by TLC "
                       "(%d offers; sizes around 16 MiB on %s), each made on a fresh backend, plus %d seeded random offers with other contents "
                       "and small sizes %s; distinct = distinct (offer, byte count) tuples executed" % (len(offers), big, nr * len(smalls), smalls))
    ctx.assumptions += [
        "digests are computed by the Go projection (the harness builds refs with crypto/sha*), TLC sees hashOK as the class of the offer",
        "path 'direct' (a store's own ReceiveBlob): the digest re-verification is judged; an over-size body with a matching digest is left "
        "open there, because by the BlobReceiver contract the caller (blobserver.Receive) enforces the cap",
        "the HTTP handlers answer 400 without a reason in the body: the rejection class of a PUT is read from the server's log line",
        "a mid-stream source error is recognised by the harness reader having fired",
        "one-byte reads of bodies above 1 MiB are one-byte only for the last 4 KiB",
        "the order 'store before hub notification' is observable on harness gate backends only (gate, condgate)",
    ]
