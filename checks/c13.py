"""C13 - a transient lower-layer failure fails one call and nothing else.

S: BlobStoreFault.tla (FailureIsLocal, paging theorem under failures).
G: histories from BlobStoreGen (TLC -simulate); for each configuration the driver first counts the K
   lower-layer calls of the fault-free run, then re-runs the history once per (k <= K, fault kind) with
   the fault injected at call k (single faults exhaustively, bursts randomly), continues with healthy
   operations, observes, rebuilds the store by its own recovery procedure and observes again.
T: strict validation by Trace_BlobStoreFault.tla (TLC searches over the outcomes of failed mutators)."""
import json
import os
import re
from concurrent.futures import ThreadPoolExecutor

import sys

import vlib

sys.path.insert(0, os.path.dirname(os.path.abspath(__file__)))

LEVEL = "model_checking"

QUICK_CFGS = [
    "localdisk", "filesvfs", "diskpacked", "diskpacked[max=300]", "blobpacked", "encrypt",
    "replica(gate,gate)", "replica[min=1](gate,gate,gate)", "shard(gate,gate)", "cond", "overlay[pre=half]", "namespace",
    "proxycache[cache=20]", "proxycache[pre=half]", "union(gate,gate,gate)",
]
THOROUGH_EXTRA = [
    "overlay", "overlay[nodeleted=1]", "replica(shard,shard)", "overlay(gate,blobpacked)", "namespace(encrypt)",
    "proxycache[cache=80](replica)", "shard(replica,replica)", "overlay[pre=all](diskpacked[max=300],gate)",
    "cond(replica,shard)", "union(gate,gate)", "blobpacked(gate,diskpacked)", "encrypt(shard,gate)",
    "replica(filesvfs,filesvfs)", "shard(filesvfs,diskpacked[max=300])", "proxycache[cache=20](overlay)",
]


def cfg_class(cfg):
    return re.sub(r"\[[^\]]*\]", "", cfg)


def classify(ctx, cfg, seg, idx, reason):
    reset = seg[0]
    ev = seg[idx]
    fault = reset.get("fault", {})
    flt_ops = [e for e in seg[1:idx + 1] if e.get("flt")]
    fo = flt_ops[-1] if flt_ops else None
    # every faulted call before the rejected line (a burst has several): "call:res" and the lower calls actually hit
    fdesc = "+".join("%s:%s" % (e.get("op"), e.get("res")) for e in flt_ops) or "none"
    if ev.get("ev") == "recover":
        what_ev = "recover/%s" % ev.get("res")
    else:
        what_ev = "%s/%s%s" % (ev.get("op"), ev.get("res"), "+flt" if ev.get("flt") else "")
    fcalls = [re.sub(r"^r[/0-9]*\.?", "", e.get("fcall")) for e in flt_ops if e.get("fcall")]
    fcall = "+".join(fcalls) if fcalls else re.sub(r"^r[/0-9]*\.?", "", "%s:%s" % (fault.get("call", "?"), fault.get("kind")))
    sig = "C13/%s/fault@%s/%s/%s" % (cfg_class(cfg), fcall, fdesc, what_ev)
    replay = {"property": "C13", "cfg": cfg, "run": {"h": reset.get("h"), "k": fault.get("k"), "kind": fault.get("kind"), "call": fault.get("call")},
              "history": None, "segment": seg[:idx + 1][-40:], "reason": reason}
    return sig, ("%s: %s | fault %s | faulted call: %s" % (reason, json.dumps({k: v for k, v in ev.items() if k != "seq"}), fault,
                 json.dumps(fo) if fo else None))[:700], replay


CHUNK = 600


def sweep(ctx, drv, cfg, histfile, hists, seed, bursts):
    safe = re.sub(r"[^A-Za-z0-9]+", "_", cfg)
    out = ctx.path("c13_%s.ndjson" % safe)
    prog = ctx.path("c13_%s.progress" % safe)
    start = 0
    deaths = 0
    total = None
    while True:
        rc, so, se = ctx.run([drv, "-cfg", cfg, "-hist", histfile, "-out", out, "-seed", str(seed), "-start", str(start),
                              "-progress", prog, "-bursts", str(bursts), "-count", str(CHUNK)], timeout=1500, ok_codes=None)
        m = re.search(r"runs=(\d+) total=(\d+)", so)
        if rc == 0 and m:
            total = int(m.group(2))
            start += int(m.group(1))
            if start < total and int(m.group(1)) > 0:
                continue      # next chunk of runs (one process per CHUNK runs keeps every call well inside the time-out)
            break
        pm = re.search(r"panic: (.*)", se) or re.search(r"fatal error: (.*)", se)
        if pm and os.path.exists(prog):
            ri, rj = open(prog).read().split(" ", 1)
            fr = re.search(r"(perkeep\.org/[^\s(]+)", se[pm.end():])
            runinfo = json.loads(rj)
            sig = "C13/%s/fault@%s:%s/driver/panic@%s" % (cfg_class(cfg), re.sub(r"^r[/0-9]*\.?", "", runinfo.get("call", "?")),
                                                           runinfo.get("kind"), fr.group(1) if fr else "?")
            ctx.discrepancy(sig, "process died: panic: %s (run %s)" % (pm.group(1)[:200], rj.strip()),
                            {"property": "C13", "cfg": cfg, "run": runinfo, "panic": se[pm.start():pm.start() + 1500]})
            deaths += 1
            start = int(ri) + 1
            if deaths > 200:
                raise vlib.MachineryError("too many driver deaths on %s" % cfg)
            continue
        raise vlib.MachineryError("c13 driver failed on %s rc=%s: %s" % (cfg, rc, se[-2000:]))
    evs = vlib.read_ndjson(out) if os.path.exists(out) else []
    os.remove(out)
    fails = ctx.tlc_trace_segments("Trace_BlobStoreFault", "Trace_BlobStoreFault.cfg", evs, lambda e: e.get("ev") == "reset")
    for seg, idx, why in fails:
        sig, what, replay = classify(ctx, cfg, seg, idx, why)
        replay["history"] = hists[seg[0].get("h", 0)]
        ctx.discrepancy(sig, what, replay)
    nruns = sum(1 for e in evs if e.get("ev") == "reset")
    calls = set((e.get("fault", {}).get("call"), e.get("fault", {}).get("kind")) for e in evs if e.get("ev") == "reset")
    return nruns, len(evs), calls, deaths


def encrypt_compaction_faults(ctx, quick):
    """The histories above stay below encrypt's compaction threshold (101 small meta blobs). The fault family of C11
    (checks/c11.py, Encrypt.tla's failing actions, Trace_Encrypt) injects a transient error - without or after its
    effect - at every lower-layer call class of the receive that triggers a compaction and of the compaction job,
    lets the store go on, restarts it with the index kept or wiped (= the store's own recovery: meta re-scan) and
    demands every acknowledged blob back.  It is run here too, reported under this property."""
    import c11 as _c11
    drv11 = ctx.build("c11")
    rc, so, se = ctx.run([drv11, "-limit"], timeout=60)
    _c11.LIMIT["Limit"] = re.search(r"limit=(\d+)", so).group(1)
    _c11.LIMIT["Full"] = re.search(r"full=(\d+)", so).group(1)
    ctx._cfg(_c11.TRACE[1], dict(_c11.LIMIT))
    scns = ctx.tlc_gen("EncryptGen", "EncryptGen.cfg", overrides=dict(_c11.LIMIT, Tier='"quick"' if quick else '"thorough"'), tag="SCN")
    scns = [dict(x, restarts=x.get("restarts") or []) for x in scns if x["kind"] == "fault"]
    if not scns:
        raise vlib.MachineryError("EncryptGen produced no fault scenario")
    nsh = 4 if quick else 8
    shards = [scns[i::nsh] for i in range(nsh)]
    segs = lines = 0

    class Under13(object):
        """discrepancies of the shared family are reported with this property's name"""
        def __init__(self, c):
            self.c = c

        def __getattr__(self, k):
            return getattr(self.c, k)

        def discrepancy(self, sig, what, replay=None):
            if isinstance(replay, dict):
                replay = dict(replay, property="C13", family="encrypt-compaction")
            return self.c.discrepancy(sig.replace("C11/", "C13/", 1), what, replay)
    proxy = Under13(ctx)
    with ThreadPoolExecutor(max_workers=nsh) as ex:
        for res in ex.map(lambda kp: _c11.run_shard(proxy, drv11, "c13f%d" % kp[0], kp[1], ctx.seed, keep=False), enumerate(shards)):
            segs += res["segments"]
            lines += res["lines"]
            for c in res["classes"]:
                if c.startswith("fault@"):
                    ctx.distinct("encrypt-compaction|" + c.split("/wipe=")[0])
            for seg, idx, why in res["fails"]:
                _c11.classify(proxy, seg, idx, why, "G-fault")
    ctx.count("G", encrypt_compaction_fault_scenarios=len(scns), encrypt_compaction_segments=segs)
    return segs, lines


def run(ctx, replay):
    drv = ctx.build("c13")
    if replay and json.load(open(replay)).get("family") == "encrypt-compaction":
        import c11 as _c11
        rp = json.load(open(replay))
        drv11 = ctx.build("c11")
        rc, so, se = ctx.run([drv11, "-limit"], timeout=60)
        _c11.LIMIT["Limit"] = re.search(r"limit=(\d+)", so).group(1)
        _c11.LIMIT["Full"] = re.search(r"full=(\d+)", so).group(1)
        ctx._cfg(_c11.TRACE[1], dict(_c11.LIMIT))
        res = _c11.run_shard(ctx, drv11, "replay", [rp["scenario"]], rp.get("seed", ctx.seed))
        for seg, idx, why in res["fails"]:
            ctx.discrepancy(rp.get("signature", "C13/encrypt/fault/replay"), "replayed scenario rejected again at line %d: %s" % (idx, why), None)
        ctx.cov["traces_validated_against_impl"] += res["segments"]
        ctx.cov["evaluations"] += res["lines"]
        return
    if replay:
        rp = json.load(open(replay))
        hf = ctx.path("h.jsonl")
        vlib.write_jsonl(hf, [rp["history"]])
        out = ctx.path("r.ndjson")
        r = dict(rp["run"])
        r["h"] = 0
        rc, so, se = ctx.run([drv, "-cfg", rp["cfg"], "-hist", hf, "-out", out, "-only", json.dumps(r)], ok_codes=None)
        if rc != 0:
            pm = re.search(r"panic: (.*)", se)
            if pm:
                fr = re.search(r"(perkeep\.org/[^\s(]+)", se[pm.end():])
                ctx.discrepancy("C13/%s/fault@%s:%s/driver/panic@%s" % (cfg_class(rp["cfg"]), re.sub(r"^r[/0-9]*\.?", "", r.get("call", "?")),
                                                                         r.get("kind"), fr.group(1) if fr else "?"), "process died: " + pm.group(1)[:200])
                return
            raise vlib.MachineryError(se[-1500:])
        evs = vlib.read_ndjson(out)
        for seg, idx, why in ctx.tlc_trace_segments("Trace_BlobStoreFault", "Trace_BlobStoreFault.cfg", evs, lambda e: e.get("ev") == "reset"):
            sig, what, rpl = classify(ctx, rp["cfg"], seg, idx, why)
            rpl["history"] = rp["history"]
            ctx.discrepancy(sig, what, rpl)
        ctx.cov["traces_validated_against_impl"] += 1
        ctx.cov["evaluations"] += 1
        return
    quick = ctx.quick()
    ctx.tlc_check("BlobStoreFault", "BlobStoreFault.cfg")
    hists = ctx.tlc_gen("BlobStoreGen", "BlobStoreGen.cfg", overrides={"Mode": '"all"', "Depth": 12},
                        simulate=(4 if quick else 20), depth=14, seed=ctx.seed)
    # one scripted history guarantees that removal of a present blob, duplicate receive and re-receive are faulted
    hists.append([{"op": "receive", "b": 2}, {"op": "receive", "b": 4}, {"op": "receive", "b": 8}, {"op": "receive", "b": 4},
                  {"op": "stat", "bs": [2, 4, 6, 8]}, {"op": "enum", "after": 0, "limit": 2}, {"op": "fetch", "b": 4},
                  {"op": "remove", "bs": [4]}, {"op": "remove", "bs": [2, 6]}, {"op": "receive", "b": 4}, {"op": "receive", "b": 6},
                  {"op": "subfetch", "b": 4, "off": 1, "len": 3}, {"op": "enum", "after": 3, "limit": 5}])
    hf = ctx.path("hists.jsonl")
    vlib.write_jsonl(hf, hists)
    ctx.sample({"history": hists[0]})
    cfgs = QUICK_CFGS + ([] if quick else THOROUGH_EXTRA)
    tr = te = 0
    allcalls = set()

    def work(cfg):
        return cfg, sweep(ctx, drv, cfg, hf, hists, ctx.seed, 2 if quick else 10)
    with ThreadPoolExecutor(max_workers=8) as ex:
        for cfg, (nruns, nev, calls, deaths) in ex.map(work, cfgs):
            tr += nruns
            te += nev
            for c in calls:
                ctx.distinct("%s|%s|%s" % (cfg_class(cfg), c[0], c[1]))
            allcalls |= set(c[0] for c in calls)
            ctx.count("G", **{"runs:" + cfg: nruns})
    ctx.sample({"faulted_lower_calls": sorted(x for x in allcalls if x)[:40]})
    s2, e2 = encrypt_compaction_faults(ctx, quick)
    tr += s2
    te += e2
    ctx.cov["traces_validated_against_impl"] = tr
    ctx.cov["evaluations"] = te
    ctx.cov["exhaustive"] = True
    ctx.cov["rule"] = ("run = (configuration, history, k-th lower-layer call, fault kind in error/after/wrongsize/short); every k of every "
                       "history is swept (exhaustive over single faults for %d histories x %d configurations), plus random bursts; "
                       "distinct = (configuration class, lower call, kind)" % (len(hists), len(cfgs)))
    ctx.assumptions += ["diskpacked's own pack-file I/O uses os directly and cannot be faulted without changing perkeep: faults reach it through its index only",
                        "gate stores / VFS are correct lower layers; a fault is an error return (optionally after the effect), a wrong size report or a short write",
                        "bounded completion = each public call returns within the 20 s watchdog"]
