"""BlobStreamer family (StreamBlobs continuation tokens) - shared by C03 (diskpacked) and C04 (blobpacked).

S: specs/Stream.tla (MC_Stream, Stream.cfg): the store as a sequence of physical records (pack files with live /
   x-ed records and roll-over; a loose store plus zips with their members and the b: rows), Stream / Resume with ANY
   token handed out before or a foreign one, mutations between two calls.  Checked: Resumable, CutResume, ChainedCuts
   (every cut position, chained cuts, termination), Monotone, Complete (= the BlobStore present set, a removed blob
   never), DupsArePhysical, DPOnce, BytesOK, ResumeLaw (what a stale token yields after appends / removals / roll-over /
   packing), AppendVisible (diskpacked), InvalidIsError / StrictInvalid.  Sensitivity: every deviation of the family
   MUST violate; AppendVisibleAny MUST be violated for blobpacked (property (e) does not hold there).
G: specs/StreamGen.tla writes the scenarios (histories + stream scripts: cut after every k, resume with the k-th token,
   chained consumers, stale tokens after one more mutation, restarts, foreign token classes); harness/cmd/stream runs
   them, and seeded random interleavings, on REAL diskpacked (maxFileSize classes incl. "every record rolls a pack") and
   REAL blobpacked (small = enumerated gate store / streamed memory store / diskpacked; large = memory / localdisk;
   forced zip sizes -> 1-3 zips).
T: specs/Trace_Stream.tla validates every event (collect mode); TLC is the only oracle.
"""
import json
import os
import random
import re
from concurrent.futures import ThreadPoolExecutor

import vlib

KINDS = {"diskpacked": "dp", "blobpacked": "bp"}
SHORT_JVM = {"JAVA_TOOL_OPTIONS": "-XX:TieredStopAtLevel=1 -XX:ParallelGCThreads=2"}
DP_MAX = [1, 100, 150, 0]          # diskpacked maxFileSize: every record rolls a pack / 1-2 records / 2-3 records / default
MAXZIP = {0: 0, 1: 250000, 2: 450000}   # chunks are 180 000 bytes: one / two chunks per zip, 0 = everything in one zip

SENS = {
    "dp": [("TokenAfterRecord", "Resumable"), ("SkipFirstOfNextPack", "Resumable"), ("StreamsDeleted", "Complete"),
           ("GarbageIsStart", "StrictInvalid")],
    "bp": [("PackedResumeNextZip", "Resumable"), ("HandoverKeepsToken", "Resumable"), ("PackedIgnoresMeta", "Complete"),
           ("GarbageIsStart", "StrictInvalid")],
}


# ---------------------------------------------------------------------------------------------- S
def s_jobs(ctx, quick, k):
    fam = "dp" if k == "dp" else ("bpq" if quick else "bp")
    blobs = "{2, 4, 6}" if k == "dp" else "{2, 4, 6, 8}"
    base = {"Family": '"%s"' % fam, "Blobs": blobs, "MaxRecs": 3 if (quick or k == "bp") else 4}
    jobs = [("Stream.cfg", dict(base), None)]
    for dev, inv in SENS[k]:
        o = dict(base, Deviations='{"%s"}' % dev)
        if k == "bp":
            o["Family"] = '"bpq"'
        jobs.append(("Stream.cfg", o, inv))
    if k == "bp":
        jobs.append(("Stream_e.cfg", {"Family": '"bpq"'}, "AppendVisibleAny"))
    for cfg, o, _ in jobs:      # derive the cfg files before the threads start
        ctx._cfg(cfg, o)
    return jobs


def run_s(ctx, job):
    cfg, o, inv = job
    return ctx.tlc_check("MC_Stream", cfg, overrides=o, expect_violation=inv, workers=3, timeout=1500)


# ---------------------------------------------------------------------------------------------- G
def generate(ctx, quick, k):
    if k == "dp":
        o = {"GenKind": '"dp"', "Blobs": "{2, 4, 6}" if quick else "{2, 4, 6, 8}", "D0": 1, "D1": 3 if quick else 4,
             "Thorough": "FALSE" if quick else "TRUE"}
    elif quick:
        # the blobpacked space is large: the quick tier lets TLC draw seeded random behaviours, the thorough tier enumerates
        o = {"GenKind": '"bp"', "Blobs": "{2, 4, 6, 8, 10, 12}", "D0": 0, "D1": 2, "Thorough": "FALSE"}
        scs = ctx.tlc_gen("StreamGen", "StreamGen.cfg", overrides=o, tag="SCN", timeout=600, simulate=340, depth=40, seed=ctx.seed)
        uniq = {json.dumps(s, sort_keys=True): s for s in scs}
        return [uniq[key] for key in sorted(uniq)]
    else:
        o = {"GenKind": '"bp"', "Blobs": "{2, 4, 6, 8, 10, 12, 14, 16}", "D0": 0, "D1": 1, "Thorough": "TRUE"}
    return ctx.tlc_gen("StreamGen", "StreamGen.cfg", overrides=o, tag="SCN", timeout=1500)


def assign(ctx, quick, k, scs):
    """Implementation dimensions the model does not distinguish are dealt out here (seeded); the quick tier samples."""
    rng = random.Random(ctx.seed * 7919 + (1 if k == "dp" else 2))
    out = []
    if k == "dp":
        rng.shuffle(scs)
        for i, s in enumerate(scs):
            j = (i + ctx.seed) % len(DP_MAX)
            for mx in ([DP_MAX[j]] if quick else [DP_MAX[j], DP_MAX[(j + 2) % len(DP_MAX)]]):
                out.append(dict(s, impl={"max": mx, "small": "", "large": "", "maxzip": 0}))
    else:
        groups = {}
        for s in scs:
            groups.setdefault((s["small"], s["per"], s["shape"]), []).append(s)
        want = 300 if quick else 3600
        per_group = max(1, want // max(1, len(groups)))
        i = 0
        for key in sorted(groups):
            g = groups[key]
            rng.shuffle(g)
            for s in g[:per_group]:
                i += 1
                sm = "dp" if s["small"] == "dp" else ["gate", "memory"][(i + ctx.seed) % 2]
                out.append(dict(s, impl={"max": [1, 0, 150][(i // 2) % 3] if sm == "dp" else 0, "small": sm,
                                         "large": ["memory", "localdisk"][(i // 3 + ctx.seed) % 2], "maxzip": MAXZIP[s["per"]]}))
    # seeded random interleavings produced by the driver itself
    nrand, nops = (40, 40) if quick else (400, 70)
    for j in range(nrand):
        if k == "dp":
            out.append({"kind": "dp", "small": "-", "per": 0, "shape": "-", "thorough": False, "ops": [], "random": nops,
                        "impl": {"max": DP_MAX[j % len(DP_MAX)], "small": "", "large": "", "maxzip": 0}})
        else:
            sm = ["gate", "memory", "dp"][j % 3]
            per = j % 3
            out.append({"kind": "bp", "small": "dp" if sm == "dp" else "sorted", "per": per, "shape": ["abc", "aba"][(j // 3) % 2],
                        "thorough": not quick and j % 2 == 0, "ops": [], "random": nops,
                        "impl": {"max": [1, 0][(j // 3) % 2] if sm == "dp" else 0, "small": sm,
                                 "large": ["memory", "localdisk"][(j // 2) % 2], "maxzip": MAXZIP[per]}})
    for i, s in enumerate(out):
        s["id"] = i + 1
    return out


# ---------------------------------------------------------------------------------------------- T
def validate(ctx, path):
    r = ctx.tlc_trace("Trace_Stream", "Trace_Stream.cfg", path, env=SHORT_JVM, timeout=1500)
    if not r["accepted"]:
        raise vlib.MachineryError("stream trace %s not consumed: %s" % (os.path.basename(path), r["out"][-1500:]))
    return r["viols"]


def tok_class(e):
    if e.get("op") != "stream":
        return e.get("op", "?")
    c = e.get("cls", "?")
    if e.get("stale"):
        c += "+mut"
    if e.get("cut", -1) >= 0:
        c += "+cut"
    return c


def lean(e):
    return {k: v for k, v in e.items() if k not in ("rs", "sizes", "nt")}


def in_scope(fam, act, obs):
    """Which rejections of the Stream module are violations of the PROPERTY the leg runs under.  C03 speaks of streams
    only where it says that no stream presents anything but a present, whole blob; C04 does not speak of streams at
    all.  In scope for both: a store call that never returns or dies (every later call of the process is affected),
    a fault-free receive/remove/restart that fails, and streamed bytes that are not the blob's.  In scope for the
    disk store (C03) in addition: a removed or never-stored blob presented as present.  Everything else the module
    demands (resumability of tokens, completeness, duplicates, order, invalid tokens; for blobpacked also removed
    blobs still streamed) is specification growth beyond the listed properties: reported as BEYOND-PROPERTY."""
    if obs in ("hang", "panic", "bad-bytes"):
        return True
    if act == "mutation" and obs not in ("pack-differs", "illegal-pack", "layout-differs"):
        return True
    if fam == "diskpacked" and obs in ("removed-blob", "foreign-blob"):
        return True
    return False


def report(ctx, fam, evs, viols, scen_by_id):
    """One discrepancy per VIOL line.  Returns the number of discrepancies that are not script/model disagreements."""
    n = 0
    for line, text in viols:
        e = evs[line - 1]
        words = re.findall(r'"([^"]*)"', text)
        exp, obs = (words + ["?", "?"])[:2]
        a = line - 1
        while a > 0 and evs[a].get("ev") != "reset":
            a -= 1
        reset = evs[a]
        if obs == "never-handed-out":
            raise vlib.MachineryError("stream script and implementation disagree without a discrepancy before (scenario %s, line %d): %s"
                                      % (reset.get("scn"), line, json.dumps(lean(e))))
        act = "stream" if e.get("op") == "stream" else "mutation"
        tc = tok_class(e)
        if obs in ("hang", "panic"):
            # which call of a process meets the exhausted resource depends on the schedule: one signature
            tc, exp = "any", "returns"
        sig = "%s/%s/%s/%s/%s->%s" % (ctx.prop, fam, act, tc, exp, obs)
        lists = re.findall(r"<<([\d,\s]*)>>", text)
        what = "scenario %s (%s) line %d: %s | the specification allows %s; observed %s | %s" % (
            reset.get("scn"), reset.get("impl"), line - a, json.dumps(lean(e))[:420], exp, obs,
            ("expected ranks <<%s>> observed <<%s>>" % (lists[-2].strip(), lists[-1].strip())) if len(lists) >= 2 else text[:200])
        if not in_scope(fam, act, obs):
            ctx.beyond(sig, what)
            n += 1
            continue
        ctx.discrepancy(sig, what, {"property": ctx.prop, "family": "stream", "kind": fam, "seed": ctx.seed, "signature": sig,
                                    "scenario": scen_by_id.get(reset.get("scn")), "events": [lean(x) for x in evs[a:line]]})
        n += 1
    return n


def negative_samples(ctx, evs, viol_lines):
    """Corrupt ONE field of real, accepted scenarios; every corrupted line must be reported."""
    starts = [i for i, e in enumerate(evs) if e.get("ev") == "reset"] + [len(evs)]
    starts = [a for a, b in zip(starts, starts[1:]) if not any(a < ln <= b for ln in viol_lines)] + [len(evs)]
    made, want = [], {}

    def add(seg, j, why):
        base = len(made)
        made.extend(seg)
        want[base + j + 1] = why

    kinds = set()
    for si in range(len(starts) - 1):
        end = next(i for i in range(starts[si] + 1, len(evs) + 1) if i == len(evs) or evs[i].get("ev") == "reset")
        seg = [json.loads(json.dumps(x)) for x in evs[starts[si]:end]]
        for j, e in enumerate(seg):
            if e.get("op") != "stream" or e.get("ev") != "op":
                continue
            if "drop" not in kinds and e["cls"] == "start" and e["cut"] < 0 and len(e["items"]) >= 2 and e["res"] == "ok":
                s2 = json.loads(json.dumps(seg))
                s2[j]["items"] = s2[j]["items"][:-1]
                add(s2, j, "last blob dropped from a full stream")
                kinds.add("drop")
            elif "bytes" not in kinds and e["cls"] == "item" and len(e["items"]) >= 1 and e["res"] == "ok":
                s2 = json.loads(json.dumps(seg))
                s2[j]["items"][0][2] = 2
                add(s2, j, "byte flag of a resumed blob flipped")
                kinds.add("bytes")
            elif "res" not in kinds and e["res"] == "canceled" and e["cut"] >= 0:
                s2 = json.loads(json.dumps(seg))
                s2[j]["res"] = "ok"
                add(s2, j, "a cancelled call reported as complete")
                kinds.add("res")
            elif "token" not in kinds and e["cls"] == "item" and e["cut"] < 0 and len(e["items"]) >= 1 and e["res"] == "ok":
                # resume with another token than the one recorded: the list no longer fits
                others = [x["tid"] for x in seg[:j] if x.get("op") == "stream" and x.get("cls") == "item" and x["tid"] != e["tid"]
                          and x.get("res") == "ok" and x.get("cut", -1) < 0 and len(x["items"]) != len(e["items"])]
                if others:
                    s2 = json.loads(json.dumps(seg))
                    s2[j]["tid"] = others[0]
                    add(s2, j, "resumed call attributed to another token")
                    kinds.add("token")
        if len(kinds) == 4:
            break
    if len(kinds) < 3:
        if viol_lines:
            # (nearly) every scenario of this shard was rejected: the specification evidently binds
            ctx.notes.append("stream: negative self-test skipped, too few accepted scenarios in the first shard")
            return
        raise vlib.MachineryError("stream: could not build negative samples from the recorded trace (%s)" % sorted(kinds))
    p = ctx.path("stream_negative_%d.ndjson" % len(made))
    vlib.write_jsonl(p, made)
    got = {line for line, _ in validate(ctx, p)}
    for line, why in want.items():
        if line not in got:
            raise vlib.MachineryError("stream negative sample not rejected (%s, line %d): the trace specification does not bind" % (why, line))
    ctx.count("T", stream_negative_samples_rejected=len(want))


def drive_and_validate(ctx, fam, k, scs, shards):
    drv = ctx.build("stream")
    sf = ctx.path("stream_%s_scn.jsonl" % k)
    vlib.write_jsonl(sf, scs)
    out = ctx.path("stream_%s.ndjson" % k)
    rc, so, se = ctx.run([drv, "-scn", sf, "-out", out, "-split", str(shards), "-seed", str(ctx.seed), "-workers", "8"], timeout=2400)
    m = re.search(r"scenarios=(\d+) events=(\d+) streams=(\d+) classes=(\{.*\}) skipped=(\d+)", so)
    if not m:
        raise vlib.MachineryError("stream driver printed no summary: %s" % (so + se)[-1500:])
    if int(m.group(5)):
        ctx.notes.append("stream family (%s): a call hung; %s scenarios were not run in the poisoned process" % (fam, m.group(5)))
    paths = [out] if shards == 1 else ["%s.%d" % (out, i) for i in range(shards)]
    paths = [p for p in paths if os.path.getsize(p) > 0]
    return paths, int(m.group(1)), int(m.group(2)), int(m.group(3)), json.loads(m.group(4))


def coverage(ctx, fam, evs):
    impl = ""
    nmut = 0
    for e in evs:
        if e.get("ev") == "reset":
            impl, nmut = e.get("impl", ""), 0
            im = json.loads(impl) if impl else {}
        elif e.get("op") in ("receive", "remove", "restart"):
            nmut += 1
        elif e.get("op") == "stream" and e.get("ev") == "op":
            n = len(e["items"])
            cut = e["cut"]
            cutc = "none" if cut < 0 else "0" if cut == 0 else "all+" if e["res"] != "canceled" else "mid"
            ctx.distinct("stream|%s|%s|%s|%s|%s|%s|%s|n=%s|dup=%s" % (
                fam, im.get("small"), im.get("large"), im.get("max"), im.get("maxzip"), tok_class(e), cutc + "/" + e["res"],
                min(n, 6), len(set(x[0] for x in e["items"])) != n))


def run_leg(ctx, quick, kind):
    """S + G + driver + T for one store kind ("diskpacked" | "blobpacked"); adds to the coverage of the calling check."""
    k = KINDS[kind]
    ctx.log("stream family: %s" % kind)
    sj = s_jobs(ctx, quick, k)
    shards = 4 if quick else 12
    with ThreadPoolExecutor(max_workers=12) as pool:
        gen_f = pool.submit(generate, ctx, quick, k)
        bld_f = pool.submit(ctx.build, "stream")
        s_fs = [pool.submit(run_s, ctx, j) for j in sj]
        scs = assign(ctx, quick, k, gen_f.result())
        bld_f.result()
        paths, nscn, nev, nstream, classes = drive_and_validate(ctx, kind, k, scs, shards)
        v_fs = [pool.submit(validate, ctx, p) for p in paths]
        viols = [f.result() for f in v_fs]
        for f in s_fs:
            f.result()
    scen_by_id = {s["id"]: s for s in scs}
    ndisc = 0
    first_clean = None
    for p, vs in zip(paths, viols):
        evs = vlib.read_ndjson(p)
        ndisc += report(ctx, kind, evs, vs, scen_by_id)
        coverage(ctx, kind, evs)
        if first_clean is None:
            first_clean = evs
            negative_samples(ctx, evs, [ln for ln, _ in vs])
    ctx.count("G", stream_scenarios=nscn, stream_scenarios_random=sum(1 for s in scs if s.get("random")))
    ctx.count("T", stream_events=nev, stream_calls=nstream, stream_discrepancies=ndisc)
    ctx.cov["legs"].setdefault("T", {})["stream_classes_" + k] = classes
    ctx.cov["traces_validated_against_impl"] += nscn
    ctx.cov["evaluations"] += nev
    ex = next((e for e in first_clean if e.get("op") == "stream" and e.get("cls") == "item" and e.get("items")), None)
    if ex:
        ctx.sample({"stream_resume": {kk: ex[kk] for kk in ("cls", "tok", "cut", "res", "items")}})
    ctx.cov["rule"] = (ctx.cov.get("rule") or "") + (
        " ; stream family (%s): scenario = (configuration, history of receive / remove / restart, stream script: from \"\", cut after every k, "
        "resume with every token, chained cuts, stale tokens after one more mutation, foreign token classes) + seeded random interleavings; "
        "distinct = (configuration, token class, cut class / result, number of blobs, duplicates)" % kind)
    ctx.assumptions += ["stream family: fault-free histories (no crash inside a call; torn tails are C03's crash sweep); blobpacked files are flat "
                        "(file blob -> chunks) so a zip holds the file blob and a run of chunks",
                        "stream family: a blob may be streamed once per live physical copy (StreamBlobs promises no uniqueness); a removed blob never",
                        "stream family: well-formed tokens beyond the data (offset past the end of a pack, member index past the end of a zip, "
                        "bare section prefix) may yield an error or the lawful remainder, as the code documents; unparsable ones must fail"]


def run_replay(ctx, rp):
    """--replay of a saved stream discrepancy: the scenario is run again on the real store and validated again."""
    kind = rp["kind"]
    k = KINDS[kind]
    sc = rp.get("scenario")
    if not sc:
        raise vlib.MachineryError("stream replay without a scenario")
    old_seed = ctx.seed
    ctx.seed = rp.get("seed", ctx.seed)
    # a hang needs the process-wide state that earlier calls of the same process left behind: the scenario is repeated
    reps = 80 if str(rp.get("signature", "")).endswith("->hang") else 1
    scs = [dict(sc, id=sc.get("id", 1) if reps == 1 else i + 1) for i in range(reps)]
    try:
        paths, nscn, nev, nstream, classes = drive_and_validate(ctx, kind, k, scs, 1)
        evs = vlib.read_ndjson(paths[0])
        report(ctx, kind, evs, validate(ctx, paths[0]), {s["id"]: s for s in scs})
    finally:
        ctx.seed = old_seed
    ctx.cov["traces_validated_against_impl"] += 1
    ctx.cov["evaluations"] += nev
