"""C14, family index+reads: are the RESULTS of queries made DURING a concurrent feed of the index linearizable?

S: IndexLin.tla (IndexOOO's mechanism + corpus + deletes cache + a reader + the validator's bookkeeping): the
   interval condition of IndexLinOps (sure at the call <= explaining state <= started at the return, plus what earlier
   completed reads proved) is an invariant for 2 threads and a reader, also when a delivery's commit fails; four
   LinDev switches (acknowledge before commit, corpus updated outside the lock section, deletes cache updated late,
   corpus updated before a commit that fails) MUST violate it.
G: arrival orders of the dependency shapes from IndexOOOGen (the C05/C14 generator, _idxfam), a few shapes x a few
   orders x many seeded schedules (writers 2-3, readers 2, jitter at call and lower-layer boundaries).
T: cmd/c14q (built with -race) feeds the real index.Index + corpus from W goroutines while R goroutines ask read
   calls under Index.RLock (GetBlobMeta + rows, IsDeleted of index and corpus, PermanodeAttrValue(s), PermanodeModtime,
   AppendClaims, GetFileInfo, EnumerateBlobMeta, one search.Handler.Query); call/return lines in the order of one atomic
   counter; Trace_IndexLin.tla decides every reply (collect mode).  Race reports of these executions are observations
   (signature C14/index+reads/race/...), unless the racing access is the harness's own (machinery error)."""
import json
import os
import random
import re
from concurrent.futures import ThreadPoolExecutor

import vlib

FAMILY = "index+reads"
# shape numbers of cmd/c05 = cmd/c14q: 1 KPCD, 2 undelete, 3 filetree, 4 twosigners, 5 members, 6 late-delete,
# 7 content-time, 8-10 double-delete-a/b/c, 11 same-date-deletes, 12 delpn-attrs
SHAPES_QUICK = [1, 2, 3, 4, 6, 7, 12]
SHAPES_MORE = [5, 8, 11]
TLC_ENV = {"JAVA_TOOL_OPTIONS": "-XX:TieredStopAtLevel=1 -XX:ParallelGCThreads=2"}
CHUNK = 16000        # lines per TLC trace validation (cut at segment boundaries)


def _secring():
    return os.path.join(vlib.REPO, "pkg/jsonsign/testdata/test-secring.gpg")


def scenarios(ctx, reps, quick, sizes):
    """(shape, order) pairs from the generator's replays -> scenarios {shape, order, w, r, sseed}."""
    rng = random.Random(ctx.seed * 7919 + 14)
    shapes = SHAPES_QUICK + ([] if quick else SHAPES_MORE)
    per_shape, scheds = (8, 6) if quick else (36, 10)
    out = []
    for sh in shapes:
        seen, plain, duped = set(), [], []
        for r in reps:
            if r["shape"] != sh:
                continue
            k = tuple(r["order"])
            if k in seen:
                continue
            seen.add(k)
            (plain if len(k) == sizes[sh - 1] else duped).append(list(k))
        if not plain:
            raise vlib.MachineryError("index+reads: the generator produced no arrival order for shape %d" % sh)
        n_dup = min(len(duped), per_shape // 4)
        orders = rng.sample(plain, min(len(plain), per_shape - n_dup)) + rng.sample(duped, n_dup)
        # always one dependency-respecting and one fully reversed order: the extremes of lag
        n = sizes[sh - 1]
        for o in (list(range(1, n + 1)), list(range(n, 0, -1))):
            if o not in orders:
                orders.append(o)
        for o in orders:
            for k in range(scheds):
                out.append({"shape": sh, "order": o, "w": 2 + (k % 2), "r": 2, "sseed": rng.randrange(1, 2 ** 31)})
    return out


def generate_own(ctx, quick, sizes):
    """Arrival orders for the family's shapes only (used when the caller has not generated them already)."""
    shapes = SHAPES_QUICK + ([] if quick else SHAPES_MORE)

    def gen(sh):
        n = sizes[sh - 1]
        return ctx.tlc_gen("IndexOOOGen", "IndexOOOGen.cfg", overrides={"Shape": sh, "N": n, "Restarts": "{0}",
                           "Dups": "{0, 1, %d}" % n, "DupPos": '"any"'}, tag="RPL")
    with ThreadPoolExecutor(max_workers=6) as ex:      # distinct overrides: distinct derived cfg files
        res = list(ex.map(gen, shapes))
    return [r for rs in res for r in rs]


def harness_race(block):
    """True when one of the two conflicting accesses of a race report is the harness's own code (the first frame
    that is perkeep's or the harness's decides, per stack)."""
    stacks = re.split(r"\n\s*\n", block)
    for st in stacks[:2]:
        for fr in re.findall(r"^\s+([\w./*()\-]+?)\(\)\s*$", st, re.M):
            if fr.startswith("perkeep.org/"):
                break
            if fr.startswith("main.") or fr.startswith("verif/"):
                return True
    return False


def observe_races(ctx, stderr):
    """Race reports: harness-internal -> machinery error; otherwise one discrepancy per pair of perkeep functions,
    classified exactly as c14.py classifies the index+conc leg (signature C14/index+reads/race/<pair>)."""
    if "WARNING: DATA RACE" not in stderr:
        return 0
    for blk in stderr.split("WARNING: DATA RACE")[1:]:
        blk = blk.split("==================")[0]
        if harness_race(blk):
            raise vlib.MachineryError("index+reads: data race inside the harness (not an observation of perkeep):\n%s" % blk[:2500])
    import c14 as _c14
    return _c14.races(ctx, FAMILY, stderr)


def run_driver(ctx, scns, tag, shards=1, extra=()):
    """Runs cmd/c14q (-race) over the scenarios; returns (list of trace lines (str), stderr texts).  A death of the
    driver inside perkeep code is an observation; the remaining scenarios are run by a fresh process."""
    drv = ctx.build("c14q", race=True)

    def one(kp):
        k, part = kp
        lines, errs = [], []
        start, attempt = 0, 0
        while start < len(part):
            attempt += 1
            sf = ctx.path("c14q_%s_%d_%d.jsonl" % (tag, k, attempt))
            of = ctx.path("c14q_%s_%d_%d.ndjson" % (tag, k, attempt))
            vlib.write_jsonl(sf, part[start:])
            rc, so, se = ctx.run([drv, "-replays", sf, "-out", of, "-secring", _secring()] + list(extra), timeout=1500, ok_codes=None,
                                 env={"GORACE": "exitcode=0 halt_on_error=0"})
            errs.append(se)
            got = open(of).read().splitlines() if os.path.exists(of) else []
            for f in (sf, of):
                if os.path.exists(f):
                    os.remove(f)
            idxs = [i for i, ln in enumerate(got) if '"ev":"reset"' in ln]
            if rc == 0:
                lines += got
                break
            # keep complete segments only: a complete one ends with its state line
            done = 0
            for j, a in enumerate(idxs):
                b = idxs[j + 1] if j + 1 < len(idxs) else len(got)
                if b > a and '"ev":"state"' in got[b - 1]:
                    done = j + 1
                else:
                    break
            lines += got[:idxs[done]] if done < len(idxs) else got
            pm = re.search(r"^(panic|fatal error): (.*)", se, re.M)
            fr = re.search(r"(perkeep\.org/\S+?)\(", se[pm.end():]) if pm else None
            if not pm or not fr:
                raise vlib.MachineryError("c14q driver failed rc=%s: %s" % (rc, se[-2500:]))
            bad = part[start + done] if start + done < len(part) else None
            ctx.discrepancy("C14/%s/driver/%s@%s" % (FAMILY, "fatal" if pm.group(1) == "fatal error" else "panic", fr.group(1)),
                            "the process died inside perkeep while %s fed and queried the index concurrently: %s: %s" % (json.dumps(bad), pm.group(1), pm.group(2)[:200]),
                            {"property": "C14", "family": FAMILY, "replay": bad, "stderr": se[pm.start():pm.start() + 3000]})
            start += done + 1
            if attempt > 30:
                raise vlib.MachineryError("c14q driver died more than 30 times")
        return lines, errs
    parts = [(k, scns[k::shards]) for k in range(shards)] if shards > 1 else [(0, scns)]
    with ThreadPoolExecutor(max_workers=max(1, shards)) as ex:
        res = list(ex.map(one, parts))
    lines, errs = [], []
    for ln, er in res:
        lines += ln
        errs += er
    return lines, errs


def chunks(lines):
    """Cut the concatenated trace at segment boundaries into pieces of at most ~CHUNK lines."""
    out, cur = [], []
    for ln in lines:
        if '"ev":"reset"' in ln and len(cur) >= CHUNK:
            out.append(cur)
            cur = []
        cur.append(ln)
    if cur:
        out.append(cur)
    return out


def validate(ctx, lines, tag, workers=6):
    """Trace_IndexLin over the trace (chunked, in parallel).  Returns [(global line index (0-based), text)]."""
    cks = chunks(lines)
    offs, files, o = [], [], 0
    for i, ck in enumerate(cks):
        f = ctx.path("lin_%s_%d.ndjson" % (tag, i))
        with open(f, "w") as fh:
            fh.write("\n".join(ck) + "\n")
        files.append(f)
        offs.append(o)
        o += len(ck)

    def one(i):
        r = ctx.tlc_trace("Trace_IndexLin", "Trace_IndexLin.cfg", files[i], timeout=1500, env=TLC_ENV)
        os.remove(files[i])
        if not r["accepted"]:
            raise vlib.MachineryError("Trace_IndexLin did not consume the trace %s: %s" % (tag, r["out"][-1500:]))
        return [(offs[i] + ln - 1, text) for ln, text in r["viols"]]
    with ThreadPoolExecutor(max_workers=workers) as ex:
        res = list(ex.map(one, range(len(cks))))
    return [v for vs in res for v in vs]


def report(ctx, lines, viols, leg):
    """One discrepancy per rejected line: C14/index+reads/<op>/<shape>/<expected-class>-><observed-class>."""
    n = 0
    cache = {}
    for gi, text in viols:
        ev = json.loads(lines[gi])
        # locate the segment without parsing the whole trace
        a = gi
        while a > 0 and '"ev":"reset"' not in lines[a]:
            a -= 1
        b = gi + 1
        while b < len(lines) and '"ev":"reset"' not in lines[b]:
            b += 1
        if a not in cache:
            cache[a] = [json.loads(x) for x in lines[a:b]]
        seg = cache[a]
        hd = seg[0]
        m = re.match(r'\s*"(\w+)",\s*"([^"]+)"', text)
        op, cls = (m.group(1), m.group(2)) if m else (ev.get("op", ev.get("ev")), "?")
        sig = "C14/%s/%s/%s/%s" % (FAMILY, op, hd["shape"], cls)
        scn = {"shape": hd["shapeno"], "order": hd["order"], "w": hd["w"], "r": hd["r"], "sseed": hd["sseed"], "failcommit": hd.get("failcommit", 0)}
        what = ("%s: %d writers feed shape %s in arrival order %s while %d readers query: no index state between the call and the return "
                "of this read explains its reply (%s): %s" % (leg, hd["w"], hd["shape"], hd["order"], hd["r"], cls,
                                                               json.dumps({k: v for k, v in ev.items() if k not in ("seg",)})[:400]))
        ctx.discrepancy(sig, what, {"property": "C14", "family": FAMILY, "replay": scn, "line": gi - a, "tlc": text[:600], "lin_events": seg})
        n += 1
    return n


def negative_sample(ctx, lines, viols):
    """Corrupt ONE reply of a real, accepted segment so that no state explains it: a post-quiescence meta read that
    found the blob is turned into `absent`.  Must be rejected at exactly that line."""
    dirty = set()
    for gi, _ in viols:
        a = gi
        while a > 0 and '"ev":"reset"' not in lines[a]:
            a -= 1
        dirty.add(a)
    evs, bad, fallback = None, None, None
    a = 0
    while a < len(lines) and evs is None:
        b = a + 1
        while b < len(lines) and '"ev":"reset"' not in lines[b]:
            b += 1
        seg = [json.loads(x) for x in lines[a:b]]
        q = next((i for i, e in enumerate(seg) if e.get("ev") == "quiesce"), None)
        if q is not None:
            for i in range(q + 1, len(seg)):
                e = seg[i]
                if e.get("ev") == "ret" and e.get("op") == "meta" and e.get("found") and any(
                        c.get("ev") == "call" and c.get("id") == e["id"] for c in seg[q + 1:i]):
                    cand = [dict(x) for x in seg]
                    cand[i].update({"found": False, "metarow": False, "have": "none", "ctype": ""})
                    if a in dirty:
                        fallback = fallback or (cand, i)
                    else:
                        evs, bad = cand, i
                    break
        a = b
    clean = evs is not None
    if evs is None and fallback:
        evs, bad = fallback         # every segment has a real rejection (a badly broken tree): the sample must still be rejected
    if evs is None:
        raise vlib.MachineryError("index+reads: no post-quiescence meta read found for the negative sample")
    f = ctx.path("lin_negative.ndjson")
    vlib.write_jsonl(f, evs)
    r = ctx.tlc_trace("Trace_IndexLin", "Trace_IndexLin.cfg", f, timeout=600, env=TLC_ENV)
    os.remove(f)
    hit = [ln for ln, text in r["viols"]]
    if not r["accepted"] or (hit != [bad + 1] if clean else (bad + 1) not in hit):
        raise vlib.MachineryError("index+reads: negative sample (a blob found after quiescence reported absent at line %d) was not rejected "
                                  "at that line%s: accepted=%s viols=%s" % (bad + 1, " only" if clean else "", r["accepted"], r["viols"][:3]))
    ctx.count("T", index_reads_negative_sample_rejected=1)


def model_leg(ctx, quick):
    """S: the interval condition is an invariant of the mechanism; every deviation violates it."""
    small = {"Blobs": "Blobs3Def", "MaxReads": 2}
    jobs = [dict(overrides=(small if quick else {"MaxReads": 2}), workers=(6 if quick else 12), timeout=(600 if quick else 2400))]
    for dv in ("AckBeforeCommit", "CorpusAfterUnlock", "DeletesCacheLate"):
        jobs.append(dict(overrides={"Blobs": "Blobs3Def", "MaxReads": 1, "LinDev": '{"%s"}' % dv}, workers=2, timeout=600,
                         expect_violation="ReadsExplained"))
    # a delivery's commit may fail without effect (the attempt is never acknowledged): still explained; a corpus
    # updated before the commit and not rolled back is not
    jobs.append(dict(cfg="IndexLinF.cfg", overrides={}, workers=4, timeout=600))
    jobs.append(dict(cfg="IndexLinF.cfg", overrides={"LinDev": '{"CorpusBeforeCommit"}'}, workers=2, timeout=600, expect_violation="ReadsExplained"))
    return jobs


def job_cfg(job):
    # vlib's overrides rewrite `name = value` lines only; the 3-blob universe (`Blobs <- Blobs3Def`) and the
    # fault model (no StillConfluent: a failed attempt is not re-delivered in the model) have their own cfg files
    ov = {k: v for k, v in job["overrides"].items() if k != "Blobs"}
    return job.get("cfg") or ("IndexLin3.cfg" if "Blobs" in job["overrides"] else "IndexLin.cfg"), ov


def run_model(ctx, job):
    cfg, ov = job_cfg(job)
    return ctx.tlc_check("MC_IndexLin", cfg, overrides=ov, workers=job["workers"], timeout=job["timeout"],
                         expect_violation=job.get("expect_violation"))


def run_leg(ctx, quick, reps=None):
    """The whole family.  reps: replays already produced by _idxfam.generate (saves the generator runs).
    Returns (segments validated, trace lines validated)."""
    import _idxfam
    import time
    t0 = time.time()
    ctx.specs()
    ctx.build("c14q", race=True)
    jobs = model_leg(ctx, quick)
    for j in jobs:          # derive the cfg files before any thread starts
        ctx._cfg(*job_cfg(j))
    pool = ThreadPoolExecutor(max_workers=4)
    sfut = [pool.submit(run_model, ctx, j) for j in jobs]
    try:
        sizes = _idxfam.shapes(ctx)
        if reps is None:
            reps = generate_own(ctx, quick, sizes)
        scns = scenarios(ctx, reps, quick, sizes)
        # every third scenario runs with 15 % of the deliveries' KV commits failing (without effect; the writer
        # delivers again): a failed ReceiveBlob must not leave anything visible
        plain = [x for i, x in enumerate(scns) if i % 3 != 2]
        faulty = [x for i, x in enumerate(scns) if i % 3 == 2]
        with ThreadPoolExecutor(max_workers=2) as ex:
            f1 = ex.submit(run_driver, ctx, plain, "run", (2 if quick else 4))
            f2 = ex.submit(run_driver, ctx, faulty, "flt", (1 if quick else 2), ["-failcommit", "150"])
            lines, errs = f1.result()
            l2, e2 = f2.result()
        lines += l2
        errs += e2
        for se in errs:
            observe_races(ctx, se)
        nseg = sum(1 for ln in lines if '"ev":"reset"' in ln)
        if nseg == 0:
            raise vlib.MachineryError("index+reads: the driver produced no complete segment")
        viols = validate(ctx, lines, "run")
        report(ctx, lines, viols, "index fed and queried concurrently")
        negative_sample(ctx, lines, viols)
    finally:
        for f in sfut:
            f.result()
        pool.shutdown()
    # evidence
    nread = 0
    ops = {}
    for ln in lines:
        if '"ev":"ret"' in ln:
            nread += 1
            m = re.search(r'"op":"(\w+)"', ln)
            ops[m.group(1)] = ops.get(m.group(1), 0) + 1
    shapes_seen = sorted(set(re.search(r'"shape":"([^"]+)"', ln).group(1) for ln in lines if '"ev":"reset"' in ln))
    for sh in shapes_seen:
        for op in ops:
            ctx.distinct("%s|%s|%s" % (FAMILY, sh, op))
    ctx.count("T", index_reads_segments=nseg, index_reads_events=len(lines), index_reads_judged=nread, index_reads_rejected=len(viols))
    ctx.cov.setdefault("index_reads_ops", ops)
    ctx.log("T index+reads: %d segments (%d shapes), %d lines, %d reads judged %s, %d rejected, %.1fs with leg S" % (
        nseg, len(shapes_seen), len(lines), nread, ops, len(viols), time.time() - t0))
    ctx.sample({"index+reads": "%d segments (%d shapes x arrival orders x schedules), %d reads judged by Trace_IndexLin: %s" % (nseg, len(shapes_seen), nread, ops)})
    ctx.assumptions += ["index+reads: call/ret lines are ordered by one global atomic counter taken before each call and after each return; "
                        "a blob delivered before its dependency may become visible at any point up to the end of asynchronous indexing "
                        "(pkg/index/receive.go re-indexes it in a goroutine nobody waits for); attribute replies are accepted with or without "
                        "deleted attribute claims counting (finding H2 belongs to C07)"]
    return nseg, len(lines)


def replay(ctx, rp):
    """--replay of a saved index+reads discrepancy: the recorded segment is validated as recorded, then the scenario
    is re-run under fresh schedules (the schedule itself cannot be forced) and validated the same way."""
    ctx.specs()
    import _idxfam
    n = 0
    if rp.get("lin_events"):
        lines = [json.dumps(e) for e in rp["lin_events"]]
        viols = validate(ctx, lines, "replay_rec", workers=1)
        report(ctx, lines, viols, "replay (as recorded)")
        n += 1
    scn = rp.get("replay")
    if scn:
        rng = random.Random(ctx.seed)
        scns = [dict(scn, sseed=(scn["sseed"] if k == 0 else rng.randrange(1, 2 ** 31))) for k in range(40)]
        lines, errs = run_driver(ctx, scns, "replay", shards=2, extra=(["-failcommit", str(scn["failcommit"])] if scn.get("failcommit") else []))
        for se in errs:
            observe_races(ctx, se)
        viols = validate(ctx, lines, "replay_run")
        report(ctx, lines, viols, "replay (re-run)")
        n += len(scns)
    ctx.cov["traces_validated_against_impl"] += n
    ctx.cov["evaluations"] += n
