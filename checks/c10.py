"""C10 - every sorted key/value store is a byte-ordered map with atomic batches.

S: SortedKV.tla (scan theorems, oversize never stored, last-write-wins batches, reads do not write);
   KVBuffer.tla = pkg/sorted/buffer transcribed (buffer + backing + Flush + delete-through + the two-way merge
   iterator) refines SortedKV (Abs!Spec by INSTANCE, plus the witness-directed form for larger batches) and its
   merge equals the shadowed sorted union in every reachable state; sensitivity: Deviations {"IterTypo"} (H19)
   and {"FlushLeak"} (H27) must each break NeverPanicsOrHangs over a strict / exclusive backing store.
G: SortedKVGen.tla emits (a) every mutator/batch history up to a depth over a small alphabet (BFS, exhaustive; the
   replayer makes a full observation after every step) and (b) long random histories over the whole alphabet
   (-simulate); all are executed on memory, leveldb, kvfile, sqlite and buffer.New(memory, each of them) with a
   tiny and a huge maxBufferBytes, every call under a watchdog, one child process per configuration.
T: the recorded replies are validated line by line by Trace_SortedKV.tla (collect mode; TLC is the only oracle);
   seeded random Go histories (seed = VERIF_SEED) go through the same validator; negative samples must be rejected."""
import json
import os
import re
import shutil
import time
from concurrent.futures import ThreadPoolExecutor

import vlib

LEVEL = "model_checking"

BACKINGS = ["memory", "leveldb", "kv", "sqlite"]
CFGS = BACKINGS + ["buffer[max=%d](%s)" % (mx, b) for b in BACKINGS for mx in (4, 1000000)]
# on-disk stores with a past (close/reopen cycles of since-deleted data: LSM tables below level 0, tombstones)
AGED_QUICK = ["leveldb[aged=1]", "buffer[max=4](leveldb[aged=1])"]
AGED_THOROUGH = ["leveldb[aged=1]", "kv[aged=1]", "sqlite[aged=1]", "buffer[max=4](leveldb[aged=1])",
                 "buffer[max=1000000](kv[aged=1])", "buffer[max=4](sqlite[aged=1])"]


def tla_set(xs):
    return "{" + ", ".join(str(x) for x in xs) + "}"


def cfg_class(cfg):
    return re.sub(r"\[[^\]]*\]", "", cfg)


def input_class(ev, al):
    op = ev["op"]
    bigk, bigv = set(al["bigk"]), set(al["bigv"])
    if op in ("get", "delete"):
        return "bigkey" if ev["a"] in bigk else "key"
    if op == "set":
        return "bigkey" if ev["a"] in bigk else "bigval" if ev["b"] in bigv else "within-limits"
    if op == "find":
        a, b = ev["a"], ev["b"]
        if b != 0 and b <= a:
            return "inverted-range" if b < a else "empty-range"
        return "forward-range"
    if op == "batch":
        ms = ev["muts"]
        return "empty" if not ms else "with-delete" if any(m[0] == 0 for m in ms) else "sets-only"
    return "-"


def signature(prop, cfg, ev, expected_text, al):
    exp = sorted(set(re.findall(r'res \|-> "(\w+)"', expected_text)))
    got = ev.get("res")
    if got in ("panic", "hang"):
        got += "@" + ev.get("frame", "?")
    elif [got] == exp:
        got += "+list" if ev["op"] == "find" else "+value"
    return "%s/%s/%s/%s/%s->%s" % (prop, cfg_class(cfg), ev["op"], input_class(ev, al), "|".join(exp), got)


# Short TLC runs (trace validation; everything in the quick tier) are dominated by JVM start-up and JIT
# compilation: C1 only and two GC threads cut their CPU time to a third when 14 of them run side by side.
JVM_SHORT = "-XX:TieredStopAtLevel=1 -XX:ParallelGCThreads=2"


def trace_overrides(al):
    return {"NK": al["nk"], "NV": al["nv"], "BigKeys": tla_set(al["bigk"]), "BigVals": tla_set(al["bigv"])}


def validate(ctx, cfg, tracefile, al, seed):
    """Validate one trace file with TLC; classify every VIOL. Returns the discrepancies [(sig, what, replay)]
    (reported by the caller in a fixed order, so that the saved replay of a signature does not depend on which
    configuration's thread finished first)."""
    r = ctx.tlc_trace("Trace_SortedKV", al["_tcfg"], tracefile, env={"JAVA_TOOL_OPTIONS": JVM_SHORT})
    if not r["accepted"]:
        raise vlib.MachineryError("trace %s not fully consumed (cfg %s): %s" % (tracefile, cfg, r["out"][-1500:]))
    found = []
    if not r["viols"]:
        return found
    evs = vlib.read_ndjson(tracefile)
    for line, text in r["viols"]:
        ev = evs[line - 1]
        i = line - 1
        while evs[i]["ev"] != "reset":
            i -= 1
        reset = evs[i]
        sig = signature(ctx.prop, cfg, ev, text, al)
        ops = [{k: e[k] for k in ("op", "a", "b", "muts")} for e in evs[i + 1:line]]
        shown = {k: v for k, v in ev.items() if k not in ("seq", "ev")}
        what = "history %s/%s, call %d: %s ; the byte-ordered map answers %s" % (
            reset.get("leg"), reset.get("h"), len(ops), json.dumps(shown)[:300], text[:240])
        # exhaustive legs do not depend on the seed: their saved replay is the same file for every seed
        replay = {"property": ctx.prop, "cfg": cfg, "seed": seed if reset.get("leg") in ("sim", "rnd") else None,
                  "leg": reset.get("leg"), "signature": sig,
                  "ops": ops, "event": shown}
        found.append((sig, what[:700], replay))
    return found


def drive(ctx, drv, cfg, histfile, al, seed, scratch, random=0, rlen=0, tag="g"):
    """Run the driver for one configuration (restarting it after a death that is a perkeep panic), validate
    every trace part.  Returns (histories, events, hangs, unexamined, discrepancies)."""
    safe = re.sub(r"[^A-Za-z0-9]+", "_", cfg)
    skip = 0
    tot_h = tot_e = hangs = unexamined = 0
    found = []
    t0 = time.time()
    t_drv = 0.0
    for attempt in range(6):
        out = ctx.path("tr_%s_%s_%d.ndjson" % (tag, safe, attempt))
        argv = [drv, "-cfg", cfg, "-out", out, "-seed", str(seed), "-scratch", scratch, "-skip", str(skip)]
        if histfile:
            argv += ["-hist", histfile]
        if random:
            argv += ["-random", str(random), "-rlen", str(rlen)]
        t1 = time.time()
        rc, so, se = ctx.run(argv, timeout=900, ok_codes=None, env={"GOGC": "400"})   # open/close of leveldb allocates MiBs
        t_drv += time.time() - t1
        if rc == 0:
            m = re.search(r"histories=(\d+) events=(\d+) hangs=(\d+) unexamined=(\d+)", so)
            if not m:
                raise vlib.MachineryError("driver output not understood on %s: %s" % (cfg, so[-500:]))
            tot_h += int(m.group(1))
            tot_e += int(m.group(2))
            hangs += int(m.group(3))
            unexamined += int(m.group(4))
            found += validate(ctx, cfg, out, al, seed)
            os.remove(out)
            break
        # the process died: a panic outside the calling goroutine (or a fatal runtime error) in perkeep code
        m = re.search(r"(?:panic|fatal error): (.*)", se)
        if not m:
            raise vlib.MachineryError("driver failed on %s (rc=%d): %s" % (cfg, rc, se[-2000:]))
        fr = re.search(r"(perkeep\.org/[^\s(]+(?:\(\*\w+\))?[^\s(]*)", se[m.end():])
        lines = [x for x in open(out).read().split("\n") if x.strip()]
        good = []
        for x in lines:
            try:
                good.append(json.loads(x))
            except ValueError:
                break
        started = sum(1 for e in good if e.get("ev") == "reset")
        seg = []
        for e in good:
            seg = [] if e.get("ev") == "reset" else seg + [e]
        found.append(("%s/%s/driver/process-death/ok->panic@%s" % (ctx.prop, cfg_class(cfg), fr.group(1) if fr else "?"),
                      "driver process died: %s" % m.group(1)[:200],
                      {"property": ctx.prop, "cfg": cfg, "seed": seed, "leg": "death",
                       "ops": [{k: e[k] for k in ("op", "a", "b", "muts")} for e in seg], "note": "process death after these calls"}))
        vlib.write_jsonl(out, good)
        if good:
            found += validate(ctx, cfg, out, al, seed)
        tot_h += started
        tot_e += len(good)
        skip += max(started, 1)
    else:
        raise vlib.MachineryError("driver died 6 times on %s" % cfg)
    ctx.log("G/T %-32s %5d histories %7d events  driver %.1fs  validation %.1fs  discrepancies %d" % (
        cfg, tot_h, tot_e, t_drv, time.time() - t0 - t_drv, len(found)))
    return tot_h, tot_e, hangs, unexamined, found


def report(ctx, found):
    # exhaustive legs before the seeded ones (the shortest histories first): the replay saved for a signature is then
    # the same for every seed
    order = {"scan": 0, "batch": 1, "mut": 2, "batch3": 3}
    for sig, what, rp in sorted(found, key=lambda f: order.get(f[2].get("leg"), 9)):
        ctx.discrepancy(sig, what, rp)


def negative_samples(ctx, drv, al, scratch):
    """Corrupt single fields of a real trace: every corruption must be reported at its own line."""
    hf = ctx.path("neg.jsonl")
    h = [{"op": "set", "a": al["genk"][0], "b": al["genv"][1], "muts": []},
         {"op": "batch", "a": 0, "b": 0, "muts": [[1, al["genk"][1], al["genv"][0]], [0, al["genk"][0], 0]]}]
    vlib.write_jsonl(hf, [{"leg": "neg", "h": i, "observe": True, "ops": h} for i in range(4)])
    out = ctx.path("neg.ndjson")
    ctx.run([drv, "-cfg", "memory", "-hist", hf, "-out", out, "-scratch", scratch], timeout=120)
    evs = vlib.read_ndjson(out)
    resets = [i for i, e in enumerate(evs) if e["ev"] == "reset"] + [len(evs)]

    def pick(seg, pred):
        return next(i for i in range(resets[seg], resets[seg + 1]) if evs[i]["ev"] == "op" and pred(evs[i]))
    bad = [dict(e) for e in evs]
    want = []
    i = pick(0, lambda e: e["op"] == "get" and e["res"] == "ok")           # wrong value
    bad[i]["v"] = bad[i]["v"] % al["nv"] + 1
    want.append(i + 1)
    i = pick(1, lambda e: e["op"] == "find" and len(e["list"]) >= 1)        # scan loses its last pair
    bad[i]["list"] = bad[i]["list"][:-1]
    want.append(i + 1)
    i = pick(2, lambda e: e["op"] == "get" and e["res"] == "notfound")      # deleted key still found
    bad[i]["res"], bad[i]["v"] = "ok", 1
    want.append(i + 1)
    i = pick(3, lambda e: e["op"] == "find" and e["a"] > 0 and e["b"] > e["a"])   # end bound becomes inclusive
    bad[i]["list"] = bad[i]["list"] + [[bad[i]["b"], 1]]
    want.append(i + 1)
    bf = ctx.path("neg_bad.ndjson")
    vlib.write_jsonl(bf, bad)
    r = ctx.tlc_trace("Trace_SortedKV", al["_tcfg"], bf)
    got = sorted(v[0] for v in r["viols"])
    if not r["accepted"] or got != sorted(want):
        raise vlib.MachineryError("negative samples: corrupted lines %s, reported %s - the trace spec does not bind" % (want, got))
    r = ctx.tlc_trace("Trace_SortedKV", al["_tcfg"], out)
    if not r["accepted"] or r["viols"]:
        raise vlib.MachineryError("negative samples: the uncorrupted memory trace is not clean: %s" % r["viols"][:3])
    ctx.count("T", negative_samples_rejected=len(want))


def run(ctx, replay):
    drv = ctx.build("c10")
    if ctx.quick():
        os.environ["JAVA_TOOL_OPTIONS"] = JVM_SHORT
    rc, so, se = ctx.run([drv, "-alphabet"], timeout=60)
    al = json.loads(so)
    ctx.specs()
    # derived once, before any thread starts: vlib writes a derived .cfg in place, and fourteen validations deriving
    # the same file at the same moment can read it half-written
    al["_tcfg"] = ctx._cfg("Trace_SortedKV.cfg", trace_overrides(al))
    base = "/dev/shm" if os.path.isdir("/dev/shm") and os.access("/dev/shm", os.W_OK) else ctx.scratch
    scratch = os.path.join(base, "verif-c10-%d" % os.getpid())
    os.makedirs(scratch, exist_ok=True)
    try:
        if replay:
            rp = json.load(open(replay))
            hf = ctx.path("replay.jsonl")
            vlib.write_jsonl(hf, [{"leg": rp.get("leg", "replay"), "h": 0, "observe": False, "ops": rp["ops"]}])
            h, e, hg, un, found = drive(ctx, drv, rp["cfg"], hf, al, rp.get("seed") or ctx.seed, scratch, tag="replay")
            report(ctx, found)
            ctx.cov["traces_validated_against_impl"] += h
            ctx.cov["evaluations"] += e
            return
        body(ctx, drv, al, scratch)
    finally:
        shutil.rmtree(scratch, ignore_errors=True)


def body(ctx, drv, al, scratch):
    quick = ctx.quick()
    pool = ThreadPoolExecutor(max_workers=14)
    # ---- S (runs concurrently with G/T: it does not depend on the implementation)
    def S(*a, **kw):
        return pool.submit(ctx.tlc_check, *a, **kw)
    dev = [S("KVBuffer", "KVBuffer_dev.cfg", overrides={"Deviations": '{"%s"}' % d}, workers=2, expect_violation="NeverPanicsOrHangs")
           for d in ("IterTypo", "FlushLeak")]
    if quick:
        s_jobs = dev + [
            S("SortedKV", "SortedKV.cfg", workers=2),
            S("KVBuffer", "KVBuffer.cfg", overrides={"MaxBatch": 1}, workers=4),                              # 4 keys, directed
            S("KVBuffer", "KVBuffer.cfg", overrides={"NK": 3, "BigKeys": "{2}", "MaxBatch": 2}, workers=2),   # batches of 2, directed
            S("KVBuffer", "KVBuffer_refine.cfg", overrides={"MaxBatch": 1}, workers=4),                       # KVBuffer => SortedKV!Spec
        ]
    else:
        s_jobs = dev + [
            S("SortedKV", "SortedKV.cfg", overrides={"MaxBatch": 3}, workers=4, coverage=True),
            S("KVBuffer", "KVBuffer.cfg", overrides={"MaxBatch": 3}, workers=8, timeout=3000, coverage=True),
            S("KVBuffer", "KVBuffer_refine.cfg", overrides={"NK": 4, "BigKeys": "{3}"}, workers=6, timeout=3000),
            S("KVBuffer", "KVBuffer_dev.cfg", workers=2),      # the sensitivity configuration is clean without a deviation
        ]
    # ---- G: generate
    gen_ov = {"NK": al["nk"], "NV": al["nv"], "BigKeys": tla_set(al["bigk"]), "BigVals": tla_set(al["bigv"]),
              "GenKeys": tla_set(al["genk"]), "GenVals": tla_set(al["genv"]),
              "BatchKeys": tla_set(al["batchk"]), "BatchVals": tla_set(al["batchv"][:1] if quick else al["batchv"])}
    # single batches of up to 3 mutations also carry the oversize value (skipped while its neighbours apply)
    b3vals = tla_set([al["batchv"][0], al["bigv"][0]] if quick else al["batchv"] + al["bigv"][:1])

    def gen(mode, depth, maxbatch, simulate=None, **more):
        ov = dict(gen_ov, Mode='"%s"' % mode, Depth=depth, MaxBatch=maxbatch, **more)
        if simulate:
            return ctx.tlc_gen("SortedKVGen", "SortedKVGen.cfg", overrides=ov, simulate=simulate, depth=10 * depth + 10, seed=ctx.seed)
        return ctx.tlc_gen("SortedKVGen", "SortedKVGen.cfg", overrides=ov)
    g_jobs = [("batch", pool.submit(gen, "batch", 2, 2)), ("scan", pool.submit(gen, "scan", 3, 0)),
              ("batch3", pool.submit(gen, "batch", 1, 3, BatchVals=b3vals))]
    if not quick:
        g_jobs.append(("mut", pool.submit(gen, "mut", 3, 0)))
    g_jobs.append(("sim", pool.submit(gen, "all", 60 if quick else 80, 4, 60 if quick else 600)))
    hists = []
    sizes = {}
    for leg, fut in g_jobs:
        hs = fut.result()
        sizes[leg] = len(hs)
        for h in hs:
            hists.append({"leg": leg, "h": len(hists), "observe": leg not in ("sim", "scan"), "ops": h})
        ctx.sample({"%s_history" % leg: hs[len(hs) // 2][:6]})
    hf = ctx.path("hist.jsonl")
    vlib.write_jsonl(hf, hists)
    # ---- G replay + T validation, one child process per configuration
    rnd_n, rnd_len = (20, 120) if quick else (200, 200)
    cfgs = (AGED_QUICK if quick else AGED_THOROUGH) + CFGS
    jobs = {cfg: pool.submit(drive, ctx, drv, cfg, hf, al, ctx.seed, scratch, rnd_n, rnd_len) for cfg in cfgs}
    neg = pool.submit(negative_samples, ctx, drv, al, scratch)
    total_h = total_e = 0
    for cfg, fut in jobs.items():
        h, e, hangs, unexamined, found = fut.result()
        report(ctx, found)
        total_h += h
        total_e += e
        for i in range(h):
            ctx.distinct("%s/%d" % (cfg, i))
        if unexamined:
            ctx.notes.append("%s: run abandoned after %d hangs; %d histories left unexamined" % (cfg, hangs, unexamined))
            ctx.log("%s: abandoned after %d hangs, %d histories unexamined" % (cfg, hangs, unexamined))
    neg.result()
    for f in s_jobs:
        r = f.result()
        if r.get("zero_actions"):
            raise vlib.MachineryError("coverage: actions never taken in %s/%s: %s" % (r["module"], r["cfg"], r["zero_actions"]))
    pool.shutdown()
    ctx.count("G", replayed_histories=total_h, events=total_e, configurations=len(cfgs), **{"gen_" + k: v for k, v in sizes.items()})
    ctx.cov["traces_validated_against_impl"] = total_h
    ctx.cov["evaluations"] = total_e
    ctx.cov["exhaustive"] = False
    ctx.cov["rule"] = ("histories: %s (TLC BFS, every mutator/batch sequence over keys %s x values %s, full observation = scan-all, "
                       "get of every touched key, two bounded scans after each step); %d simulated histories over the whole "
                       "alphabet (%d keys incl. '|', ':', 0xff, prefixes, 767/768 bytes; %d values incl. empty, 63000/63001 bytes; "
                       "find(start,end) over all cursor pairs incl. \"\" and inverted ranges); %d random Go histories of %d calls; "
                       "each on %d configurations; distinct = configuration x history actually run"
                       % (", ".join("%s=%d" % kv for kv in sizes.items()), al["genk"], al["genv"], sizes["sim"], al["nk"], al["nv"],
                          rnd_n, rnd_len, len(cfgs)))
    ctx.sample({"alphabet_keys": al["keys"], "alphabet_vals": al["vals"]})
    ctx.assumptions += [
        "keys, values and cursors are abstracted to ranks of the harness alphabets (bytewise sort.Strings order); a returned "
        "key/value outside the alphabet is rank -1 and therefore a mismatch",
        "find cursors are drawn from the key alphabet plus \"\" (no cursor strictly between two alphabet keys)",
        "the limits are written out in the harness (767 / 63000), not read from perkeep",
        "a call is a hang when its goroutine stays blocked with an unchanging stack for 1.5 s (or 20 s in any state); "
        "after 3 hangs a configuration's run is abandoned and the rest reported as unexamined",
        "close+reopen happens inside one process (no crash, no fsync loss: that is C03's subject); on-disk stores live in a "
        "tmpfs directory when /dev/shm is available",
        "mysql / postgres / mongo are not available offline and not claimed; KV gate logs of other checks are not yet fed "
        "to Trace_SortedKV",
    ]
