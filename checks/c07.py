"""C07 - permanode attributes and deletions follow the documented claim semantics on every query path.

S: Claims.tla - the documented semantics as pure operators (Deleted, AttrValues as the SET of results
   over all orders of equal-dated claims, ModTime); TLC checks twelve algebraic lemmas on every world within
   small bounds; sensitivity: with the deviation "IgnoreClaimDeletion" (H2) lemma L1 must fail.
G: ClaimsGen.tla enumerates worlds (exhaustively for small bounds, -simulate for <= 5 claims x 2 attributes
   x 3 values x 3 dates, delete/undelete chains up to depth 3 on claims and on the permanode, two signers;
   item order = ARRIVAL order, dates free) and the query grid (times zero/before/equal/between/after x
   signer filter none/1/2).  harness/cmd/c07 signs the blobs, delivers them in arrival order and asks every
   path: corpus built incrementally (after EVERY delivery), index rows, the same rows behind a re-opened
   index, corpus loaded at start, search.Handler.Describe with and without corpus.
T: Trace_Claims.tla recomputes every answer from the world file with the operators of Claims and rejects
   any reply that is not admissible (collect mode); seeded random larger worlds go through the same validator."""
import hashlib
import json
import os
import re
import threading
from concurrent.futures import ThreadPoolExecutor

import vlib

LEVEL = "model_checking"
LOCK = threading.Lock()       # shards are validated in parallel threads; classification is serialised
SECRING = os.path.join(vlib.REPO, "pkg/jsonsign/testdata/test-secring.gpg")
TCFG = "Trace_Claims.cfg"


def tclass(ev, world):
    """input class of a q line: time class, signer filter, whether equal-dated claims exist"""
    t = ev.get("t", 0)
    dates = sorted(set(it["date"] for it in world if it["kind"] == "claim" and it["pn"] == ev.get("pn")))
    if t == 0:
        tc = "zero"
    elif not dates or t < dates[0]:
        tc = "before"
    elif t >= dates[-1]:
        tc = "after" if t > dates[-1] else "equal-last"
    else:
        tc = "equal" if t in dates else "between"
    sg = {0: "any", 1: "owner", 2: "other"}.get(ev.get("signer"), "?")
    return "t-%s+signer-%s" % (tc, sg)


def signature(ev, cls, world):
    path = ev["path"]
    kind = ev["ev"]
    if kind == "q":
        if cls == "deleted-claim-applied":
            return "C07/%s/attr-values/deleted-attr-claim/claim-ignored->claim-applied" % path
        apis = "+".join(ev.get("apis", []))
        return "C07/%s/attr-values:%s/%s/spec->%s" % (path, apis, tclass(ev, world), cls)
    if kind == "mod":
        if cls == "permanode-delete-date-counted":
            return "C07/%s/modtime/deleted-permanode/last-attr-claim->permanode-delete-date" % path
        if cls == "deleted-claim-date-counted":
            return "C07/%s/modtime/deleted-attr-claim/claim-ignored->claim-date-counted" % path
        return "C07/%s/modtime/-/spec->%s" % (path, cls)
    if kind == "deleted":
        exp, obs = ("deleted", "live") if cls == "deleted-reported-live" else ("live", "deleted")
        return "C07/%s/is-deleted/delete-chain/%s->%s" % (path, exp, obs)
    if kind == "claims":
        if cls == "deleted-claim-listed":
            return "C07/%s/append-claims/deleted-attr-claim/skipped->listed" % path
        return "C07/%s/append-claims/-/spec->%s" % (path, cls)
    return "C07/%s/%s/-/spec->%s" % (path, kind, cls)


VIOL_RX = re.compile(r'^\s*"(\w+)",\s*"([\w-]+)",\s*"([\w-]+)",\s*(.*)$', re.S)


def validate(ctx, tracefile, cases, leg):
    """TLC validates one trace file; every rejected line is classified.  Returns (worlds, lines)."""
    r = ctx.tlc_trace("Trace_Claims", TCFG, tracefile, timeout=600)
    if not r["accepted"]:
        raise vlib.MachineryError("trace %s not fully consumed: %s" % (tracefile, r["out"][-1500:]))
    evs = vlib.read_ndjson(tracefile)
    nworlds = sum(1 for e in evs if e["ev"] == "world")
    for line, text in r["viols"]:
        ev = evs[line - 1]
        m = VIOL_RX.match(text)
        if not m or m.group(1) != ev["ev"] or m.group(2) != ev["path"]:
            raise vlib.MachineryError("cannot parse VIOL line %d: %s" % (line, text[:300]))
        cls, expected = m.group(3), m.group(4)
        i = line - 1
        while evs[i]["ev"] != "world":
            i -= 1
        items = evs[i]["items"]
        sig = signature(ev, cls, items)
        case = cases[ev["w"]]
        brief = [{k: it[k] for k in ("id", "kind", "claim", "attr", "val", "date", "signer", "target") if it.get(k) not in (0, "", None) or k == "id"}
                 for it in items if it["id"] <= ev["n"] and it["kind"] in ("claim", "delete", "permanode")]
        what = "%s says %s ; the documented semantics allow %s ; world (arrival order) %s" % (
            ev["path"], json.dumps({k: v for k, v in ev.items() if k not in ("w", "path")}, sort_keys=True), " ".join(expected.split())[:200], json.dumps(brief))
        with LOCK:
            ctx.discrepancy(sig, what[:900], {"property": "C07", "leg": case.get("leg", leg), "signature": sig, "case": case, "event": ev})
    return nworlds, len(evs) - nworlds


def run_cases(ctx, drv, cases, tag, shards):
    """Run the driver on the cases (sharded child processes) and validate every shard's trace."""
    cf = ctx.path("cases_%s.jsonl" % tag)
    vlib.write_jsonl(cf, cases)
    shards = max(1, min(shards, len(cases)))

    def work(i):
        out = ctx.path("tr_%s_%d.ndjson" % (tag, i))
        rc, so, se = ctx.run([drv, "-worlds", cf, "-out", out, "-secring", SECRING, "-shard", str(i), "-nshards", str(shards)],
                             timeout=600, ok_codes=None)
        if rc != 0:
            m = re.search(r"panic: (.*)", se)
            if m and rc == 2:
                fr = re.search(r"(perkeep\.org/[^\s(]+)", se[m.end():])
                ctx.discrepancy("C07/%s/driver/-/reply->panic@%s" % (tag, fr.group(1) if fr else "?"), "driver died: panic: %s" % m.group(1)[:300])
                return 0, 0, None
            raise vlib.MachineryError("c07 driver failed (rc=%d): %s" % (rc, se[-2000:]))
        w, n = validate(ctx, out, cases, tag)
        return w, n, out
    tw = tn = 0
    first = None
    with ThreadPoolExecutor(max_workers=shards) as ex:
        for w, n, out in ex.map(work, range(shards)):
            tw += w
            tn += n
            first = first or out
    return tw, tn, first


def negative_samples(ctx, tracefile):
    """Binding self-test: corrupt one field of a real trace and require the rejection of exactly that line."""
    evs = vlib.read_ndjson(tracefile)
    end = next((i for i, e in enumerate(evs) if i > 0 and e["ev"] == "world"), len(evs))
    base = evs[:end]
    good = ctx.path("neg_base.ndjson")
    vlib.write_jsonl(good, base)
    r0 = ctx.tlc_trace("Trace_Claims", TCFG, good)
    bad_before = set(l for l, _ in r0["viols"])
    n = 0
    for kind, mutate in (("q", lambda e: e.update(list=e["list"] + [3], first=[3])),
                         ("deleted", lambda e: e.update(ids=[x for x in e["ids"] if x != 3] if 3 in e["ids"] else e["ids"] + [3])),
                         ("mod", lambda e: e.update(sec=e["sec"] + 1, ok=True)),
                         ("claims", lambda e: e.update(ids=e["ids"] + [3]))):
        k = next((i for i, e in enumerate(base) if e["ev"] == kind and (i + 1) not in bad_before and
                  (kind != "q" or "list" in e["apis"] and "first" in e["apis"])), None)
        if k is None:
            continue
        bad = [dict(e) for e in base]
        mutate(bad[k])
        bf = ctx.path("neg_%s.ndjson" % kind)
        vlib.write_jsonl(bf, bad)
        r = ctx.tlc_trace("Trace_Claims", TCFG, bf)
        if (k + 1) not in set(l for l, _ in r["viols"]):
            raise vlib.MachineryError("negative sample (%s line %d corrupted) was accepted: the trace spec does not bind" % (kind, k + 1))
        n += 1
    if n < 3:
        if ctx.violations or ctx.known_seen:
            ctx.notes.append("negative samples: only %d kinds of accepted lines could be corrupted (the run has discrepancies)" % n)
        else:
            raise vlib.MachineryError("negative samples: only %d kinds of lines could be corrupted" % n)
    ctx.count("T", negative_samples_rejected=n)


def world_key(case):
    return hashlib.md5(json.dumps([[it.get(k) for k in ("kind", "claim", "pn", "attr", "val", "date", "signer", "target")]
                                   for it in case["items"]]).encode()).hexdigest()


def run(ctx, replay):
    # many small TLC processes run side by side: keep each JVM small
    os.environ.setdefault("JAVA_TOOL_OPTIONS", "-Xmx3g -XX:ParallelGCThreads=2 -XX:CICompilerCount=2")
    drv = ctx.build("c07")
    quick = ctx.quick()
    if replay:
        rp = json.load(open(replay))
        w, n, _ = run_cases(ctx, drv, [rp["case"]], "replay", 1)
        ctx.cov["traces_validated_against_impl"] += w
        ctx.cov["evaluations"] += n
        return
    # ---- S (lemmas on every small world; sensitivity for the believed deviations) runs beside the generators of G
    ctx.specs()
    sim_over = {"Mode": '"sim"', "Depth": 8, "MinItems": 3, "MaxClaims": 5, "MaxDeletes": 3, "SAttrs": '{"tag", "title"}',
                "SVals": "{1, 2, 3}", "SDates": "{10, 20, 30}", "DelDates": "{15, 40}", "DelSigners": "{1, 2}",
                "QTimes": "{0, 5, 10, 15, 20, 30, 35}"}
    nr = 100 if quick else 2500
    dump = ctx.path("rnd_cases.jsonl")
    with ThreadPoolExecutor(max_workers=8) as ex:
        big = {"MaxClaims": 2, "MaxDeletes": 2} if quick else {"MaxClaims": 3, "MaxDeletes": 1}
        chain = {"MaxClaims": 1, "MaxDeletes": 3 if quick else 4, "DelSigners": "{1, 2}"}
        fs = [ex.submit(ctx.tlc_check, "Claims", "Claims.cfg", overrides=big, workers=4 if quick else 12, timeout=3000, coverage=not quick),
              ex.submit(ctx.tlc_check, "Claims", "Claims.cfg", overrides=chain, workers=2 if quick else 4),
              ex.submit(ctx.tlc_check, "Claims", "Claims.cfg", overrides=dict({"MaxClaims": 2, "MaxDeletes": 3, "SVals": "{1}"}, **({"SDates": "{10}"} if quick else {})),
                        workers=2 if quick else 4),
              ex.submit(ctx.tlc_check, "Claims", "Claims.cfg", overrides={"Deviations": '{"IgnoreClaimDeletion"}'}, workers=1,
                        expect_violation="L1_DeletedClaimsVanish"),
              ex.submit(ctx.tlc_check, "Claims", "Claims.cfg", overrides={"Deviations": '{"ModTimeCountsPermanodeDelete"}'}, workers=1,
                        expect_violation="L10_ModTime")]
        # every pair of claims on one attribute
        g1 = ex.submit(ctx.tlc_gen, "ClaimsGen", "ClaimsGen.cfg", tag="WORLD")
        # one claim and every chain of three delete claims, in every arrival position
        g2 = ex.submit(ctx.tlc_gen, "ClaimsGen", "ClaimsGen.cfg", tag="WORLD",
                       overrides={"MaxClaims": 1, "MaxDeletes": 3, "Depth": 4, "SDates": "{20}", "DelDates": "{25}"})
        g3 = ex.submit(ctx.tlc_gen, "ClaimsGen", "ClaimsGen.cfg", tag="WORLD", overrides=sim_over,
                       simulate=(300 if quick else 6000), depth=120, seed=ctx.seed)
        # every triple of one signer's claims on one attribute (the smallest scope in which add/add/del interact), reduced grid
        g6 = ex.submit(ctx.tlc_gen, "ClaimsGen", "ClaimsGen.cfg", tag="WORLD",
                       overrides={"MaxClaims": 3, "Depth": 3, "ClaimSigners": "{1}", "QTimes": "{0, 15}", "QSigners": "{0, 1}"})
        g4 = None if quick else ex.submit(ctx.tlc_gen, "ClaimsGen", "ClaimsGen.cfg", tag="WORLD",
                                          overrides={"MaxClaims": 2, "MaxDeletes": 1, "Depth": 3, "SDates": "{10, 20}", "DelDates": "{15}"})
        g5 = ex.submit(ctx.run, [drv, "-random", str(nr), "-seed", str(ctx.seed), "-dump", dump, "-secring", SECRING], timeout=300)
        bfs2, bfsd, sim, bfs3 = g1.result(), g2.result(), g3.result(), g6.result()
        if g4:
            bfs2 += g4.result()
        g5.result()
        rnd = vlib.read_ndjson(dump)
        # ---- G + T: replay every world on the real code, TLC validates every reply
        ctx.sample({"generated_world": [{k: v for k, v in it.items() if v not in (0, "")} for it in sim[0]["items"][2:]],
                    "query_grid": {k: sim[0][k] for k in ("attrs", "times", "signers")}})
        cases = [dict(c, leg=tag) for tag, cs in (("G-pairs", bfs2), ("G-triples", bfs3), ("G-chains", bfsd), ("G-sim", sim), ("T-random", rnd)) for c in cs]
        total_w, total_n, first_trace = run_cases(ctx, drv, cases, "all", 10)
        for f in fs:
            r = f.result()
            if r.get("zero_actions"):
                raise vlib.MachineryError("leg S: actions never taken: %s" % r["zero_actions"])
    for c in cases:
        ctx.distinct(world_key(c))
    ctx.count("G", worlds_pairs=len(bfs2), worlds_triples=len(bfs3), worlds_chains=len(bfsd), worlds_sim=len(sim), answers=total_n)
    ctx.count("T", worlds_random=len(rnd))
    if first_trace:
        negative_samples(ctx, first_trace)
    ties = sum(1 for c in cases
               if any(a["kind"] == "claim" and b["kind"] == "claim" and a["id"] < b["id"] and (a["pn"], a["attr"], a["date"]) == (b["pn"], b["attr"], b["date"])
                      for a in c["items"] for b in c["items"]))
    ctx.count("G", worlds_with_equal_dated_claims=ties)
    ctx.cov["traces_validated_against_impl"] = total_w
    ctx.cov["evaluations"] = total_n
    ctx.cov["exhaustive"] = False
    ctx.cov["rule"] = ("world = claims on a permanode in arrival order (kind set/add/del with/without value, attribute, value id, date, signer) plus "
                       "delete claims on claims, deletes and the permanode; exhaustive: all %d pairs of claims on one attribute, all %d triples of one signer's claims "
                       "(reduced grid) and %d one-claim worlds with every delete chain of 3; %d simulated worlds (<=5 claims, 2 attributes, 3 values, 3 dates, <=3 deletes); %d random worlds "
                       "(2 permanodes, <=12 items); each world is asked the full grid attributes x 7-9 times x 3 signer filters on 9 query paths, the "
                       "incremental corpus after every delivery; evaluations = replies validated by TLC; distinct = distinct worlds"
                       % (len(bfs2), len(bfs3), len(bfsd), len(sim), len(rnd)))
    ctx.assumptions += [
        "equal-dated claims may apply in any order (documentation silent): a reply must equal the fold of SOME order",
        "a multi-valued reply may list a repeated value once or as often as it was added (documentation calls tags both values and a set); search.Describe de-duplicates",
        "blobs reach the index after the blobs they name (target before delete claim, permanode before claim): out-of-order arrival is C05/C06",
        "delete.md: deletions are not modifications, so ModTime ignores delete claims, also one on the permanode itself",
        "search.Describe only shows the owner's (signer 1) claims; it is compared with the signer-1 answer",
        "values are compared as ids of the harness value table (one value needs URL-escaping, one is non-ASCII with quotes); strings not in the table map to id 99",
        "signatures are ideal: both signers' blobs verify; jsonsign itself is C16"]
