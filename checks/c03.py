"""C03 - disk stores survive a crash at any instant without losing or tearing blobs.

S: FilesVFS.tla (Durability, NoTornVisible, DatOnlyWhenDurable; sensitivity NoSync / RenameBeforeSync) and
   DiskPacked.tla (Durability, NoWrongBytes, ReindexRebuilds, StreamNeverTorn for the intended mechanism;
   the deviations the code has - NoTailRepairOnOpen (H10), ZeroBeforeIndexDelete (H20) - must violate).
G: histories from BlobStoreGen; files: the real files.Storage over the harness VFS is frozen at EVERY VFS call
   of every mutating operation, un-synced data kept / lost to the synced prefix / half lost, a fresh store is
   opened on the surviving disk; diskpacked: every crash state between two acknowledged states is materialised
   byte-exactly on a real directory (prefix classes - or every byte - of the appended record; all 12
   combinations of header x-ed / body zeroed half,fully / index row deleted), then reopen, observe (fetch,
   stat, enumerate, sub-fetch, StreamBlobs), further operations, and an index rebuild from the packs alone.
T: Trace_BlobStoreFault.tla validates every segment strictly (the interrupted call has an undetermined
   outcome; everything acknowledged must be intact; nothing torn may be presented); Trace_FilesVFS.tla
   validates the recorded VFS call order of every receive (rename to .dat only after sync + close)."""
import json
import os
import re
import sys

import vlib

sys.path.insert(0, os.path.dirname(os.path.abspath(__file__)))
import _stream  # noqa: E402

LEVEL = "model_checking"


def classify(ctx, store, seg, idx, reason):
    reset, ev = seg[0], seg[idx]
    cr = reset.get("crash", {})
    cls = cr.get("class") or "%s/%s" % (cr.get("op"), cr.get("loss"))
    if ev.get("ev") == "recover":
        what = "recover:%s/%s" % (ev.get("what", "reopen"), ev.get("res"))
    else:
        what = "%s/%s" % (ev.get("op"), ev.get("res"))
    # position relative to the recoveries of the segment
    phase = "+".join(e.get("what", "reopen") for e in seg[:idx] if e.get("ev") == "recover") or "none"
    last_rec = max([i for i, x in enumerate(seg[:idx]) if x.get("ev") == "recover"] or [0])
    later = any(e.get("ev") == "op" and e.get("op") in ("receive", "remove") for e in seg[last_rec + 1:idx])
    sig = "C03/%s/%s/after:%s%s/%s" % (store, cls, phase, "+ops" if later else "", what)
    return sig, ("%s: %s | crash %s seg %s" % (reason, json.dumps({k: v for k, v in ev.items() if k != "seq"})[:300], cr, reset.get("seg", "-"))), \
        {"property": "C03", "store": store, "segment": seg[:idx + 1], "reason": reason}


def validate(ctx, store, path):
    evs = vlib.read_ndjson(path)
    fails = ctx.tlc_trace_segments("Trace_BlobStoreFault", "Trace_BlobStoreFault.cfg", evs, lambda e: e.get("ev") == "reset")
    for seg, idx, why in fails:
        sig, what, rp = classify(ctx, store, seg, idx, why)
        ctx.discrepancy(sig, what, rp)
    nseg = sum(1 for e in evs if e.get("ev") == "reset")
    for e in evs:
        if e.get("ev") == "reset":
            cr = e.get("crash", {})
            ctx.distinct("%s|%s|%s|%s" % (store, cr.get("class") or cr.get("loss"), cr.get("op"), e.get("seg", "")))
    return nseg, len(evs)


def syscall_order(ctx, drv, hf):
    """diskpacked under strace: write / fsync of the pack files vs. the index updates (marker writes)."""
    import shutil
    import subprocess
    if not shutil.which("strace"):
        ctx.notes.append("strace not available: diskpacked fsync ordering not checked")
        return 0
    n = 0
    evs = []
    for mx in ("0", "200"):
        st, mk = ctx.path("strace_%s.txt" % mx), ctx.path("marker_%s.txt" % mx)
        p = subprocess.run(["strace", "-f", "-y", "-e", "trace=write,pwrite64,fsync,fdatasync,fallocate,ftruncate", "-s", "100", "-o", st,
                            drv, "-mode", "dporder", "-marker", mk, "-hist", hf, "-out", ctx.path("x_%s.ndjson" % mx), "-max", mx],
                           capture_output=True, text=True, timeout=900, env=vlib.goenv())
        if p.returncode != 0:
            if "ptrace" in (p.stderr or "") or "Operation not permitted" in (p.stderr or ""):
                ctx.notes.append("strace cannot attach here: diskpacked fsync ordering not checked")
                return 0
            raise vlib.MachineryError("dporder under strace failed: %s" % (p.stderr or p.stdout)[-1500:])
        lines = open(st).read().splitlines()
        # completion order: an "<unfinished ...>" line is replaced by its "resumed" line
        pending = {}
        for ln in lines:
            m = re.match(r"(\d+)\s+(.*)", ln)
            if not m:
                continue
            pid, rest = m.group(1), m.group(2)
            if rest.endswith("<unfinished ...>"):
                pending[pid] = rest[:-len("<unfinished ...>")]
                continue
            mr = re.match(r"<\.\.\. (\w+) resumed>(.*)", rest)
            if mr and pid in pending:
                rest = pending.pop(pid) + mr.group(2)
            mk_m = re.search(r'"VERIFMARK (\w+) ?([^"\\]*)', rest)
            if mk_m and rest.startswith("write("):
                what, arg = mk_m.group(1), mk_m.group(2).strip()
                if what == "History":
                    evs.append({"call": "reset", "f": "", "res": ""})
                    n += 1
                elif what == "Call":
                    evs.append({"call": "begin", "f": arg, "res": ""})
                elif what == "Ret":
                    a = arg.split()
                    evs.append({"call": "end", "f": a[0], "res": a[1] if len(a) > 1 else ""})
                elif what == "Set":
                    evs.append({"call": "idxset", "f": "", "res": ""})
                elif what == "CommitBatch":
                    evs.append({"call": "idxbatch", "f": "", "res": ""})
                elif what == "Delete":
                    evs.append({"call": "idxdel", "f": "", "res": ""})
                continue
            pm = re.match(r"(write|pwrite64|fsync|fdatasync|fallocate)\(\d+<([^>]*pack-\d+\.blobs)>", rest)
            if pm and not rest.rstrip().endswith("= -1"):
                call = {"write": "write", "pwrite64": "pwrite", "fsync": "fsync", "fdatasync": "fsync", "fallocate": "punch"}[pm.group(1)]
                evs.append({"call": call, "f": os.path.basename(pm.group(2)), "res": ""})
    if not any(e["call"] == "idxset" for e in evs) or not any(e["call"] == "write" for e in evs):
        raise vlib.MachineryError("syscall trace of diskpacked contains no index update / pack write: projection broken")
    tf = ctx.path("dporder.ndjson")
    vlib.write_jsonl(tf, evs)
    r = ctx.tlc_trace("Trace_DiskPackedOrder", "Trace_DiskPackedOrder.cfg", tf)
    if not r["accepted"]:
        raise vlib.MachineryError("syscall trace not consumed: %s" % r["out"][-1500:])
    for line, text in r["viols"]:
        ctx.discrepancy("C03/diskpacked/syscall-order/%s" % ("unsynced-index" if "un-synced" in text else "no-index-row"),
                        "syscall trace line %d: %s ; %s" % (line, json.dumps(evs[line - 1]), text[:200]), {"property": "C03", "syscalls": evs[max(0, line - 15):line]})
    # negative sample: an index update moved before its fsync must be reported
    bad = [dict(e) for e in evs[:60] if e["call"] != "fsync"]       # every fsync dropped
    bf = ctx.path("dporder_bad.ndjson")
    vlib.write_jsonl(bf, bad)
    if not ctx.tlc_trace("Trace_DiskPackedOrder", "Trace_DiskPackedOrder.cfg", bf)["viols"]:
        raise vlib.MachineryError("negative sample (fsync dropped) not reported by Trace_DiskPackedOrder")
    ctx.count("T", syscall_events=len(evs), syscall_histories=n)
    ctx.sample({"syscall_order": [e["call"] for e in evs[:14]]})
    return n


def run(ctx, replay):
    drv = ctx.build("c03")
    quick = ctx.quick()
    if replay:
        rp = json.load(open(replay))
        if rp.get("family") == "stream":
            return _stream.run_replay(ctx, rp)
        # a saved segment is re-validated as recorded (the crash state cannot be re-materialised without its history);
        # re-running the whole check reproduces it from the same seed
        tf = ctx.path("seg.ndjson")
        vlib.write_jsonl(tf, rp["segment"])
        for seg, idx, why in ctx.tlc_trace_segments("Trace_BlobStoreFault", "Trace_BlobStoreFault.cfg", rp["segment"], lambda e: e.get("ev") == "reset"):
            sig, what, r2 = classify(ctx, rp["store"], seg, idx, why)
            ctx.discrepancy(sig, what, r2)
        ctx.cov["traces_validated_against_impl"] += 1
        ctx.cov["evaluations"] += 1
        return
    # ---- S
    ctx.tlc_check("FilesVFS", "FilesVFS.cfg")
    ctx.tlc_check("FilesVFS", "FilesVFS.cfg", overrides={"Full": 0})
    ctx.tlc_check("FilesVFS", "FilesVFS.cfg", overrides={"Deviations": '{"NoSync"}'}, expect_violation="DatOnlyWhenDurable")
    ctx.tlc_check("FilesVFS", "FilesVFS.cfg", overrides={"Deviations": '{"RenameBeforeSync"}'}, expect_violation="DatOnlyWhenDurable")
    ctx.tlc_check("DiskPacked", "DiskPacked.cfg", overrides={"MaxRecs": 3 if quick else 4})
    ctx.tlc_check("DiskPacked", "DiskPacked.cfg", overrides={"Deviations": '{"NoTailRepairOnOpen"}'}, expect_violation="ReindexRebuilds")
    ctx.tlc_check("DiskPacked", "DiskPacked.cfg", overrides={"Deviations": '{"ZeroBeforeIndexDelete"}'}, expect_violation="NoWrongBytes")
    ctx.tlc_check("BlobStoreFault", "BlobStoreFault.cfg")
    # ---- G
    hists = ctx.tlc_gen("BlobStoreGen", "BlobStoreGen.cfg", overrides={"Mode": '"mut"', "Depth": 7},
                        simulate=(5 if quick else 40), depth=9, seed=ctx.seed)
    hists.append([{"op": "receive", "b": 2}, {"op": "receive", "b": 4}, {"op": "remove", "bs": [2]}, {"op": "receive", "b": 6},
                  {"op": "receive", "b": 2}, {"op": "remove", "bs": [4, 6]}, {"op": "receive", "b": 8}, {"op": "receive", "b": 4}])
    # duplicate receives of acknowledged blobs (a crash inside one must leave the acknowledged copy alone)
    hists.append([{"op": "receive", "b": 2}, {"op": "receive", "b": 2}, {"op": "receive", "b": 4}, {"op": "remove", "bs": [2]},
                  {"op": "receive", "b": 4}, {"op": "receive", "b": 2}, {"op": "receive", "b": 2}])
    hf = ctx.path("h.jsonl")
    vlib.write_jsonl(hf, hists)
    ctx.sample({"history": hists[-2]})
    tot_s = tot_e = 0
    # files
    fo, vo = ctx.path("files.ndjson"), ctx.path("vfs.ndjson")
    rc, so, se = ctx.run([drv, "-mode", "files", "-hist", hf, "-out", fo, "-vfslog", vo, "-seed", str(ctx.seed)], timeout=1200)
    ctx.sample({"files_crash_classes": json.loads(re.search(r"classes=(.*)", so).group(1))})
    s, e = validate(ctx, "files", fo)
    tot_s += s
    tot_e += e
    r = ctx.tlc_trace("Trace_FilesVFS", "Trace_FilesVFS.cfg", vo)
    if not r["accepted"]:
        raise vlib.MachineryError("VFS log not consumed: %s" % r["out"][-1500:])
    vevs = vlib.read_ndjson(vo)
    for line, text in r["viols"]:
        ctx.discrepancy("C03/files/vfs-order/%s" % re.sub(r"[^a-z .+-]", "", text.lower())[:60].strip().replace(" ", "-"),
                        "VFS call log line %d: %s ; %s" % (line, json.dumps(vevs[line - 1]), text), {"property": "C03", "vfslog": vevs[max(0, line - 12):line]})
    ctx.count("T", vfs_lines=len(vevs))
    # negative sample: a rename that precedes the sync must be reported
    bad = [dict(x) for x in vevs[:40]]
    si = next((i for i, x in enumerate(bad) if x["call"] == "Sync"), None)
    ri = next((i for i, x in enumerate(bad) if x["call"] == "Rename"), None)
    if si is not None and ri is not None and si < ri:
        bad[si], bad[ri] = bad[ri], bad[si]
        bf = ctx.path("vfs_bad.ndjson")
        vlib.write_jsonl(bf, bad)
        if not ctx.tlc_trace("Trace_FilesVFS", "Trace_FilesVFS.cfg", bf)["viols"]:
            raise vlib.MachineryError("negative sample (rename before sync) was not reported by Trace_FilesVFS")
        ctx.count("T", negative_samples_rejected=1)
    # diskpacked: default pack size and a tiny one (roll-over inside the history)
    for mx in (["0", "130", "260"] if quick else ["0", "130", "200", "260", "400"]):
        do = ctx.path("dp_%s.ndjson" % mx)
        rc, so, se = ctx.run([drv, "-mode", "diskpacked", "-hist", hf, "-out", do, "-seed", str(ctx.seed), "-max", mx] +
                             ([] if quick else ["-everybyte"]), timeout=2400)
        if mx == "0":
            ctx.sample({"diskpacked_crash_classes": json.loads(re.search(r"classes=(.*)", so).group(1))})
        s, e = validate(ctx, "diskpacked", do)
        tot_s += s
        tot_e += e
    tot_s += syscall_order(ctx, drv, hf)
    ctx.cov["traces_validated_against_impl"] = tot_s
    ctx.cov["evaluations"] = tot_e
    ctx.cov["exhaustive"] = True
    ctx.cov["rule"] = ("segment = (history, interrupted operation, crash state): files - every VFS call of every mutating call x "
                       "un-synced-data loss pattern; diskpacked - prefix classes (thorough: every byte) of the appended record, roll-over "
                       "file present or not, index row present or not, and all 12 removal combinations; each followed by reopen / "
                       "re-index / further operations; distinct = (store, crash class, interrupted op, segment kind)")
    ctx.assumptions += ["crash model of the property: executed metadata operations (create, rename, remove) are durable, un-synced data may be lost down to the synced prefix",
                        "diskpacked index (harness KV) is snapshotted at call boundaries; crash consistency of leveldb/kv/sqlite files themselves is not perkeep's code",
                        "diskpacked crash states are materialised from two consecutive acknowledged states (it writes through os directly, so it cannot be frozen mid-call)",
                        "the write -> fsync -> index-update order inside diskpacked is observed at system-call level (strace) with marker writes issued by the harness index KV"]
    _stream.run_leg(ctx, quick, "diskpacked")
