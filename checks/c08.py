"""C08 - a search returns exactly the matching blobs, however it is planned.

S: Search.tla - for every constraint tree of the bounded grammar (depth <= 3 over the world's atom menu) and
   every sort, on three fixed worlds: SourceCoversMatches (the source the planner transcription picks
   contains every blob the matcher accepts), OrderLimitValid (Order/Limit vs the validation relation), with
   Deviations = {}; each deviation the code is believed to have is shown to be refuted on the model
   (expect_violation): OrAppendsTypes (H3), SortedSourceDropsSome (H4), RecursiveWholeDir,
   DeleteDateIsModtime, ContentClaimTimeIgnored, DirChildrenCappedByLimit, TypedSourceRepeats.
G: SearchGen.tla emits (tree, sort, limit): every tree of depth <= 2 x sorts x limits on the small world,
   simulated deeper trees on the others; harness/cmd/c08 builds each world into real signed blobs, indexes it
   once per index mode (corpus built incrementally as the server does / corpus scanned from the rows / no
   corpus), turns every tree into a real search.SearchQuery and logs Handler.Query's answer.
T: Trace_Search.tla recomputes Matches / planner source / admissible orders on the world JSON for every
   logged query (collect mode) - TLC is the only oracle; seeded random Go-generated trees (deeper, compound
   permanode/file/dir constraints) over seeded random worlds go through the same validator."""
import itertools
import json
import os
import re
import shutil
from concurrent.futures import ThreadPoolExecutor

import vlib

LEVEL = "model_checking"

ALL_SORTS = '{"unspecified", "unsorted", "blobref", "created", "createdAsc", "lastmod", "lastmodAsc"}'
# attribution priority when several single deviations explain a line
DEVS = ["SortedSourceDropsSome", "OrAppendsTypes", "DeleteDateIsModtime", "RecursiveWholeDir", "ContentClaimTimeIgnored",
        "DirChildrenCappedByLimit", "TypedSourceRepeats"]
# many small TLC processes run side by side: keep each JVM small
os.environ.setdefault("JAVA_TOOL_OPTIONS", "-Xmx3g -XX:ParallelGCThreads=2 -XX:CICompilerCount=2")


def mkworld(ctx, drv, spec, name):
    """Create world `spec` (ws|wp|wf|rand:<seed>) as c08_<name>.json in the scratch spec directory."""
    path = os.path.join(ctx.specs(), "c08_%s.json" % name)
    rc, so, se = ctx.run([drv, "-mkworld", spec, "-name", name, "-out", path], timeout=120,
                         env={"VERIF_REPO": vlib.REPO})
    m = re.search(r"items=(\d+)", so)
    return path, int(m.group(1))


_uniq = itertools.count(1)


def tconst(name):
    """Constants of one trace validation. vlib derives the cfg file name from the overrides and writes it
    non-atomically, so runs that validate against the same world side by side need distinct overrides:
    MenuSize (unused by Trace_Search) carries a serial number."""
    return wconst(name, MenuSize=next(_uniq))


def wconst(name, **kw):
    d = {"WorldFile": '"c08_%s.json"' % name}
    d.update(kw)
    return d


def effect(r):
    if r["res"] == "panic":
        return "panic"
    if r["res"] == "error":
        return "refused:" + (r["class"] or "other")
    e = []
    if r["missing"] or (r["count"] and r["nout"] < r["nexp"]) or r["notfirst"]:
        e.append("missing")
    if r["extra"] or r["dup"]:
        e.append("extra")
    if r["order"]:
        e.append("order")
    if not e and r["source"] != r["expSource"]:
        e.append("source-only")
    if r["uncovered"]:
        e.append("uncovered")
    return "+".join(e) or "other"


def signature(r):
    modec = "classic" if r["mode"] == "classic" else "corpus"
    expl = sorted(["+".join(sorted(d, key=DEVS.index)) for d in r["explained"]],
                  key=lambda x: [DEVS.index(p) for p in x.split("+")])
    if expl:
        # attributed to a mechanism-level deviation of Search.tla: the transcription of the code with that
        # deviation switched on produces exactly the logged answer
        return "C08/%s/query/%s/%s" % (modec, expl[0], effect(r))
    # not attributable: source x effect (the classes of the blobs concerned are in the description)
    return "C08/%s/query/unexplained/%s/%s" % (modec, r["source"] or "-", effect(r))


def fmt_tree(tr, i=1):
    n = tr[i - 1]
    k = n["k"]
    if k in ("and", "or", "xor"):
        return "%s(%s, %s)" % (k, fmt_tree(tr, n["a"]), fmt_tree(tr, n["b"]))
    if k == "not":
        return "not(%s)" % fmt_tree(tr, n["a"])
    d = {f: v for f, v in n.items() if v not in (0, "", False) and f not in ("k", "a", "b")}
    s = k + (json.dumps(d, sort_keys=True) if d else "")
    if n["a"]:
        s += "[a: %s]" % fmt_tree(tr, n["a"])
    if n["b"]:
        s += "[b: %s]" % fmt_tree(tr, n["b"])
    return s


CHUNK = 3000


def validate(ctx, wname, tracefile, leg, wspec, stats, replay_path=None):
    """Validate one trace file against Trace_Search on world wname (in chunks of CHUNK lines, side by side);
    classify every VIOL line."""
    evs = vlib.read_ndjson(tracefile)
    chunks = [evs[i:i + CHUNK] for i in range(0, len(evs), CHUNK)] or [[]]

    def one(ci):
        if len(chunks) == 1:
            tf = tracefile
        else:
            tf = "%s.%d" % (tracefile, ci)
            vlib.write_jsonl(tf, chunks[ci])
        r = ctx.tlc_trace("Trace_Search", "Trace_Search.cfg", tf, overrides=tconst(wname), timeout=1500)
        if not r["accepted"]:
            raise vlib.MachineryError("trace %s not fully consumed: %s" % (tf, r["out"][-1500:]))
        return [(ci * CHUNK + int(m.group(1)), json.loads(json.loads(m.group(2))))
                for m in re.finditer(r'<<"VIOL", (\d+), (".*")>>', r["out"])]
    if len(chunks) == 1:
        found = one(0)
    else:
        with ThreadPoolExecutor(max_workers=4) as ex:
            found = [v for part in ex.map(one, range(len(chunks))) for v in part]
    world = None
    for line, rep in found:
        ev = evs[line - 1]
        sig = signature(rep)
        what = "%s world=%s mode=%s sort=%s limit=%d source=%s %s: %s -> out=%s (%d expected) %s" % (
            leg, wname, ev["mode"], ev["sort"], ev["limit"], ev["source"], ev["res"] + (":" + ev["err"][:80] if ev["err"] else ""),
            fmt_tree(ev["tree"])[:400], ev["out"][:12], rep["nexp"],
            {k: v for k, v in rep.items() if k in ("missing", "extra", "uncovered", "explained", "missingIds", "extraIds") and v})
        if world is None:
            world = json.load(open(os.path.join(ctx.specs(), "c08_%s.json" % wname)))
        replay = {"property": "C08", "leg": leg, "world_spec": wspec, "world_name": wname, "world": world,
                  "mode": ev["mode"], "query": {"tree": ev["tree"], "sort": ev["sort"], "limit": ev["limit"]},
                  "signature": sig, "report": rep}
        ctx.discrepancy(sig, what[:900], replay_path or replay)
        stats.setdefault("viol_sigs", set()).add(sig)
    for ev in evs:
        kinds = sorted(set(n["k"] for n in ev["tree"]))
        feats = sorted(set(f for n in ev["tree"] for f in ("hasAt", "rel", "all", "hid", "rec", "wh", "sp", "ip", "mp")
                           if n[f] not in (0, "", False)))
        ctx.distinct("%s|%s|%s|%s|%s|%s|%s" % (ev["mode"], ev["sort"], ev["source"], ev["res"] + ev["class"],
                                              ev["tree"][0]["k"], "".join(k[0] for k in kinds), ",".join(feats)))
        key = ev["source"] or "-"
        stats["sources"][key] = stats["sources"].get(key, 0) + 1
        key = ev["res"] + (":" + ev["class"] if ev["class"] else "")
        stats["res"][key] = stats["res"].get(key, 0) + 1
    stats["events"] += len(evs)
    stats["viols"] += len(found)
    return evs, found


def negative_sample(ctx, wname, evs):
    """Corrupt single fields of really recorded, accepted lines; every corrupted line must be rejected."""
    base = None
    for e in evs:
        if e["res"] == "ok" and e["sort"] == "blobref" and len(e["out"]) >= 3 and e["limit"] == 0 and e["mode"] == "build":
            base = e
            break
    if base is None:
        raise vlib.MachineryError("negative sample: no suitable recorded event")
    bad = []
    x = json.loads(json.dumps(base)); x["out"] = x["out"][:-1]; bad.append(x)                      # a match dropped
    x = json.loads(json.dumps(base)); x["out"][0], x["out"][1] = x["out"][1], x["out"][0]; bad.append(x)   # order broken
    x = json.loads(json.dumps(base)); x["out"] = x["out"] + [x["out"][0]]; bad.append(x)           # duplicate
    x = json.loads(json.dumps(base)); x["source"] = "one_blob"; bad.append(x)                      # another source
    x = json.loads(json.dumps(base)); x["limit"] = 2; bad.append(x)                                # limit ignored
    tf = ctx.path("neg_%s.ndjson" % wname)
    vlib.write_jsonl(tf, [base] + bad)
    r = ctx.tlc_trace("Trace_Search", "Trace_Search.cfg", tf, overrides=tconst(wname))
    lines = sorted(int(m.group(1)) for m in re.finditer(r'<<"VIOL", (\d+),', r["out"]))
    if not r["accepted"] or lines != [2, 3, 4, 5, 6]:
        raise vlib.MachineryError("negative sample: corrupted lines 2..6 must be rejected and line 1 accepted, got %s" % lines)
    ctx.count("T", negative_samples=len(bad))


def run_queries(ctx, drv, wname, qfile, modes, tag):
    out = ctx.path("tr_%s_%s.ndjson" % (tag, wname))
    rc, so, se = ctx.run([drv, "-world", os.path.join(ctx.specs(), "c08_%s.json" % wname), "-queries", qfile,
                          "-modes", modes, "-out", out], timeout=600, ok_codes=None)
    if rc != 0:
        raise vlib.MachineryError("driver failed on %s: %s" % (wname, (se or so)[-2000:]))
    return out


def run_random(ctx, drv, wname, n, seed, modes, tag):
    out = ctx.path("tr_%s_%s.ndjson" % (tag, wname))
    rc, so, se = ctx.run([drv, "-world", os.path.join(ctx.specs(), "c08_%s.json" % wname), "-random", str(n),
                          "-seed", str(seed), "-modes", modes, "-out", out], timeout=600, ok_codes=None)
    if rc != 0:
        raise vlib.MachineryError("driver failed on %s: %s" % (wname, (se or so)[-2000:]))
    return out


def run(ctx, replay):
    drv = ctx.build("c08")
    stats = {"events": 0, "viols": 0, "sources": {}, "res": {}}
    if replay:
        rp = json.load(open(replay))
        wname = "replay"
        rp["world"]["name"] = wname
        with open(os.path.join(ctx.specs(), "c08_%s.json" % wname), "w") as f:
            json.dump(rp["world"], f)
        qf = ctx.path("replay_q.jsonl")
        vlib.write_jsonl(qf, [rp["query"]])
        out = run_queries(ctx, drv, wname, qf, rp["mode"], "replay")
        validate(ctx, wname, out, "replay", rp.get("world_spec"), stats, replay_path=replay)
        ctx.cov["traces_validated_against_impl"] = stats["events"]
        ctx.cov["evaluations"] = stats["events"]
        return
    quick = ctx.quick()
    seed = ctx.seed
    # ---- worlds (real signed blobs; the same JSON is TLC's constant)
    worlds = {}
    for w in ("ws", "wp", "wf"):
        worlds[w] = (w, mkworld(ctx, drv, w, w)[1])
    nrand = 3 if quick else 10
    rnames = []
    for k in range(nrand):
        rs = seed * 100 + k
        nm = "r%d" % rs
        worlds[nm] = ("rand:%d" % rs, mkworld(ctx, drv, "rand:%d" % rs, nm)[1])
        rnames.append(nm)
    ctx.sample({"worlds": {k: {"spec": v[0], "items": v[1]} for k, v in worlds.items()}})

    jobs = []

    # ---- S: every tree of the bounded grammar x sorts, per world, split over processes
    s_sizes = {"ws": (9, 3), "wp": (6, 2), "wf": (7, 2)} if quick else {"ws": (14, 6), "wp": (14, 10), "wf": (14, 10)}
    for w, (msize, parts) in s_sizes.items():
        for p in range(parts):
            jobs.append(("S", lambda w=w, msize=msize, parts=parts, p=p: ctx.tlc_check(
                "Search", "Search.cfg", overrides=wconst(w, MenuSize=msize, Part=p, Parts=parts), workers=1, timeout=1500)))
    # sensitivity: each believed deviation must be refuted on the model
    sens = [("OrAppendsTypes", "ws", "SourceCoversMatches", 8), ("SortedSourceDropsSome", "ws", "SourceCoversMatches", 8),
            ("DeleteDateIsModtime", "ws", "MatcherAgrees", 14), ("ContentClaimTimeIgnored", "wf", "MatcherAgrees", 20),
            ("RecursiveWholeDir", "wf", "MatcherAgrees", 20),
            ('DirChildrenCappedByLimit", "cap1', "wf", "MatcherAgrees", 13),
            ("TypedSourceRepeats", "wp", "TypedSourceOnce", 7)]
    def sens_job(dev, w, inv, msize):
        r = ctx.tlc_check("Search", "Search.cfg", overrides=wconst(w, MenuSize=msize, Deviations='{"%s"}' % dev), workers=1,
                          expect_violation=inv + "X", timeout=600)
        # replay the model's counterexample on the real code (a model counterexample is a hypothesis until then)
        m = re.search(r'<<"CEX", (".*")>>', r["out"])
        if not m:
            raise vlib.MachineryError("sensitivity run for %s printed no counterexample" % dev)
        q = json.loads(json.loads(m.group(1)))
        name = dev.split('"')[0]
        mode = "build"
        if name == "DirChildrenCappedByLimit":
            q["limit"], mode = 1, "classic"     # the cap is the query's own limit; only shows without a corpus
        qf = ctx.path("q_cex_%s.jsonl" % name)
        vlib.write_jsonl(qf, [q])
        out = run_queries(ctx, drv, w, qf, mode, "cex_" + name)
        evs, found = validate(ctx, w, out, "G-cex", worlds[w][0], stats)
        ctx.count("G", counterexamples_replayed=1)
        if not any(name in d for _, rep in found for d in rep["explained"]):
            ctx.notes.append("deviation %s: the model's counterexample %s sort=%s was NOT reproduced by the real code (stale?)"
                             % (name, fmt_tree(q["tree"]), q["sort"]))
            ctx.log("stale deviation? %s not reproduced on %s" % (name, fmt_tree(q["tree"])))
    for dev, w, inv, msize in sens:
        jobs.append(("S", lambda dev=dev, w=w, inv=inv, msize=msize: sens_job(dev, w, inv, msize)))

    # ---- G: TLC-generated queries on the fixed worlds, every index mode
    def gleg(w, mode, msize, nsim, limits, tag):
        if mode == "exh":
            qs = ctx.tlc_gen("SearchGen", "SearchGen.cfg", overrides=wconst(w, MenuSize=msize, GLimits=limits), tag="Q", timeout=900)
        else:
            qs = ctx.tlc_gen("SearchGen", "SearchGen.cfg", overrides=wconst(w, MenuSize=msize, GenMode='"sim"', Depth=4, GLimits=limits),
                             simulate=nsim, depth=8, seed=seed, tag="Q", timeout=900)
        qf = ctx.path("q_%s_%s.jsonl" % (tag, w))
        vlib.write_jsonl(qf, qs)
        out = run_queries(ctx, drv, w, qf, "build,scan,classic", tag)
        evs, _ = validate(ctx, w, out, "G-" + tag, worlds[w][0], stats)
        ctx.count("G", queries=len(qs), events=len(evs))
        if tag == "exh":
            ctx.sample({"query": fmt_tree(qs[len(qs) // 2]["tree"]), "sort": qs[len(qs) // 2]["sort"], "limit": qs[len(qs) // 2]["limit"]})
            negative_sample(ctx, w, evs)
        return len(evs)
    if quick:
        jobs.append(("G", lambda: gleg("ws", "exh", 7, 0, "{0, 2}", "exh")))
        for w in ("ws", "wp", "wf"):
            jobs.append(("G", lambda w=w: gleg(w, "sim", 20, 150, "{0, 1, 3}", "sim")))
    else:
        jobs.append(("G", lambda: gleg("ws", "exh", 14, 0, "{0, 1, 2}", "exh")))
        jobs.append(("G", lambda: gleg("wf", "exh", 12, 0, "{0, 2}", "exhf")))
        jobs.append(("G", lambda: gleg("wp", "exh", 12, 0, "{0, 2}", "exhp")))
        for w in ("ws", "wp", "wf"):
            jobs.append(("G", lambda w=w: gleg(w, "sim", 20, 3000, "{0, 1, 2, 3}", "sim")))

    # ---- T: seeded random Go-generated trees over the fixed and the random worlds
    def tleg(w, n, sd):
        out = run_random(ctx, drv, w, n, sd, "build,scan,classic", "rnd%d" % sd)
        evs, _ = validate(ctx, w, out, "T-random", worlds[w][0], stats)
        ctx.count("T", events=len(evs))
        return len(evs)
    nq = 90 if quick else 1500
    for w in ("ws", "wp", "wf"):
        jobs.append(("T", lambda w=w: tleg(w, nq, seed)))
    for i, w in enumerate(rnames):
        reps = 1 if quick else 2
        for j in range(reps):
            jobs.append(("T", lambda w=w, j=j: tleg(w, nq, seed * 10 + j)))

    with ThreadPoolExecutor(max_workers=14) as ex:
        futs = [(leg, ex.submit(fn)) for leg, fn in jobs]
        for leg, f in futs:
            f.result()

    ctx.cov["traces_validated_against_impl"] = stats["events"]
    ctx.cov["evaluations"] = stats["events"]
    ctx.cov["exhaustive"] = False
    ctx.cov["candidate_sources_seen"] = stats["sources"]
    ctx.cov["replies_seen"] = stats["res"]
    ctx.cov["rule"] = ("S: every constraint tree of depth <= 3 over the world's atom menu x 6 sorts on 3 fixed worlds (planner "
                       "source covers the matches; Order/Limit accepted by the validation relation), 7 deviations refuted; "
                       "G: all trees of depth <= 2 x 7 sorts x limits on the small world + simulated trees of depth <= 5 on 3 "
                       "worlds, each run on the real handler in 3 index modes; T: seeded random compound trees on 3 fixed + %d "
                       "random worlds; every logged query re-evaluated by TLC (Trace_Search). distinct = mode x sort x "
                       "source x reply x root kind x node kinds x features" % nrand)
    ctx.assumptions += [
        "atoms covered: logical and/or/xor/not; anything, camliType, anyCamliType, blobRefPrefix, blobSize(min/max); permanode "
        "attr + value / valueMatches / valueMatchesInt / numValue(min,max,zeroMax) / valueAll / valueInSet / at / modTime / time / "
        "relation(parent|child, any|all, edge type) / skipHidden; file fileName / fileSize / mimeType / wholeRef / parentDir; dir "
        "fileName / blobRefPrefix / topFileCount / contains / recursiveContains / parentDir. Not covered: location, EXIF, media "
        "tags, regexp, float values, inLast, MapSort, continue/around (C09), constraints with several top-level fields",
        "string / integer / prefix atoms are truth tables computed by the harness's own 10-line implementations over the "
        "world's values, names, MIME types and refs; MIME type and wholeRef of a file are the harness's model of its content",
        "worlds are delivered in creation order; no attribute claim is itself deleted (C07: H2), no two claims of one "
        "permanode share a date, the explicit date attributes (dateCreated, ...) are not used, signer 2 only sets tag/title",
        "ties in time and permanodes without any time are not ordered by the documentation: every arrangement is accepted",
        "a refusal (error) is accepted only for the combinations query.go documents as unsupported: time sorts on "
        "non-permanode queries, LastModifiedAsc, CreatedAsc over a permanode without time, sorts/relations/parentDir without corpus",
        "without a corpus only the sub-fragment the handler implements there is compared (no at / time / modTime / skipHidden / "
        "wholeRef / relation / parentDir; worlds without repeated attribute values, which the describe path de-duplicates)",
        "blobrefs are abstracted to item ids and ranks of their text (C20 checks that Ref.Less is text order)"]
