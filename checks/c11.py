"""C11 - the encrypting store leaks no plaintext, detects tampering, and is recoverable.

S: Encrypt.tla (mechanism of pkg/blobserver/encrypt: ciphertexts, meta blobs with fresh identities, smallMeta heap,
   asynchronous compaction = upload the packed meta THEN delete the small ones, local index, crash anywhere, start-up
   scan, tampering with ideal authenticated encryption): Recoverable, IndexRight, IndexBackedByMeta, FetchSound,
   AckedFetchable, DeleteOnlyCovered; sensitivity: DeleteBeforeUpload must violate Recoverable, IndexBeforeMeta must
   violate IndexBackedByMeta, NoDigestCheck and MetaShapedBlobAccepted must violate FetchSound.
   The Full threshold (FullMetaBlobSize: recordMeta ignores meta blobs of more than Full lines, the gather loop closes a
   group as soon as it exceeds Full lines and pushes a single left-over back, a packed meta blob of >= Full lines is not
   recorded again) is explored with Limit 2-3 / Full 1-4 (Encrypt_full.cfg); FlushDropsCarriedMeta (a popped meta blob is
   deleted by a job whose packed blob does not hold its entries) must violate Recoverable; reachability witnesses
   (PushBack, TwoGroups, Ignored, NotRerecorded, FullPacked) must each be violated; RecvBatch (the macro step of the
   trace spec) must add no reachable state (Macro = TRUE finds the same number of distinct states).
   Transient failures (Encrypt_fault.cfg, MaxFault = 1): every lower-layer call of a receive (duplicate check, blobs.put,
   meta.put, index.Set) and of a compaction job (index.Get, meta.put, meta.del incl. partial removal) may fail once, with or
   without effect, and the process goes on - what the code does today (receive fails unacknowledged, job gives up with
   everything kept) keeps every invariant; CompactionSkipsFailedEntry (the job leaves the failed entry out and deletes all
   the small meta blobs) must violate Recoverable.
G: EncryptGen.tla enumerates scenarios (history length class x restart points relative to the compaction steps;
   crash point = lower-layer call around one compaction x index kept/wiped x second crash inside the compaction the
   restart starts; fault = the same lower-layer call classes returning an injected error once (without / after effect, half
   a RemoveBlobs) with the process going on x index kept/wiped at the later restart x continuation through the next
   compaction; tamper target x kind x position class x index kept/wiped); harness/cmd/c11 runs them on the real
   encrypt store over gate stores (Plan.FreezeAt, Durable.Clone, rebuild with the index wiped), plus seeded random ones;
   family "long": Full + Limit + 50 receives through one store (the rolling packed meta blob exceeds Full lines), restarts
   before / at / after the crossing, a final restart from the wrapped stores alone, every blob fetched.
T: Trace_Encrypt.tla validates every recorded segment in one linear pass per shard: every mutating lower-layer call
   must be the next step of the model with the code's threshold (100), projections of the real stores must equal the
   model's state, crash states must be Recoverable, a lower-layer call that returned an injected error must be the model's
   failing step of that call, restarts must rebuild exactly the acknowledged map, the client
   view must be the BlobStore map, leak scans must be empty, tamper outcomes original-or-fail.  Long histories are
   validated at step level too: a run of complete, undisturbed receive cycles is ONE line carrying the data of all its
   lower-layer calls and ONE RecvBatch step (= k x RecvStart..RecvAck); every call of every compaction, every restart and
   projection is its own line.  Thorough: one long history also with one line per lower-layer call (51 000 lines).
TLC is the only oracle; the Go side projects (decrypts with the harness's copy of the key, compares bytes, scans)."""
import json
import os
import re
from concurrent.futures import ThreadPoolExecutor

import vlib

LEVEL = "model_checking"
os.environ.setdefault("JAVA_TOOL_OPTIONS", "-XX:TieredStopAtLevel=1 -XX:ParallelGCThreads=2")

TRACE = ("Trace_Encrypt", "Trace_Encrypt.cfg")
LIMIT = {"Limit": "100", "Full": "10000"}     # replaced by the constants of the code under test (encrypt.SmallMetaCountLimit, FullMetaBlobSize)
# one long validation is a single TLC run of 10-20 s over states of 10^4 blobs: full JIT pays, and it needs room
LONG_ENV = {"JAVA_TOOL_OPTIONS": "-XX:ParallelGCThreads=2 -Xmx3g"}
RAW_ENV = {"JAVA_TOOL_OPTIONS": "-XX:ParallelGCThreads=2 -Xmx6g"}      # one line per lower-layer call: 10^5 states of 10^4 blobs


def is_reset(e):
    return e.get("ev") == "reset"


def validate(ctx, tracefile, evs=None, overrides=None, env=None):
    """One linear TLC pass; returns [(segment, index of first unexplained line, reasons)] (see vlib.tlc_trace_segments)."""
    if evs is None:
        evs = vlib.read_ndjson(tracefile)
    if not evs:
        return [], evs
    ov = dict(LIMIT)
    ov.update(overrides or {})
    r = ctx.tlc_trace(TRACE[0], TRACE[1], tracefile, timeout=1500, overrides=ov, env=env)
    if not r["accepted"]:
        raise vlib.MachineryError("Trace_Encrypt: the dead chain did not consume %s: %s" % (tracefile, r["out"][-2000:]))
    hw = set(int(x) for x in re.findall(r'<<"HW", (\d+)>>', r["out"]))
    why = {}
    for m in re.finditer(r'<<\s*"WHY",\s*(\d+),\s*"([^"]*)"\s*>>', r["out"], re.S):     # (TLC wraps long tuples)
        why.setdefault(int(m.group(1)), []).append(" ".join(m.group(2).split()))
    starts = [i for i, e in enumerate(evs) if is_reset(e)]
    if not starts or starts[0] != 0:
        raise vlib.MachineryError("trace %s does not start with a reset line" % tracefile)
    fails = []
    for si, a in enumerate(starts):
        b = starts[si + 1] if si + 1 < len(starts) else len(evs)
        if b - a <= 1 or b in hw:
            continue
        explained = [x for x in hw if a + 1 < x <= b]
        first_bad = (max(explained) + 1) if explained else a + 2
        fails.append((evs[a:b], first_bad - 1 - a, sorted(set(why.get(first_bad, []))) or ["no step of the specification matches this line"]))
    return fails, evs


def slug(s):
    return re.sub(r"[^a-z0-9]+", "-", s.lower()).strip("-")[:60]


def short(e, n=300):
    d = {k: v for k, v in e.items() if k not in ("scn",)}
    for k in ("metas", "enc", "index", "list", "out", "ids", "affected", "bs", "sizes", "pre", "ps", "cs", "ms", "szs"):
        if isinstance(d.get(k), list) and len(d[k]) > 6:
            d[k] = d[k][:6] + ["...%d" % len(d[k])]
    return json.dumps(d)[:n]


def classify(ctx, seg, idx, reasons, leg, replay_path=None):
    reset, ev = seg[0], seg[idx]
    scn = reset.get("scn", {})
    label = reset.get("label", "")
    if ev.get("ev") == "tamper":
        obs = "wrong" if any(o[1] == "wrong" for o in ev.get("out", [])) else "gone" if any(o[1] == "gone" for o in ev.get("out", [])) else "wrong"
        sig = "C11/encrypt/tamper/%s/%s/%s/orig|fail->%s" % (ev.get("cls"), ev.get("tk"), ev.get("pos"), obs)
        if ev.get("crafted"):
            # re-validate with the deviation the code is believed to have: accepted => attributed to it
            tf = ctx.path("reval_%d.ndjson" % (abs(hash(json.dumps(ev, sort_keys=True))) % 10**9))
            vlib.write_jsonl(tf, seg[:idx + 1])
            fails2, _ = validate(ctx, tf, seg[:idx + 1], overrides={"Deviations": '{"MetaShapedBlobAccepted"}'})
            reasons = list(reasons) + ["explained by the deviation MetaShapedBlobAccepted of Encrypt.tla (no domain separation between blob and meta "
                                       "ciphertexts; Fetch trusts the meta entry and does not check the plaintext hash)" if not fails2
                                       else "NOT explained by the deviation MetaShapedBlobAccepted"]
    elif ev.get("ev") == "leak":
        kinds = sorted(set(re.sub(r":\d+$", "", str(f)) for f in ev.get("found", [])))
        sig = "C11/encrypt/%s/leak/%s" % (scn.get("kind"), "+".join(kinds)[:80])
    else:
        if ev.get("ev") == "op":
            what = "%s:%s" % (ev.get("op"), ev.get("res"))
        elif ev.get("ev") == "lower":
            what = "lower:%s" % ev.get("act")
        elif ev.get("ev") == "restart":
            what = "restart:%s:wipe=%s" % (ev.get("res"), str(ev.get("wipe")).lower())
        elif ev.get("ev") == "fetchn":
            bad = sorted(set(str(o[0]) for o in ev.get("out", []) if o[0] != "ok"))
            what = "fetchn:%s" % "+".join(bad)[:40]
        else:
            what = ev.get("ev")
        if scn.get("kind") == "crash":
            parts = label.split("/")
            fam = parts[0] + "".join("+" + p for p in parts[1:] if p.startswith("second@"))
        elif scn.get("kind") == "fault" and label.startswith("fault@"):
            fam = label.split("/wipe=")[0]          # fault@<call class>:<kind>
        else:
            fam = scn.get("kind", "?")
        if ev.get("ev") == "lower" and ev.get("res", "ok") != "ok":
            what += ":" + ev.get("res")
        if ev.get("ev") == "lower" and reasons[0].startswith("no step"):
            reasons = ["the lower-layer call '%s' is not the next step of the receive in flight or of a compaction job" % ev.get("act")]
        sig = "C11/encrypt/%s/%s/%s" % (fam, what, slug(reasons[0]))
    replay = {"property": "C11", "leg": leg, "scenario": scn, "seed": ctx.seed, "label": label, "reasons": reasons,
              "line": json.loads(short(ev, 4000)) if ev.get("ev") in ("recvn", "fetchn") else
                      {k: v for k, v in ev.items() if k not in ("metas", "enc", "index")},
              "context": [short(e, 200) for e in seg[max(1, idx - 6):idx]]}
    ctx.discrepancy(sig, ("%s | %s | %s" % ("; ".join(reasons), label, short(ev)))[:700], replay_path or replay)


def drive(ctx, drv, name, scns, seed, random=0, extra=()):
    """Run the driver on the real code; returns (trace file, classes, stats) or None after reporting a panic."""
    sf = ctx.path("scn_%s.jsonl" % name)
    vlib.write_jsonl(sf, scns)
    out = ctx.path("tr_%s.ndjson" % name)
    sd = ctx.path("drv_%s" % name)
    os.makedirs(sd, exist_ok=True)
    argv = [drv, "-out", out, "-seed", str(seed), "-scratch", sd] + list(extra)
    if scns:
        argv += ["-scn", sf]
    if random:
        argv += ["-random", str(random)]
    rc, so, se = ctx.run(argv, timeout=1500, ok_codes=None)
    if rc != 0:
        pm = re.search(r"panic: (.*)", se) or re.search(r"fatal error: (.*)", se)
        if pm:
            fr = re.search(r"(perkeep\.org/[^\s(]+)", se[pm.end():])
            ctx.discrepancy("C11/encrypt/driver/panic@%s" % (fr.group(1) if fr else "?"), "process died: %s" % pm.group(1)[:300],
                            {"property": "C11", "scenarios": scns, "seed": seed, "panic": se[pm.start():pm.start() + 1500]})
            return None
        raise vlib.MachineryError("c11 driver failed rc=%s: %s" % (rc, se[-2000:]))
    classes = json.loads(re.search(r"classes=(.*)", so).group(1))
    stats = json.loads(re.search(r"stats=(.*)", so).group(1))
    return out, classes, stats


EMPTY = {"segments": 0, "lines": 0, "classes": {}, "stats": {}, "fails": [], "evs": []}


def run_shard(ctx, drv, name, scns, seed, random=0, keep=True):
    d = drive(ctx, drv, name, scns, seed, random)
    if d is None:
        return dict(EMPTY)
    out, classes, stats = d
    fails, evs = validate(ctx, out)
    return {"segments": sum(1 for e in evs if is_reset(e)), "lines": len(evs), "classes": classes, "stats": stats, "fails": fails,
            "evs": evs if keep else []}


def long_overrides(scn):
    return {"NBlobs": str(scn["n"] + 60)}


def run_long(ctx, drv, name, scn, seed, negative=False):
    """One history past FullMetaBlobSize: its own driver process and its own TLC pass (states of 10^4 blobs); the
    binding self-test of the macro lines runs beside it on a prefix of the same recorded history."""
    d = drive(ctx, drv, name, [scn], seed)
    if d is None:
        return dict(EMPTY)
    out, classes, stats = d
    evs = vlib.read_ndjson(out)
    ov = long_overrides(scn)
    with ThreadPoolExecutor(max_workers=2) as ex:
        nf = ex.submit(long_negative, ctx, evs, ov) if negative else None
        fails, _ = validate(ctx, out, evs, overrides=ov, env=RAW_ENV if scn.get("raw") else LONG_ENV)
        if nf is not None:
            try:
                nf.result()
            except vlib.MachineryError:
                if not fails:       # (a history that is itself rejected is reported as such)
                    raise
    return {"segments": 1, "lines": len(evs), "classes": classes, "stats": stats, "fails": fails, "evs": []}


def long_negative(ctx, evs, ov):
    """Binding of the macro lines: the accepted prefix up to the first fetchn line, corrupted in one field, must be rejected."""
    i_f = next((i for i, e in enumerate(evs) if e.get("ev") == "fetchn"), None)
    i_r = next((i for i, e in enumerate(evs) if e.get("ev") == "recvn" and len(e.get("ps", [])) >= 3), None)
    if i_f is None or i_r is None or i_r > i_f:
        raise vlib.MachineryError("long history without a recvn line before the first fetchn line")
    pre = evs[:i_f + 1]          # (a prefix of an accepted segment is accepted: every line is marked as it is consumed)
    bad, want = [], []
    c = [json.loads(json.dumps(e)) for e in pre[:i_r + 1]]
    c[i_r]["cs"][1] += 1                       # a ciphertext stored under another name than the one the index row got
    bad += c
    want.append("recvn-ciphertext-id")
    c = [json.loads(json.dumps(e)) for e in pre[:i_r + 1]]
    c[i_r]["ps"][2] = c[i_r]["ps"][0]          # the same blob stored twice in one run of NEW blobs
    bad += c
    want.append("recvn-duplicate")
    c = [json.loads(json.dumps(e)) for e in pre]
    k = next((j for j, o in enumerate(c[i_f]["out"]) if o[0] == "ok"), None)
    if k is not None:
        c[i_f]["out"][k] = ["notexist", 0]     # an acknowledged blob not fetchable
        bad += c
        want.append("fetchn-lost")
    bf = ctx.path("negative_long.ndjson")
    vlib.write_jsonl(bf, bad)
    fails, _ = validate(ctx, bf, bad, overrides=ov)
    if len(fails) != len(want):
        raise vlib.MachineryError("negative samples (long): %d corrupted segments (%s) but %d rejected - the macro lines do not bind" %
                                  (len(want), want, len(fails)))
    ctx.count("T", negative_samples_rejected=len(fails))
    ctx.sample({"negative_samples_rejected_long": want, "reasons": [f[2][0] for f in fails]})


def cost(s):
    if s["kind"] == "hist":
        return (6 * s["n"] + 400 * len(s.get("restarts", []))) * (2 if s.get("jitter") else 1)
    if s["kind"] == "crash":
        return 900 + 8 * s.get("cont", 0) + (300 if s.get("second") else 0)
    if s["kind"] == "fault":
        return 1200 + 10 * s.get("cont", 0)
    return 40 if s.get("pos") != "all" else 400


def negative_samples(ctx, evs):
    """Corrupt one field of real, accepted segments: each corruption must be rejected (the trace spec binds)."""
    starts = [i for i, e in enumerate(evs) if is_reset(e)] + [len(evs)]
    segs = [evs[starts[i]:starts[i + 1]] for i in range(len(starts) - 1)]
    bad = []
    want = []
    # (a) the packed meta's upload moved behind the removal of the small meta blobs
    for s in segs:
        ip = next((i for i, e in enumerate(s) if e.get("act") == "metaput" and e.get("np", 0) > 1), None)
        idl = next((i for i, e in enumerate(s) if e.get("act") == "metadel"), None)
        if ip is not None and idl is not None and ip < idl and s[0].get("kind") != "tamper":
            c = [dict(e) for e in s[:idl + 60]]
            c[ip], c[idl] = c[idl], c[ip]
            bad += c
            want.append("delete-before-upload")
            break
    # (b) a fetched blob reported with different bytes after tampering; (c) a plaintext window found underneath
    for s in segs:
        it = next((i for i, e in enumerate(s) if e.get("ev") == "tamper" and e.get("out")), None)
        if it is not None:
            c = [json.loads(json.dumps(e)) for e in s[:it + 1]]
            c[it]["out"][0][1] = "wrong"
            bad += c
            want.append("wrong-bytes")
            c2 = [json.loads(json.dumps(e)) for e in s[:2]]
            il = next((i for i, e in enumerate(c2) if e.get("ev") == "leak"), None)
            if il is not None:
                c2[il]["found"] = ["r/1:bytes/data:4"]
                bad += c2
                want.append("leak")
            break
    # (d) an acknowledged blob missing from an enumeration after the restart
    for s in segs:
        ir = next((i for i, e in enumerate(s) if e.get("ev") == "restart" and e.get("res") == "ok" and not e.get("frozen")), None)
        if ir is None:
            continue
        ie = next((i for i, e in enumerate(s) if i > ir and e.get("op") == "enum" and len(e.get("list", [])) > 3), None)
        if ie is not None:
            c = [json.loads(json.dumps(e)) for e in s[:ie + 1]]
            del c[ie]["list"][1]
            bad += c
            want.append("lost-after-restart")
            break
    # (e) family fault: the call that returned the injected error reported as a success; (f) the receive that failed on it
    # reported as acknowledged
    nfault = 0
    for s in segs:
        if s[0].get("kind") != "fault":
            continue
        i_l = next((i for i, e in enumerate(s) if e.get("ev") == "lower" and e.get("res", "ok") != "ok"), None)
        if i_l is None:
            continue
        if "failed-call-ok" not in want and not (s[i_l]["act"] == "metadel" and s[i_l]["res"] == "injected-after"):
            c = [json.loads(json.dumps(e)) for e in s]          # (the whole segment: a job left pending is noticed at the restart)
            c[i_l]["res"] = "ok"
            bad += c
            want.append("failed-call-ok")
            nfault += 1
        i_o = next((i for i, e in enumerate(s) if e.get("ev") == "op" and e.get("op") == "receive" and e.get("flt") and e.get("res") == "injected"), None)
        if "failed-receive-acked" not in want and i_o is not None and not (s[i_l]["act"] == "idxset" and s[i_l]["res"] == "injected-after"):
            c = [json.loads(json.dumps(e)) for e in s[:i_o + 1]]
            c[i_o]["res"], c[i_o]["flt"] = "ok", False
            c[i_o]["size"] = s[0]["sizes"][c[i_o]["b"] // 2 - 1]
            bad += c
            want.append("failed-receive-acked")
            nfault += 1
    if nfault < 2:
        raise vlib.MachineryError("could not build the negative samples of the fault family (%s)" % want)
    if len(want) < 5:
        raise vlib.MachineryError("could not build the negative samples (%s)" % want)
    bf = ctx.path("negative.ndjson")
    vlib.write_jsonl(bf, bad)
    fails, _ = validate(ctx, bf, bad)
    if len(fails) != len(want):
        raise vlib.MachineryError("negative samples: %d corrupted segments (%s) but %d rejected - the trace spec does not bind" %
                                  (len(want), want, len(fails)))
    ctx.count("T", negative_samples_rejected=len(fails))
    ctx.sample({"negative_samples_rejected": want, "reasons": [f[2][0] for f in fails]})


def run(ctx, replay):
    drv = ctx.build("c11")
    quick = ctx.quick()
    # the threshold is a policy constant of the code, not part of the property: the model runs with the code's value
    rc, so, se = ctx.run([drv, "-limit"], timeout=60)
    LIMIT["Limit"] = re.search(r"limit=(\d+)", so).group(1)
    LIMIT["Full"] = re.search(r"full=(\d+)", so).group(1)
    if not 20 <= int(LIMIT["Limit"]) <= 150:
        raise vlib.MachineryError("SmallMetaCountLimit = %s: the history lengths of EncryptGen (105..320) no longer cross the compaction "
                                  "threshold twice; adapt EncryptGen.tla" % LIMIT["Limit"])
    if not 2000 <= int(LIMIT["Full"]) <= 12000:
        raise vlib.MachineryError("FullMetaBlobSize = %s: the long family (Full + Limit + 50 receives) is sized for about 10^4; adapt "
                                  "EncryptGen.tla / the budget" % LIMIT["Full"])
    ctx._cfg(TRACE[1], dict(LIMIT))
    if replay:
        rp = json.load(open(replay))
        if "scenario" not in rp:
            raise vlib.MachineryError("replay file has no scenario")
        if rp["scenario"].get("kind") == "long":
            res = run_long(ctx, drv, "replay", rp["scenario"], rp.get("seed", ctx.seed))
        else:
            res = run_shard(ctx, drv, "replay", [rp["scenario"]], rp.get("seed", ctx.seed))
        for seg, idx, why in res["fails"]:
            classify(ctx, seg, idx, why, "replay", replay_path=replay)
        ctx.cov["traces_validated_against_impl"] += res["segments"]
        ctx.cov["evaluations"] += res["lines"]
        return
    tier = '"quick"' if quick else '"thorough"'
    # derive every cfg before the threads start (vlib derives in place)
    scns = ctx.tlc_gen("EncryptGen", "EncryptGen.cfg", overrides=dict(LIMIT, Tier=tier), tag="SCN")
    for s in scns:
        s["restarts"] = s.get("restarts") or []
    longs = sorted((s for s in scns if s["kind"] == "long"), key=lambda s: (not s.get("raw"), json.dumps(s, sort_keys=True)))
    scns = [s for s in scns if s["kind"] != "long"]
    if not longs:
        raise vlib.MachineryError("EncryptGen produced no long history")
    for s in longs:
        ctx._cfg(TRACE[1], dict(LIMIT, **long_overrides(s)))
    # the Full mechanism with small constants (Encrypt_full.cfg: 5 blobs, Limit 2, Full 4 - the rolling packed meta blob of
    # 3 lines plus 2 small ones exceed Full); SPLIT: a gather closes two groups; PB: push-back of a left-over, a full meta
    # blob met by the start-up scan, a packed meta blob of exactly Full lines not recorded again
    FULL = "Encrypt_full.cfg"
    FAULT = "Encrypt_fault.cfg"
    SPLIT = {"Plain": "{p1, p2, p3, p4}", "Limit": "3", "Full": "1", "MaxId": "12", "MaxCrash": "1", "MaxJobs": "3"}
    PB = {"Plain": "{p1, p2, p3, p4}", "Limit": "2", "Full": "3", "MaxId": "12", "MaxCrash": "2"}
    DROP = '{"FlushDropsCarriedMeta"}'
    s_jobs = [
        ("MC_Encrypt", "Encrypt.cfg", None, None),
        ("MC_Encrypt", "Encrypt.cfg", {"Plain": "{p1, p2, p3}", "MaxId": "10", "MaxCrash": "2"}, None),
        ("MC_Encrypt", "Encrypt.cfg", {"Deviations": '{"DeleteBeforeUpload"}'}, "Recoverable"),
        ("MC_Encrypt", "Encrypt.cfg", {"Deviations": '{"IndexBeforeMeta"}'}, "IndexBackedByMeta"),
        ("Encrypt", "Encrypt_tamper.cfg", None, None),
        ("Encrypt", "Encrypt_tamper.cfg", {"Deviations": '{"NoDigestCheck"}'}, "FetchSound"),
        ("Encrypt", "Encrypt_tamper.cfg", {"Deviations": '{"MetaShapedBlobAccepted"}'}, "FetchSound"),
        ("MC_Encrypt", "Encrypt.cfg", {"Macro": "TRUE"}, None),
        ("MC_Encrypt", FULL, None if quick else {"MaxCrash": "1"}, None),
        ("MC_Encrypt", FULL, {"Deviations": DROP}, "Recoverable"),
        ("MC_Encrypt", FULL, SPLIT, None),
        ("MC_Encrypt", FULL, dict(SPLIT, Deviations=DROP), "Recoverable"),
        ("MC_Encrypt", FULL, dict(SPLIT, Witness='"TwoGroups"'), "WitnessStep"),
        ("MC_Encrypt", FULL, dict(PB, Witness='"PushBack"'), "WitnessStep"),
        ("MC_Encrypt", FULL, dict(PB, Witness='"Ignored"'), "WitnessStep"),
        ("MC_Encrypt", FULL, dict(PB, Witness='"NotRerecorded"'), "WitnessStep"),
        ("MC_Encrypt", FULL, dict(PB, Witness='"FullPacked"'), "WitnessState"),
        # transient lower-layer failures (one, anywhere, with or without effect; also followed by a crash)
        ("MC_Encrypt", FAULT, None, None),
        ("MC_Encrypt", "Encrypt_fault_dev.cfg", {"Deviations": '{"CompactionSkipsFailedEntry"}'}, "Recoverable"),
    ]
    if not quick:
        s_jobs += [("MC_Encrypt", FAULT, {"Plain": "{p1, p2, p3, p4}", "MaxId": "11"}, None),
                   ("MC_Encrypt", FAULT, {"MaxFault": "2"}, None),
                   ("MC_Encrypt", FAULT, {"Plain": "{p1, p2, p3, p4}", "MaxId": "12", "MaxFault": "2", "MaxCrash": "0"}, None)]
        s_jobs += [("MC_Encrypt", "Encrypt.cfg", {"MaxId": "12", "MaxCrash": "2"}, None),
                   ("Encrypt", "Encrypt_tamper.cfg", {"Plain": "{p1, p2, p3, p4}", "MaxId": "9"}, None),
                   ("MC_Encrypt", FULL, {"MaxCrash": "1", "Macro": "TRUE"}, None),
                   ("MC_Encrypt", FULL, PB, None)]
    for m, c, ov, _ in s_jobs:
        ctx._cfg(c, ov)
    ctx._cfg(TRACE[1], dict(LIMIT, Deviations='{"MetaShapedBlobAccepted"}'))
    nshards = 10 if quick else 14
    order = sorted(scns, key=cost, reverse=True)
    shards = [[] for _ in range(nshards)]
    loads = [0] * nshards
    for s in order:
        i = loads.index(min(loads))
        shards[i].append(s)
        loads[i] += cost(s)
    nrandom = 12 if quick else 60

    spec_text = open(os.path.join(ctx.specs(), "Encrypt.tla")).read().split("\n")
    skip_line = next(i + 1 for i, ln in enumerate(spec_text) if "\\E j \\in jobs : JobSkipMissing(j)" in ln)
    scan_lines = [i + 1 for i, ln in enumerate(spec_text) if "\\E m \\in todo : ScanOne(m)" in ln]

    def s_work(job):
        m, c, ov, exp = job
        cov = (not quick) and exp is None
        r = ctx.tlc_check(m, c, overrides=ov, workers=3 if quick else 6, expect_violation=exp, coverage=cov, timeout=1500)
        if cov:
            # every action of the module (also the disjuncts of ENext that TLC reports by position) must have fired;
            # by construction of the configuration: no tampering in Encrypt.cfg, no crash in Encrypt_tamper.cfg
            exempt = ("Crash",) if c == "Encrypt_tamper.cfg" else ("Tamper", "TamperedRestart", "Restore")
            if (ov or {}).get("Macro") != "TRUE":
                exempt += ("MacroStep",)
            exempt_at = ()
            if c != FAULT:        # no transient failures there (MaxFault = 0)
                exempt += ("FaultStep", "RecvStartErr", "RecvBlobFail", "RecvMetaFail", "RecvIndexFail")
            else:                 # the job skips an entry only with the deviation CompactionSkipsFailedEntry
                exempt_at = ("FaultStep@line%d" % skip_line,)
                if (ov or {}).get("MaxCrash") == "0":
                    exempt += ("Crash", "RestartBegin", "RestartEnd")
                    exempt_at += tuple("ENext@line%d" % ln for ln in scan_lines)
            zero = []
            for mm in re.finditer(r"<(\w+) line (\d+), col \d+ to line \d+, col \d+ of module \w+(?: \((\d+) \d+ \d+ \d+\))?>: (\d+):(\d+)", r["out"]):
                name = mm.group(1) if not mm.group(3) else "%s@line%s" % (mm.group(1), mm.group(3))
                if int(mm.group(5)) == 0 and mm.group(1) not in exempt and name not in exempt_at and not mm.group(1).startswith(("EInit",)):
                    zero.append(name)
            if zero:
                raise vlib.MachineryError("anti-vacuity: actions never taken in %s/%s %s: %s" % (m, c, ov, zero))
        return r.get("distinct")

    def l_work(k):
        return run_long(ctx, drv, "long%d" % k, longs[k], ctx.seed, negative=(k == len(longs) - 1))

    def g_work(i):
        if i == nshards:
            return run_shard(ctx, drv, "random", [], ctx.seed, random=nrandom)
        return run_shard(ctx, drv, "s%d" % i, shards[i], ctx.seed, keep=i < 4)

    results = []
    with ThreadPoolExecutor(max_workers=12) as ex:
        lf = [ex.submit(l_work, k) for k in range(len(longs))]        # the long histories are the critical path: first
        gf = [ex.submit(g_work, i) for i in range(nshards + 1)]
        sf = [ex.submit(s_work, j) for j in s_jobs]
        distinct = {}
        for j, f in zip(s_jobs, sf):
            distinct[(j[0], j[1], json.dumps(j[2], sort_keys=True))] = f.result()
        for f in gf:
            results.append(f.result())
        lresults = [f.result() for f in lf]
    # the macro step adds no reachable state
    for (m, c, ovj), d in distinct.items():
        ov = json.loads(ovj) or {}
        if ov.get("Macro") == "TRUE":
            base = {k: v for k, v in ov.items() if k != "Macro"} or None
            d0 = distinct.get((m, c, json.dumps(base, sort_keys=True)))
            if d0 is None or d0 != d:
                raise vlib.MachineryError("RecvBatch is not k x (RecvStart..RecvAck): %s/%s %s has %s distinct states with the macro step, "
                                          "%s without" % (m, c, base, d, d0))
    # the long family must have brought a packed meta blob up to Full lines (a compaction job that lost the race for the
    # index row of the receive that started it gives up, and the rolling packed meta blob starts again from nothing); a
    # history that is rejected is reported as such, whatever it reached
    def reached():
        return any(c.startswith("long/reached-full") for r in lresults for c in r["classes"]) or any(r["fails"] for r in lresults)
    for attempt in range(2):
        if reached():
            break
        lresults.append(run_long(ctx, drv, "longretry%d" % attempt, longs[-1], ctx.seed + 5000 + attempt))
    if not reached():
        raise vlib.MachineryError("no long history brought a packed meta blob to FullMetaBlobSize - SmallMetaCountLimit lines: %s" %
                                  [sorted(r["classes"]) for r in lresults])
    nseg = nlines = 0
    classes = {}
    stats = {}
    for res in lresults:
        for seg, idx, why in res["fails"]:
            classify(ctx, seg, idx, why, "G-long")
        res["fails"] = []
    results += lresults
    for k, res in enumerate(results):
        nseg += res["segments"]
        nlines += res["lines"]
        for c, v in res["classes"].items():
            classes[c] = classes.get(c, 0) + v
            ctx.distinct(c)
        for c, v in res["stats"].items():
            stats[c] = max(stats.get(c, 0), v) if not c.startswith("tamper_runs") else stats.get(c, 0) + v
        for seg, idx, why in res["fails"]:
            classify(ctx, seg, idx, why, "T-random" if k == nshards else "G")
    # anti-vacuity of the scenario families: the crash sweep must have hit every class of mutating lower-layer call
    need = ["crash@blobs.put", "crash@meta.put:single", "crash@idx.set", "crash@meta.put:packed", "crash@meta.del/", "crash@meta.del:partial", "crash@end"]
    # ... and the fault sweep every call class of the receive and of the job (classes name the call that actually failed)
    need += ["fault@idx.get:dupcheck:error", "fault@blobs.put:error", "fault@meta.put:single:error", "fault@idx.set:error",
             "fault@idx.get:job:error", "fault@meta.put:packed:error", "fault@meta.del:error", "fault@meta.del:partial",
             "fault@meta.put:single:after", "fault@idx.set:after", "fault@meta.put:packed:after"]
    missing = [n for n in need if not any(c.startswith(n) for c in classes)]
    for attempt in range(3):
        if not missing:
            break
        # which call the k-th one is depends on how the job's index reads interleave with the receive's index.Set: sweep again
        extra = []
        if any(n.startswith("crash@") for n in missing):
            extra += [{"kind": "crash", "pre": 100, "at": a, "wipe": attempt % 2 == 0, "second": "", "cont": 3, "restarts": []}
                      for a in ("w2", "w3", "w4", "w5", "w6", "e3", "e2", "e1", "e0", "rmpartial")]
        if any(n.startswith("fault@") for n in missing):
            extra += [{"kind": "fault", "pre": 100, "at": a, "fk": fk, "wipe": attempt % 2 == 0, "cont": 3, "restarts": []}
                      for a in ("w1", "w2", "w3", "w4", "w5", "w6", "m50", "e3", "e2", "e1", "rmpartial") for fk in ("error", "after")
                      if not (a == "rmpartial" and fk == "after")]
        res = run_shard(ctx, drv, "retry%d" % attempt, extra, ctx.seed + 1000 + attempt, keep=False)
        results.append(res)
        nseg += res["segments"]
        nlines += res["lines"]
        for c, v in res["classes"].items():
            classes[c] = classes.get(c, 0) + v
            ctx.distinct(c)
        for seg, idx, why in res["fails"]:
            classify(ctx, seg, idx, why, "G")
        missing = [n for n in need if not any(c.startswith(n) for c in classes)]
    if missing:
        raise vlib.MachineryError("crash / fault sweep did not reach: %s (classes: %s)" % (missing, sorted(classes)[:60]))
    if not any("second@" in c for c in classes):
        raise vlib.MachineryError("no second crash inside a start-up compaction was exercised")
    # binding self-test on real segments of this run
    pool = []
    for res in results:
        for fam in ("crash", "tamper", "hist", "fault"):
            starts = [i for i, e in enumerate(res["evs"]) if is_reset(e)] + [len(res["evs"])]
            for a, b in zip(starts, starts[1:]):
                # (fault: short continuations only, and enough of them to find a failed receive among them)
                if res["evs"][a].get("kind") == fam and sum(1 for p in pool if p[0].get("kind") == fam) < (8 if fam == "fault" else 3) \
                        and not (fam == "fault" and b - a > 2000):
                    pool.append(res["evs"][a:b])
    negative_samples(ctx, [e for s in pool for e in s])
    ctx.sample({"metas_after_230_receives": stats.get("metas_at_end:230"),
                "metas_after_230_receives_when_the_first_job_gave_up": stats.get("metas_at_end:230:first-job-gave-up"),
                "lower_calls_of_the_compaction_window": stats.get("window_calls"),
                "tamper_runs": stats.get("tamper_runs")})
    ctx.sample({"long_histories": len(longs), "long": {k: v for k, v in sorted(stats.items()) if k.startswith("long_")}})
    ctx.sample({"crash_classes": sorted(c for c in classes if c.startswith("crash@"))[:40]})
    fault_classes = sorted(set(c.split("/wipe=")[0] for c in classes if c.startswith("fault@")))
    ctx.sample({"fault_classes": fault_classes})
    ctx.count("G", scenarios=len(scns), random=nrandom, segments=nseg, tamper_runs=stats.get("tamper_runs", 0),
              fault_scenarios=sum(1 for x in scns if x["kind"] == "fault"),
              fault_segments=sum(v for c, v in classes.items() if c.startswith("fault@")), fault_call_classes=len(fault_classes))
    ctx.cov["traces_validated_against_impl"] = nseg
    ctx.cov["evaluations"] = nlines
    ctx.cov["exhaustive"] = True
    ctx.cov["rule"] = ("scenario = hist(length class, restart points relative to the compaction steps, index kept/wiped) | "
                       "long(Full + Limit + 50 receives, restart before / at / after the packed meta blob exceeds Full lines, index "
                       "kept/wiped, final restart from the wrapped stores alone, every blob fetched; macro lines for undisturbed "
                       "receive cycles) | "
                       "crash(frozen lower-layer call around one compaction incl. half-done RemoveBlobs, index kept/wiped, second crash "
                       "inside the start-up compaction, continuation) | fault(lower-layer call around one compaction returning an injected "
                       "error once - without effect / after its effect / half a RemoveBlobs - the process going on, continuation through the "
                       "next compaction, restart with the index kept/wiped) | tamper(target class, kind, position class, index kept/wiped); all "
                       "enumerated by EncryptGen.tla (%d) plus %d seeded random ones; every mutating lower-layer call, every projection of "
                       "the real stores, every reply, every leak scan and every tamper outcome is one validated trace line; distinct = "
                       "measured scenario classes (crash classes name the call that was actually frozen)" % (len(scns), nrandom))
    ctx.assumptions += [
        "gate stores / gate KV are correct lower layers; a crash is a prefix of lower-layer calls (Plan.FreezeAt), RemoveBlobs may stop half way",
        "a transient failure is one lower-layer call returning an error once (gate.Fault: no effect / effect then error / half a RemoveBlobs); "
        "a client that retries a failed upload does so unless the failed receive left a meta blob behind (conflicting entries for one blob "
        "are outside the trace spec's restart rule)",
        "age is an ideal authenticated encryption: the model lets a damaged file never decrypt and an authentic one decrypt to what was encrypted; the real library decides on the real bytes",
        "no-leak is decided by the projection: every 16-byte window of every plain blob of >= 16 bytes and every plain ref (text, hex digest, raw digest) is searched in all bytes and names of both wrapped stores; the local index is not underneath",
        "compaction quiescence = no live makePackedMetaBlob goroutine (stack scan, bounded by a 30 s watchdog)",
        "histories stay below 1000 meta blobs (one enumeration page)",
        "the heap's pop order among meta blobs of equal line count is not observable: the trace spec takes them by id, which matters only "
        "when a group boundary (more than Full lines) falls inside a run of equally long meta blobs - not the case in any family; the "
        "model checker explores every order",
        "long family: leak scan for every 50th blob only; its lower-layer calls are all validated, packed k cycles to a line",
    ]
